(* GENERATED on every run by harness/pygen_c18.py from gnpy/tools/yang_convert_utils.py, convert_legacy_yang.py and json_io.py - do not edit. *)
From Verif Require Import Prelude Model.YangPrecision Model.Yang.
Open Scope Z_scope.

(* module constants *)
Definition g_ELEMENTS_KEY : string := "elements"%string.
Definition g_ROADM_KEY : string := "Roadm"%string.
Definition g_TRANSCEIVER_KEY : string := "Transceiver"%string.
Definition g_PARAMS_KEY : string := "params"%string.
Definition g_DEGREE_KEY : string := "degree_uid"%string.
Definition g_TOPO_NMSP : string := "gnpy-network-topology:topology"%string.
Definition g_EQPT_NMSP : string := "gnpy-eqpt-config:equipment"%string.
Definition g_SERV_NMSP : string := "gnpy-path-computation:services"%string.
Definition g_RESP_NMSP : string := "gnpy-path-computation:responses"%string.
Definition g_EDFA_CONFIG_NMSP : string := "gnpy-edfa-config:edfa-config"%string.
Definition g_SIM_PARAMS_NMSP : string := "gnpy-sim-params:sim-params"%string.
Definition g_SPECTRUM_NMSP : string := "gnpy-spectrum:spectrum"%string.
Definition g_API_NMSP : string := "gnpy-api:api"%string.
Definition g_EQPT_TYPES : list string := ["Edfa"%string; "Transceiver"%string; "Fiber"%string; "Roadm"%string].
Definition g_EDFA_CONFIG_KEYS : list string := ["nf_fit_coeff"%string; "nf_ripple"%string; "gain_ripple"%string; "dgt"%string].
Definition g_SIM_PARAMS_KEYS : list string := ["raman_params"%string; "nli_params"%string].

(* gnpy/tools/yang_convert_utils.py: convert_degree *)
Definition g_cd_types : list string := ["per_degree_pch_out_db"%string; "per_degree_psd_out_mWperGHz"%string; "per_degree_psd_out_mWperSlotWidth"%string].
Definition g_cd_guard (t : json) (e : obj) : bool := ((is_str "Roadm"%string t) && (jhas "params"%string e)).
Definition g_cd_poptest (targets : json) : bool := truthy targets.
Definition g_cd_acc : list json -> list json -> list json := fun old new : list json => old ++ new.
Definition g_cd_entry (eqt deg : string) (target : json) : json := JObj [("degree_uid"%string, JStr deg); (eqt, target)].
Definition g_cd_outtest (new_targets : list json) : bool := truthy (JArr new_targets).
Definition g_cd_outkey : string := "per_degree_power_targets"%string.
Definition g_cd_step (st : res (obj * list json)) (eqt : string) : res (obj * list json) :=
  let* (p, nt) := st in
  match jget eqt p with
  | None => Ok (p, nt)
  | Some t =>
      if g_cd_poptest t then
        match t with
        | JObj items => Ok (jdel eqt p, g_cd_acc nt (map (fun dv => g_cd_entry eqt (fst dv) (snd dv)) items))
        | _ => Err "AttributeError:items"%string
        end
      else Ok (jdel eqt p, nt)
  end.
Definition g_cd_params (p : obj) : res obj :=
  let* (p', nt) := fold_left g_cd_step g_cd_types (Ok (p, [])) in
  Ok (if g_cd_outtest nt then jset g_cd_outkey (JArr nt) p' else p').
Definition g_convert_degree (doc : obj) : res obj :=
  on_elements (fun e => let* t := jreq K_type e in if g_cd_guard t e then upd_sub K_params g_cd_params e else Ok e) doc.

(* gnpy/tools/yang_convert_utils.py: convert_back_degree, process_power_targets *)
Definition g_cbd_skip (t : json) (e : obj) : bool := ((negb (is_str "Roadm"%string t)) || (negb (jhas "params"%string e))).
Definition g_cbd_key : string := "per_degree_power_targets"%string.
Definition g_cbd_empty (power_targets : json) : bool := negb (truthy power_targets).
Definition g_cbd_types : list string := ["per_degree_pch_out_db"%string; "per_degree_psd_out_mWperGHz"%string; "per_degree_psd_out_mWperSlotWidth"%string].
Definition g_cbd_present : option json -> bool := fun o : option json => match o with Some _ => true | None => false end.
Definition g_cbd_target_step (du : string) (tg : obj) (st : res obj) (eqt : string) : res obj :=
  let* p := st in
  if g_cbd_present (jget eqt tg) then
    let* v := jreq eqt tg in
    let* cur := match jget eqt p with
                | None => Ok []
                | Some (JObj d) => Ok d
                | Some _ => Err "TypeError:item assignment"%string
                end in
    Ok (jset eqt (JObj (jset du v cur)) p)
  else Ok p.
Definition g_cbd_target (st : res obj) (t : json) : res obj :=
  let* p := st in
  let* tg := as_obj t in
  let* duj := jreq K_degree tg in
  let* du := as_key duj in
  fold_left (g_cbd_target_step du tg) g_cbd_types (Ok p).
Definition g_cbd_params (p : obj) : res obj :=
  match jget g_cbd_key p with
  | None => Ok p
  | Some pt =>
      let p' := jdel g_cbd_key p in
      if g_cbd_empty pt then Ok p' else let* l := as_arr pt in fold_left g_cbd_target l (Ok p')
  end.
Definition g_convert_back_degree (doc : obj) : res obj :=
  on_elements (fun e => let* t := jreq K_type e in if g_cbd_skip t e then Ok e else upd_sub K_params g_cbd_params e) doc.

(* gnpy/tools/yang_convert_utils.py: convert_design_band *)
Definition g_db_guard (t : json) (e : obj) : bool := (((is_str "Roadm"%string t || is_str "Transceiver"%string t)) && (jhas "params"%string e)).
Definition g_db_key : string := "per_degree_design_bands"%string.
Definition g_db_poptest (targets : json) : bool := truthy targets.
Definition g_db_acc : list json -> list json -> list json := fun old new : list json => old ++ new.
Definition g_db_entry (deg : string) (target : json) : json := JObj [("degree_uid"%string, JStr deg); ("design_bands"%string, target)].
Definition g_db_outtest (new_targets : list json) : bool := truthy (JArr new_targets).
Definition g_db_outkey : string := "per_degree_design_bands_targets"%string.
Definition g_db_params (p : obj) : res obj :=
  match jget g_db_key p with
  | None => Ok p
  | Some t =>
      let p' := jdel g_db_key p in
      let* nt := if g_db_poptest t then
                   match t with
                   | JObj items => Ok (g_db_acc [] (map (fun dv => g_db_entry (fst dv) (snd dv)) items))
                   | _ => Err "AttributeError:items"%string
                   end
                 else Ok [] in
      Ok (if g_db_outtest nt then jset g_db_outkey (JArr nt) p' else p')
  end.
Definition g_convert_design_band (doc : obj) : res obj :=
  on_elements (fun e => let* t := jreq K_type e in if g_db_guard t e then upd_sub K_params g_db_params e else Ok e) doc.

(* gnpy/tools/yang_convert_utils.py: convert_back_design_band *)
Definition g_bdb_guard (t : json) (e : obj) : bool := (((is_str "Roadm"%string t || is_str "Transceiver"%string t)) && (jhas "params"%string e)).
Definition g_bdb_key : string := "per_degree_design_bands_targets"%string.
Definition g_bdb_poptest (targets : json) : bool := truthy targets.
Definition g_bdb_vkey : string := "design_bands"%string.
Definition g_bdb_outtest (design_bands : obj) : bool := truthy (JObj design_bands).
Definition g_bdb_outkey : string := "per_degree_design_bands"%string.
Definition g_bdb_step (st : res obj) (t : json) : res obj :=
  let* d := st in
  let* tg := as_obj t in
  let* duj := jreq K_degree tg in
  let* du := as_key duj in
  let* v := jreq g_bdb_vkey tg in
  Ok (jset du v d).
Definition g_bdb_params (p : obj) : res obj :=
  match jget g_bdb_key p with
  | None => Ok p
  | Some t =>
      let p' := jdel g_bdb_key p in
      if g_bdb_poptest t then
        let* l := as_arr t in
        let* d := fold_left g_bdb_step l (Ok []) in
        Ok (if g_bdb_outtest d then jset g_bdb_outkey (JObj d) p' else p')
      else Ok p'
  end.
Definition g_convert_back_design_band (doc : obj) : res obj :=
  on_elements (fun e => let* t := jreq K_type e in if g_bdb_guard t e then upd_sub K_params g_bdb_params e else Ok e) doc.

(* gnpy/tools/yang_convert_utils.py: convert_loss_coeff_list *)
Definition g_cl_key : string := "loss_coef"%string.
Definition g_cl_outkey : string := "loss_coef_per_frequency"%string.
Definition g_cl_kv : string := "value"%string.
Definition g_cl_kf : string := "frequency"%string.
Definition g_cl_test (loss_coef_list : json) : bool := truthy loss_coef_list.
Definition g_cl_zip (fl vl : list json) : list json := zip2 "frequency"%string "loss_coef_value"%string fl vl.
Definition g_cl_params (p : obj) : res obj :=
  match jget g_cl_key p with
  | Some (JObj lc) =>
      let p' := jdel g_cl_key p in
      match jget g_cl_kv lc with
      | Some v =>
          if g_cl_test v then
            let* vl := as_iter (Some v) in
            let* fl := as_iter (jget g_cl_kf lc) in
            Ok (jset g_cl_outkey (JArr (g_cl_zip fl vl)) p')
          else Ok p'
      | None => Ok p'
      end
  | _ => Ok p
  end.
Definition g_convert_loss_coeff_list (doc : obj) : res obj := on_elements (with_params g_cl_params) doc.

(* gnpy/tools/yang_convert_utils.py: convert_back_loss_coeff_list *)
Definition g_bcl_test (loss_coef_per_frequency : json) : bool := truthy loss_coef_per_frequency.
Definition g_bcl_k1 : string := "frequency"%string.
Definition g_bcl_r1 : string := "frequency"%string.
Definition g_bcl_k2 : string := "value"%string.
Definition g_bcl_r2 : string := "loss_coef_value"%string.
Definition g_bcl_outkey : string := "loss_coef"%string.
Definition g_bcl_params (p : obj) : res obj :=
  match jget g_cl_outkey p with
  | None => Ok p
  | Some l =>
      let p' := jdel g_cl_outkey p in
      if g_bcl_test l then
        let* items := as_arr l in
        let* a := pluck g_bcl_r1 items in
        let* b := pluck g_bcl_r2 items in
        Ok (jset g_bcl_outkey (JObj [(g_bcl_k1, JArr a); (g_bcl_k2, JArr b)]) p')
      else Ok p'
  end.
Definition g_convert_back_loss_coeff_list (doc : obj) : res obj := on_elements (with_params g_bcl_params) doc.

(* gnpy/tools/yang_convert_utils.py: convert_raman_coef *)
Definition g_rc_key : string := "raman_coefficient"%string.
Definition g_rc_gk : string := "g0"%string.
Definition g_rc_kg : string := "g0"%string.
Definition g_rc_kf : string := "frequency_offset"%string.
Definition g_rc_test (frequency_offset_list : json) : bool := truthy frequency_offset_list.
Definition g_rc_k1 : string := "reference_frequency"%string.
Definition g_rc_r1 : string := "reference_frequency"%string.
Definition g_rc_k2 : string := "g0_per_frequency"%string.
Definition g_rc_zip (fl gl : list json) : list json := zip2 "frequency_offset"%string "g0"%string fl gl.
Definition g_rc_params (p : obj) : res obj :=
  match jget g_rc_key p with
  | None => Ok p
  | Some rcj =>
      let* has := key_in g_rc_gk rcj in
      if has then
        let* rc := as_obj rcj in
        let p' := jdel g_rc_key p in
        let* g0 := opt_list (jget g_rc_kg rc) in
        let* fo := opt_list (jget g_rc_kf rc) in
        if g_rc_test fo then
          let* rf := jreq g_rc_r1 rc in
          let* fl := as_iter (Some fo) in
          let* gl := as_iter (Some g0) in
          Ok (jset g_rc_key (JObj [(g_rc_k1, rf); (g_rc_k2, JArr (g_rc_zip fl gl))]) p')
        else Ok p'
      else Ok p
  end.
Definition g_convert_raman_coef (doc : obj) : res obj := on_elements (with_params g_rc_params) doc.

(* gnpy/tools/yang_convert_utils.py: convert_back_raman_coef *)
Definition g_brc_gk : string := "g0_per_frequency"%string.
Definition g_brc_rg : string := "g0"%string.
Definition g_brc_rf : string := "frequency_offset"%string.
Definition g_brc_test (frequency_offset_list : list json) : bool := truthy (JArr frequency_offset_list).
Definition g_brc_k1 : string := "reference_frequency"%string.
Definition g_brc_r1 : string := "reference_frequency"%string.
Definition g_brc_k2 : string := "g0"%string.
Definition g_brc_k3 : string := "frequency_offset"%string.
Definition g_brc_params (p : obj) : res obj :=
  match jget g_rc_key p with
  | None => Ok p
  | Some rcj =>
      let* has := key_in g_brc_gk rcj in
      if has then
        let* rc := as_obj rcj in
        let p' := jdel g_rc_key p in
        let* gpf := jreq g_brc_gk rc in
        let* items := as_arr gpf in
        let* g0s := pluck g_brc_rg items in
        let* fos := pluck g_brc_rf items in
        if g_brc_test fos then
          let* rf := jreq g_brc_r1 rc in
          Ok (jset g_rc_key (JObj [(g_brc_k1, rf); (g_brc_k2, JArr g0s); (g_brc_k3, JArr fos)]) p')
        else Ok p'
      else Ok p
  end.
Definition g_convert_back_raman_coef (doc : obj) : res obj := on_elements (with_params g_brc_params) doc.

(* gnpy/tools/yang_convert_utils.py: convert_nf_coef, convert_back_nf_coef *)
Definition g_nf_key : string := "nf_coef"%string.
Definition g_nf_ko : string := "coef_order"%string.
Definition g_nf_kc : string := "nf_coef"%string.
Definition g_nf_rc : string := "nf_coef"%string.
Definition g_nf_keep : option json -> bool := fun _ : option json => true.
Definition g_nf_cont : string := "Edfa"%string.
Fixpoint g_nf_enum (i : Z) (l : list json) : list json :=
  match l with
  | [] => []
  | c :: t => JObj [(g_nf_ko, JNum i 0); (g_nf_kc, c)] :: g_nf_enum (i + 1) t
  end.
Definition g_nf_forth (e : obj) : res obj :=
  match jget g_nf_key e with
  | None => Ok e
  | Some v =>
      let* l := as_arr v in
      let* h := nth_req l 0 in
      if is_dict h then Ok e else Ok (jset g_nf_key (JArr (g_nf_enum 0 l)) (jdel g_nf_key e))
  end.
Definition g_nf_back (e : obj) : res obj :=
  match jget g_nf_key e with
  | None => Ok e
  | Some v =>
      let* l := as_arr v in
      let* h := nth_req l 0 in
      if is_dict h then
        let* pairs := mapM (fun it => let* o := as_obj it in let* k := jreq g_nf_ko o in Ok (k, it)) l in
        let* sorted := sort_by pairs in
        let* css := mapM (fun p => let* o := as_obj (snd p) in
                                   if g_nf_keep (jget g_nf_rc o) then let* c := jreq g_nf_rc o in Ok [c] else Ok []) sorted in
        Ok (jset g_nf_key (JArr (concat css)) (jdel g_nf_key e))
      else Ok e
  end.

Definition g_convert_nf_coef (doc : obj) : res obj := on_entries g_nf_cont g_nf_forth doc.
Definition g_convert_back_nf_coef (doc : obj) : res obj := on_entries g_nf_cont g_nf_back doc.

(* gnpy/tools/yang_convert_utils.py: convert_nf_fit_coef, convert_back_nf_fit_coef *)
Definition g_nff_key : string := "nf_fit_coeff"%string.
Definition g_nff_ko : string := "coef_order"%string.
Definition g_nff_kc : string := "nf_coef"%string.
Definition g_nff_rc : string := "nf_coef"%string.
Definition g_nff_keep : option json -> bool := fun _ : option json => true.
Fixpoint g_nff_enum (i : Z) (l : list json) : list json :=
  match l with
  | [] => []
  | c :: t => JObj [(g_nff_ko, JNum i 0); (g_nff_kc, c)] :: g_nff_enum (i + 1) t
  end.
Definition g_nff_forth (e : obj) : res obj :=
  match jget g_nff_key e with
  | None => Ok e
  | Some v =>
      let* l := as_arr v in
      let* h := nth_req l 0 in
      if is_dict h then Ok e else Ok (jset g_nff_key (JArr (g_nff_enum 0 l)) (jdel g_nff_key e))
  end.
Definition g_nff_back (e : obj) : res obj :=
  match jget g_nff_key e with
  | None => Ok e
  | Some v =>
      let* l := as_arr v in
      let* h := nth_req l 0 in
      if is_dict h then
        let* pairs := mapM (fun it => let* o := as_obj it in let* k := jreq g_nff_ko o in Ok (k, it)) l in
        let* sorted := sort_by pairs in
        let* css := mapM (fun p => let* o := as_obj (snd p) in
                                   if g_nff_keep (jget g_nff_rc o) then let* c := jreq g_nff_rc o in Ok [c] else Ok []) sorted in
        Ok (jset g_nff_key (JArr (concat css)) (jdel g_nff_key e))
      else Ok e
  end.

Definition g_convert_nf_fit_coef (doc : obj) : res obj := g_nff_forth doc.
Definition g_convert_back_nf_fit_coef (doc : obj) : res obj := g_nff_back doc.

(* gnpy/tools/yang_convert_utils.py: convert_range_to_dict, process_span_data, process_si_data, convert_delta_power_range, convert_back_delta_power_range *)
Definition g_range_dict (l : list json) : res json :=
  let* x0 := nth_req l 0 in let* x1 := nth_req l 1 in let* x2 := nth_req l 2 in
  Ok (JObj [("min_value"%string, x0); ("max_value"%string, x1); ("step"%string, x2)]).
Definition g_span_cont : string := "Span"%string.
Definition g_si_cont : string := "SI"%string.
Definition g_span_lk : string := "delta_power_range_db"%string.
Definition g_span_dk : string := "delta_power_range_dict_db"%string.
Definition g_si_lk : string := "power_range_db"%string.
Definition g_si_dk : string := "power_range_dict_db"%string.
Definition g_range_entry (lk dk : string) (e : obj) : res obj :=
  if jhas dk e then Ok e
  else match jget lk e with
       | None => Err (append "KeyError:" lk)
       | Some r => let* l := as_arr r in let* d := g_range_dict l in Ok (jdel lk (jset dk d e))
       end.
Definition g_convert_delta_power_range (doc : obj) : res obj :=
  let* d1 := on_entries g_span_cont (g_range_entry g_span_lk g_span_dk) doc in
  on_entries g_si_cont (g_range_entry g_si_lk g_si_dk) d1.
Definition g_bspan_cont : string := "Span"%string.
Definition g_bsi_cont : string := "SI"%string.
Definition g_bspan_dk : string := "delta_power_range_dict_db"%string.
Definition g_bspan_lk : string := "delta_power_range_db"%string.
Definition g_bsi_dk : string := "power_range_dict_db"%string.
Definition g_bsi_lk : string := "power_range_db"%string.
Definition g_bspan_read : list string := ["min_value"%string; "max_value"%string; "step"%string].
Definition g_bsi_read : list string := ["min_value"%string; "max_value"%string; "step"%string].
Definition g_back_range_entry (lk dk : string) (rd : list string) (e : json) : res json :=
  let* has := key_in dk e in
  if has then
    let* eo := as_obj e in
    let* r := jreq dk eo in
    let* ro := as_obj r in
    let* vals := mapM (fun k => jreq k ro) rd in
    Ok (JObj (jset lk (JArr vals) (jdel dk eo)))
  else Ok e.
Definition g_back_range_all (key lk dk : string) (rd : list string) (doc : obj) : res obj :=
  match jget key doc with
  | None => Ok doc
  | Some l =>
      let* items := as_arr l in
      let* items' := mapM (g_back_range_entry lk dk rd) items in
      Ok (jset key (JArr items') doc)
  end.
Definition g_convert_back_delta_power_range (doc : obj) : res obj :=
  let* d1 := g_back_range_all g_bspan_cont g_bspan_lk g_bspan_dk g_bspan_read doc in
  g_back_range_all g_bsi_cont g_bsi_lk g_bsi_dk g_bsi_read d1.

(* gnpy/tools/convert_legacy_yang.py: legacy_to_yang (tests and order of the calls of every branch) *)
Definition g_legacy_to_yang (doc : json) : res json :=
  let* top := as_obj (none_to_empty doc) in
  let* r :=
    if jhas "elements"%string top then let* d := chain [reorder_raman_pumps; reorder_lumped_losses; remove_null_region_city; convert_degree; convert_design_band; convert_loss_coeff_list; convert_raman_coef] top in Ok [("gnpy-network-topology:topology"%string, JObj d)]
    else     if jhas "gnpy-network-topology:topology"%string top then under "gnpy-network-topology:topology"%string [convert_degree; convert_design_band; convert_loss_coeff_list; remove_null_region_city] top
    else     if any_key ["Edfa"%string; "Transceiver"%string; "Fiber"%string; "Roadm"%string] top then let* d := chain [convert_raman_efficiency; convert_delta_power_range; convert_nf_coef; add_missing_default_type_variety] top in Ok [("gnpy-eqpt-config:equipment"%string, JObj d)]
    else     if jhas "gnpy-eqpt-config:equipment"%string top then under "gnpy-eqpt-config:equipment"%string [convert_raman_efficiency; convert_delta_power_range; convert_nf_coef; add_missing_default_type_variety] top
    else     if jhas "path-request"%string top then let* d := chain [reorder_route_objects; remove_union_that_fail] top in Ok [("gnpy-path-computation:services"%string, JObj d)]
    else     if jhas "gnpy-path-computation:services"%string top then under "gnpy-path-computation:services"%string [reorder_route_objects; remove_union_that_fail] top
    else     if any_key ["nf_fit_coeff"%string; "nf_ripple"%string; "gain_ripple"%string; "dgt"%string] top then let* d := chain [convert_nf_fit_coef] top in Ok [("gnpy-edfa-config:edfa-config"%string, JObj d)]
    else     if jhas "gnpy-edfa-config:edfa-config"%string top then under "gnpy-edfa-config:edfa-config"%string [convert_nf_fit_coef] top
    else     if jhas "spectrum"%string top then let* s := jreq "spectrum"%string top in Ok [("gnpy-spectrum:spectrum"%string, s)]
    else     if any_key ["raman_params"%string; "nli_params"%string] top then Ok [("gnpy-sim-params:sim-params"%string, JObj top)]
    else     if jhas "response"%string top then Ok [("gnpy-path-computation:responses"%string, JObj top)]
    else     if jhas "gnpy-api:api"%string top then let* s := jreq "gnpy-api:api"%string top in Ok [("gnpy-api:api"%string, s)]
    else     if any_key ["gnpy-spectrum:spectrum"%string; "gnpy-sim-params:sim-params"%string; "gnpy-path-computation:responses"%string] top then Ok top
    else Err "ValueError:Unrecognized type of content"%string in
  convert_dict (JObj r).

(* gnpy/tools/convert_legacy_yang.py: yang_to_legacy after its validation step (tests and order of the calls of every branch) *)
Definition g_yang_to_legacy (doc : json) : res json :=
  let* b := convert_back (empty_to_none doc) in
  let* top := as_obj b in
  if jhas "elements"%string top then let* t := as_obj (remove_ns "gnpy-network-topology:"%string (JObj top)) in let* d := chain [convert_back_degree; convert_back_design_band; convert_back_loss_coeff_list; convert_back_raman_coef] t in Ok (JObj d)
  else   if jhas "gnpy-network-topology:topology"%string top then let* inner := jreq "gnpy-network-topology:topology"%string top in let* io := as_obj (remove_ns "gnpy-network-topology:"%string inner) in let* d := chain [convert_back_degree; convert_back_design_band; convert_back_loss_coeff_list; convert_back_raman_coef] io in Ok (JObj d)
  else   if any_key ["Edfa"%string; "Transceiver"%string; "Fiber"%string; "Roadm"%string] top then let* d := chain [convert_back_delta_power_range; convert_back_raman_efficiency; convert_back_nf_coef] top in Ok (remove_ns "gnpy-eqpt-config:"%string (JObj d))
  else   if jhas "gnpy-eqpt-config:equipment"%string top then let* t' := under "gnpy-eqpt-config:equipment"%string [convert_back_delta_power_range; convert_back_raman_efficiency; convert_back_nf_coef] top in let* inner := jreq "gnpy-eqpt-config:equipment"%string t' in Ok (remove_ns "gnpy-eqpt-config:"%string inner)
  else   if any_key ["nf_fit_coeff"%string; "nf_ripple"%string; "gain_ripple"%string; "dgt"%string] top then let* d := chain [convert_back_nf_fit_coef] top in Ok (JObj d)
  else   if jhas "gnpy-edfa-config:edfa-config"%string top then let* t' := under "gnpy-edfa-config:edfa-config"%string [convert_back_nf_fit_coef] top in Ok (JObj t')
  else   if jhas "gnpy-path-computation:services"%string top then jreq "gnpy-path-computation:services"%string top
  else   if jhas "gnpy-sim-params:sim-params"%string top then jreq "gnpy-sim-params:sim-params"%string top
  else   if jhas "gnpy-spectrum:spectrum"%string top then let* s := jreq "gnpy-spectrum:spectrum"%string top in Ok (JObj [("spectrum"%string, s)])
  else   if jhas "gnpy-path-computation:responses"%string top then jreq "gnpy-path-computation:responses"%string top
  else   if jhas "gnpy-api:api"%string top then Err "Unmodelled:api section"%string
  else   if any_key ["raman_params"%string; "nli_params"%string; "spectrum"%string; "response"%string; "path-request"%string] top then Ok (JObj top)
  else Err "ValueError:Unrecognized type of content"%string.

(* gnpy/tools/json_io.py: _equipment_from_json, other_name loops of the Edfa and Transceiver branches *)
Definition g_expand_edfa (e : obj) : res (list (string * obj)) :=
  if jhas "other_name"%string e then
    let* names := alias_names e in
    Ok (map (fun n => (n, jdel "other_name"%string (jset "type_variety"%string (JStr n) (e)))) names)
  else let* sk := subkey e in Ok [(sk, e)].
Definition g_expand_trx (e : obj) : res (list (string * obj)) :=
  if jhas "other_name"%string e then
    let* names := alias_names e in
    Ok (map (fun n => (n, jset "type_variety"%string (JStr n) (jdel "other_name"%string (e)))) names)
  else let* sk := subkey e in Ok [(sk, e)].
(* gnpy/tools/json_io.py: Transceiver.__init__, mode-level other_name *)
Definition g_mode_kon : string := "other_name"%string.
Definition g_mode_kf : string := "format"%string.
Definition g_mode_aliases (m : obj) : res (list obj) :=
  let* names := match jget g_mode_kon m with
                | None => Ok []
                | Some on => let* l := as_arr on in mapM as_key l
                end in
  Ok (map (fun n => jset g_mode_kf (JStr n) (jdel g_mode_kon m)) names).
Definition g_expand_modes (ms : list obj) : res (list obj) :=
  let* al := mapM g_mode_aliases ms in
  Ok (map (jdel g_mode_kon) ms ++ concat al).

(* gnpy/tools/convert_legacy_yang.py: _convert_api_section, _convert_api_core_sections, _convert_api_extra_items (the gnpy-api:api container is not modelled: what is tied is that the caller's payload is copied before it is converted, and which sections are converted) *)
Definition g_api_payload_copied : bool := true.
Definition g_api_item_copied : bool := true.
Definition g_api_core_keys : list string := ["gnpy-network-topology:topology"%string; "gnpy-path-computation:services"%string; "gnpy-eqpt-config:equipment"%string; "gnpy-sim-params:sim-params"%string; "gnpy-edfa-config:edfa-config"%string; "gnpy-path-computation:responses"%string].

