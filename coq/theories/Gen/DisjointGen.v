(* GENERATED on every run by harness/pygen_c11.py from gnpy/topology/request.py of /repo - do not edit. *)
From Verif Require Import Prelude Model.Route Model.Disjoint.
Open Scope Z_scope.

(* request.py: isdisjoint *)
Definition g_isdisjoint (pth1 pth2 : list Z) : Z :=
  if any_in (pairwise pth1) (pairwise pth2) then 1 else 0.

(* request.py: compute_path_dsjctn step 1, all_simple_paths(..., cutoff=...) *)
Definition g_cutoff : Z := 80.

(* request.py: compute_path_dsjctn step 2 *)
Definition g_step2_conflicts (pth1 pth1_reversed pth : list Z) : Z :=
  ((isdisjoint pth1 pth) + (isdisjoint pth1_reversed pth)).
Definition g_step2_accept (all_disjoint : Z) : bool :=
  (all_disjoint =? 0).

(* request.py: compute_path_dsjctn step 4 (full_path = the candidate, short_path = its ROADM short list) *)
Definition g_step4_ok (nodes_list full_path short_path : list Z) : bool :=
  (ispart nodes_list full_path).
Definition g_step4_strict (strict_list : list bool) : bool :=
  (existsb (fun b : bool => b) strict_list).

(* request.py: compute_path_dsjctn step 5 *)
Definition g_step5 (has_candidates : bool) : res unit :=
  if has_candidates then Ok tt else Err "DisjunctionError".

(* request.py: find_reversed_path matched literally (a crossed OMS without reverse OMS raises ValueError); filter: *)
Definition g_rev_keeps (n : net) (el : Z) : bool :=
  ((negb (is_trx n el)) && (negb (is_roadm n el))).

(* request.py: compare_reqs, the test on the disjunction groups of the two requests *)
Definition g_same_disj (r1 r2 : rid) (gs : list grp) : bool :=
  if ((in_some r1 gs) && (in_some r2 gs)) then (if (ms_eq (shape r1 gs) (shape r2 gs)) then true else false)
  else if ((negb (in_some r2 gs)) && (negb (in_some r1 gs))) then true else false.

(* request.py: compare_reqs, the attributes that must be equal *)
Definition g_compared_attrs : list string :=
  ["source"; "destination"; "bidir"; "tsp"; "tsp_mode"; "baud_rate"; "nodes_list"; "loose_list"; "spacing"; "power"; "nb_channel"; "f_min"; "f_max"; "format"; "OSNR"; "roll_off"; "tx_power"]%string.

(* request.py: correct_json_route_list: positions popped from loose_list / nodes_list when the own source is
   listed first, the own destination last (Python indices); an unusable LOOSE hop pops the hop type found at
   nodes_list.index(n_id) (matched literally) *)
Definition g_clean_pops : list Z := [0; 0; (-1); (-1)].

(* request.py: compare_reqs, the attributes that must be equal (plain `req1.x == req2.x`) *)
Definition g_twin_attrs : list string :=
  ["source"; "destination"; "bidir"; "tsp"; "tsp_mode"; "baud_rate"; "nodes_list"; "loose_list"; "spacing"; "power"; "nb_channel"; "f_min"; "f_max"; "format"; "OSNR"; "roll_off"; "tx_power"]%string.

(* topology_parameters.py: BaseParams.update_attr matched literally: list and dict defaults are deep-copied per
   instance, so no PathRequest shares nodes_list / loose_list with another one (batches are independent) *)

(* json_io.py: requests_from_json matched literally: the route objects are sorted by x['index'] (numeric), the
   include list and the hop types are read from them in that order *)
