(* GENERATED on every run by harness/pygen_c06.py from gnpy/core/{elements,network,parameters,utils,info}.py,
   gnpy/tools/{json_io,yang_convert_utils}.py and gnpy/topology/request.py of /repo - do not edit. *)
From Coq Require Import QArith Qabs Qminmax.
From Verif Require Import Prelude Model.Roadm.
Open Scope Q_scope.

(* which per-degree table / which attribute of the carrier a target is combined with *)
Inductive table := TPow | TPsd | TPsw.
Inductive cattr := CNone | CBaud | CSlot.
(* a target taken from table / node attribute `t` and turned into a power with carrier attribute `a` (psd2powerdbm) *)
Definition pol_of (t : table) (a : cattr) (v : Q) : option policy :=
  match t, a with
  | TPow, CNone => Some (Power v)
  | TPsd, CBaud => Some (Psd v)
  | TPsw, CSlot => Some (Psw v)
  | _, _ => None                                  (* a combination the model has no policy for *)
  end.
Definition tab (t : table) (r : roadm) : list (Z * Q) := match t with TPow => dpow r | TPsd => dpsd r | TPsw => dpsw r end.
Definition nod (t : table) (r : roadm) : option Q := match t with TPow => npow r | TPsd => npsd r | TPsw => npsw r end.
Definition add_to (t : table) (r : roadm) (d : Z) (v : Q) : roadm :=
  match t with
  | TPow => with_deg r (dpow r ++ [(d, v)]) (dpsd r) (dpsw r)
  | TPsd => with_deg r (dpow r) (dpsd r ++ [(d, v)]) (dpsw r)
  | TPsw => with_deg r (dpow r) (dpsd r) (dpsw r ++ [(d, v)])
  end.
Definition is_some (o : option Q) : bool := match o with Some _ => true | None => false end.
(* tests on a JSON / kwargs key *)
Definition k_in (k : kv) : bool := match k with Absent => false | _ => true end.            (* key in d *)
Definition k_notnone (k : kv) : bool := match k with Val _ => true | _ => false end.        (* d.get(key) is not None *)
Definition count3 (f : kv -> bool) (k : keys3) : Z := (b2z (f (kpow k)) + b2z (f (kpsd k)) + b2z (f (kpsw k)))%Z.

(* utils.calculate_absolute_min_or_zero *)
Definition g_absmin (x : Q) : Q := (((Qabs x) - x) / 2).

(* Roadm.propagate, per carrier c with path loss ml and target tgt *)
Definition g_tpc (tgt : Q) (c : chan) : Q := (tgt + (coff c)).
Definition g_corr_arg (net tpc : Q) : Q := (net - tpc).
Definition g_new_target (tpc corr : Q) : Q := (tpc - corr).
Definition g_delta (net newt : Q) : Q := (net - newt).
Definition g_delta_power (tgt ml : Q) (c : chan) : Q :=
  let net := cp c - ml in                                   (* pch_dbm after apply_attenuation_db(roadm_maxloss_db) *)
  let tpc := g_tpc tgt c in
  let corr := g_absmin (g_corr_arg net tpc) in
  let newt := g_new_target tpc corr in
  g_delta net newt.
Definition g_equalize (pl : policy) (cm : chan * Q) : chan :=
  let (c, ml) := cm in set_p c ((cp c - ml) - g_delta_power (chan_target pl c) ml c).   (* apply_attenuation_db(delta_power) *)
Definition g_ref_out (rin mx rtg : Q) : Q := (Qmin (rin - mx) rtg).
Definition g_ref_loss (rin ref_out : Q) : Q := (rin - ref_out).
Definition g_pmd2 (c : chan) (a : Q) : Q := ((cpmd2 c) + (a * a)).
Definition g_pdl2 (c : chan) (b : Q) : Q := ((cpdl2 c) + (b * b)).
Definition g_loss (c c' : chan) : Q := ((cp c) - (cp c')).

(* Roadm.get_roadm_target_power: with a spectrum / for the reference carrier *)
Definition g_node (r : roadm) : option policy :=
  match nod TPow r with
  | Some v => pol_of TPow CNone v
  | None => match nod TPsd r with
    | Some v => pol_of TPsd CBaud v
    | None => match nod TPsw r with
      | Some v => pol_of TPsw CSlot v
      | None => None
      end
    end
  end.
Definition g_node_ref (r : roadm) : option policy :=
  match nod TPow r with
  | Some v => pol_of TPow CNone v
  | None => match nod TPsd r with
    | Some v => pol_of TPsd CBaud v
    | None => match nod TPsw r with
      | Some v => pol_of TPsw CSlot v
      | None => None
      end
    end
  end.
(* Roadm.get_per_degree_power *)
Definition g_resolve (r : roadm) (deg : Z) : option policy :=
  match zfind deg (tab TPow r) with
  | Some v => pol_of TPow CNone v
  | None => match zfind deg (tab TPsd r) with
    | Some v => pol_of TPsd CBaud v
    | None => match zfind deg (tab TPsw r) with
      | Some v => pol_of TPsw CSlot v
      | None => g_node r
      end
    end
  end.
(* Roadm.get_per_degree_ref_power *)
Definition g_resolve_ref (r : roadm) (deg : Z) : option policy :=
  match zfind deg (tab TPow r) with
  | Some v => pol_of TPow CNone v
  | None => match zfind deg (tab TPsd r) with
    | Some v => pol_of TPsd CBaud v
    | None => match zfind deg (tab TPsw r) with
      | Some v => pol_of TPsw CSlot v
      | None => g_node_ref r
      end
    end
  end.

(* Roadm.get_impairment: the band test; defaults of the three keys (parameters.RoadmImpairment.default_values) *)
Definition g_in_band (b : band) (f : Q) : bool :=
  match brange b with None => true | Some (lo, hi) => (Qle_bool lo f && Qle_bool f hi) end.
Definition g_default_maxloss : option Q := Some 0.
Definition g_default_pmd : option Q := None.
Definition g_default_pdl : option Q := None.
Definition g_item_val (dflt : option Q) (k : kv) : option Q :=     (* item.get(key, default), then `is not None` *)
  match k with Absent => dflt | Null => None | Val q => Some q end.

(* network.set_roadm_per_degree_targets *)
Definition g_missing (r : roadm) (d : Z) : bool := (negb (zhas d (tab TPow r)) && negb (zhas d (tab TPsd r)) && negb (zhas d (tab TPsw r))).
Definition g_set_step (r : roadm) (d : Z) : res roadm :=
  if is_some (nod TPow r) then Ok (add_to TPow r d (getq (nod TPow r)))
  else if is_some (nod TPsd r) then Ok (add_to TPsd r d (getq (nod TPsd r)))
  else if is_some (nod TPsw r) then Ok (add_to TPsw r d (getq (nod TPsw r)))
  else Err "ConfigurationError:needs an equalization target".
Fixpoint g_set_targets (r : roadm) (next_oms : list Z) : res roadm :=
  match next_oms with
  | [] => Ok r
  | d :: t => if g_missing r d then (let* r' := g_set_step r d in g_set_targets r' t) else g_set_targets r t
  end.

(* network.set_roadm_internal_paths: (from, to) key of the per-degree impairment look-up; demanded path types *)
Definition g_express_key (from to : Z) : Z * Z := (from, to).
Definition g_drop_key (from dr : Z) : Z * Z := (from, dr).
Definition g_add_key (ad to : Z) : Z * Z := (ad, to).
Definition g_drop_want : ptype := Drop.
Definition g_add_want : ptype := Add.

(* parameters.RoadmParams.__init__ *)
Definition g_roadm_params (k : keys3) : res (option Q * option Q * option Q) :=
  if (1 <? count3 k_notnone k)%Z then Err "ParametersError:more than one equalisation type"
  else Ok (valued (kpow k), valued (kpsd k), valued (kpsw k)).        (* kwargs.get(key) *)
(* json_io.Roadm.__init__ *)
Definition g_eqpt_check (e : keys3) : res keys3 :=
  if (1 <? count3 k_in e)%Z then Err "EquipmentConfigError:only one equalization type should be set"
  else if (count3 k_in e =? 0)%Z then Err "EquipmentConfigError:no equalization type set"
  else Ok e.
(* json_io.find_equalisation + merge_equalization (+ merge_amplifier_restrictions: the element's keys win) *)
Definition g_merge_policy (el eq : keys3) : res keys3 :=
  if (1 <? count3 k_in el)%Z then Err "ConfigurationError:invalid equalization settings"
  else if (count3 k_in el =? 1)%Z then Ok el
  else if (count3 k_in el =? 0)%Z then Ok eq
  else Err "ConfigurationError:invalid equalization settings".

(* request.propagate_and_optimize_mode: the modes explored on the spectrum built with baud rate br and offset off *)
Definition g_mode_explored (mb mo msp br off sp : Q) : bool := (Qeq_bool mb br && Qeq_bool mo off && Qle_bool msp sp).
