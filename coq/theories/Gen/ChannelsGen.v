(* GENERATED on every run by harness/pygen_c07.py from the source files of /repo named below - do not edit. *)
From Coq Require Import QArith Qround.
From Verif Require Import Prelude Model.Channels.
Open Scope Q_scope.

Definition is_nil {A} (l : list A) : bool := match l with [] => true | _ => false end.
(* numpy any(mask) where mask compares the arrays x[:-1] (entry a) and x[1:] (entry b) *)
Fixpoint adj_any (p : chan -> chan -> bool) (l : list chan) : bool :=
  match l with
  | a :: (b :: _) as t => p a b || adj_any p t
  | _ => false
  end.

(* gnpy/core/info.py: is_in_band, one array entry *)
Definition g_is_in_band (band : band) (c : chan) : bool :=
  ((qle (bmin band) ((cf c) - (half (cslot c)))) && (qle ((cf c) + (half (cslot c))) (bmax band))).

(* gnpy/core/info.py: SpectralInformation.__init__, `overlap` for the neighbours a (index k) and b (index k+1) *)
Definition g_adj_over (a b : chan) : bool :=
  (qlt ((cf b) - (half (cslot b))) ((cf a) + (half (cslot a)))).

(* gnpy/core/info.py: SpectralInformation.__init__, `exceed` *)
Definition g_exceeds (c : chan) : bool :=
  (qlt (cslot c) (cbaud c)).

(* the two checks in source order (template: any(overlap) -> SpectrumError, then any(exceed) -> SpectrumError) *)
Definition g_check_si (s : si) : res si :=
  if adj_any g_adj_over s then Err E_overlap
  else if existsb g_exceeds s then Err E_baud
  else Ok s.

(* indices = argsort(frequency); every constructor parameter is re-indexed with [indices] (template) *)
Definition g_mk_si (l : list chan) : res si := g_check_si (sort_by cf l).

(* gnpy/core/info.py: select_channels: a new SpectralInformation from X[select] for every per-channel array X (template) *)
Definition g_select_channels (p : chan -> bool) (s : si) : res si := g_mk_si (filter p s).

(* gnpy/core/info.py: demuxed_spectral_information: `if any(select)` *)
Definition g_demux (s : si) (band : band) : res (option si) :=
  if existsb (g_is_in_band band) s
  then let* spectrum := g_select_channels (g_is_in_band band) s in Ok (Some spectrum)
  else Ok None.

(* gnpy/core/info.py: SpectralInformation.__add__: every array = append(self.X, other.X); SpectrumError re-raised *)
Definition g_si_add (self other : si) : res si :=
  match g_mk_si (self ++ other) with
  | Ok s => Ok s
  | Err _ => Err E_sum
  end.

(* gnpy/core/info.py: muxed_spectral_information (template: l[0] + mux(l[1:]); one element: itself; empty: ValueError) *)
Fixpoint g_mux (l : list si) : res si :=
  match l with
  | [] => Err E_empty
  | [s] => Ok s
  | s :: t => let* r := g_mux t in g_si_add s r
  end.

(* gnpy/topology/request.py: filter_si (template: demux on every band of the common range, keep what is not None, ValueError when nothing is left, mux) *)
Fixpoint g_demux_all (bs : list band) (s : si) : res (list si) :=
  match bs with
  | [] => Ok []
  | band :: t =>
      let* temp := g_demux s band in
      let* r := g_demux_all t s in
      Ok (match temp with Some x => x :: r | None => r end)
  end.
Definition g_filter_bands (common_range : list band) (s : si) : res si :=
  let* filtered_si := g_demux_all common_range s in
  if is_nil filtered_si then Err E_noband else g_mux filtered_si.

(* gnpy/core/utils.py: get_spacing_from_band *)
Definition g_get_spacing_from_band (design_bands : list band) (f_min f_max : Q) : option Q :=
  let midpoint := (half (f_min + f_max)) in
  (fix scan (l : list band) : option Q :=
     match l with
     | [] => None
     | band :: t => if ((qle (bmin band) midpoint) && (qle midpoint (bmax band))) then bsp band else scan t
     end) design_bands.

(* gnpy/core/utils.py: calculate_spacing *)
Definition g_calculate_spacing (d : spdef) (first second : band) (f_min f_max : Q) : Q :=
  match bsp first, bsp second with
  | Some a, Some b => (qmax a b)
  | Some a, None => a
  | None, Some b => b
  | None, None => if negb (is_nil (snd d)) then match g_get_spacing_from_band (snd d) f_min f_max with Some temp => temp | None => fst d end else (fst d)
  end.

(* gnpy/core/utils.py: find_common_range, body of the two inner loops: the intersection of two bands *)
Definition g_inter (d : spdef) (first second : band) : list band :=
  let f_min := (qmax (bmin first) (bmin second)) in
  let f_max := (qmin (bmax first) (bmax second)) in
  if (qlt f_min f_max)
  then [mkB f_min f_max (Some (g_calculate_spacing d first second f_min f_max))] else [].

(* gnpy/core/utils.py: find_common_range (template: valid amplifiers, each sorted by f_min, duplicates removed; default band when none; fold of the intersection over ALL amplifiers, no early exit; sorted by f_min) *)
Definition g_cr_step (d : spdef) (common_range bands : list band) : list band :=
  flat_map (fun first => flat_map (g_inter d first) bands) common_range.
Definition g_find_common_range (amp_bands : list (list rband)) (default_band_f_min default_band_f_max : option Q)
    (default_spacing : Q) (default_design_bands : list band) : list band :=
  match remove_dups (map (sort_by bmin) (filter_valid amp_bands)) with
  | [] => match default_band_f_min, default_band_f_max with
          | Some a, Some b => [mkB a b None]
          | _, _ => []
          end
  | first :: rest =>
      sort_by bmin (fold_left (g_cr_step (default_spacing, default_design_bands)) (first :: rest) first)
  end.

(* gnpy/core/utils.py: automatic_nch: int(a // b) = floor of the quotient; float floor division by zero raises *)
Definition g_automatic_nch (f_min f_max spacing : Q) : res Z :=
  let den := spacing in
  if qeqb den 0 then Err E_zero else Ok (Qfloor ((f_max - f_min) / den)).

(* gnpy/core/info.py: create_input_spectral_information: frequency of channel i (template: i in range(1, n + 1), slot_width = spacing, the other arrays uniform) *)
Definition g_grid_freq (f_min spacing : Q) (i : Z) : Q :=
  (f_min + (spacing * (inject_Z i))).

(* gnpy/core/elements.py: Edfa.__call__ (template: first band of params.bands, demux, ValueError when None, propagate) *)
Definition g_edfa_call (a : amp) (s : si) : res si :=
  match abands a with
  | [] => Err "StopIteration:bands"
  | band :: _ =>
      let* d := g_demux s band in
      match d with
      | None => Err "ValueError:amp band"
      | Some s' => Ok (map (stamp (auid a)) s')
      end
  end.

(* gnpy/core/elements.py: Multiband_amplifier.__call__ (template: per amplifier demux on amp.params.bands[0], amp(si) when not None, ValueError when nothing, mux) *)
Fixpoint g_multi_parts (subs : list amp) (s : si) : res (list si) :=
  match subs with
  | [] => Ok []
  | a :: t =>
      match abands a with
      | [] => Err "IndexError:bands"
      | band :: _ =>
          let* d := g_demux s band in
          match d with
          | None => g_multi_parts t s
          | Some s' =>
              let* o := g_edfa_call a s' in
              let* r := g_multi_parts t s in
              Ok (o :: r)
          end
      end
  end.
Definition g_multi_call (subs : list amp) (s : si) : res si :=
  let* out_si := g_multi_parts subs s in
  if is_nil out_si then Err "ValueError:multiband" else g_mux out_si.

(* gnpy/topology/request.py: propagate (template, literal: build, filter_si once, element loop, update_snr(si.tx_osnr) on the source transceiver and roadm_osnr + [si.tx_osnr] on the receiver) *)
(* gnpy/core/network.py: set_egress_amplifier: node.params.bands = [a.params.bands[0] for a in node.amplifiers.values()] (statements present, checked) *)
