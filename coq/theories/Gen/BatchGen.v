(* GENERATED on every run by harness/pygen_c16.py from gnpy/topology/request.py, gnpy/topology/topology_parameters.py,
   gnpy/core/science_utils.py, gnpy/core/elements.py and gnpy/tools/worker_utils.py of /repo - do not edit. *)
From Verif Require Import Prelude.
Open Scope Z_scope.

(* gnpy/topology/request.py: compute_path_with_disjunction.  Matched: three result lists; request loop without
   continue / break / return, ending with exactly one append to each list (empty-path branch included);
   total_path = deepcopy(pathlist[i]); rev_p = deepcopy(reversed_path); the 3 propagate / propagate_and_optimize_mode
   calls receive total_path / rev_p; pathlist[i] only goes to deepcopy / find_reversed_path (and the redesign block). *)
Definition g_copy_forward : bool := true.
Definition g_copy_reverse : bool := true.
Definition g_results_per_request : Z := 1.

(* gnpy/topology/request.py: propagate_and_optimize_mode.  Matched (template of the C13 tie): the designed effective_gain
   of every Edfa of the path and of every band amplifier of its Multiband_amplifiers is recorded before the loop and
   written back (`for amp, gain in zip(amps, designed_gains): amp.effective_gain = gain`) first thing in every iteration. *)
Definition g_restores_gains : bool := true.

(* gnpy/topology/request.py: compute_path_dsjctn.  Matched: requests split by membership of a synchronization vector;
   the requests of a vector are taken in the order of the vector (dis.disjunctions_req.copy()) and the vector loop never
   looks at the batch list; step 3 prunes a route that is no candidate for a request from the candidates of the vectors
   that request belongs to (concerned_d_id), never from another vector;
   final loop: every non-synchronised request gets compute_constrained_path(network, req),
   the only call, nothing kept from one request to the next. *)
Definition g_route_memo : bool := false.

(* gnpy/topology/request.py: explicit_path.  Matched: whole body; the route is `[source] + oms0.el_list` (a NEW list),
   extended with the el_list of the following adjacent OMS; no attribute of an element or OMS is assigned. *)
Definition g_explicit_path_new_list : bool := true.

(* gnpy/topology/request.py: compare_reqs.  Translated: the attributes on which two requests must agree (in
   addition to the shape of their synchronization vectors) to be aggregated into one. *)
Definition g_compared_fields : list string :=
  ["source"%string; "destination"%string; "bidir"%string; "tsp"%string; "tsp_mode"%string; "baud_rate"%string; "nodes_list"%string; "loose_list"%string; "spacing"%string; "power"%string; "nb_channel"%string; "f_min"%string; "f_max"%string; "format"%string; "OSNR"%string; "roll_off"%string; "tx_power"%string].

(* gnpy/topology/topology_parameters.py: BaseParams.update_attr.  Matched: list and dict defaults are deep-copied for
   every instance (no PathRequest shares nodes_list / loose_list with another one). *)

(* gnpy/core/science_utils.py, gnpy/core/elements.py.  Checked: no assignment / augmented assignment / del / setattr /
   set_params targets sim_params, nli_params, raman_params or SimParams; both GGN branches of compute_nli read
   computed_number_of_channels into the local nb_ch_computed. *)
Definition g_writes_sim_params : bool := false.

(* gnpy/tools/worker_utils.py: planning.  Matched: whole body; redesign defaults to False and is only handed on.
   Translated: the order of the steps (all routes, then all propagations, then the spectrum fold). *)
Definition g_pipeline : list string :=
  ["build_oms_list"%string; "requests_from_json"%string; "correct_json_route_list"%string; "requests_aggregation"%string; "compute_path_dsjctn"%string; "compute_path_with_disjunction"%string; "pth_assign_spectrum"%string].
