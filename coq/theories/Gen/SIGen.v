(* GENERATED on every run by harness/pygen_c01.py from gnpy/core/info.py of /repo - do not edit. *)
From Verif Require Import Prelude Model.SI.
From Coq Require Import QArith.
Open Scope Q_scope.

(* gnpy/core/info.py: SpectralInformation.add_nli, one channel *)
Definition g_add_nli (x : Q) (c : chan) : chan :=
  let v_nli_ratio := (x / (pch c)) in
  let rs1 := ((rs c) * (1 - v_nli_ratio)) in
  let ra1 := ((ra c) * (1 - v_nli_ratio)) in
  let rn1 := (((rn c) * (1 - v_nli_ratio)) + v_nli_ratio) in
  mkC (cf c) (csw c) (cbr c) (pch c) rs1 ra1 rn1.

(* gnpy/core/info.py: SpectralInformation.add_ase, one channel *)
Definition g_add_ase (x : Q) (c : chan) : chan :=
  let v_pch := ((pch c) + x) in
  let rs1 := ((rs c) * ((pch c) / v_pch)) in
  let rn1 := ((rn c) * ((pch c) / v_pch)) in
  let ra1 := ((((ra c) * (pch c)) + x) / v_pch) in
  let pch1 := v_pch in
  mkC (cf c) (csw c) (cbr c) pch1 rs1 ra1 rn1.

(* gnpy/core/info.py: SpectralInformation.apply_attenuation_lin, one channel *)
Definition g_apply_attenuation_lin (x : Q) (c : chan) : chan :=
  let pch1 := ((pch c) * x) in
  mkC (cf c) (csw c) (cbr c) pch1 (rs c) (ra c) (rn c).

(* gnpy/core/info.py: SpectralInformation.apply_gain_lin, one channel *)
Definition g_apply_gain_lin (x : Q) (c : chan) : chan :=
  let pch1 := ((pch c) * x) in
  mkC (cf c) (csw c) (cbr c) pch1 (rs c) (ra c) (rn c).

(* gnpy/core/info.py: SpectralInformation.apply_attenuation_db (db2lin abstract) *)
Definition g_apply_attenuation_db (db2lin : Q -> Q) (d : Q) (c : chan) : chan :=
  g_apply_attenuation_lin (1 / (db2lin d)) c.

(* gnpy/core/info.py: SpectralInformation.apply_gain_db (db2lin abstract) *)
Definition g_apply_gain_db (db2lin : Q -> Q) (d : Q) (c : chan) : chan :=
  g_apply_gain_lin (db2lin d) c.

(* gnpy/core/info.py: SpectralInformation.signal *)
Definition g_signal (c : chan) : Q :=
  ((rs c) * (pch c)).

(* gnpy/core/info.py: SpectralInformation.ase *)
Definition g_ase (c : chan) : Q :=
  ((ra c) * (pch c)).

(* gnpy/core/info.py: SpectralInformation.nli *)
Definition g_nli (c : chan) : Q :=
  ((rn c) * (pch c)).

(* gnpy/core/info.py: SpectralInformation.snr_lin *)
Definition g_snr_lin (c : chan) : Q :=
  ((rs c) / (ra c)).

(* gnpy/core/info.py: SpectralInformation.snr_nli *)
Definition g_snr_nli (c : chan) : Q :=
  ((rs c) / (rn c)).

(* gnpy/core/info.py: SpectralInformation.gsnr *)
Definition g_gsnr (c : chan) : Q :=
  ((rs c) / ((ra c) + (rn c))).

(* gnpy/core/info.py: is_in_band, one channel *)
Definition g_is_in_band (fmin fmax : Q) (c : chan) : bool :=
  Qle_bool fmin ((cf c) - ((csw c) / 2)) && Qle_bool ((cf c) + ((csw c) / 2)) fmax.

(* gnpy/core/info.py: SpectralInformation.__init__, overlap test of two neighbouring channels c, d (c below d) *)
Definition g_overlap (c d : chan) : bool :=
  negb (Qle_bool ((cf c) + ((csw c) / 2)) ((cf d) - ((csw d) / 2))).

(* gnpy/core/info.py: SpectralInformation.__init__, baud rate vs slot width *)
Definition g_exceed (c : chan) : bool :=
  negb (Qle_bool (cbr c) (csw c)).

(* ---- element programs: the SpectralInformation primitives each element kind applies, in source order;
        (true, k) = inside a plain `if` (optional), (false, k) = always ---- *)
Fixpoint g_variants (p : list (bool * okind)) : list (list okind) :=
  match p with
  | [] => [[]]
  | (false, k) :: t => map (cons k) (g_variants t)
  | (true, k) :: t => map (cons k) (g_variants t) ++ g_variants t
  end.

(* gnpy/core/elements.py: Roadm.propagate *)
Definition g_program_roadm : list (bool * okind) :=
  [(false, OAtt); (false, OAtt)].

(* gnpy/core/elements.py: Fused.propagate *)
Definition g_program_fused : list (bool * okind) :=
  [(false, OAtt)].

(* gnpy/core/elements.py: Fiber.propagate *)
Definition g_program_fiber : list (bool * okind) :=
  [(false, OAtt); (false, ONli); (false, OAtt); (false, OAtt)].

(* gnpy/core/elements.py: RamanFiber.propagate *)
Definition g_program_raman : list (bool * okind) :=
  [(false, OAtt); (false, ONli); (false, OAse); (false, OAtt); (false, OAtt)].

(* gnpy/core/elements.py: Edfa.propagate *)
Definition g_program_edfa : list (bool * okind) :=
  [(true, OAtt); (false, OAse); (false, OGain)].

(* gnpy/core/elements.py: Transceiver.__call__ *)
Definition g_program_trx : list (bool * okind) :=
  [].
