(* GENERATED on every run by harness/pygen_c04.py from gnpy/core/elements.py, gnpy/core/info.py,
   gnpy/tools/json_io.py and gnpy/core/science_utils.py of /repo - do not edit. *)
From Verif Require Import Prelude Num Model.Amp.
From Coq Require Import List.
Import ListNotations.

Section AmpGen.
Context {N : Num}.
Local Open Scope num_scope.

(* gnpy/core/elements.py: Edfa._nf *)
Definition g_nf (s : stage) (gain_target pin_db nch slot_width : NT N) : option (NT N) * NT N :=
  let gain_min := st_gain_min s in
  let gain_flatmax := st_gain_flatmax s in
  let pad := (nmax (gain_min - gain_target) nzero) in
  let gain_target := gain_target + pad in
  let dg := (nmax (gain_flatmax - gain_target) nzero) in
  let nf_avg :=
    match st_model s with
    | NFVariable nf1 nf2 delta_p => let g1a := ((gain_target - delta_p) - dg) in Some (lin2db ((db2lin nf1) + ((db2lin nf2) / (db2lin g1a))))
    | NFFixed nf0 => Some nf0
    | NFOpenroadm nf_coef => let pin_ch_50GHz := ((pin_db - (lin2db nch)) + (lin2db ((dec 5 10) / slot_width))) in Some ((pin_ch_50GHz - (polyval nf_coef pin_ch_50GHz)) + #58)
    | NFOpenroadmPreamp => let pin_ch_50GHz := ((pin_db - (lin2db nch)) + (lin2db ((dec 5 10) / slot_width))) in Some ((pin_ch_50GHz - (nmin (((#4 * pin_ch_50GHz) + #275) / #7) #33)) + #58)
    | NFOpenroadmBooster => None
    | NFAdvanced nf_fit_coeff => Some (polyval nf_fit_coeff (- dg))
    end in
  (oadd nf_avg pad, pad).

(* gnpy/core/elements.py: Edfa._calc_nf (average NF at the effective gain; ripple added per channel) *)
Definition g_calc_nf_avg (k : amp_kind) (effective_gain pin_db nch slot_width : NT N) : option (NT N) :=
  match k with
  | Dual pre boost =>
      let g1 := (st_gain_flatmax pre) in
      let g2 := (effective_gain - g1) in
      let nf1_avg := fst (g_nf pre g1 pin_db nch slot_width) in
      let nf2_avg := fst (g_nf boost g2 pin_db nch slot_width) in
      Some (lin2db ((odb2lin nf1_avg) + (odb2lin (oadd nf2_avg (- g1)))))
  | Single s => fst (g_nf s effective_gain pin_db nch slot_width)
  end.
Definition g_nf_channel (ripple : NT N) (nf_avg : option (NT N)) : option (NT N) := (oadd nf_avg ripple).

(* gnpy/core/elements.py: Edfa.interpol_params *)
Definition g_pin_db (ptot : NT N) : NT N := (watt2dbm ptot).
Definition g_slot_width (nch f0 f1 sw0 : NT N) : NT N := (if (none <? nch) then (f1 - f0) else sw0).
Definition g_eff_gain (effective_gain p_max pin_db : NT N) : NT N := (nmin effective_gain (p_max - pin_db)).

(* gnpy/core/elements.py: Edfa.noise_profile, one channel *)
Definition g_ase_in (c : ch) (nf : option (NT N)) : NT N := ((planck * (k_B c)) * (k_f c)) * odb2lin nf.
(* gnpy/core/elements.py: Edfa.propagate, gain [dB] applied to one channel after the ASE was added *)
Definition g_channel_gain_db (g out_voa : NT N) : NT N := (g - out_voa).
(* gnpy/core/info.py: is_in_band, one channel (demuxed_spectral_information hands it frequency and slot_width) *)
Definition g_in_band (f_min f_max : NT N) (c : ch) : bool := (f_min <=? ((k_f c) - ((k_sw c) / #2))) && (((k_f c) + ((k_sw c) / #2)) <=? f_max).

(* gnpy/core/elements.py: Edfa._gain_profile (scalar steps; r, d, g: ripple, DGT, first estimate of ONE channel) *)
Definition g_targ_slope (tilt_target f_min f_max : NT N) : NT N := ((- tilt_target) / (f_max - f_min)).
Definition g_dgts1 (targ_slope dgt_slope : NT N) : NT N := (if (nneq0 dgt_slope) then (targ_slope / dgt_slope) else nzero).
Definition g_g1st_elem (gain_flatmax dgts1 r d : NT N) : NT N := ((r + gain_flatmax) + (d * dgts1)).
Definition g_voa (g1st : list (NT N)) (effective_gain : NT N) : NT N := ((lin2db (nmean (map db2lin g1st))) - effective_gain).
Definition g_tilted_elem (voa x g d : NT N) : NT N := ((g - voa) + (d * x)).
(* watt2dbm(sum(pin * db2lin(g))) *)
Definition g_pout_db (pin g : list (NT N)) : NT N := watt2dbm (nsum (map2 (fun p gd => p * db2lin gd) pin g)).
Definition g_dgts2 (effective_gain pout_db tot_in_power_db : NT N) : NT N := (effective_gain - (pout_db - tot_in_power_db)).
Definition g_gavg (pout_db tot_in_power_db : NT N) : NT N := (pout_db - tot_in_power_db).
Definition g_flat (deltax : NT N) : bool := ((nabs deltax) <=? (dec 5 (-2))).
Definition g_xlow (dgts2 deltax : NT N) : NT N := (dgts2 - deltax).
Definition g_xhigh (dgts2 deltax : NT N) : NT N := (dgts2 + deltax).
Definition g_secant (effective_gain xcent gavg_cent xlow gavg_low xhigh gavg_high : NT N) : NT N :=
  let slope1 := ((gavg_low - gavg_cent) / (xlow - xcent)) in
  let slope2 := ((gavg_cent - gavg_high) / (xcent - xhigh)) in
  if ((nabs (effective_gain - gavg_cent)) <=? (dec 1 (-11))) then xcent
  else if (effective_gain <? gavg_cent) then (xcent - ((gavg_cent - effective_gain) / slope1))
  else (xcent + (((- gavg_cent) + effective_gain) / slope2)).

(* gnpy/tools/json_io.py: _update_dual_stage *)
Definition g_dual_p_max (pre_p_max boost_p_max : NT N) : NT N := boost_p_max.
Definition g_dual_gain_flatmax (pre_gain_flatmax boost_gain_flatmax : NT N) : NT N := (boost_gain_flatmax + pre_gain_flatmax).
Definition g_dual_rejected (gain_min pre_gain_min : NT N) : bool := (gain_min <? pre_gain_min).

(* gnpy/core/science_utils.py: estimate_nf_model *)
Definition g_estimate_nf_model (gain_min gain_max nf_min nf_max : NT N) : res (NT N * NT N * NT N) :=
  (if (nf_min <? (- #10)) then Err "EquipmentConfigError" else
  (if (nf_max <? (- #10)) then Err "EquipmentConfigError" else
  let delta_p := #5 in
  let g1a_min := ((gain_min - (gain_max - gain_min)) - delta_p) in
  let g1a_max := (gain_max - delta_p) in
  let nf2 := (lin2db (((db2lin nf_min) - (db2lin nf_max)) / ((none / (db2lin g1a_max)) - (none / (db2lin g1a_min))))) in
  let nf1 := (lin2db ((db2lin nf_min) - ((db2lin nf2) / (db2lin g1a_max)))) in
  (if (nf1 <? #4) then Err "EquipmentConfigError" else
  (if (negb (((nf1 + (dec 3 (-1))) <? nf2) && (nf2 <? (nf1 + #2)))) then let nf2 := (nmin (nmax nf2 (nf1 + (dec 3 (-1)))) (nf1 + #2)) in
  let g1a_max := (lin2db ((db2lin nf2) / ((db2lin nf_min) - (db2lin nf1)))) in
  let delta_p := (gain_max - g1a_max) in
  let g1a_min := ((gain_min - (gain_max - gain_min)) - delta_p) in
  (if (negb ((none <? delta_p) && (delta_p <? #11))) then Err "EquipmentConfigError" else
  let calc_nf_min := (lin2db ((db2lin nf1) + ((db2lin nf2) / (db2lin g1a_max)))) in
  (if (negb (isclose001 nf_min calc_nf_min)) then Err "EquipmentConfigError" else
  let calc_nf_max := (lin2db ((db2lin nf1) + ((db2lin nf2) / (db2lin g1a_min)))) in
  (if (negb (isclose001 nf_max calc_nf_max)) then Err "EquipmentConfigError" else
  Ok (nf1, nf2, delta_p)))) else
  let calc_nf_min := (lin2db ((db2lin nf1) + ((db2lin nf2) / (db2lin g1a_max)))) in
  (if (negb (isclose001 nf_min calc_nf_min)) then Err "EquipmentConfigError" else
  let calc_nf_max := (lin2db ((db2lin nf1) + ((db2lin nf2) / (db2lin g1a_min)))) in
  (if (negb (isclose001 nf_max calc_nf_max)) then Err "EquipmentConfigError" else
  Ok (nf1, nf2, delta_p))))))).

End AmpGen.
