(* GENERATED on every run by harness/pygen_c20.py from gnpy/tools/convert.py and gnpy/tools/service_sheet.py of the
   source tree - do not edit. *)
From Coq Require Import QArith.
From Verif Require Import Prelude Model.Sheet.
Open Scope Z_scope.

(* vocabulary of the translation (definitions only) *)
Definition is_some {A} (o : option A) : bool := match o with Some _ => true | None => false end.
Definition is_nil {A} (l : list A) : bool := match l with [] => true | _ => false end.
Definition truthy_oq (o : option Q) : bool := match o with Some q => negb (Qeq_bool q 0) | None => false end.
Definition truthy_os (o : option string) : bool := match o with Some s => negb (seqb s "") | None => false end.
(* one side of an Eqpt row over the values it falls back to *)
Definition fill_amp (d : amp) (r : amp_row) : amp :=
  mkAmp (ostr (a_type d) (ar_type r)) (oor (ar_gain r) (a_gain d)) (oor (ar_dp r) (a_dp d)) (oor (ar_tilt r) (a_tilt d))
        (oor (ar_att_out r) (a_att_out d)) (odef (a_att_in d) (ar_att_in r)).
(* `if c: params['pmd_coef'] = convert_pmd_lineic(v, len, 'km')`, carried squared *)
Definition pmd2_parts (c v : option Q) (len : Q) : option Q :=
  if truthy_oq c then match v with Some p => Some (Qred (p * p / (inject_Z (10 ^ 24)) / (len * 1000))) | None => None end
  else None.
Definition head_is (x : string) (l : list string) : bool := match l with y :: _ => seqb x y | [] => false end.
Definition last_is (x : string) (l : list string) : bool := match last_s l with Some y => seqb x y | None => false end.
Fixpoint replace_at (i : nat) (s : string) (l : list string) : list string :=
  match l, i with [], _ => [] | _ :: t, O => s :: t | x :: t, S k => x :: replace_at k s t end.

(* convert.py: Link.default_values, Eqpt.default_values *)
Definition g_link_default : side := mkSide (80 # 1)%Q "SSMF"%string (1 # 5)%Q None None None ""%string.
Definition g_amp_default : amp := mkAmp ""%string None None None None (0 # 1)%Q.
(* convert.py: Link.update_attr, Eqpt.update_attr - every cell over what it falls back to *)
Definition g_mk_link (r : link_row) : link :=
  let e := fill_side g_link_default (lr_east r) in
  mkLink (lr_from r) (lr_to r) e (fill_side e (lr_west r)).
Definition g_mk_eqpt (r : eqpt_row) : eqpt :=
  let e := fill_amp g_amp_default (er_east r) in
  mkEqpt (er_from r) (er_to r) e (fill_amp g_amp_default (er_west r)).

(* convert.py: Link.__eq__ *)
Definition g_link_eqv (a b : link) : bool :=
  (seqb (l_from a) (l_from b) && seqb (l_to a) (l_to b)) || (seqb (l_from a) (l_to b) && seqb (l_to a) (l_from b)).

(* convert.py: create_east_fiber_element, create_west_fiber_element *)
Definition g_fiber_uid_East (l : link) : uid := UFiber (l_from l) (l_to l) (s_cable (l_east l)).
Definition g_fiber_mid_East (l : link) : string * string := ((l_from l), (l_to l)).
Definition g_fiber_content_East (l : link) : content :=
  CFiber (s_fiber (l_east l)) (round3 (s_dist (l_east l))) (s_lineic (l_east l)) (s_con_in (l_east l)) (s_con_out (l_east l))
         (pmd2_parts (s_pmd (l_east l)) (s_pmd (l_east l)) (s_dist (l_east l))).
Definition g_fiber_uid_West (l : link) : uid := UFiber (l_to l) (l_from l) (s_cable (l_west l)).
Definition g_fiber_mid_West (l : link) : string * string := ((l_from l), (l_to l)).
Definition g_fiber_content_West (l : link) : content :=
  CFiber (s_fiber (l_west l)) (round3 (s_dist (l_west l))) (s_lineic (l_west l)) (s_con_in (l_west l)) (s_con_out (l_west l))
         (pmd2_parts (s_pmd (l_west l)) (s_pmd (l_west l)) (s_dist (l_west l))).

(* convert.py: create_east_eqpt_element, create_west_eqpt_element *)
Definition g_amp_uid_East (e : eqpt) : uid := UEdfaTo East (e_from e) (e_to e).
Definition g_amp_city_East (e : eqpt) : string := (e_from e).
Definition g_amp_content_East (e : eqpt) : content :=
  if negb (seqb (lower (a_type (e_east e))) "") && negb (seqb (lower (a_type (e_east e))) "fused")
  then CEdfa (Some (a_type (e_east e))) (mkOper (a_gain (e_east e)) (a_dp (e_east e)) (a_tilt (e_east e)) (a_att_out (e_east e)) (a_att_in (e_east e)))
  else if seqb (lower (a_type (e_east e))) "" then CEdfa None (mkOper (a_gain (e_east e)) (a_dp (e_east e)) (a_tilt (e_east e)) (a_att_out (e_east e)) (a_att_in (e_east e)))
  else if seqb (lower (a_type (e_east e))) "fused" then CFused true
  else CTrx.   (* no branch taken: the element would have no type *)
Definition g_amp_uid_West (e : eqpt) : uid := UEdfaTo West (e_from e) (e_to e).
Definition g_amp_city_West (e : eqpt) : string := (e_from e).
Definition g_amp_content_West (e : eqpt) : content :=
  if negb (seqb (lower (a_type (e_west e))) "") && negb (seqb (lower (a_type (e_west e))) "fused")
  then CEdfa (Some (a_type (e_west e))) (mkOper (a_gain (e_west e)) (a_dp (e_west e)) (a_tilt (e_west e)) (a_att_out (e_west e)) (a_att_in (e_west e)))
  else if seqb (lower (a_type (e_west e))) "" then CEdfa None (mkOper (a_gain (e_west e)) (a_dp (e_west e)) (a_tilt (e_west e)) (a_att_out (e_west e)) (a_att_in (e_west e)))
  else if seqb (lower (a_type (e_west e))) "fused" then CFused true
  else CTrx.   (* no branch taken: the element would have no type *)

(* convert.py: fiber_link - the uid built for the link found *)
Definition g_fiber_link_uid (f t : string) (l : link) : uid :=
  if seqb (l_from l) f then UFiber (l_from l) (l_to l) (s_cable (l_east l))
  else UFiber (l_to l) (l_from l) (s_cable (l_west l)).

(* convert.py: eqpt_in_city_to_city *)
Definition g_ein (c to_ : string) (es : list eqpt) (t : ntype) (d : dir) : option uid :=
  let mine := eqpts_of c es in
  let r :=
    match mine with
    | [] => match t with TIla => Some (UEdfa d c) | _ => None end
    | _ =>
        match t with
        | TRoadm => fold_left (fun acc e => if (seqb (e_to e) to_) then Some (UEdfaTo d (e_from e) (e_to e)) else acc)
                              mine None
        | TIla => snd (fold_left (fun st e => let d' := if (negb (seqb (e_to e) to_)) then rev_dir d else fst st in
                                             (d', Some (UEdfaTo d' (e_from e) (e_to e))))
                                 mine (d, None))
        | TFused => None
        end
    end in
  match t with TFused => Some (UFused d c) | _ => r end.

(* convert.py: sanity_check - the conditions of the self-loop, duplicate-ILA, FUSED-degree rules and of the ILA -> ROADM correction *)
Definition g_correct_type (ls : list link) (n : node) : node :=
  if ((ntype_eqb (n_type n) TIla) && (negb (Nat.eqb (length (links_of (n_city n) ls)) 2))) then set_type n TRoadm else n.
Definition g_sanity_check (ns : list node) (ls : list link) (es : list eqpt) : res (list node) :=
  if existsb (fun l => (seqb (l_from l) (l_to l))) ls then Err "NetworkTopologyError:self_loop_link"
  else if dup_links ls then Err "NetworkTopologyError:duplicate_link"
  else if existsb (fun n => negb (has_links (n_city n) ls)) ns then Err "NetworkTopologyError:unreferenced_node"
  else if existsb (fun e => negb (smem (e_from e) (cities ns)) || negb (smem (e_to e) (cities ns))) es
  then Err "NetworkTopologyError:eqpt_unknown_node"
  else if existsb (bad_eqpt ls) es then Err "NetworkTopologyError:eqpt_unknown_link"
  else if dupb (map (fun e => pair_key (e_from e) (e_to e)) es) then Err "NetworkTopologyError:duplicate_eqpt"
  else if existsb (fun n => ((ntype_eqb (n_type n) TIla) && (Nat.ltb 1 (length (eqpts_of (n_city n) es))))) ns then Err "NetworkTopologyError:duplicate_ila"
  else if existsb (fun n => ((ntype_eqb (n_type n) TFused) && (negb (Nat.eqb (length (links_of (n_city n) ls)) 2)))) ns then Err "NetworkTopologyError:fused_degree"
  else Ok (map (g_correct_type ls) ns).

(* convert.py: corresp_next_node - the element classes the walk to the next ROADM / amplifier passes over *)
Definition g_skipped_kind (k : ekind) : bool := match k with KFiber | KFused => true | _ => false end.

(* service_sheet.py: Request_element.__init__ - spacing (GHz), power (dBm), channel count, bandwidth (Gbit/s) *)
Definition g_spacing (r : req_row) : option Q :=
  match (q_spacing r) with Some x => if (truthy_oq (Some x)) then Some (Qred (x * (1000000000 # 1)%Q)) else None | None => None end.
Definition g_power_dbm (r : req_row) : option Q :=
  match (q_power r) with Some x => if (is_some (Some x)) then Some x else None | None => None end.
Definition g_nbch (r : req_row) : option Z :=
  match (q_nbch r) with Some x => if (is_some (Some x)) then Some (qtrunc x) else None | None => None end.
Definition g_bw (r : req_row) : Q :=
  match (q_bw r) with Some x => if (is_some (Some x)) then (Qred (x * (1000000000 # 1)%Q)) else (0 # 1)%Q | None => (0 # 1)%Q end.

(* service_sheet.py: correct_xls_route_list - popping the own source / destination, writing a corrected name back *)
Definition g_pop_ends (src dst : string) (l : list string) : list string :=
  (let l := (if head_is src l then tl l else l) in (if last_is dst l then removelast l else l)).
Definition g_writeback (i : nat) (n s : string) (live : list string) : list string := replace_first n s live.
