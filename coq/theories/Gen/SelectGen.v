(* GENERATED on every run by harness/pygen_c10.py from gnpy/core/network.py of /repo - do not edit. *)
From Coq Require Import QArith Qminmax.
From Verif Require Import Prelude Model.Select.
Open Scope Q_scope.

(* one entry of the Edfa_list namedtuple: the library entry, its power margin and its gain_min margin *)
Record row := mkRow { r_amp : amp; r_power : Q; r_gain_min : Q }.
(* min(rows, key=nf): first row of minimal key *)
Fixpoint first_min_row (nf : amp -> Q) (best : row) (l : list row) : row :=
  match l with
  | [] => best
  | x :: t => if qltb (nf (r_amp x)) (nf (r_amp best)) then first_min_row nf x t else first_min_row nf best t
  end.

(* edfa_nf: template-matched whole (a fresh Edfa of the entry at the required gain, its _calc_nf); network.py keeps no state between calls (check_stateless) *)
Definition g_nf_of_entry_at_hand : bool := true.

(* filter_edfa_list_based_on_targets: translated expressions *)
Definition g_pin (pt gain : Q) : Q := (pt - gain).
Definition g_edfa_power (ext gain pt : Q) (a : amp) : Q := let pin := g_pin pt gain in ((Qmin ((pin + (a_gmax a)) + ext) (a_pmax a)) - pt).
Definition g_edfa_gain_min (gain : Q) (a : amp) : Q := ((gain + 3) - (a_gmin a)).
Definition g_edfa_filter (a : amp) : bool := (negb ((a_raman a))).
Definition g_raman_power (ext gain pt : Q) (a : amp) : Q := let pin := g_pin pt gain in ((Qmin ((pin + (a_gmax a)) + ext) (a_pmax a)) - pt).
Definition g_raman_gain_min (gain : Q) (a : amp) : Q := (gain - (a_gmin a)).
Definition g_raman_filter (a : amp) : bool := ((a_raman a)).
Definition g_gain_ok (x : row) : bool := (qltb 0 (r_gain_min x)).
Definition g_power_ok (x : row) : bool := (qltb 0 (r_power x)).
Definition g_window (power_max : Q) (x : row) : bool := (qltb (- (3 # 10)) ((r_power x) - power_max)).

(* filter_edfa_list_based_on_targets: the template-matched skeleton around them *)
Definition g_filter (ra : bool) (gain pt ext : Q) (lib : list amp) : res (list row) :=
  let edfa_list := map (fun a => mkRow a (g_edfa_power ext gain pt a) (g_edfa_gain_min gain a)) (filter g_edfa_filter lib) in
  let raman_list := if ra then map (fun a => mkRow a (g_raman_power ext gain pt a) (g_raman_gain_min gain a))
                                   (filter g_raman_filter lib) else [] in
  let amp_list := edfa_list ++ raman_list in
  let acceptable_gain_min_list := filter g_gain_ok amp_list in
  let* acceptable_gain_min_list :=
    if (length acceptable_gain_min_list <? 1)%nat then
      if (length edfa_list <? 1)%nat
      then Err "ConfigurationError:auto_design could not find any amplifier to satisfy min gain requirement"
      else Ok edfa_list
    else Ok acceptable_gain_min_list in
  let acceptable_power_list := filter g_power_ok acceptable_gain_min_list in
  if (length acceptable_power_list <? 1)%nat then
    match acceptable_gain_min_list with
    | [] => Err "ValueError:max() arg is an empty sequence"
    | h :: t => let power_max := fold_left (fun m x => Qmax m (r_power x)) t (r_power h) in
                Ok (filter (g_window power_max) acceptable_gain_min_list)
    end
  else Ok acceptable_power_list.

(* select_edfa *)
Definition g_power_reduction (s : row) : Q := (Qmin (r_power s) 0).
Definition g_select_edfa (ra : bool) (gain pt ext : Q) (nf : amp -> Q) (lib : list amp) : res (amp * Q) :=
  let* acceptable_power_list := g_filter ra gain pt ext lib in
  match acceptable_power_list with
  | [] => Err "ValueError:min() arg is an empty sequence"
  | h :: t => let s := first_min_row nf h t in Ok (r_amp s, g_power_reduction s)
  end.

(* get_node_restrictions: condition of the single-band candidate comprehension *)
Definition g_permb (r : list string) (bmin bmax : Q) (a : amp) : bool := (((negb (a_multi a)) && (Qle_bool (a_fmin a) bmin) && (Qle_bool bmax (a_fmax a))) && ((smem (a_name a) r) || ((isnil r) && ((a_allowed a))))).

(* preselect_multiband_amps: band-cover condition of the candidates *)
Definition g_presel_cover (a : amp) (bmin bmax : Q) : bool := ((Qle_bool (a_fmin a) bmin) && (Qle_bool bmax (a_fmax a))).

(* set_one_amplifier: raman_allowed = (loss_coef < limit).all() after a Fiber, False otherwise *)
Definition g_raman_elem (lc maxl : Q) : bool := (qltb lc maxl).
Definition g_raman_allowed (prev : neigh) (maxl : Q) : bool :=
  match prev with NFiber lcs => forallb (fun lc => g_raman_elem lc maxl) lcs | _ => false end.
