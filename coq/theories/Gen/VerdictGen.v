(* GENERATED on every run by harness/pygen_c13.py from gnpy/topology/request.py, gnpy/core/elements.py,
   gnpy/core/utils.py and gnpy/tools/json_io.py of /repo - do not edit. *)
From Coq Require Import QArith.
From Verif Require Import Prelude Model.Verdict.
Open Scope Q_scope.

(* gnpy/topology/request.py: compute_path_with_disjunction, verdict of a request whose mode is known *)
Definition g_fixed_blocked_fwd (osnr margin : Q) (worst : met) : bool :=
  (met_lt (met_round2 worst) (MFin (osnr + margin))).
Definition g_fixed_reason_fwd : string := "MODE_NOT_FEASIBLE"%string.
Definition g_fixed_blocked_rev (osnr margin : Q) (worst : met) : bool :=
  (met_lt (met_round2 worst) (MFin (osnr + margin))).
Definition g_fixed_reason_rev : string := "MODE_NOT_FEASIBLE"%string.
(* forward direction first; the reverse one only sets a reason when none is set (`if not hasattr(...)`) *)
Definition g_decide_fixed (osnr margin : Q) (fwd : met) (rev : option met) : option string :=
  if g_fixed_blocked_fwd osnr margin fwd then Some g_fixed_reason_fwd else
  match rev with
  | Some r => if g_fixed_blocked_rev osnr margin r then Some g_fixed_reason_rev else None
  | None => None
  end.

Definition g_blocking_nopath : list string := ["NO_PATH"%string; "NO_PATH_WITH_CONSTRAINT"%string; "NO_FEASIBLE_BAUDRATE_WITH_SPACING"%string; "NO_COMPUTED_SNR"%string].
Definition g_blocking_nomode : list string := ["NO_FEASIBLE_MODE"%string; "MODE_NOT_FEASIBLE"%string].

(* gnpy/topology/request.py: propagate_and_optimize_mode *)
Definition g_pair (m : mode) : iter := ((m_baud m), (m_off m)).
Definition g_fits (sp : Q) (m : mode) : bool := (Qle_bool (m_minsp m) sp).
Definition g_mode_filter (sp : Q) (it : iter) (m : mode) : bool :=
  ((Qeq_bool (m_baud m) (fst it)) && (Qeq_bool (m_off m) (snd it)) && (Qle_bool (m_minsp m) sp)).
Definition g_mode_key (m : mode) : Q * Q := ((m_bitrate m), (m_off m)).
Definition g_accept (margin : Q) (m : mode) (worst : met) : bool :=
  (met_lt (MFin ((m_osnr m) + margin)) (met_round2 worst)).
Definition g_reason_nosnr : string := "NO_COMPUTED_SNR"%string.
Definition g_reason_nomode : string := "NO_FEASIBLE_MODE"%string.
Definition g_reason_nobaud : string := "NO_FEASIBLE_BAUDRATE_WITH_SPACING"%string.
(* set(...) + sorted(reverse=True) of the pairs, the filtered + sorted(key, reverse=True) modes: as the template has them *)
Definition g_iters (lib : list mode) (sp : Q) : list iter :=
  sort_iters (dedup (map g_pair (filter (g_fits sp) lib))).
Definition g_key_gtb (a b : mode) : bool := iter_gtb (g_mode_key a) (g_mode_key b).
Fixpoint g_ins_mode (x : mode) (l : list mode) : list mode :=
  match l with [] => [x] | y :: t => if g_key_gtb y x then y :: g_ins_mode x t else x :: l end.
Definition g_modes_of (lib : list mode) (sp : Q) (it : iter) : list mode :=
  fold_right g_ins_mode [] (filter (g_mode_filter sp it) lib).

(* gnpy/core/elements.py: Transceiver._calc_penalty (an absent left / right keyword is numpy's default: None) *)
Definition g_calc_penalty (x : Q) (tab : table) : pen :=
  interp_gen (Some PInf) (Some PInf) x tab.

(* gnpy/core/elements.py: Roadm.set_roadm_paths, noise (1/linear) of ONE add or drop stage of the default model *)
Definition g_add_drop_stage (add_drop : Q) : Q := (add_drop / 2).

(* gnpy/core/utils.py: snr_sum, every dB value replaced by its 1/linear *)
Definition g_snr_sum (snr bw snr_added bw_added : Q) : Q :=
  let snr_added1 := (snr_added * (bw / bw_added)) in
  (snr + snr_added1).

(* gnpy/core/elements.py: Transceiver.update_snr *)
Definition g_contribution (s : Q) : Q := s.
Definition g_update1 (added : Q) (c : rxch) : rxch :=
  mkRx (baud c) (raw_osnr_bw c) (raw_snr_bw c) (raw_osnr_01 c) (raw_snr_01 c)
       (g_snr_sum (raw_osnr_bw c) (baud c) (added) ref_bw)
       (g_snr_sum (raw_snr_bw c) (baud c) (added) ref_bw)
       (g_snr_sum (raw_osnr_01 c) (ref_bw) (added) ref_bw)
       (g_snr_sum (raw_snr_01 c) (ref_bw) (added) ref_bw).

(* gnpy/tools/json_io.py: Transceiver.__init__, normalisation of one penalty table *)
Definition g_needs_zero (raw : table) : bool := forallb (fun p : Q * Q => (Qlt_bool 0 (fst p))) raw.
Definition g_normalise (raw : table) : table := sort_tab (if g_needs_zero raw then (0, 0) :: raw else raw).
