(* GENERATED on every run by harness/pygen_c08.py from gnpy/core/network.py of /repo - do not edit. *)
From Coq Require Import QArith Qround.
From Verif Require Import Prelude Model.Chain.
Open Scope Z_scope.

(* the classes the design code tests with isinstance; a RamanFiber is a Fiber *)
Inductive nkind := KTrx | KRoadm | KFused | KFiber | KRaman | KEdfa | KMulti.
Definition isinst (k cls : nkind) : bool :=
  match k, cls with
  | KTrx, KTrx | KRoadm, KRoadm | KFused, KFused | KFiber, KFiber | KRaman, KRaman | KRaman, KFiber
  | KEdfa, KEdfa | KMulti, KMulti => true
  | _, _ => false
  end.
(* x / n for a span count n *)
Definition qdivz (x : Q) (n : Z) : res Q :=
  if n =? 0 then Err "ZeroDivisionError:calculate_new_length" else Ok (x / qz n)%Q.
Definition qltb (x y : Q) : bool := Qltb x y.
Definition is_ff (e : elem) : bool := is_fib e || is_fus e.     (* isinstance(_, (Fused, Fiber)) *)

(* network.calculate_new_length (bounds = range(bstart, bstop)) *)
Definition g_calc_len (fiber_length : Q) (bstart bstop target_length : Z) : res (Q * Z) :=
  if (Qltb fiber_length (qz bstop)) then Ok (fiber_length, 1) else
  let n_spans2 := (Qfloor (fiber_length / (qz target_length))%Q) in
  let n_spans1 := (n_spans2 + 1)%Z in
  let* length1 := qdivz fiber_length n_spans1 in
  let* length2 := qdivz fiber_length n_spans2 in
  if (((Qle_bool (qz bstart) length1) && (Qle_bool length1 (qz bstop))) && (negb ((Qle_bool (qz bstart) length2) && (Qle_bool length2 (qz bstop))))) then Ok (length1, n_spans1)
  else if (((Qle_bool (qz bstart) length2) && (Qle_bool length2 (qz bstop))) && (negb ((Qle_bool (qz bstart) length1) && (Qle_bool length1 (qz bstop))))) then Ok (length2, n_spans2)
  else if ((Qle_bool (length2 - (qz target_length))%Q ((qz target_length) - length1)%Q) && (Qle_bool length2 (qz bstop))) then Ok (length2, n_spans2)
  else Ok (length1, n_spans1).

(* network.add_missing_elements_in_network: range(min_length, max_length) and the target span length; c_max = int(convert_length(Span.max_length, Span.length_units)), c_padlen = int(padding / 0.2 * 1e3) *)
Definition g_min_length (c : cfg) : Z := (Z.max (c_padlen c) 50000).
Definition g_target_length (c : cfg) : Z := (Z.max (g_min_length c) (Z.min (c_max c) 90000)).

(* network.add_missing_fiber_attributes matches its template (connector losses, then padding) *)

(* network.split_fiber: when the fibre is left alone; uid of the span number `span` (0-based) of n_spans *)
Definition g_split_single (n_spans : Z) : bool := (n_spans =? 1)%Z.
Definition g_split_uid (uid : string) (span n_spans : Z) : string := (append uid (append "_(" (append (zs (span + 1)%Z) (append "/" (append (zs n_spans) ")"))))).

(* split_fiber builds elements.Fiber(type_variety of the fibre, params = fiber.params.asdict() with the new length); Parameters.asdict / FiberParams.asdict match their templates (harness/pygen_c17.py) *)

(* network.add_roadm_booster: for the successor n of the ROADM (kind k) *)
Definition g_booster_wanted (k : nkind) : bool := (negb (isinst k KTrx || isinst k KFused || isinst k KEdfa || isinst k KMulti)).
Definition g_booster_multi (hm he : bool) (bands : Z) : bool := (hm || ((negb he) && (1 <? bands)%Z)).
Definition g_booster_uid (roadm_uid next_uid : string) : string := (append "Edfa_booster_" (append roadm_uid (append "_to_" next_uid))).

(* network.add_roadm_preamp: for the predecessor n of the ROADM (kind k) *)
Definition g_preamp_wanted (k : nkind) : bool := (negb (isinst k KTrx || isinst k KFused || isinst k KEdfa || isinst k KMulti)).
Definition g_preamp_multi (hm he : bool) : bool := hm.
Definition g_preamp_uid (roadm_uid prev_uid : string) : string := (append "Edfa_preamp_" (append roadm_uid (append "_from_" prev_uid))).

(* network.add_inline_amplifier: for the successor of a fibre (kind k) *)
Definition g_inline_wanted (k : nkind) : bool := ((isinst k KFiber) || (isinst k KRaman)).
Definition g_inline_multi (hm he : bool) : bool := hm.
Definition g_inline_uid (fiber_uid : string) : string := (append "Edfa_" fiber_uid).

(* network.add_connector_loss (Span.con_in, con_out, EOL as passed by add_missing_fiber_attributes); k is the kind of the successor of the fibre *)
Definition g_conn_in (c : cfg) (con_in : option Q) : Q :=
  match con_in with None => (c_cin c) | Some x => x end.
Definition g_conn_out (c : cfg) (con_out : option Q) (k : nkind) : Q :=
  let con_out := match con_out with None => (c_cout c) | Some x => x end in
  if (negb (isinst k KFused)) then (con_out + (c_eol c))%Q else con_out.

(* network.add_fiber_padding (template PAD of harness/pygen_c09.py) *)
Definition g_pad_needed (padding sl : Q) : bool := (qltb sl padding).
Definition g_pad_att (att padding sl : Q) : Q := ((att + padding) - sl)%Q.
Definition g_pad_incr (padding sl : Q) : Q := (padding - sl)%Q.

(* network.prev_node_generator / next_node_generator (templates GENP / GENN of harness/pygen_c09.py): when the walk steps from n to its neighbour p, i.e. when both belong to one span *)
Definition g_prev_link (p n : elem) : bool := (((is_fus p) && (is_ff n)) || ((is_ff p) && (is_fus n))).
Definition g_next_link (p n : elem) : bool := (((is_fus p) && (is_ff n)) || ((is_ff p) && (is_fus n))).

(* tools.worker_utils.designed_network: no_insert_edfas only guards add_missing_elements_in_network, design_network(.., set_connector_losses=True, ..) is called unconditionally; network.design_network / build_network match their templates (add_missing_fiber_attributes first) - Model.Chain.design_line_opt *)
Definition g_entry_point_matched : bool := true.

(* network.get_next_node matches its template *)
(* network.get_previous_node matches its template *)
(* network.get_oms_edge_list matches its template *)
(* network.get_oms_edge_list_from_egress matches its template *)
(* network.check_oms_single_type matches its template *)
Definition g_walks_matched : bool := true.
