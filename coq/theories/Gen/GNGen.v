(* GENERATED on every run by harness/pygen_c03.py from gnpy/core/science_utils.py, gnpy/core/elements.py,
   gnpy/core/parameters.py and gnpy/core/info.py of /repo - do not edit. *)
From Verif Require Import Prelude Num Model.GN.

Section GNGen.
Context {N : Num}.
Local Open Scope num_scope.

(* gnpy/core/science_utils.py: NliSolver *)
Definition g_spm_weight : NT N := (#16 / #27).
Definition g_xpm_weight : NT N := (#2 * (#16 / #27)).
Definition g_weight (self : bool) : NT N := if self then g_spm_weight else g_xpm_weight.
Definition g_effective_length (alpha length : NT N) : NT N := ((none - (nexp ((- alpha) * length))) / alpha).
(* _psi, entry [cut ci, pump cj]; la, leff: asymptotic and effective length of the pump column *)
Definition g_psi (ci cj : pch) (la leff : NT N) : NT N :=
  let beta2 := (((p_beta2 ci) + (p_beta2 cj)) / #2) in
  let right_extreme := ((p_f cj - p_f ci) + ((p_B cj) / #2)) in
  let left_extreme := ((p_f cj - p_f ci) - ((p_B cj) / #2)) in
  let psi := (((nasinh (((((npi * npi) * la) * (nabs beta2)) * (p_B ci)) * right_extreme)) - (nasinh (((((npi * npi) * la) * (nabs beta2)) * (p_B ci)) * left_extreme))) / #2) in
  psi * ((leff * leff) / (((#2 * npi) * (nabs beta2)) * la)).
Definition g_asymptotic_length (alpha : NT N) : NT N := (none / alpha).
(* _gn_analytic, entry [cut ci, pump cj] given psi of that entry; self <-> identity matrix *)
Definition g_eta (ci cj : pch) (self : bool) (psi : NT N) : NT N :=
  let eta_cut_central_frequency := (((((p_gamma ci) * (p_gamma ci)) * (g_weight self)) * psi) / ((p_B ci) * ((p_B cj) * (p_B cj)))) in
  ((p_B ci) * eta_cut_central_frequency).
Definition g_term (ci cj : pch) (eta : NT N) : NT N := (((p_P ci) * ((p_P cj) * (p_P cj))) * eta).

(* gnpy/core/elements.py: Fiber.alpha (lc = loss_coef_func(f) [dB/m]) *)
Definition g_alpha (lc : NT N) : NT N := lc / (#10 * (nlog10 (nexp none))).
(* Fiber.beta2: scalar dispersion without slope / with slope (f_ref = reference frequency), then beta2 *)
Definition g_disp_noslope (f f_ref d : NT N) : NT N := (((f / f_ref) * (f / f_ref)) * d).
Definition g_disp_slope (f f_ref d s : NT N) : NT N :=
  let wavelength := (c_light / f) in
  (d + (s * (wavelength - (c_light / f_ref)))).
Definition g_beta2 (f dispersion : NT N) : NT N := ((- (((c_light / f) * (c_light / f)) * dispersion)) / ((#2 * npi) * c_light)).
(* Fiber.propagate / RamanFiber.propagate: attenuation applied before the NLI is computed; info.apply_attenuation_db *)
Definition g_att_in_db (con_in att_in : NT N) : NT N := (con_in + att_in).
Definition g_att_lin (attenuation_db : NT N) : NT N := (none / (db2lin attenuation_db)).

(* gnpy/core/parameters.py: FiberParams.__init__ *)
Definition g_n1 : NT N := (dec 1468 (-3)).
Definition g_core_radius : NT N := (dec 42 (-7)).
Definition g_n2 : NT N := (dec 26 (-21)).
Definition g_ref_frequency_of_wavelength (w : NT N) : NT N := (c_light / w).
Definition g_ref_wavelength_of_frequency (f : NT N) : NT N := (c_light / f).
Definition g_default_ref_wavelength : NT N := (dec 155 (-8)).
Definition g_default_ref_frequency : NT N := let w := g_default_ref_wavelength in (c_light / w).
Definition g_area_from_gamma (ref_wavelength gamma : NT N) : NT N := (((#2 * npi) * g_n2) / (ref_wavelength * gamma)).
Definition g_default_area : NT N := (dec 83 (-12)).
Definition g_contrast (ref_frequency area : NT N) : NT N := ((dec 5 (-1)) * (((c_light / ((((#2 * npi) * ref_frequency) * g_core_radius) * g_n1)) * (nexp ((npi * (g_core_radius * g_core_radius)) / area))) * ((c_light / ((((#2 * npi) * ref_frequency) * g_core_radius) * g_n1)) * (nexp ((npi * (g_core_radius * g_core_radius)) / area))))).
Definition g_default_dispersion : NT N := (dec 167 (-7)).
Definition g_loss_scale (v : NT N) : NT N := v * (dec 1 (-3)).
Definition g_effective_area_scaling (contrast f : NT N) : NT N :=
  let V := ((((((#2 * npi) * f) / c_light) * g_core_radius) * g_n1) * (nsqrt (#2 * contrast))) in
  let w := (g_core_radius / (nsqrt (nln V))) in
  (npi * (w * w)).
Definition g_gamma_scaling (area_f f : NT N) : NT N := ((((#2 * npi) * g_n2) * f) / (c_light * area_f)).

End GNGen.
