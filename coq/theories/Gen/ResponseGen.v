(* GENERATED on every run by harness/pygen_c19.py from the source files of /repo named below - do not edit. *)
From Verif Require Import Prelude Model.Response.
From Coq Require Import QArith.
Open Scope Z_scope.

(* ---- fixed vocabulary of the translator *)
Definition mv_round (x : option Q) : option mval := match x with Some m => Some (MNum (round2q m)) | None => None end.
Fixpoint oseq_acc (acc : list (string * mval)) (l : list (string * option mval)) : option (list (string * mval)) :=
  match l with
  | [] => Some (rev acc)
  | (k, Some v) :: t => oseq_acc ((k, v) :: acc) t
  | (_, None) :: _ => None
  end.
Definition oseq := oseq_acc [].
Definition cell_gt (a b : cell) : res bool :=
  match a, b with CNum x, CNum y => Ok (negb (Qle_bool x y)) | _, _ => Err "TypeError:>" end.
Definition cell_le (a b : cell) : res bool :=
  match a, b with CNum x, CNum y => Ok (Qle_bool x y) | _, _ => Err "TypeError:<=" end.
Definition cell_lt (a b : cell) : res bool :=
  match a, b with CNum x, CNum y => Ok (negb (Qle_bool y x)) | _, _ => Err "TypeError:<" end.
(* how _jsontopath_metric prints a metric: as read, rounded again, as dBm rounded, in Gbit/s rounded *)
Inductive colfmt := CRaw | CRound | CRoundDbm | CRoundGiga.

Definition g_BLOCKING_NOPATH : list string := ["NO_PATH"%string; "NO_PATH_WITH_CONSTRAINT"%string; "NO_FEASIBLE_BAUDRATE_WITH_SPACING"%string; "NO_COMPUTED_SNR"%string].
Definition g_BLOCKING_NOMODE : list string := ["NO_FEASIBLE_MODE"%string; "MODE_NOT_FEASIBLE"%string].
Definition g_BLOCKING_NOSPECTRUM : list string := ["NO_SPECTRUM"%string; "NOT_ENOUGH_RESERVED_SPECTRUM"%string].

(* gnpy/topology/request.py: get_penalty_from_receiver (the receiver's array of one impairment; None = not in the dict) *)
Definition g_penalty_val (p : option (list xq)) : option mval :=
  match p with
  | None => Some (MStr "not evaluated"%string)
  | Some l => match fins l with
              | Some ql => mv_round (qmean ql)
              | None => Some (MStr "Infinity"%string)
              end
  end.

(* gnpy/topology/request.py: ResultElement.path_properties, inner path_metric(pth, req): r = figures of pth[-1] *)
Definition g_metric_obj (nv : string * mval) : json :=
  JObj [("metric-type"%string, JStr (fst nv)); ("accumulative-value"%string, mval_json (snd nv))].
Definition g_expected_metrics (r : rxfig) (o : obs) : option (list (string * mval)) :=
  oseq [("SNR-bandwidth"%string, mv_round (qmean (r_snr r)));
        ("SNR-0.1nm"%string, mv_round (qmean (r_snr01 r)));
        ("OSNR-bandwidth"%string, mv_round (qmean (r_osnr r)));
        ("OSNR-0.1nm"%string, mv_round (qmean (r_osnr01 r)));
        ("lowest_SNR-0.1nm"%string, mv_round (qmin_list (r_snr01 r)));
        ("biggest_SNR-0.1nm"%string, mv_round (qmax_list (r_snr01 r)));
        ("PDL_penalty"%string, g_penalty_val (r_pdl r));
        ("CD_penalty"%string, g_penalty_val (r_cd r));
        ("PMD_penalty"%string, g_penalty_val (r_pmd r));
        ("reference_power"%string, Some (MNum (o_power o)));
        ("path_bandwidth"%string, Some (MNum (o_bw o)))].
Definition g_path_metric (r : option rxfig) (o : obs) : res json :=
  match r with
  | None => Err "IndexError:empty path"
  | Some rx => match g_expected_metrics rx o with
               | None => Err "ValueError:empty receiver array"
               | Some l => Ok (JArr (map g_metric_obj l))
               end
  end.

(* gnpy/topology/request.py: ResultElement.detailed_path_json *)
Definition g_hop_obj (index : Z) (uid : string) : json :=
  JObj [("path-route-object"%string, JObj [("index"%string, jint index); ("num-unnum-hop"%string, JObj [("node-id"%string, JStr uid); ("link-tp-id"%string, JStr uid)])])].
Definition g_label_obj (index : Z) (nm : list (Z * Z)) : json :=
  JObj [("path-route-object"%string, JObj [("index"%string, jint index); ("label-hop"%string, JArr (map (fun p : Z * Z => JObj [("N"%string, jint (fst p)); ("M"%string, jint (snd p))]) nm))])].
Definition g_tsp_obj (index : Z) (ty : string) (mode : option string) : json :=
  JObj [("path-route-object"%string, JObj [("index"%string, jint index); ("transponder"%string, JObj [("transponder-type"%string, JStr ty); ("transponder-mode"%string, ostr_json mode)])])].
(* the loop: hop object; label object unless blocked; transponder object after a transceiver; index counts objects *)
Fixpoint g_dpj_loop (lab : option (list (Z * Z))) (ty : string) (mode : option string) (index : Z) (path : list hop)
  : list json :=
  match path with
  | [] => []
  | h :: t =>
      g_hop_obj index (h_uid h) ::
      match lab with
      | Some nm => g_label_obj (index + 1) nm ::
                   (if h_trx h then g_tsp_obj (index + 1 + 1) ty mode :: g_dpj_loop lab ty mode (index + 1 + 1 + 1) t
                    else g_dpj_loop lab ty mode (index + 1 + 1) t)
      | None => if h_trx h then g_tsp_obj (index + 1) ty mode :: g_dpj_loop lab ty mode (index + 1 + 1) t
                else g_dpj_loop lab ty mode (index + 1) t
      end
  end.
(* the two ServiceError guards *)
Definition g_labels_of (o : obs) : res (option (list (Z * Z))) :=
  match o_block o with
  | None => if (isNone (o_M o) || isNone (o_N o)) then Err "ServiceError:request should have positive non null n and m values"
            else match o_N o, o_M o with
                 | Some n, Some m => Ok (Some (combine n m))
                 | _, _ => Err "ServiceError:request should have positive non null n and m values"
                 end
  | Some _ => if (negb (isNone (o_M o)) || negb (isNone (o_N o))) then Err "ServiceError:request should not have label M and N values at this point"
              else Ok None
  end.
Definition g_detailed_path_json (o : obs) : res (list json) :=
  match o_path o with
  | [] => Ok []
  | _ => let* lab := g_labels_of o in Ok (g_dpj_loop lab (o_tsp o) (o_mode o) 0 (o_path o))
  end.

(* gnpy/topology/request.py: ResultElement.path_properties *)
Definition g_path_properties (o : obs) : res json :=
  if o_bidir o then
  let* pm := g_path_metric (o_fwd o) o in
  let* za := g_path_metric (o_rev o) o in
  let* pro := g_detailed_path_json o in
  Ok (JObj [("path-metric"%string, pm); ("z-a-path-metric"%string, za); ("path-route-objects"%string, JArr pro)])
  else
  let* pm := g_path_metric (o_fwd o) o in
  let* pro := g_detailed_path_json o in
  Ok (JObj [("path-metric"%string, pm); ("path-route-objects"%string, JArr pro)]).

(* gnpy/topology/request.py: ResultElement.pathresult (AttributeError of a missing blocking_reason = served) *)
Definition g_pathresult (o : obs) : res json :=
  match o_block o with
  | Some r =>
      if mem_s r g_BLOCKING_NOPATH then
        Ok (JObj [("response-id"%string, JStr (o_id o)); ("no-path"%string, JObj [("no-path"%string, JStr r)])])
      else
        let* pp := g_path_properties o in
  Ok (JObj [("response-id"%string, JStr (o_id o)); ("no-path"%string, JObj [("no-path"%string, JStr r); ("path-properties"%string, pp)])])
  | None =>
      let* pp := g_path_properties o in
  Ok (JObj [("response-id"%string, JStr (o_id o)); ("path-properties"%string, pp)])
  end.

(* gnpy/topology/request.py: jsontocsv, decisions of one row *)
Definition g_csv_reports_path (no_path_reason : string) : bool := negb (mem_s no_path_reason g_BLOCKING_NOPATH).
Definition g_csv_pass (rsnr_min rsnr minosnr : cell) : res bool :=
  match rsnr_min with CEmpty => cell_ge rsnr minosnr | _ => cell_ge rsnr_min minosnr end.
(* (emitter position, receiver position counted from the end): blocked response, served response *)
Definition g_csv_positions : (nat * nat) * (nat * nat) :=
  ((1, 2), (2, 3))%nat.

(* gnpy/topology/request.py: _jsontopath_metric: the metric each returned value reads and how it is printed *)
Definition g_jsontopath_cols : list (string * colfmt) :=
  [("OSNR-0.1nm"%string, CRound); ("SNR-0.1nm"%string, CRound); ("SNR-bandwidth"%string, CRound); ("lowest_SNR-0.1nm"%string, CRaw); ("biggest_SNR-0.1nm"%string, CRaw); ("PDL_penalty"%string, CRaw); ("CD_penalty"%string, CRaw); ("PMD_penalty"%string, CRaw); ("reference_power"%string, CRoundDbm); ("path_bandwidth"%string, CRoundGiga)].

(* gnpy/topology/request.py: _jsontoparams: where each of the returned values comes from (metric:k = k-th value of
   _jsontopath_metric, mode:x = attribute of the transceiver mode, path / spectrum = the joined hop ids / label strings);
   every label object is printed as "[N...], [M...]", duplicates removed, joined with the separator *)
Definition g_jsontoparams_values : list string := ["metric:9"%string; "metric:0"%string; "metric:1"%string; "metric:2"%string; "metric:3"%string; "metric:4"%string; "metric:5"%string; "metric:6"%string; "metric:7"%string; "mode:OSNR+margin"%string; "mode:baud_rate"%string; "metric:8"%string; "path"%string; "spectrum"%string; "mode:bit_rate"%string].
Definition g_csv_separators : string * string := (" | "%string, " | "%string).

(* gnpy/topology/request.py: compare_reqs: the attributes compared with ==, in order (then same_disj) *)
Definition g_compare_fields : list string := ["source"%string; "destination"%string; "bidir"%string; "tsp"%string; "tsp_mode"%string; "baud_rate"%string; "nodes_list"%string; "loose_list"%string; "spacing"%string; "power"%string; "nb_channel"%string; "f_min"%string; "f_max"%string; "format"%string; "OSNR"%string; "roll_off"%string; "tx_power"%string].
Definition g_compare_reqs (r1 r2 : areq) (disj : disjs) : bool :=
  key_eqb (a_key r1) (a_key r2) && same_disj (a_id r1) (a_id r2) disj.

(* gnpy/topology/request.py: requests_aggregation: who absorbs, and what the absorbing request becomes *)
Definition g_can_absorb (req : areq) (disj : disjs) (this_r : areq) : bool :=
  (negb (String.eqb (a_id req) (a_id this_r)) && g_compare_reqs req this_r disj && a_mode_set this_r).
Definition g_merge (this_r req : areq) : areq :=
  mkA (a_tag this_r) (a_id this_r ++ " | "%string ++ a_id req)%string (a_members this_r ++ a_members req)
      (a_key this_r) (a_mode_set this_r) (a_bw this_r + a_bw req)%Q
      (a_N this_r ++ a_N req) (a_M this_r ++ a_M req) (a_bidir this_r).

(* gnpy/tools/worker_utils.py: planning: the steps in order (function, arguments, assigned names) *)
Definition g_planning_steps : list (string * list string * list string) :=
  [("build_oms_list"%string, ["network"%string; "equipment"%string], ["oms_list"%string]);
   ("requests_from_json"%string, ["data"%string; "equipment"%string], ["rqs"%string]);
   ("check_request_path_ids"%string, ["rqs"%string], []);
   ("correct_json_route_list"%string, ["network"%string; "rqs"%string], ["rqs"%string]);
   ("disjunctions_from_json"%string, ["data"%string], ["dsjn"%string]);
   ("deduplicate_disjunctions"%string, ["dsjn"%string], ["dsjn"%string]);
   ("requests_aggregation"%string, ["rqs"%string; "dsjn"%string], ["rqs"%string; "dsjn"%string]);
   ("compute_path_dsjctn"%string, ["network"%string; "equipment"%string; "rqs"%string; "dsjn"%string], ["pths"%string]);
   ("compute_path_with_disjunction"%string, ["network"%string; "equipment"%string; "rqs"%string; "pths"%string; "redesign"%string], ["propagatedpths"%string; "reversed_pths"%string; "reversed_propagatedpths"%string]);
   ("pth_assign_spectrum"%string, ["pths"%string; "rqs"%string; "oms_list"%string; "reversed_pths"%string; "user_policy"%string], [])].
