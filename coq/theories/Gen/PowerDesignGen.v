(* GENERATED on every run by harness/pygen_c09.py from gnpy/core/utils.py and gnpy/core/network.py of /repo - do not edit. *)
From Coq Require Import QArith Qminmax.
From Verif Require Import Prelude Model.Select Model.PowerDesign.
Open Scope Q_scope.

(* utils.round2float *)
Definition g_round2float (number step : Q) : Q :=
  let step := (round_nd step 1%nat) in
  if (Qle_bool (1 # 100) step) then
    let number := (round_nd (number / step) 0%nat) in
    let number := (round_nd (number * step) 1%nat) in
    number
  else
    let number := (round_nd number 2%nat) in
    number.

(* network.target_power: the slope rule for a span loss node_loss (delta_power_range_db = [lo, hi, step]) *)
Definition g_dp_rule (c : span_cfg) (node_loss lo hi step : Q) : Q :=
  let dp := (round2float ((node_loss - (c_ref c)) * (c_slope c)) step) in
  let dp := (Qmax lo dp) in
  let dp := (Qmin hi dp) in
  dp.

(* network.prev_node_generator / next_node_generator: when the walk steps from n to its neighbour p *)
Definition g_prev_link (p n : elem) : bool := (((is_fus p) && (is_ff n)) || ((is_ff p) && (is_fus n))).
Definition g_next_link (p n : elem) : bool := (((is_fus p) && (is_ff n)) || ((is_ff p) && (is_fus n))).

(* network.span_loss: what is returned from the summed losses and the summed Raman gain estimates *)
Definition g_span_ret (loss gain : Q) : Q := (loss - gain).

(* network.add_fiber_padding *)
Definition g_pad_needed (padding sl : Q) : bool := (qltb sl padding).
Definition g_pad_att (att padding sl : Q) : Q := ((att + padding) - sl).
Definition g_pad_dsl_incr (padding sl : Q) : Q := (padding - sl).

(* network.compute_gain_power_and_tilt_target (SRS deviation 0): (gain_target, power_target, dp, voa) *)
Definition g_targets (c : span_cfg) (pref_total prev_dp prev_voa node_loss : Q) (tp : res Q) (a : ampn)
  : res (Q * Q * Q * Q) :=
  let deviation_db := 0 in
  let voa := ozero (an_ovoa a) in
  let in_voa := ozero (an_ivoa a) in
  let* dp := match an_dp a with
             | None => (let* t := tp in Ok (t + voa))
             | Some u => Ok u
             end in
  if ((match an_gain a with None => true | Some _ => false end) || (c_power_mode c)) then
    let gain_target := (((((node_loss + deviation_db) + dp) - prev_dp) + prev_voa) + in_voa) in
    let pt := (pref_total + dp) in
    Ok (gain_target, pt, dp, voa)
  else
    match an_gain a with
    | None => Err "unreachable"
    | Some g =>
        let gain_target := g in
        let dp := ((((prev_dp - (node_loss + deviation_db)) - prev_voa) + gain_target) - in_voa) in
        let pt := (pref_total + dp) in
        Ok (gain_target, pt, dp, voa)
    end.

(* network.set_one_amplifier: power reduction of an amplifier with imposed type_variety *)
Definition g_red_power_mode (p_max pref_total dp : Q) : Q := (Qmin 0 (p_max - (pref_total + dp))).
Definition g_red_gain_mode (p_max pref_total prev_dp node_loss prev_voa gain_target : Q) : Q :=
  let pout := ((((pref_total + prev_dp) - node_loss) - prev_voa) + gain_target) in (Qmin 0 (p_max - pout)).

(* network.set_amplifier_voa: the automatic output VOA *)
Definition g_auto_voa (c : span_cfg) (pmax gmax pt gain : Q) : Q :=
  let voa := (Qmin (pmax - pt) (gmax - gain)) in
  let voa := (Qmax (Qmin ((round2float voa (c_voa_step c)) - (c_voa_margin c)) voa) 0) in
  voa.

(* network.set_egress_amplifier: what the first amplifier is handed, and the total reference power of a band *)
Definition g_start_dp (p0 pref_ch : Q) : Q := (p0 - pref_ch).
Definition g_pref_total (pref_ch nch_db : Q) : Q := (pref_ch + nch_db).

(* network.set_egress_amplifier: walk loop template-matched (call sites, hand-over of dp / voa) *)
Definition g_walk_matched : bool := true.
