(* GENERATED on every run by harness/pygen_c15.py from gnpy/topology/spectrum_assignment.py of /repo - do not edit. *)
From Coq Require Import QArith.
From Verif Require Import Prelude Model.Spectrum Model.Oms.
Local Open Scope Z_scope.

(* xs[0] / xs[-1] *)
Definition hd_res (l : list Z) : res Z := match l with [] => Err "IndexError" | h :: _ => Ok h end.
Definition last_res (l : list Z) : res Z := match l with [] => Err "IndexError" | _ => Ok (List.last l 0) end.

(* gnpy/topology/spectrum_assignment.py: frequency_to_n *)
Definition g_frequency_to_n (freq grid : Q) : Z :=
  (qtrunc ((freq - (193100000000000 # 1))%Q / grid)%Q).

(* gnpy/topology/spectrum_assignment.py: nvalue_to_frequency *)
Definition g_nvalue_to_frequency (nvalue : Z) (grid : Q) : Q :=
  ((193100000000000 # 1) + ((inject_Z nvalue) * grid)%Q)%Q.

(* gnpy/topology/spectrum_assignment.py: Bitmap.__init__ (gb, the guard band in slots, is a derived field of the model's record) *)
Definition g_Bitmap_init (f_min f_max grid guardband : Q) (existing : option (list slot)) : res bitmap :=
  let n_min := (g_frequency_to_n f_min grid) in
  let n_max := (g_frequency_to_n f_max grid) in
  let fimin := (g_frequency_to_n (f_min + guardband)%Q default_grid) in
  let fimax := (g_frequency_to_n (f_max - guardband)%Q default_grid) in
  let ix := (zrange n_min (n_max + 1)) in
  match existing with
  | None => Ok (mkB n_min n_max fimin fimax (qtrunc (guardband / grid)) ix (rep SF ((n_max - n_min) + 1)))
  | Some bitmap => if ((Z.of_nat (length bitmap)) =? (Z.of_nat (length ix))) then Ok (mkB n_min n_max fimin fimax (qtrunc (guardband / grid)) ix bitmap)
                   else Err "SpectrumError"
  end.

(* gnpy/topology/spectrum_assignment.py: Bitmap.insert_left *)
Definition g_insert_left (b : bitmap) (newbitmap : list slot) : res bitmap :=
  let v1 := (newbitmap ++ (cells b)) in
  let v2 := (zrange ((n_min b) - (Z.of_nat (length newbitmap))) (n_min b)) in
  let v3 := (v2 ++ (idx b)) in
  let* m1 := hd_res v3 in
  let v4 := m1 in
  Ok (mkB v4 (n_max b) (fi_min b) (fi_max b) (gb b) v3 v1).

(* gnpy/topology/spectrum_assignment.py: Bitmap.insert_right *)
Definition g_insert_right (b : bitmap) (newbitmap : list slot) : res bitmap :=
  let v1 := ((cells b) ++ newbitmap) in
  let v2 := ((idx b) ++ (zrange ((n_max b) + 1) (((n_max b) + 1) + (Z.of_nat (length newbitmap))))) in
  let* m1 := last_res v2 in
  let v3 := m1 in
  Ok (mkB (n_min b) v3 (fi_min b) (fi_max b) (gb b) v2 v1).

(* gnpy/topology/spectrum_assignment.py: create_oms_bitmap - the loop over the further bands and the final pad *)
Fixpoint g_oms_loop (grid : Q) (n_min n_max band0_n_max : Z) (rest : list band) : list slot :=
  match rest with
  | [] => (rep SU (n_max - band0_n_max))
  | band :: rest' =>
      let band_n_min := (Z.max (g_frequency_to_n (fst band) grid) (band0_n_max + 1)) in
      let band_n_max := (Z.max (g_frequency_to_n (snd band) grid) (band_n_min - 1)) in
      ((rep SU ((band_n_min - band0_n_max) - 1)) ++ (rep SF ((band_n_max - band_n_min) + 1))) ++ g_oms_loop grid n_min n_max band_n_max rest'
  end.
(* gnpy/topology/spectrum_assignment.py: create_oms_bitmap (common_range = find_elements_common_range(oms.el_list, equipment)) *)
Definition g_create_oms_bitmap (common_range : list band) (f_min f_max grid : Q) : res (list slot) :=
  let n_min := g_frequency_to_n f_min grid in
  let n_max := g_frequency_to_n f_max grid in
  match common_range with
  | [] => Err "IndexError"
  | band0 :: rest =>
      let band0_n_min := (g_frequency_to_n (fst band0) grid) in
      let band0_n_max := (g_frequency_to_n (snd band0) grid) in
      Ok (((rep SU (band0_n_min - n_min)) ++ (rep SF ((band0_n_max - band0_n_min) + 1))) ++ g_oms_loop grid n_min n_max band0_n_max rest)
  end.

(* gnpy/topology/spectrum_assignment.py: align_grids - one OMS of the loop *)
Definition g_align_one (nmin nmax : Z) (b : bitmap) : res bitmap :=
  let* b1 := if (0 <? ((n_min b) - nmin)) then g_insert_left b (rep SO ((n_min b) - nmin)) else Ok b in
  if (0 <? (nmax - (n_max b1))) then g_insert_right b1 (rep SO (nmax - (n_max b1))) else Ok b1.
(* gnpy/topology/spectrum_assignment.py: align_grids (min / max of an empty sequence: ValueError) *)
Definition g_align_grids (oms_list : list bitmap) : res (list bitmap) :=
  match oms_list with
  | [] => Err "ValueError"
  | o0 :: rest =>
      let nmin := fold_left Z.min (map (fun o => (n_min o)) rest) ((fun o => (n_min o)) o0) in
      let nmax := fold_left Z.max (map (fun o => (n_max o)) rest) ((fun o => (n_max o)) o0) in
      mapM (g_align_one nmin nmax) oms_list
  end.

(* gnpy/topology/spectrum_assignment.py: find_network_freq_range (amp_bands = the bands of all Edfa / Multiband_amplifier nodes, in node order) *)
Definition g_find_network_freq_range (amp_bands : list band) : res (Q * Q) :=
  let min_frequencies := map (fun a => (fst a)) amp_bands in
  let max_frequencies := map (fun a => (snd a)) amp_bands in
  match min_frequencies, max_frequencies with
  | x :: xs, y :: ys => Ok (fold_left qmin xs x, fold_left qmax ys y)
  | _, _ => Err "ValueError"
  end.

(* gnpy/topology/spectrum_assignment.py: build_oms_list, one step of the walk: next(n[1] for n in network.edges([nd_out]) if <filter>)
   (the statements around it - add_element, nd_out.oms_id = oms_id, nd_out.oms = oms, unconditionally - are matched) *)
Definition g_walk_next (nd_in nd_out : Z) (succs : list Z) : res Z :=
  match filter (fun s => (negb (s =? nd_in))) succs with
  | [] => Err "StopIteration"
  | nx :: _ => Ok nx
  end.
