(* GENERATED on every run by harness/pygen_c11.py from gnpy/topology/request.py and gnpy/tools/json_io.py of
   /repo - do not edit. *)
From Verif Require Import Prelude Model.Route.
Open Scope Z_scope.

(* request.py: compute_constrained_path *)
Definition g_ccp (n : net) (s t : Z) (nodes_list : list Z) (strict_list : list bool) : res ccp :=
  if (negb (last nodes_list (t + 1) =? t)) then Err "ValueError" else
  let inc := (removelast nodes_list) in
  match explicit_path n inc s t with
  | Some total_path => Ok (CExplicit total_path)
  | None => Ok (CSearch (search_by (ngraph n) s t (fun path => (ispart inc path)) (negb (existsb (fun b : bool => b) (removelast strict_list))) "NO_PATH" "NO_PATH_WITH_CONSTRAINT"))
  end.

(* request.py: ispart (i = pthb.index(elem), None when elem is not in pthb) *)
Fixpoint g_ispart_from (j : nat) (ptha pthb : list Z) : bool :=
  match ptha with
  | [] => true
  | elem :: rest =>
      match idx pthb elem with
      | None => false
      | Some i => if (j <=? i)%nat then g_ispart_from i rest pthb else false
      end
  end.

(* request.py: explicit_path, rejection test of the spelled path *)
Definition g_explicit_reject (n : net) (node_list : list Z) (t : Z) (path : list Z) : bool :=
  ((negb (last path (t + 1) =? t)) || (negb (walkb (ngraph n) path)) || (negb (ispart node_list path))).

(* request.py: find_reversed_path, which elements of the path contribute their OMS *)
Definition g_rev_keeps (n : net) (el : Z) : bool :=
  ((negb (is_trx n el)) && (negb (is_roadm n el))).

(* json_io.py: network_from_json, weight of the edge leaving a node (cm; is_fibre = isinstance(node, Fiber)) *)
Definition g_edge_weight (is_fibre : bool) (length_cm : Z) : Z :=
  if is_fibre then length_cm else 1.

(* request.py: correct_json_route_list: positions popped from loose_list / nodes_list when the own source is
   listed first, the own destination last (Python indices); an unusable LOOSE hop pops the hop type found at
   nodes_list.index(n_id) (matched literally) *)
Definition g_clean_pops : list Z := [0; 0; (-1); (-1)].

(* request.py: compare_reqs, the attributes that must be equal (plain `req1.x == req2.x`) *)
Definition g_twin_attrs : list string :=
  ["source"; "destination"; "bidir"; "tsp"; "tsp_mode"; "baud_rate"; "nodes_list"; "loose_list"; "spacing"; "power"; "nb_channel"; "f_min"; "f_max"; "format"; "OSNR"; "roll_off"; "tx_power"]%string.

(* topology_parameters.py: BaseParams.update_attr matched literally: list and dict defaults are deep-copied per
   instance, so no PathRequest shares nodes_list / loose_list with another one (batches are independent) *)

(* json_io.py: requests_from_json matched literally: the route objects are sorted by x['index'] (numeric), the
   include list and the hop types are read from them in that order *)

(* request.py: compute_path_dsjctn step 4 (full_path = the candidate, short_path = its ROADM short list) *)
Definition g_vector_include_ok (nodes_list full_path short_path : list Z) : bool :=
  (ispart nodes_list full_path).
Definition g_vector_strict (strict_list : list bool) : bool :=
  (existsb (fun b : bool => b) strict_list).
