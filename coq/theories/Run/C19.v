(* Case runners / text renderers for the C19 correspondence. *)
From Verif Require Import Prelude Model.Response.
From Coq Require Import QArith Qreduction.
Open Scope Z_scope.

Definition qs (q : Q) : string :=
  let r := Qred q in (zs (Qnum r) ++ "/" ++ zs (Zpos (Qden r)))%string.
Definition dq : string := String (ascii_of_nat 34) EmptyString.
Definition tab : string := String (ascii_of_nat 9) EmptyString.

(* JSON text; a number n/d is written {"$q":"n/d"} *)
Fixpoint render (j : json) : string :=
  match j with
  | JNull => "null"
  | JBool b => if b then "true" else "false"
  | JNum q => "{" ++ dq ++ "$q" ++ dq ++ ":" ++ dq ++ qs q ++ dq ++ "}"
  | JStr s => dq ++ s ++ dq
  | JArr l => "[" ++ join "," (map render l) ++ "]"
  | JObj kv => "{" ++ join "," (map (fun p : string * json => let (k, v) := p in dq ++ k ++ dq ++ ":" ++ render v) kv) ++ "}"
  end%string.

(* structural equality, numbers by value, object keys in order *)
Fixpoint json_eqb (a b : json) : bool :=
  match a, b with
  | JNull, JNull => true
  | JBool x, JBool y => Bool.eqb x y
  | JNum x, JNum y => Qeq_bool x y
  | JStr x, JStr y => String.eqb x y
  | JArr la, JArr lb =>
      (fix go (la lb : list json) : bool :=
         match la, lb with
         | [], [] => true
         | x :: ta, y :: tb => json_eqb x y && go ta tb
         | _, _ => false
         end) la lb
  | JObj la, JObj lb =>
      (fix go (la lb : list (string * json)) : bool :=
         match la, lb with
         | [], [] => true
         | (k, x) :: ta, (k', y) :: tb => String.eqb k k' && json_eqb x y && go ta tb
         | _, _ => false
         end) la lb
  | _, _ => false
  end.

(* first difference between two documents: path and the two leaves (None = equal); keeps the output short *)
Fixpoint jdiff (a b : json) : option string :=
  match a, b with
  | JNull, JNull => None
  | JBool x, JBool y => if Bool.eqb x y then None else Some "bool"%string
  | JNum x, JNum y => if Qeq_bool x y then None else Some (": number " ++ qs x ++ " vs " ++ qs y)%string
  | JStr x, JStr y => if String.eqb x y then None else Some (": string '" ++ x ++ "' vs '" ++ y ++ "'")%string
  | JArr la, JArr lb =>
      (fix go (i : Z) (la lb : list json) : option string :=
         match la, lb with
         | [], [] => None
         | x :: ta, y :: tb =>
             match jdiff x y with
             | Some d => Some ("[" ++ zs i ++ "]" ++ d)%string
             | None => go (i + 1) ta tb
             end
         | _, _ => Some ": array length"%string
         end) 0 la lb
  | JObj la, JObj lb =>
      (fix go (la lb : list (string * json)) : option string :=
         match la, lb with
         | [], [] => None
         | (k, x) :: ta, (k', y) :: tb =>
             if String.eqb k k' then
               match jdiff x y with
               | Some d => Some ("/" ++ k ++ d)%string
               | None => go ta tb
               end
             else Some (": key '" ++ k ++ "' vs '" ++ k' ++ "'")%string
         | _, _ => Some ": object size"%string
         end) la lb
  | _, _ => Some ": kind"%string
  end.

(* validator verdicts (tolerant Spec, exact shape) + generator-model comparison (model vs implementation) *)
Definition check_case (o : obs) (resp : json) : string :=
  ("V:" ++ bs (response_ok o resp) ++ ";X:" ++ bs (response_exact o resp) ++ ";" ++
   match pathresult o with
   | Ok j => match jdiff j resp with None => "G:T" | Some d => "G:F:" ++ d end
   | Err e => "G:E:" ++ e
   end)%string.

(* one term per reported request: validator verdict, generator comparison, CSV row *)
Definition check_all (o : obs) (resp : json) (eqp : eqpt) (margin pdbm : Q) : string :=
  (check_case o resp ++ "@@" ++
   match csv_row eqp margin pdbm resp with
   | Ok row => join tab (map (fun p : string * cell => (fst p ++ "=" ++ match snd p with
                                                                       | CEmpty => "E" | CStr s => "S" ++ s
                                                                       | CNum q => "N" ++ qs q | CBool b => "B" ++ bs b end)) row)
   | Err e => "E:" ++ e
   end)%string.

(* macros for generated literals: they expand to exactly the JSON term the generic emitter would write; the harness
   uses them only after checking that the real object has exactly these keys in this order *)
Definition JH (i : Z) (a b : string) : json := item_obj i (IHop a b).
Definition JL (i : Z) (l : list (Z * Z)) : json := item_obj i (ILabel l).
Definition JT (i : Z) (ty : string) (m : option string) : json := item_obj i (ITsp ty m).
Definition JM (name : string) (v : json) : json :=
  JObj [("metric-type"%string, JStr name); ("accumulative-value"%string, v)].
Definition QA (den : positive) (l : list Z) : list Q := map (fun n => n # den) l.
Definition FA (den : positive) (l : list (option Z)) : list xq :=
  map (fun o => match o with Some n => Fin (n # den) | None => PInf end) l.

(* the implementation raised while building the response: what does the model do? *)
Definition check_raise (o : obs) : string :=
  match pathresult o with
  | Ok j => "G:OK"%string
  | Err e => ("G:E:" ++ e)%string
  end.

(* ---- CSV *)
Definition cell_s (c : cell) : string :=
  match c with
  | CEmpty => "E"
  | CStr s => "S" ++ s
  | CNum q => "N" ++ qs q
  | CBool b => "B" ++ bs b
  end%string.
Definition csv_s (eqp : eqpt) (margin pdbm : Q) (resp : json) : string :=
  match csv_row eqp margin pdbm resp with
  | Ok row => join tab (map (fun p : string * cell => (fst p ++ "=" ++ cell_s (snd p))%string) row)
  | Err e => ("E:" ++ e)%string
  end.

(* ---- aggregation *)
Definition nat_s (n : nat) : string := zs (Z.of_nat n).
Definition areq_s (r : areq) : string :=
  join tab [a_id r; join "," (map nat_s (a_members r)); qs (a_bw r); ozlist_s (a_N r); ozlist_s (a_M r); bs (a_bidir r)].
Definition agg_s (reqs : list areq) (disj : disjs) : string :=
  let '(out, d) := requests_aggregation reqs disj in
  (join ";;" (map areq_s out) ++ "##" ++ join ";;" (map (join tab) d))%string.

(* compact constructors for generated literals *)
Definition ar (tag : nat) (id : string) (key : list fld) (mode_set : bool) (bw : Q) (n m : list (option Z)) (bidir : bool) : areq :=
  mkA tag id [tag] key mode_set bw n m bidir.
