(* Case runner for the C03 correspondence: the GN model instantiated at NumF (binary64), evaluated by vm_compute.
   Inputs are hex float literals (exact); outputs are rendered exactly by NumRun.fstr. *)
From Verif Require Import Prelude Num NumRun Model.GN.
From Coq Require Export PrimFloat.
Notation float := PrimFloat.float.

Definition fibF := @fiber NumF.
Definition fb (len att_in con_in : float) (r : @ref_spec NumF) (l : @loss_spec NumF) (d : @disp_spec NumF)
  (a : @area_spec NumF) : fibF := @mkFiber NumF len att_in con_in r l d a.
Definition rD : @ref_spec NumF := @RefDefault NumF.
Definition rW (w : float) : @ref_spec NumF := @RefWavelength NumF w.
Definition rF (f : float) : @ref_spec NumF := @RefFrequency NumF f.
Definition lS (v : float) : @loss_spec NumF := @LossScalar NumF v.
Definition lT (fs vs : list float) : @loss_spec NumF := @LossTable NumF fs vs.
Definition dD : @disp_spec NumF := @DispDefault NumF.
Definition dS (d : float) : @disp_spec NumF := @DispScalar NumF d.
Definition dL (d s : float) : @disp_spec NumF := @DispSlope NumF d s.
Definition dT (fs vs : list float) : @disp_spec NumF := @DispTable NumF fs vs.
Definition aD : @area_spec NumF := @AreaDefault NumF.
Definition aA (a : float) : @area_spec NumF := @AreaGiven NumF a.
Definition aG (g : float) : @area_spec NumF := @GammaGiven NumF g.
Definition ch (f b p : float) : @chan NumF := @mkC NumF f b p.

Definition run_nli (f : fibF) (l : list (@chan NumF)) : string :=
  match fiber_nli f l with
  | Ok v => flist_s v
  | Err e => append "E:" e
  end.

(* fibre coefficients at one frequency: alpha, beta2, gamma *)
Definition run_phys (f : fibF) (x : float) : string :=
  match attach f (@mkC NumF x x x) with
  | Ok p => flist_s [p_alpha p; p_beta2 p; p_gamma p]
  | Err e => append "E:" e
  end.

(* self-test of the binary64 elementary functions *)
Definition run_fun (k : Z) (x : float) : string :=
  fstr (if k =? 0 then F.fexp x else if k =? 1 then F.fln x else if k =? 2 then F.fasinh x
        else if k =? 3 then F.fpow10 x else F.flog10 x).
