(* Case runner for the C17 correspondence: amplifier settings of one line as the model designs them from the
   loaded chain, their export, and the SimParams walk. *)
From Verif Require Import Prelude Model.Chain Model.Redesign Run.C08.
From Coq Require Import QArith.
Open Scope Z_scope.

Fixpoint lookup {A} (k : string) (l : list (string * A)) (d : A) : A :=
  match l with [] => d | (k', v) :: t => if String.eqb k k' then v else lookup k t d end.
Definition mk_lib (l : list (string * alib)) (k : string) : option alib :=
  lookup k (map (fun kv => (fst kv, Some (snd kv))) l) None.
Definition lb (pmax gfm : Q) (vauto : bool) : alib := mkLib pmax gfm vauto.
Definition mk_sel (l : list (string * string)) (k : string) : string := lookup k l ""%string.
Definition mk_rgain (l : list (string * Q)) (k : string) : Q := lookup k l 0%Q.
(* operational block of a loaded amplifier; an amplifier inserted by auto-design has tilt_target 0 and nothing else *)
Definition op (n var : string) (g dp tilt voa invoa : option Q) : ain := mkIn n var g dp tilt voa invoa.
Definition mk_ops (l : list ain) (k : string) : ain :=
  lookup k (map (fun a => (i_name a, a)) l) (mkIn k "" None None (Some 0%Q) None None).
Definition sc (pm : bool) (lo hi step slope ref margin vstep ext : Q) : scfg := mkS pm lo hi step slope ref margin vstep ext.

Definition aout_s (o : aout) : string :=
  join "~" [o_name o; o_var o; qs (o_gain o); oqs (o_dp o); qs (o_tilt o); qs (o_voa o); qs (o_invoa o)].
Definition ain_s (a : ain) : string :=
  join "~" [i_name a; i_var a; oqs (i_gain a); oqs (i_dp a); oqs (i_tilt a); oqs (i_voa a); oqs (i_invoa a)].
(* designed amplifiers of a line and their exported form: "d1|d2|...#e1|e2|..." *)
Definition run_amps (c : cfg) (s : scfg) (lib : list (string * alib)) (sel : list (string * string))
  (rg : list (string * Q)) (ops : list ain) (D0 ptot : Q) (l : line) : string :=
  match add_missing c l with
  | Err e => append "E:" e
  | Ok l1 =>
      match design_line_amps c s (mk_lib lib) (mk_sel sel) (mk_rgain rg) (mk_ops ops) D0 ptot
                             (match l_dk l with Roadm => true | Trx => false end) (conn c (l_els l1)) with
      | Err e => append "E:" e
      | Ok outs => append (join "|" (map aout_s outs)) (append "#" (join "|" (map (fun o => ain_s (export_amp o)) outs)))
      end
  end.
(* Fiber.to_json of a designed fibre: length km, loss_coef dB/km as exported *)
Definition export_fib_s (f : fib) : string :=
  join "~" [f_name f; qs (round_dec 6 (f_len f / inject_Z 1000)); qs (round_dec 6 (f_lc f * inject_Z 1000))].

Definition jv_s (v : jv) : string :=
  match v with
  | JB b => bs b | JS s => s | JZ z => zs z | JQ q => qs q | JZL l => zlist_s l | JNone => "N"%string
  end.
Definition kw_s (d : kw) : string := join "," (map (fun kv => append (fst kv) (append "=" (jv_s (snd kv)))) d).
Definition simp_s (st : simp) : string := append (kw_s (nli_json (sp_nli st))) (append ";" (kw_s (raman_json (sp_raman st)))).
(* SimParams during and after estimate_raman_gain, starting from set_params(nli, raman) *)
Definition run_simparams (nli raman : option kw) : string :=
  match set_params nli raman with
  | Err e => append "E:" e
  | Ok st => match estimate_raman_gain_params st with
             | Err e => append "E:" e
             | Ok (during, after) => join "#" [simp_s st; simp_s during; simp_s after]
             end
  end.
