(* Case runner for the C17 correspondence: amplifier settings of one line as the model designs them from the
   loaded chain, their export, and the SimParams walk. *)
From Verif Require Import Prelude Model.Chain Model.Redesign Run.C08.
From Coq Require Import QArith Qround.
Open Scope Z_scope.

Fixpoint lookup {A} (k : string) (l : list (string * A)) (d : A) : A :=
  match l with [] => d | (k', v) :: t => if String.eqb k k' then v else lookup k t d end.
Definition mk_lib (l : list (string * alib)) (k : string) : option alib :=
  lookup k (map (fun kv => (fst kv, Some (snd kv))) l) None.
Definition lb (pmax gfm : Q) (vauto : bool) : alib := mkLib pmax gfm vauto.
Definition mk_sel (l : list (string * string)) (k : string) : string := lookup k l ""%string.
Definition mk_rgain (l : list (string * Q)) (k : string) : Q := lookup k l 0%Q.
(* operational block of a loaded amplifier; an amplifier inserted by auto-design has tilt_target 0 and nothing else *)
Definition op (n var : string) (g dp tilt voa invoa : option Q) : ain := mkIn n var g dp tilt voa invoa.
Definition mk_ops (l : list ain) (k : string) : ain :=
  lookup k (map (fun a => (i_name a, a)) l) (mkIn k "" None None (Some 0%Q) None None).
Definition sc (pm : bool) (lo hi step slope ref margin vstep ext : Q) : scfg := mkS pm lo hi step slope ref margin vstep ext.

Definition aout_s (o : aout) : string :=
  join "~" [o_name o; o_var o; qs (o_gain o); oqs (o_dp o); qs (o_tilt o); qs (o_voa o); qs (o_invoa o)].
Definition ain_s (a : ain) : string :=
  join "~" [i_name a; i_var a; oqs (i_gain a); oqs (i_dp a); oqs (i_tilt a); oqs (i_voa a); oqs (i_invoa a)].
(* tie rule support: is some value that round2float rounds (delta_p target, automatic VOA) within 1e-9 of a rounding
   tie?  The exact model and the float implementation may then legitimately round differently. *)
Definition near_half (y : Q) : bool :=
  let r := (y - inject_Z (Qfloor y) - (1 # 2))%Q in
  Qle_bool (- (1 # 1000000000)) r && Qle_bool r (1 # 1000000000).
Definition r2f_tie (x step : Q) : bool :=
  let st := round_dec 1 step in if Qle_bool (1 # 100) st then near_half (x / st) else near_half (x * inject_Z 100).
Definition amp_tie (s : scfg) (lib : string -> option alib) (sel : string -> string) (D : Q) (x : actx) (a : ain) : bool :=
  (match i_dp a, x_next x with
   | None, NLoss l => r2f_tie ((l - s_ref s) * s_slope s) (s_step s)
   | _, _ => false
   end)
  || match lib (amp_var sel a), i_voa a with
     | Some b, None =>
         s_pm s && b_vauto b &&
         (let gd := amp_gd s D x a in let pr := amp_pr s D x a b gd in
          r2f_tie (qmin (b_pmax b - (x_ptot x + snd gd)) (b_gfm b - (fst gd + pr))) (s_vstep s))
     | _, _ => false
     end.
Fixpoint amps_tie (s : scfg) (lib : string -> option alib) (sel : string -> string) (D : Q) (l : list (actx * ain)) : bool :=
  match l with
  | [] => false
  | (x, a) :: t => amp_tie s lib sel D x a
                   || match design_amp s lib sel D x a with Ok r => amps_tie s lib sel (snd r) t | Err _ => false end
  end.
(* designed amplifiers of a line and their exported form: "d1|d2|...#e1|e2|..."; "TIE" when a rounding tie is near *)
Definition run_amps (c : cfg) (s : scfg) (lib : list (string * alib)) (sel : list (string * string))
  (rg rgn : list (string * Q)) (ops : list ain) (D0 ptot : Q) (l : line) : string :=
  match add_missing c l with
  | Err e => append "E:" e
  | Ok l1 =>
      let els := conn c (l_els l1) in
      let dr := match l_dk l with Roadm => true | Trx => false end in
      let tie := match mapM (pad_run c) (runs els) with
                 | Ok post => match amp_items c (mk_rgain rg) (mk_rgain rgn) (mk_ops ops) ptot dr None (combine (runs els) post) with
                              | Ok items => amps_tie s (mk_lib lib) (mk_sel sel) D0 items
                              | Err _ => false
                              end
                 | Err _ => false
                 end in
      if tie then "TIE"%string else
      match design_line_amps c s (mk_lib lib) (mk_sel sel) (mk_rgain rg) (mk_rgain rgn) (mk_ops ops) D0 ptot dr els with
      | Err e => append "E:" e
      | Ok outs => append (join "|" (map aout_s outs)) (append "#" (join "|" (map (fun o => ain_s (export_amp o)) outs)))
      end
  end.
(* Fiber.to_json of a designed fibre: length km, loss_coef dB/km as exported *)
Definition export_fib_s (f : fib) : string :=
  join "~" [f_name f; qs (round_dec 6 (f_len f / inject_Z 1000)); qs (round_dec 6 (f_lc f * inject_Z 1000))].

Definition jv_s (v : jv) : string :=
  match v with
  | JB b => bs b | JS s => s | JZ z => zs z | JQ q => qs q | JZL l => zlist_s l | JNone => "N"%string
  end.
Definition kw_s (d : kw) : string := join "," (map (fun kv => append (fst kv) (append "=" (jv_s (snd kv)))) d).
Definition simp_s (st : simp) : string := append (kw_s (nli_json (sp_nli st))) (append ";" (kw_s (raman_json (sp_raman st)))).
(* SimParams during and after estimate_raman_gain, starting from set_params(nli, raman) *)
Definition run_simparams (nli raman : option kw) : string :=
  match set_params nli raman with
  | Err e => append "E:" e
  | Ok st => match estimate_raman_gain_params st with
             | Err e => append "E:" e
             | Ok (during, after) => join "#" [simp_s st; simp_s during; simp_s after]
             end
  end.
