(* Case runner for C12: one network, one batch of requests with its synchronisation groups, what gnpy did. *)
From Verif Require Import Prelude Model.Route Model.Disjoint Run.C11.
Open Scope Z_scope.

Record drq := mkD {
  d_id : Z; d_src : Z; d_dst : Z;
  d_inc : list Z; d_strict : bool;          (* cleaned include list; does its loose_list hold a STRICT *)
  d_sig : Z; d_mode : bool
}.

(* a request as the user gave it: raw include list (unknown names = negative ids) and hop types; the list is cleaned
   by the model of correct_json_route_list, not by what gnpy made of it *)
Record draw := mkRaw {
  w_id : Z; w_src : Z; w_dst : Z; w_nodes : list Z; w_strict : list bool; w_sig : Z; w_mode : bool
}.
Definition clean_drq (n : net) (r : draw) : drq :=
  match clean_route n (w_src r) (w_dst r) (w_nodes r) (w_strict r) with
  | Ok (inc, st) => mkD (w_id r) (w_src r) (w_dst r) inc (existsb (fun b => b) st) (w_sig r) (w_mode r)
  | Err _ => mkD (w_id r) (w_src r) (w_dst r) [] false (w_sig r) (w_mode r)
  end.
Definition clean_s (n : net) (r : draw) : string :=
  match clean_route n (w_src r) (w_dst r) (w_nodes r) (w_strict r) with
  | Ok (inc, st) => append (zlist_s inc) (flags_s st)
  | Err e => append "E:" e
  end.

Inductive dobs :=
| DPaths (ps : list (rid * list Z))           (* final request id -> returned path *)
| DError                                      (* DisjunctionError *)
| DOther.                                     (* any other exception *)

Definition rid_s (r : rid) : string := join "+" (map zs r).
Definition grp_s (d : grp) : string := append (zs (gid d)) (append ":" (join "," (map rid_s (members d)))).
Definition grps_s (l : list grp) : string := join "/" (map grp_s l).

Definition eff_inc (r : drq) : list Z := if d_strict r then d_inc r else [].

Fixpoint find_rq (rqs : list drq) (i : Z) : option drq :=
  match rqs with [] => None | r :: t => if d_id r =? i then Some r else find_rq t i end.

(* path serving the original request i = path of the final request whose id carries i *)
Fixpoint serving (ps : list (rid * list Z)) (i : Z) : list Z :=
  match ps with [] => [] | (r, p) :: t => if memZ i r then p else serving t i end.

Definition run_dis (g : graph) (kinds : string) (oms : list (list Z * option Z)) (cutoff : nat)
           (judge_all : bool) (raws : list draw) (declared : list grp)
           (obs_dedup : list Z) (obs_ids : list rid) (obs_groups : list grp) (obs : dobs) : string :=
  let n := mk_net g kinds oms in
  let rqs := map (clean_drq n) raws in
  let c_s := append "c=" (join ";" (map (clean_s n) raws)) in
  let dd := deduplicate declared in
  let ag := aggregate (map (fun r => mkA [d_id r] (d_sig r) (d_mode r)) rqs) dd in
  let decl_sets := map (fun d => concat (members d)) declared in
  let d_s := append "d=" (zlist_s (map gid dd)) in
  let a_s := append "a=" (append (join "," (map rid_s (final_ids ag))) (append "#" (grps_s (s_groups ag)))) in
  let o_s := append "o=" (append (join "," (map rid_s obs_ids)) (append "#" (grps_s obs_groups))) in
  let f_s := append "f=" (join "," [bs (covered_ok decl_sets obs_groups); bs (no_stale obs_ids obs_groups);
                                   bs (covered_ok decl_sets (s_groups ag)); bs (no_stale (final_ids ag) (s_groups ag))]) in
  let grouped := concat decl_sets in
  let v_s :=
    match obs with
    | DPaths ps =>
        let by_orig := map (fun r => (d_id r, serving ps (d_id r))) rqs in
        let final_groups := map (fun d => map (fun x => hd 0 x) (members d)) obs_groups in
        let by_final := map (fun rp : rid * list Z => (hd 0 (fst rp), snd rp)) ps in
        append "v=P," (join "," [bs (disjoint_ok n by_orig decl_sets);
                                 bs (disjoint_ok n by_final final_groups);
                                 join "" (map (fun r => match serving ps (d_id r) with
                                                        | [] => if memZ (d_id r) grouped then "F" else "-"
                                                        | p => bs (route_ok g (d_src r) (d_dst r) (eff_inc r) p)
                                                        end%string) rqs)])
    | DError =>
        match declared, rqs with
        | [d], _ =>
            match members d with
            | [[a]; [b]] =>
                match find_rq rqs a, find_rq rqs b with
                | Some ra, Some rb =>
                    append "v=E," (join "," [bs (exists_disjoint_pair n (d_src ra) (d_dst ra) (eff_inc ra)
                                                                      (d_src rb) (d_dst rb) (eff_inc rb) cutoff);
                                             bs (exists_disjoint_pair n (d_src ra) (d_dst ra) []
                                                                      (d_src rb) (d_dst rb) [] cutoff)])
                | _, _ => "v=E,-,-"%string
                end
            | _ => "v=E,-,-"%string
            end
        | _, _ => "v=E,-,-"%string
        end
    | DOther => "v=X"%string
    end in
  (* existence of an assignment for the whole batch as gnpy sees it after aggregation: one route per remaining
     request, link-disjoint whenever two of them are named together in a remaining group *)
  let x_s :=
    if judge_all then
      let brqs := flat_map (fun i : rid => match find_rq rqs (hd 0 i) with
                                           | Some r => [(hd 0 i, d_src r, d_dst r, eff_inc r)] | None => [] end) obs_ids in
      let bgroups := map (fun d => map (fun x => hd 0 x) (members d)) obs_groups in
      let grouped_ids := concat bgroups in
      append "x=" (bs (exists_disjoint_assignment n cutoff bgroups
                         (filter (fun r : breq => memZ (b_id r) grouped_ids) brqs)))
    else "x=-"%string in
  (* a batch made of one pair group: the include clause of C11 for the members of a vector.  exA = a disjoint pair
     exists in which BOTH lists (LOOSE hops included) are crossed; exS = one exists crossing the STRICT lists;
     then per member whether the returned route crosses its whole list *)
  let w_s :=
    match declared with
    | [d] =>
        match members d with
        | [[a]; [b]] =>
            match find_rq rqs a, find_rq rqs b with
            | Some ra, Some rb =>
                append "w=" (join "," [bs (exists_disjoint_pair n (d_src ra) (d_dst ra) (d_inc ra)
                                                                 (d_src rb) (d_dst rb) (d_inc rb) cutoff);
                                       bs (exists_disjoint_pair n (d_src ra) (d_dst ra) (eff_inc ra)
                                                                 (d_src rb) (d_dst rb) (eff_inc rb) cutoff);
                                       match obs with
                                       | DPaths ps => append (bs (route_ok g (d_src ra) (d_dst ra) (d_inc ra) (serving ps a)))
                                                             (bs (route_ok g (d_src rb) (d_dst rb) (d_inc rb) (serving ps b)))
                                       | _ => "-"%string
                                       end])
            | _, _ => "w=-"%string
            end
        | _ => "w=-"%string
        end
    | _ => "w=-"%string
    end in
  join "|" [d_s; a_s; o_s; f_s; v_s; x_s; w_s; c_s].

(* isdisjoint helper on raw integer lists *)
Definition run_isdisjoint (cases : list (list Z * list Z)) : string :=
  join "" (map (fun c : list Z * list Z => zs (isdisjoint (fst c) (snd c))) cases).

(* short lists of observed paths *)
Definition run_short (g : graph) (kinds : string) (oms : list (list Z * option Z)) (ps : list (list Z)) : string :=
  let n := mk_net g kinds oms in join ";" (map (fun p => zlist_s (short_list n p)) ps).
