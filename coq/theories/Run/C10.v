(* Case runner for the C10 correspondence: literal constructors, the two case kinds (select_edfa called directly /
   get_node_restrictions + selection as auto-design does for one node) and the text renderer. *)
From Coq Require Export QArith.
From Coq Require Import Qminmax.
From Verif Require Import Prelude Model.Select.
Open Scope Q_scope.

Definition q_s (q : Q) : string :=
  let r := Qred q in append (zs (Qnum r)) (append "/" (zs (Zpos (Qden r)))).

(* a library entry together with its noise figure at the required gain *)
Definition am (n : string) (multi ram allowed : bool) (fmin fmax gmin gmax pmax nf : Q) : amp * Q :=
  (mkAmp n multi ram allowed fmin fmax gmin gmax pmax false, nf).

Fixpoint nf_lookup (l : list (amp * Q)) (n : string) : Q :=
  match l with
  | [] => 0
  | (a, v) :: t => if String.eqb (a_name a) n then v else nf_lookup t n
  end.
Definition nf_of (l : list (amp * Q)) (a : amp) : Q := nf_lookup l (a_name a).

Definition sel_s (r : res (amp * Q)) (crit : Q) : string :=
  match r with
  | Err e => append "E:" (append e (append "|" (q_s crit)))
  | Ok (s, red) => join "|" [a_name s; q_s red; q_s crit]
  end.

(* select_edfa(raman_allowed, gain_target, power_target, edfa_eqpt, uid, target_extended_gain) *)
Definition run_sel (ra : bool) (gain pt ext : Q) (l : list (amp * Q)) : string :=
  let lib := map fst l in
  sel_s (select_edfa ra gain pt ext (nf_of l) lib) (select_crit ra gain pt ext lib).

Definition roadm (b p : list string) : neigh := NRoadm b p.
Definition fiber (l : list Q) : neigh := NFiber l.

(* get_node_restrictions, then - as set_egress_amplifier / set_one_amplifier do - the selection among them *)
Definition run_node (nd : anode) (prev next : neigh) (bmin bmax maxl gain pt ext : Q) (l : list (amp * Q)) : string :=
  let lib := map fst l in
  let r := node_restrictions nd prev next bmin bmax lib in
  let ra := raman_allowed prev maxl in
  append (join "," r)
    (append "#"
       (append (bs ra)
          (append "#"
             (if negb (String.eqb (n_variety nd) "") then "imposed"%string
              else sel_s (auto_select nd prev next bmin bmax maxl gain pt ext (nf_of l) lib)
                         (select_crit ra gain pt ext (restrict_lib r lib)))))).

(* several calls on candidate dicts drawn from one library: each call lists (index in lib, NF at its gain) *)
Definition amq (n : string) (multi ram allowed : bool) (fmin fmax gmin gmax pmax : Q) : amp :=
  mkAmp n multi ram allowed fmin fmax gmin gmax pmax false.
Definition dummy_amp : amp := amq "?" false false false 0 0 0 0 0.
Definition call (ra : bool) (gain pt ext : Q) (sub : list (nat * Q)) : bool * Q * Q * Q * list (nat * Q) :=
  (ra, gain, pt, ext, sub).
Definition run_sels (lib : list amp) (calls : list (bool * Q * Q * Q * list (nat * Q))) : string :=
  join ";" (map (fun c => let '(ra, gain, pt, ext, sub) := c in
                          run_sel ra gain pt ext (map (fun iv => (nth (fst iv) lib dummy_amp, snd iv)) sub)) calls).

(* all amplifier nodes of one designed network: shared library, design band and Raman limit; each node brings its
   neighbours, targets and the noise figures of its candidates (by name; 0 for entries that are not candidates) *)
Fixpoint nfs_lookup (l : list (string * Q)) (n : string) : Q :=
  match l with [] => 0 | (k, v) :: t => if String.eqb k n then v else nfs_lookup t n end.
Definition nfv (n : string) (v : Q) : string * Q := (n, v).
Definition ncall (nd : anode) (prev next : neigh) (bmin bmax gain pt ext : Q) (nfs : list (string * Q))
  : anode * neigh * neigh * Q * Q * Q * Q * Q * list (string * Q) := (nd, prev, next, bmin, bmax, gain, pt, ext, nfs).
Definition run_nodes (lib : list amp) (maxl : Q)
                     (calls : list (anode * neigh * neigh * Q * Q * Q * Q * Q * list (string * Q))) : string :=
  join ";" (map (fun c => let '(nd, prev, next, bmin, bmax, gain, pt, ext, nfs) := c in
                          run_node nd prev next bmin bmax maxl gain pt ext
                                   (map (fun a => (a, nfs_lookup nfs (a_name a))) lib)) calls).

(* ---------- multiband nodes ---------- *)
Definition grp (n : string) (allowed : bool) (members : list string) : mgroup := mkG n allowed members.
Definition bt (bmin bmax gain pt : Q) (nfs : list (string * Q)) : Q * Q * Q * Q * list (string * Q) := (bmin, bmax, gain, pt, nfs).
Definition mcall (nd : anode) (prev next : neigh) (bts : list (Q * Q * Q * Q * list (string * Q)))
  : anode * neigh * neigh * list (Q * Q * Q * Q * list (string * Q)) := (nd, prev, next, bts).

Fixpoint band_results (lib : list amp) (redfa : list string) (prev : neigh) (maxl ext : Q)
                      (bts : list (Q * Q * Q * Q * list (string * Q))) : list (res (amp * Q) * Q) :=
  match bts with
  | [] => []
  | (bmin, bmax, gain, pt, nfs) :: rest =>
      let r := filter (covers_name lib bmin bmax) redfa in
      let eq := filter (fun a => negb (a_multi a) && (isnil r || smem (a_name a) r)) lib in
      let one := band_select lib redfa prev maxl bmin bmax gain pt ext (fun a => nfs_lookup nfs (a_name a)) in
      (one, select_crit (raman_allowed prev maxl) gain pt ext eq)
      :: match one with Ok _ => band_results lib redfa prev maxl ext rest | Err _ => [] end
  end.

Definition run_multi (lib : list amp) (groups : list mgroup) (maxl ext : Q)
                     (c : anode * neigh * neigh * list (Q * Q * Q * Q * list (string * Q))) : string :=
  let '(nd, prev, next, btn) := c in
  let bts := map fst btn in
  let mr := multi_restrictions nd prev next (map (fun b => (fst (fst (fst b)), snd (fst (fst b)))) bts) lib groups in
  let pc := if negb (String.eqb (n_variety nd) "") then 1 else presel_crit lib groups ext mr mr bts in
  append (join "," mr)
    (append "#"
      (match multi_redfa nd prev next lib groups ext bts with
       | Err e => append "E:" (append e (append "|" (q_s pc)))
       | Ok (_, redfa) =>
           let rs := band_results lib redfa prev maxl ext btn in
           let chosen := flat_map (fun r => match fst r with Ok (s, _) => [a_name s] | Err _ => [] end) rs in
           join "#" [join "," (dedup redfa); q_s pc;
                     join "&" (map (fun r => sel_s (fst r) (snd r)) rs);
                     join "," (common_groups groups chosen)]
       end)).

Definition run_multis (lib : list amp) (groups : list mgroup) (maxl ext : Q)
                      (calls : list (anode * neigh * neigh * list (Q * Q * Q * Q * list (string * Q)))) : string :=
  join "~" (map (run_multi lib groups maxl ext) calls).
