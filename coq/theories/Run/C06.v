(* Case runner for the C06 correspondence: typed literal constructors (so that generated terms parse their
   numbers in the right scope), the two case kinds (element level / loader level) and the text renderer. *)
From Coq Require Export QArith.
From Verif Require Import Prelude Model.Roadm.
Open Scope Q_scope.

(* ---------- rendering ---------- *)
(* numbers are rendered as  <hex numerator>/<hex denominator>  (unreduced): conversion from binary is linear, whereas
   decimal rendering of the 200-bit numerators that squared picoseconds produce dominated the run time *)
Fixpoint pos_bits (p : positive) : list bool :=
  match p with xH => [true] | xO q => false :: pos_bits q | xI q => true :: pos_bits q end.
Definition hexdigit (b0 b1 b2 b3 : bool) : ascii :=
  let n := ((if b0 then 1 else 0) + (if b1 then 2 else 0) + (if b2 then 4 else 0) + (if b3 then 8 else 0))%nat in
  ascii_of_nat (if Nat.ltb n 10 then 48 + n else 87 + n).
(* least significant nibble first; acc accumulates the string most significant digit first *)
Fixpoint hex_acc (l : list bool) (fuel : nat) (acc : string) : string :=
  match fuel with
  | O => acc
  | S f =>
      match l with
      | [] => acc
      | [b0] => String (hexdigit b0 false false false) acc
      | [b0; b1] => String (hexdigit b0 b1 false false) acc
      | [b0; b1; b2] => String (hexdigit b0 b1 b2 false) acc
      | b0 :: b1 :: b2 :: b3 :: t => hex_acc t f (String (hexdigit b0 b1 b2 b3) acc)
      end
  end.
Definition pos_hex (p : positive) : string := let l := pos_bits p in hex_acc l (length l) EmptyString.
Definition z_hex (z : Z) : string :=
  match z with Z0 => "0"%string | Zpos p => pos_hex p | Zneg p => append "-" (pos_hex p) end.
(* every input is a float, so every denominator is a power of two: cancelling the common trailing zero bits reduces
   the fraction (linear; Qred's gcd on the 800-bit unreduced results was the dominant cost) *)
Fixpoint strip2 (n d : positive) : positive * positive :=
  match n, d with xO n', xO d' => strip2 n' d' | _, _ => (n, d) end.
Definition q_s (q : Q) : string :=
  match Qnum q with
  | Z0 => "0/1"%string
  | Zpos n => let (a, b) := strip2 n (Qden q) in append (pos_hex a) (append "/" (pos_hex b))
  | Zneg n => let (a, b) := strip2 n (Qden q) in append "-" (append (pos_hex a) (append "/" (pos_hex b)))
  end.
Definition qlist_s (l : list Q) : string := join "," (map q_s l).
Definition dict_s (l : list (Z * Q)) : string :=
  join "," (map (fun kv => append (zs (fst kv)) (append "=" (q_s (snd kv)))) l).

(* a case that is rejected before any crossing renders as  R:<Type:detail>,  a crossing that raises as  E:<Type:detail> *)

(* ---------- literal constructors ---------- *)
(* a float given as mantissa and binary exponent:  m * 2^e  (parses faster than  n # d  with a long denominator) *)
Definition fq (m e : Z) : Q :=
  if (0 <=? e)%Z then Qmake (m * 2 ^ e) 1 else Qmake m (Z.to_pos (2 ^ (- e))).
Definition sq (q : Q) : option Q := Some q.
Definition dg (k : Z) (v : Q) : Z * Q := (k, v).
Definition rc (b w : Q) : option (Q * Q) := Some (b, w).
Definition norc : option (Q * Q) := None.
Definition bd (lo hi : Q) (ml pmd pdl : kv) : band := mkBand (Some (lo, hi)) ml pmd pdl.
Definition bdall (ml pmd pdl : kv) : band := mkBand None ml pmd pdl.
Definition vq (q : Q) : kv := Val q.
Definition pf (id : Z) (t : ptype) (bs : list band) : profile := mkProf id t bs.
Definition cl (from to : Z) (t : ptype) (id : option Z) : pcall := mkCall from to t id.
(* a carrier as the ROADM receives it (pmd [s] and pdl [dB] are squared here); the shares are not inputs of
   anything the ROADM computes *)
Definition ch (f baud_db slot_db off p pmd pdl : Q) : chan := mkC f baud_db slot_db off p 1 0 0 (pmd * pmd) (pdl * pdl).
Definition xg (deg from : Z) (l : list chan) : Z * Z * list chan := (deg, from, l).

Definition cross_s (r : roadm) (x : Z * Z * list chan) : string :=
  let '(deg, from, l) := x in
  match propagate r deg from l with
  | Err e => append "E:" e
  | Ok o => join "|" [qlist_s (map cp (o_chans o)); qlist_s (o_loss o); q_s (o_ref_out o); q_s (o_ref_loss o);
                      qlist_s (map cpmd2 (o_chans o)); qlist_s (map cpdl2 (o_chans o))]
  end.

(* element level: elements.Roadm(params=...) ; set_roadm_paths(...)* ; ref_carrier, ref_pch_in_dbm ; crossings *)
Definition runA (k : keys3) (gpmd gpdl : Q) (dp dd dw : list (Z * Q)) (profs : list profile) (calls : list pcall)
                (rcar : option (Q * Q)) (rin : list (Z * Q)) (xs : list (Z * Z * list chan)) : string :=
  match roadm_params k with
  | Err e => append "R:" e
  | Ok (a, b, c) =>
      match set_paths (global_band gpmd gpdl) (prof_dict profs) calls [] with
      | Err e => append "R:" e
      | Ok ps => join ";" (map (cross_s (mkRoadm a b c dp dd dw rcar rin ps)) xs)
      end
  end.

(* loader level: equipment entry + element config -> Roadm ; design step: per-degree targets, reference input
   powers + target_to_be_supported, internal paths ; crossings on the designed element.  Inputs are the
   configuration and the topology around the ROADM (degree lists, what feeds each ingress degree); the header
   segment renders everything the design computed:
     D:<dpow>|<dpsd>|<dpsw>|<node policy>|<set_roadm_paths calls>|<ref_pch_in_dbm>|<target_to_be_supported>|<warned ingress degrees> *)
Definition pd3 (from to id : Z) : pdi := mkPdi from to id.
Definition ftrx (k : Z) (loss : Q) : Z * feed := (k, FTrx loss).
Definition fedfa (k : Z) (dp voa loss : Q) : Z * feed := (k, FEdfa dp voa loss).
Definition froadm (k : Z) (pl : policy) (loss : Q) : Z * feed := (k, FRoadm pl loss).
Definition ptype_s (t : ptype) : string := match t with Express => "x" | Add => "a" | Drop => "d" end.
Definition call_s (c : pcall) : string :=
  join ":" [zs (c_from c); zs (c_to c); ptype_s (c_pt c); ozs (c_id c)].

Definition runL (eq el : keys3) (gpmd gpdl : Q) (dp dd dw : list (Z * Q)) (next : list Z) (profs : list profile)
                (pdis : list pdi) (prev drops adds : list Z) (pref b w : Q) (feeds : list (Z * feed))
                (xs : list (Z * Z * list chan)) : string :=
  match load_policy eq el with
  | Err e => append "R:" e
  | Ok (a, b0, c) =>
      match set_targets (mkRoadm a b0 c dp dd dw (Some (b, w)) [] []) next with
      | Err e => append "R:" e
      | Ok r1 =>
          match supported r1 b w with
          | Err e => append "R:" e
          | Ok m =>
              match internal_paths (prof_dict profs) pdis prev next drops adds with
              | Err e => append "R:" e
              | Ok calls =>
                  match set_paths (global_band gpmd gpdl) (prof_dict profs) calls [] with
                  | Err e => append "R:" e
                  | Ok ps =>
                      let rin := input_powers pref b w feeds in
                      let r := mkRoadm (npow r1) (npsd r1) (npsw r1) (dpow r1) (dpsd r1) (dpsw r1) (Some (b, w)) rin ps in
                      join ";" (join "|" [append "D:" (dict_s (dpow r)); dict_s (dpsd r); dict_s (dpsw r);
                                          match node_policy r with
                                          | Some (Power t) => append "pow=" (q_s t)
                                          | Some (Psd d) => append "psd=" (q_s d)
                                          | Some (Psw d) => append "psw=" (q_s d)
                                          | None => "none"%string
                                          end;
                                          join "," (map call_s calls); dict_s rin; q_s m; zlist_s (warned m rin)]
                                :: map (cross_s r) xs)
                  end
              end
          end
      end
  end.
