(* Case runners for C16: the validator of observed batches, and the line model for the shared-state experiment. *)
From Coq Require Import QArith Qreduction.
From Verif Require Import Prelude Model.Verdict Model.Batch Run.C13.
Open Scope Z_scope.

(* observation literals *)
Definition sg (route : list Z) (mode reason : Z) (figs : list Z) : sgn := mkSig route mode reason figs.
Definition rn (before after : Z) (results : list (Z * sgn)) : run_obs := mkRun before after results.
(* verdict of the validator + the first offending (run index, request id), for the report *)
Fixpoint first_bad_result (o : batch_obs) (l : list (Z * sgn)) : option Z :=
  match l with
  | [] => None
  | (id, s) :: t =>
      match alone_of (b_alone o) id with
      | Some s0 => if sgn_close s s0 then first_bad_result o t else Some id
      | None => Some id
      end
  end.
Fixpoint first_bad (o : batch_obs) (k : Z) (l : list run_obs) : string :=
  match l with
  | [] => dash
  | r :: t =>
      if run_ok o r then first_bad o (k + 1) t
      else if negb ((o_before r =? b_net o) && (o_after r =? b_net o)) then append "net@" (zs k)
      else append "req@" (append (zs k) (append ":" (ozs (first_bad_result o (o_results r)))))
  end.
Definition obs_case (net : Z) (alone : list (Z * sgn)) (runs : list run_obs) : string :=
  let o := mkObs net alone runs in
  append (bs (obs_ok o)) (append "|" (first_bad o 0 runs)).

(* the abstract batch on the line model: results with / without the per-request copy, rendered *)
Definition ld (n : Z) (p off : Q) : load := mkL (Z.to_nat n) p off.
Definition rq (id : Z) (route : list Z) (loads : list load) (thr : Q) : request := mkReq id route loads thr.
Definition res_s (r : result) : string :=
  join "/" [zs (r_id r); zlist_s (r_route r); bs (r_ok r); join ";" (map spectrum_s (r_figs r))].
Definition batch_case (copy : bool) (n : network) (rqs : list request) : string :=
  let out := if copy then planning next_slot n 0 rqs else planning_nocopy next_slot n 0 rqs in
  join "|" (map (fun x => append (res_s (fst x)) (append "@" (ozs (snd x)))) (snd out)).
