(* Case runners for the C05 correspondence: each returns one text line; rationals are rendered exactly as
   "num/den" (reduced) and parsed by the harness with fractions.Fraction. *)
From Coq Require Export QArith.
From Verif Require Import Prelude Model.Fiber.
(* built together with this file (no Import: Num's '#' notation would clash with Q's): the binary64 runners *)
From Verif Require Run.C05F.
Open Scope Q_scope.

Definition qs (q : Q) : string :=
  let r := Qred q in append (zs (Qnum r)) (append "/" (zs (Zpos (Qden r)))).
Definition rqs (r : res Q) : string := match r with Ok q => qs q | Err e => append "E:" e end.

(* pi of the dispersion formulas: any non-zero rational (Props/C05: cd_scalar, cd_slope) *)
Definition run_pi : Q := 355 # 113.

(* one channel entering an element: frequency, power [dBm], CD, PMD, PDL, latency *)
Record chan_in := ch { ci_f : Q; ci_p : Q; ci_cd : Q; ci_pmd : Q; ci_pdl : Q; ci_lat : Q }.
Definition acc_of (c : chan_in) : acc := mkA (ci_cd c) (ci_lat c) (sq (ci_pmd c)) (sq (ci_pdl c)).
Definition acc_s (a : acc) : string := join "|" [qs (a_cd a); qs (a_pmd2 a); qs (a_pdl2 a); qs (a_lat a)].

(* Fiber.__call__ with Raman off: per channel  pout|cd|pmd^2|pdl^2|latency ; then '#' Fiber.loss *)
(* propagate_path_with ... (map (elem_shared pi) els) = propagate_path ... (Props/C05: run_sharing_sound);
   the shared values are bound once, outside the per-channel map *)
Definition run_chan (fib : fiber) (shs : list (option (res Q))) (c : chan_in) : res string :=
  let* po := fiber_power_out fib (ci_f c) (ci_p c) in
  let* a := propagate_path_with run_pi [EFiber fib] shs (ci_f c) (acc_of c) in
  Ok (append (qs po) (append "|" (acc_s a))).
Definition run_fiber (fib : fiber) (chans : list chan_in) : string :=
  match fiber_check fib with
  | Err e => append "E:" e
  | Ok _ =>
      let shs := map (elem_shared run_pi) [EFiber fib] in
      match mapM (run_chan fib shs) chans with
      | Ok l => append (join ";" l) (append "#" (rqs (fiber_loss_prop fib)))
      | Err e => append "E:" e
      end
  end.

(* a path: per channel  cd|pmd^2|pdl^2|latency *)
Definition run_path (els : list element) (chans : list chan_in) : string :=
  let shs := map (elem_shared run_pi) els in
  match mapM (fun c => propagate_path_with run_pi els shs (ci_f c) (acc_of c)) chans with
  | Ok l => join ";" (map acc_s l)
  | Err e => append "E:" e
  end.

(* RamanSolver._create_lumped_losses(z, lumped, z_lumped): z:v,z:v,... *)
Definition run_merge (zl : list (Q * Q)) (z : list Q) : string :=
  join "," (map (fun kv => append (qs (fst kv)) (append ":" (qs (snd kv)))) (merge_grid Qmult 1 zl z)).

(* calculate_unidirectional_stimulated_raman_scattering, method numerical, on an already merged grid:
   final powers *)
Definition run_euler (alpha : list Q) (cr : list (list Q)) (grid : list (Q * Q)) (p : list Q) : string :=
  join "," (map qs (euler alpha cr grid p)).
(* zero-power loss profile at the fibre end on the solver grid built as the code builds it *)
Definition run_euler_zero (alpha : list Q) (zl : list (Q * Q)) (fuel : nat) (step L : Q) : string :=
  let grid := merge_grid Qmult 1 zl (solver_grid fuel step L) in
  join "," (map (fun a => qs (grid_factor a grid)) alpha).
