(* Case runner for the C04 correspondence: the amplifier model at NumF (binary64), evaluated by vm_compute. *)
From Verif Require Import Prelude Num NumRun Model.Amp.
From Coq Require Export PrimFloat.
Notation float := PrimFloat.float.

Definition mV (nf1 nf2 dp : float) : @nf_model NumF := @NFVariable NumF nf1 nf2 dp.
Definition mF (nf0 : float) : @nf_model NumF := @NFFixed NumF nf0.
Definition mO (c : list float) : @nf_model NumF := @NFOpenroadm NumF c.
Definition mP : @nf_model NumF := @NFOpenroadmPreamp NumF.
Definition mB : @nf_model NumF := @NFOpenroadmBooster NumF.
Definition mA (c : list float) : @nf_model NumF := @NFAdvanced NumF c.
Definition st (m : @nf_model NumF) (gmin gmax : float) : @stage NumF := @mkStage NumF m gmin gmax.
Definition kS (s : @stage NumF) : @amp_kind NumF := @Single NumF s.
Definition kD (p b : @stage NumF) : @amp_kind NumF := @Dual NumF p b.
Definition mkA (k : @amp_kind NumF) (gmax pmax fmin fmax : float) (dgt gr nr : list float)
  (gt tilt ovoa : float) (ivoa : option float) : @amp NumF :=
  @mkAmp NumF k gmax pmax fmin fmax dgt gr nr gt tilt ovoa ivoa.
Definition kc (f sw b sig ase nli : float) : @ch NumF := @mkCh NumF f sw b sig ase nli.

Definition onf_s (o : option float) : string := match o with Some x => fstr x | None => "-inf"%string end.
Definition obs_s (o : @edfa_obs NumF) : string :=
  join "|" [fstr (o_pin_db o); fstr (o_eff o); join "," (map onf_s (o_nf o)); flist_s (o_gprofile o);
            flist_s (o_ase_in o); flist_s (map k_f (o_out o)); flist_s (map k_sig (o_out o));
            flist_s (map k_ase (o_out o)); flist_s (map k_nli (o_out o))].

Definition run_edfa (a : @amp NumF) (l : list (@ch NumF)) : string :=
  match edfa_call a l with Ok o => obs_s o | Err e => append "E:" e end.
Definition run_multi (amps : list (@amp NumF)) (l : list (@ch NumF)) : string :=
  match multiband amps l with Ok os => join "#" (map obs_s os) | Err e => append "E:" e end.
Definition run_est (gmin gmax nfmin nfmax : float) : string :=
  match @estimate_nf_model NumF gmin gmax nfmin nfmax with
  | Ok (nf1, nf2, dp) => flist_s [nf1; nf2; dp]
  | Err e => append "E:" e
  end.
