(* Case runner for C11: one network literal, several requests; one text line per network. *)
From Verif Require Import Prelude Model.Route.
Open Scope Z_scope.

Fixpoint kinds_of_string (s : string) : list kind :=
  match s with
  | EmptyString => []
  | String c t => (if Ascii.eqb c "T" then KT else if Ascii.eqb c "R" then KR else KL) :: kinds_of_string t
  end.

Definition mk_net (g : graph) (kinds : string) (oms : list (list Z * option Z)) : net :=
  mkNet g (kinds_of_string kinds) oms.

(* same links, fibre spans keep their length, every other hop weighs 0 *)
Definition fibre_graph (g : graph) (fib : list Z) : graph :=
  map (fun r : Z * list (Z * Z) =>
         (fst r, map (fun vw : Z * Z => (fst vw, if memZ (fst r) fib then snd vw else 0)) (snd r))) g.

(* what gnpy returned *)
Inductive observed :=
| OPath (p : list Z) (rev : option (list Z))      (* path, find_reversed_path of it (None = it raised) *)
| OBlock (reason : string)
| ONone.                                          (* stopped earlier (exception) *)

Record rq := mkRq {
  q_src : Z; q_dst : Z;
  q_nodes : list Z; q_strict : list bool;          (* raw include list of the request (names -> ids, unknown = negative) *)
  q_obs : observed
}.

Definition flags_s (l : list bool) : string := join "" (map (fun b : bool => if b then "S" else "L")%string l).
Definition outcome_s (g : graph) (o : outcome) : string :=
  match o with
  | RPath p => append "P" (zs (weight g p))
  | RBlock r => append "B" r
  end.

Definition opt_w (g : graph) (ps : list (list Z)) : string :=
  match best g ps with Some p => zs (weight g p) | None => "N"%string end.

Definition run_rq (n : net) (fib : list Z) (r : rq) : string :=
  let g := ngraph n in
  let s := q_src r in
  let t := q_dst r in
  match clean_route n s t (q_nodes r) (q_strict r) with
  | Err e => append "c=E:" e
  | Ok (inc, st) =>
      let strict := existsb (fun b => b) st in
      let all := all_routes g s t in
      let sat := filter (ispart inc) all in
      let spec := model_route g s t inc strict in
      let eff := match sat with [] => [] | _ => inc end in
      let effps := match sat with [] => all | _ => sat end in
      let c_s := append "c=" (append (zlist_s inc) (flags_s st)) in
      let m_s :=
        match model_ccp n s t (inc ++ [t]) (st ++ [true]) with
        | Err e => append "m=E:" e
        | Ok (CExplicit p) =>
            append "m=X" (append (zs (weight g p)) (append (if explicit_forced n inc s t p then "u" else "n")%string
              (match q_obs r with OPath po _ => if zlist_eqb p po then "="%string else "!"%string | _ => "!"%string end)))
        | Ok (CSearch o) => append "m=" (outcome_s g o)
        end in
      let s_s := append "s=" (append (outcome_s g spec) (match sat with [] => "U" | _ => "I" end)%string) in
      let v_s :=
        match q_obs r with
        | OPath p rv =>
            let fg := fibre_graph g fib in
            append "v=" (join "," [bs (route_ok g s t eff p); bs (route_ok g s t [] p); bs (ispart inc p);
                                  zs (weight g p); zs (weight fg p); opt_w fg effps; opt_w g effps])
        | OBlock reason => append "v=B" reason
        | ONone => "v=-"%string
        end in
      let r_s :=
        match q_obs r with
        | OPath p (Some rv) =>
            append "r=" (join "," [bs (rev_wf n p);
                                  match find_reversed_path n p with Ok m => bs (zlist_eqb m rv) | Err e => append "E:" e end;
                                  bs (route_ok g t s [] rv);
                                  bs (zlist_eqb (roadms n rv) (rev (roadms n p)))])
        | OPath p None =>
            append "r=" (join "," [bs (rev_wf n p);
                                  match find_reversed_path n p with Ok m => "F"%string | Err e => append "E:" e end;
                                  "-"; "-"])%string
        | _ => "r=-"%string
        end in
      join "|" [c_s; m_s; s_s; v_s; r_s]
  end.

Definition run_net (g : graph) (kinds : string) (oms : list (list Z * option Z)) (fib : list Z)
           (rqs : list rq) : string :=
  let n := mk_net g kinds oms in
  join ";" (map (run_rq n fib) rqs).

(* large meshes: no enumeration; validator + certificate: one potential per leg of s -> includes -> t
   (a single potential = the plain dual-potential certificate of an unconstrained request) *)
Definition run_big (g : graph) (cases : list (Z * Z * list Z * list (list Z) * list Z)) : string :=
  join ";" (map (fun c : Z * Z * list Z * list (list Z) * list Z =>
                   let '(s, t, inc, pis, p) := c in
                   join "," [bs (route_ok g s t inc p);
                             bs (match pis, inc with [pi], [] => potential_ok g pi s t p | _, _ => seg_cert_ok g pis s t inc p end);
                             zs (weight g p)]) cases).
