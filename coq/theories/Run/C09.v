(* Case runner for the C09 correspondence: literal constructors, one network = shared configuration and library +
   several OMS, and the text renderer. *)
From Coq Require Export QArith.
From Verif Require Import Prelude Model.Select Model.PowerDesign.
Open Scope Q_scope.

Definition q_s (q : Q) : string :=
  let r := Qred q in append (zs (Qnum r)) (append "/" (zs (Zpos (Qden r)))).
Definition oq_s (o : option Q) : string := match o with Some q => q_s q | None => "N"%string end.

(* ---------- literal constructors ---------- *)
Definition cfg (pm : bool) (dpr : list Q) (ref slope vm vs ext maxl pad eol cin cout : Q) : span_cfg :=
  mkSpan pm dpr ref slope vm vs ext maxl pad eol cin cout.
Definition la (n : string) (multi ram allowed : bool) (fmin fmax gmin gmax pmax : Q) (voa_auto : bool) : amp :=
  mkAmp n multi ram allowed fmin fmax gmin gmax pmax voa_auto.
Definition sq (q : Q) : option Q := Some q.
Definition rf (lin : Q) (cin cout : option Q) (att : Q) (lc : list Q) : relem := RFib (mkRF lin cin cout att lc None).
(* a RamanFiber with its two gain estimates (reference power / designed power) *)
Definition rrf (lin : Q) (cin cout : option Q) (att : Q) (lc : list Q) (gref gcached : Q) : relem :=
  RFib (mkRF lin cin cout att lc (Some (gref, gcached))).
Definition rfu (l : Q) : relem := RFus l.
Definition ra (variety : string) (vlist : list string) (gain dp ovoa ivoa : option Q) (nfs : list (string * Q)) : relem :=
  RAmp (mkAN (mkNode variety vlist) gain dp ovoa ivoa nfs).
Definition nfv (n : string) (v : Q) : string * Q := (n, v).
Definition sroadm (b : list string) : startk := StartRoadm b.
Definition eroadm (p : list string) : endk := EndRoadm p.

(* one OMS: design band, total reference power of the band (pref_ch + 10 log10 nb_channels), launched reference power,
   ingress, egress, elements *)
Definition oms (bmin bmax pref_total p0 : Q) (s : startk) (e : endk) (l : list relem)
  : Q * Q * Q * Q * startk * endk * list relem := (bmin, bmax, pref_total, p0, s, e, l).

(* ---------- rendering ---------- *)
Fixpoint fibers_s (l : list elem) : list string :=
  match l with
  | [] => []
  | Fib f :: t => join "|" [q_s (f_att f); q_s (f_cin f); q_s (f_cout f); oq_s (f_dsl f)] :: fibers_s t
  | _ :: t => fibers_s t
  end.
Definition damp_s (d : damp) : string :=
  join "|" [d_variety d; q_s (d_gain d); oq_s (d_delta_p d); q_s (d_dp d); q_s (d_ovoa d); q_s (d_ivoa d);
            q_s (d_node_loss d); q_s (d_crit d)].

Definition run_oms (c : span_cfg) (lib : list amp) (pref_ch : Q)
                   (o : Q * Q * Q * Q * startk * endk * list relem) : string :=
  let '(bmin, bmax, pref_total, p0, s, e, raw) := o in
  let ch := prep c raw in
  append (join ";" (fibers_s ch))
    (append "#"
       (match design c lib bmin bmax pref_ch pref_total p0 s e ch with
        | Err e => append "E:" e
        | Ok ds => append (join ";" (map damp_s ds)) (append "#" (join ";" (map q_s (walk p0 ch ds))))
        end)).

Definition run_net (c : span_cfg) (lib : list amp) (pref_ch : Q)
                   (l : list (Q * Q * Q * Q * startk * endk * list relem)) : string :=
  join "~" (map (run_oms c lib pref_ch) l).

(* ---------- multiband OMS ---------- *)
Definition bi (bmin bmax pref_total : Q) : bandinfo := mkBI bmin bmax pref_total.
Definition grp (n : string) (allowed : bool) (members : list string) : mgroup := mkG n allowed members.
Definition mrf (lin : Q) (cin cout : option Q) (att : Q) (lc : list Q) : rmelem := RMFib (mkRF lin cin cout att lc None).
Definition mrfu (l : Q) : rmelem := RMFus l.
Definition ban (variety : string) (gain dp ovoa ivoa : option Q) (nfs : list (string * Q)) : ampn :=
  mkAN (mkNode variety []) gain dp ovoa ivoa nfs.
Definition mra (variety : string) (vlist : list string) (amps : list ampn) : rmelem := RMA (mkNode variety vlist) amps.
Definition moms (bis : list bandinfo) (p0 : Q) (s : startk) (e : endk) (l : list rmelem)
  : list bandinfo * Q * startk * endk * list rmelem := (bis, p0, s, e, l).

Fixpoint mfibers_s (l : list melem) : list string :=
  match l with
  | [] => []
  | MFib f :: t => join "|" [q_s (f_att f); q_s (f_cin f); q_s (f_cout f); oq_s (f_dsl f)] :: mfibers_s t
  | _ :: t => mfibers_s t
  end.

(* fibres # node1 & node2 ... (each node: band1 ^ band2 ...) # per band walks (band1 ^ band2) *)
Definition run_moms (c : span_cfg) (lib : list amp) (groups : list mgroup) (pref_ch : Q)
                    (o : list bandinfo * Q * startk * endk * list rmelem) : string :=
  let '(bis, p0, s, e, raw) := o in
  let ch := mprep c raw in
  append (join ";" (mfibers_s ch))
    (append "#"
       (match design_mb c lib groups bis pref_ch p0 s e ch with
        | Err e => append "E:" e
        | Ok dss =>
            append (join "&" (map (fun ds => join "^" (map damp_s ds)) dss))
              (append "#"
                 (join "^" (map (fun k => join ";" (map q_s (walk p0 (proj_band k ch) (proj_ds k dss))))
                                (seq 0 (length bis)))))
        end)).

Definition run_mnet (c : span_cfg) (lib : list amp) (groups : list mgroup) (pref_ch : Q)
                    (l : list (list bandinfo * Q * startk * endk * list rmelem)) : string :=
  join "~" (map (run_moms c lib groups pref_ch) l).
