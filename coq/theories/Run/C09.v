(* Case runner for the C09 correspondence: literal constructors, one network = shared configuration and library +
   several OMS, and the text renderer. *)
From Coq Require Export QArith.
From Verif Require Import Prelude Model.Select Model.PowerDesign.
Open Scope Q_scope.

Definition q_s (q : Q) : string :=
  let r := Qred q in append (zs (Qnum r)) (append "/" (zs (Zpos (Qden r)))).
Definition oq_s (o : option Q) : string := match o with Some q => q_s q | None => "N"%string end.

(* ---------- literal constructors ---------- *)
Definition cfg (pm : bool) (dpr : list Q) (ref slope vm vs ext maxl pad eol cin cout : Q) : span_cfg :=
  mkSpan pm dpr ref slope vm vs ext maxl pad eol cin cout.
Definition la (n : string) (multi ram allowed : bool) (fmin fmax gmin gmax pmax : Q) (voa_auto : bool) : amp :=
  mkAmp n multi ram allowed fmin fmax gmin gmax pmax voa_auto.
Definition sq (q : Q) : option Q := Some q.
Definition rf (lin : Q) (cin cout : option Q) (att : Q) (lc : list Q) : relem := RFib (mkRF lin cin cout att lc None).
(* a RamanFiber with its two gain estimates (reference power / designed power) *)
Definition rrf (lin : Q) (cin cout : option Q) (att : Q) (lc : list Q) (gref gcached : Q) : relem :=
  RFib (mkRF lin cin cout att lc (Some (gref, gcached))).
Definition rfu (l : Q) : relem := RFus l.
Definition ra (variety : string) (vlist : list string) (gain dp ovoa ivoa : option Q) (nfs : list (string * Q)) : relem :=
  RAmp (mkAN (mkNode variety vlist) gain dp ovoa ivoa nfs).
Definition nfv (n : string) (v : Q) : string * Q := (n, v).
Definition sroadm (b : list string) : startk := StartRoadm b.
Definition eroadm (p : list string) : endk := EndRoadm p.

(* one OMS: design band, total reference power of the band (pref_ch + 10 log10 nb_channels), launched reference power,
   ingress, egress, elements *)
Definition oms (bmin bmax pref_total p0 : Q) (s : startk) (e : endk) (l : list relem)
  : Q * Q * Q * Q * startk * endk * list relem := (bmin, bmax, pref_total, p0, s, e, l).

(* ---------- rendering ---------- *)
Fixpoint fibers_s (l : list elem) : list string :=
  match l with
  | [] => []
  | Fib f :: t => join "|" [q_s (f_att f); q_s (f_cin f); q_s (f_cout f); oq_s (f_dsl f)] :: fibers_s t
  | _ :: t => fibers_s t
  end.
Definition damp_s (d : damp) : string :=
  join "|" [d_variety d; q_s (d_gain d); oq_s (d_delta_p d); q_s (d_dp d); q_s (d_ovoa d); q_s (d_ivoa d);
            q_s (d_node_loss d); q_s (d_crit d)].

Definition run_oms (c : span_cfg) (lib : list amp) (pref_ch : Q)
                   (o : Q * Q * Q * Q * startk * endk * list relem) : string :=
  let '(bmin, bmax, pref_total, p0, s, e, raw) := o in
  let ch := prep c raw in
  append (join ";" (fibers_s ch))
    (append "#"
       (match design c lib bmin bmax pref_ch pref_total p0 s e ch with
        | Err e => append "E:" e
        | Ok ds => append (join ";" (map damp_s ds)) (append "#" (join ";" (map q_s (walk p0 ch ds))))
        end)).

Definition run_net (c : span_cfg) (lib : list amp) (pref_ch : Q)
                   (l : list (Q * Q * Q * Q * startk * endk * list relem)) : string :=
  join "~" (map (run_oms c lib pref_ch) l).
