(* Case runners for the C07 correspondence: compact constructors for the literals written by
   harness/c07.py and one-line text renderers of the model results. *)
From Coq Require Export QArith.
From Verif Require Import Prelude Model.Channels.
Open Scope Q_scope.

(* ---------- literals ---------- *)
Definition c (i : Z) (f b w : Q) : chan := mkC i f b w "" [] [].
Definition bd (lo hi : Q) : band := mkB lo hi None.
Definition bds (lo hi sp : Q) : band := mkB lo hi (Some sp).
Definition rb (lo hi sp : option Q) : rband := mkRB lo hi sp.
Definition ea (u : Z) (bs : list band) : elem := EEdfa (mkA u bs).
Definition sa (u : Z) (bs : list band) : amp := mkA u bs.

(* ---------- rendering ---------- *)
Definition qs (q : Q) : string :=
  let r := Qred q in append (zs (Qnum r)) (append "/" (zs (Zpos (Qden r)))).
Definition oqs (o : option Q) : string := match o with Some q => qs q | None => "N"%string end.
Definition ids_s (s : si) : string := zlist_s (map cid s).
Definition err_s (e : string) : string := append "E:" e.
Definition res_s (r : res si) : string := match r with Ok s => ids_s s | Err e => err_s e end.
(* id:uid.uid.uid  (amplifier stages in the order they were crossed) *)
Definition hist_s (s : si) : string :=
  join "," (map (fun x => append (zs (cid x)) (append ":" (join "." (map zs (rev (chist x)))))) s).
Definition band_s (b : band) : string := join "," [qs (bmin b); qs (bmax b); oqs (bsp b)].

(* ---------- runners ---------- *)
Definition run_mk (l : list chan) : string := res_s (mk_si l).

Definition with_si (l : list chan) (k : si -> string) : string :=
  match mk_si l with Ok s => k s | Err e => append "E0:" e end.

Definition run_demux (l : list chan) (b : band) : string :=
  with_si l (fun s => match demux s b with
                      | Ok None => "N"%string
                      | Ok (Some x) => ids_s x
                      | Err e => err_s e
                      end).

Fixpoint build_all (ls : list (list chan)) : res (list si) :=
  match ls with
  | [] => Ok []
  | l :: t => let* s := mk_si l in let* r := build_all t in Ok (s :: r)
  end.
Definition run_mux (ls : list (list chan)) : string :=
  match build_all ls with
  | Ok parts => res_s (mux parts)
  | Err e => append "E0:" e
  end.

Definition run_fcr (amps : list (list rband)) (dmin dmax : option Q) (dsp : Q) : string :=
  join ";" (map band_s (find_common_range amps dmin dmax dsp)).

Definition run_filter (path : list elem) (dmin dmax : option Q) (dsp : Q) (l : list chan) : string :=
  with_si l (fun s => res_s (filter_si path dmin dmax dsp s)).

(* one element applied to a constructed spectrum: ids and the stages that processed each channel *)
Definition run_elem (e : elem) (l : list chan) : string :=
  with_si l (fun s => match elem_call e s with Ok s' => hist_s s' | Err m => err_s m end).

Definition trace_s (t : list (res si)) : string :=
  join "|" (map (fun r => match r with Ok s => hist_s s | Err m => err_s m end) t).

(* build, filter, and the spectrum after every element of the path *)
Definition run_path (path : list elem) (dmin dmax : option Q) (dsp : Q) (l : list chan) : string :=
  with_si l (fun s0 =>
    match filter_si path dmin dmax dsp s0 with
    | Err e => append "F:" (err_s e)
    | Ok s1 => join "|" (append "F:" (ids_s s1) ::
                         map (fun r => match r with Ok s => hist_s s | Err m => err_s m end) (propagate_trace path s1))
    end).

(* ---------- construction of the launched spectrum ---------- *)
Definition kc (i : Z) (f b w : Q) : Q * carrier := (f, mkK i b w "" 0 0 0 0).
Definition run_cts (d : list (Q * carrier)) : string := res_s (carriers_to_si d).
(* create_arbitrary_spectral_information with list arguments of the given lengths *)
Definition run_cols (ids : list Z) (fs bs ws : list Q) (nl no nt nd nr : nat) : string :=
  res_s (create_arbitrary_cols
           (mkCols ids fs bs ws (repeat ""%string nl) (repeat 0 no) (repeat 0 nt) (repeat 0 nd) (repeat 0 nr))).
(* number of channels ; frequencies *)
Definition run_grid (fmin fmax sp baud : Q) : string :=
  match create_input_si fmin fmax sp baud "" [] with
  | Ok s => append (zs (Z.of_nat (length s))) (append ";" (join "," (map (fun x => qs (cf x)) s)))
  | Err e => err_s e
  end.
Definition run_fcr_gen (amps : list (list rband)) (dmin dmax : option Q) (dsp : Q) (ddb : list band) : string :=
  join ";" (map band_s (find_common_range_gen amps dmin dmax dsp ddb)).
