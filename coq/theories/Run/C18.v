(* Case runner for the C18 correspondence: renders JSON values / results as one line of text and
   dispatches converter names to the model functions of Model/Yang.v. *)
From Verif Require Import Prelude Model.YangPrecision Model.Yang.
Open Scope Z_scope.

Definition q : string := "'"%string.
Fixpoint render (j : json) : string :=
  match j with
  | JNull => "null"
  | JBool true => "true"
  | JBool false => "false"
  | JNum m d => append (zs m) (append "e-" (zs (Z.of_nat d)))
  | JStr s => append q (append s q)
  | JArr l => append "[" (append (join "," (map render l)) "]")
  | JObj o => append "{" (append (join "," (map (fun kv => append q (append (fst kv) (append q (append ":" (render (snd kv)))))) o)) "}")
  end%string.

Definition render_res (r : res json) : string :=
  match r with Ok j => render j | Err e => append "E:" e end.
Definition render_obj (r : res obj) : string :=
  match r with Ok o => render (JObj o) | Err e => append "E:" e end.

Definition on_obj (f : obj -> res obj) (j : json) : string :=
  match j with JObj o => render_obj (f o) | _ => "E:TypeError:dict expected"%string end.

Definition render_alias (r : res (list (string * obj))) : string :=
  match r with
  | Ok l => join ";" (map (fun nv => append (fst nv) (append "=" (render (JObj (snd nv))))) l)
  | Err e => append "E:" e
  end.

Definition S (a b : string) : bool := String.eqb a b.

Definition run_fn (name : string) (j : json) : string :=
  if S name "n2e" then render (none_to_empty j)
  else if S name "e2n" then render (empty_to_none j)
  else if S name "cdict" then render_res (convert_dict j)
  else if S name "cback" then render_res (convert_back j)
  else if S name "l2y" then render_res (legacy_to_yang j)
  else if S name "y2l" then render_res (yang_to_legacy j)
  else if S name "l2y_y2l" then render_res (let* y := legacy_to_yang j in yang_to_legacy y)
  else if S name "l2y_y2l_l2y" then render_res (let* y := legacy_to_yang j in let* l := yang_to_legacy y in legacy_to_yang l)
  else if S name "ns_topo" then render (remove_ns "gnpy-network-topology:" j)
  else if S name "ns_eqpt" then render (remove_ns "gnpy-eqpt-config:" j)
  else if S name "reorder_raman_pumps" then on_obj reorder_raman_pumps j
  else if S name "reorder_lumped_losses" then on_obj reorder_lumped_losses j
  else if S name "remove_null_region_city" then on_obj remove_null_region_city j
  else if S name "degree" then on_obj convert_degree j
  else if S name "back_degree" then on_obj convert_back_degree j
  else if S name "design_band" then on_obj convert_design_band j
  else if S name "back_design_band" then on_obj convert_back_design_band j
  else if S name "loss" then on_obj convert_loss_coeff_list j
  else if S name "back_loss" then on_obj convert_back_loss_coeff_list j
  else if S name "raman" then on_obj convert_raman_coef j
  else if S name "back_raman" then on_obj convert_back_raman_coef j
  else if S name "raman_eff" then on_obj convert_raman_efficiency j
  else if S name "back_raman_eff" then on_obj convert_back_raman_efficiency j
  else if S name "range" then on_obj convert_delta_power_range j
  else if S name "back_range" then on_obj convert_back_delta_power_range j
  else if S name "nf_coef" then on_obj convert_nf_coef j
  else if S name "back_nf_coef" then on_obj convert_back_nf_coef j
  else if S name "nf_fit" then on_obj convert_nf_fit_coef j
  else if S name "back_nf_fit" then on_obj convert_back_nf_fit_coef j
  else if S name "add_default" then on_obj add_missing_default_type_variety j
  else if S name "reorder_route" then on_obj reorder_route_objects j
  else if S name "union" then on_obj remove_union_that_fail j
  else if S name "alias_edfa" then match j with JObj o => render_alias (expand_edfa o) | _ => "E:TypeError" end
  else if S name "alias_trx" then match j with JObj o => render_alias (expand_trx o) | _ => "E:TypeError" end
  else "E:unknown function"%string.

Definition run_many (names : list string) (j : json) : string :=
  join "@@" (map (fun n => run_fn n j) names).

(* literal helpers for generated case files *)
Definition kv (k : string) (v : json) : string * json := (k, v).
Fixpoint split_csv (s : string) (cur : string) : list string :=
  match s with
  | EmptyString => [cur]
  | String c t => if Ascii.eqb c ","%char then cur :: split_csv t EmptyString
                  else split_csv t (append cur (String c EmptyString))
  end.
Definition run_csv (names : string) (j : json) : string := run_many (split_csv names EmptyString) j.
