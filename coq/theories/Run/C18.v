(* Case runner for the C18 correspondence: renders JSON values / results as one line of text and
   dispatches converter names to the model functions of Model/Yang.v. *)
From Verif Require Import Prelude Model.YangPrecision Model.Yang.
From Coq Require Import Uint63.
Open Scope Z_scope.

Definition q : string := "'"%string.
Fixpoint render (j : json) : string :=
  match j with
  | JNull => "null"
  | JBool true => "true"
  | JBool false => "false"
  | JNum m d => append (zs m) (append "e-" (zs (Z.of_nat d)))
  | JStr s => append q (append s q)
  | JArr l => append "[" (append (join "," (map render l)) "]")
  | JObj o => append "{" (append (join "," (map (fun kv => append q (append (fst kv) (append q (append ":" (render (snd kv)))))) o)) "}")
  end%string.

(* ---- digest of a JSON value (machine integers: execution only, never under a theorem).  The generated
   cases print digests instead of documents: reading back and printing hundreds of kilobytes of text is what
   dominated the run.  `full` switches to the complete text (used to report a disagreement). ---- *)
Definition mix (h x : int) : int := (h * 1000003 + x)%uint63.
Definition b2i (b : bool) : int := if b then 1%uint63 else 0%uint63.
Definition code (c : ascii) : int :=
  match c with
  | Ascii b0 b1 b2 b3 b4 b5 b6 b7 =>
      (b2i b0 + 2 * b2i b1 + 4 * b2i b2 + 8 * b2i b3 + 16 * b2i b4 + 32 * b2i b5 + 64 * b2i b6 + 128 * b2i b7)%uint63
  end.
Fixpoint hstr (s : string) (h : int) : int :=
  match s with
  | EmptyString => mix h 255
  | String c t => hstr t (mix h (code c))
  end.
Definition two60 : Z := 2 ^ 60.
Definition hz (z : Z) (h : int) : int :=
  let a := Z.abs z in
  mix (mix (mix h (if (z <? 0)%Z then 1%uint63 else 0%uint63)) (Uint63.of_Z (a mod two60))) (Uint63.of_Z ((a / two60) mod two60)).
Fixpoint hjson (j : json) (h : int) : int :=
  match j with
  | JNull => mix h 1
  | JBool b => mix h (if b then 2 else 3)%uint63
  | JNum m d => hz (Z.of_nat d) (hz m (mix h 4))
  | JStr s => hstr s (mix h 5)
  | JArr l => mix (fold_left (fun h x => hjson x h) l (mix h 6)) 7
  | JObj o => mix (fold_left (fun h kv => hjson (snd kv) (hstr (fst kv) h)) o (mix h 8)) 9
  end.
Definition digest (j : json) : string := append "H" (zs (Uint63.to_Z (hjson j 0%uint63))).

Definition show (full : bool) (j : json) : string := if full then render j else digest j.
Definition render_res (full : bool) (r : res json) : string :=
  match r with Ok j => show full j | Err e => append "E:" e end.
Definition render_obj (full : bool) (r : res obj) : string :=
  match r with Ok o => show full (JObj o) | Err e => append "E:" e end.

Definition on_obj (full : bool) (f : obj -> res obj) (j : json) : string :=
  match j with JObj o => render_obj full (f o) | _ => "E:TypeError:dict expected"%string end.

Definition render_alias (full : bool) (r : res (list (string * obj))) : string :=
  match r with
  | Ok l => if full then join ";" (map (fun nv => append (fst nv) (append "=" (render (JObj (snd nv))))) l)
            else digest (JArr (map (fun nv => JArr [JStr (fst nv); JObj (snd nv)]) l))
  | Err e => append "E:" e
  end.

Definition S (a b : string) : bool := String.eqb a b.

Definition run_base (full : bool) (name : string) (j : json) : string :=
  if S name "n2e" then show full (none_to_empty j)
  else if S name "e2n" then show full (empty_to_none j)
  else if S name "cdict" then render_res full (convert_dict j)
  else if S name "cback" then render_res full (convert_back j)
  else if S name "l2y" then render_res full (legacy_to_yang j)
  else if S name "y2l" then render_res full (yang_to_legacy j)
  else if S name "l2y_y2l" then render_res full (let* y := legacy_to_yang j in yang_to_legacy y)
  else if S name "l2y_y2l_l2y" then render_res full (let* y := legacy_to_yang j in let* l := yang_to_legacy y in legacy_to_yang l)
  else if S name "ns_topo" then show full (remove_ns "gnpy-network-topology:" j)
  else if S name "ns_eqpt" then show full (remove_ns "gnpy-eqpt-config:" j)
  else if S name "reorder_raman_pumps" then on_obj full reorder_raman_pumps j
  else if S name "reorder_lumped_losses" then on_obj full reorder_lumped_losses j
  else if S name "remove_null_region_city" then on_obj full remove_null_region_city j
  else if S name "degree" then on_obj full convert_degree j
  else if S name "back_degree" then on_obj full convert_back_degree j
  else if S name "design_band" then on_obj full convert_design_band j
  else if S name "back_design_band" then on_obj full convert_back_design_band j
  else if S name "loss" then on_obj full convert_loss_coeff_list j
  else if S name "back_loss" then on_obj full convert_back_loss_coeff_list j
  else if S name "raman" then on_obj full convert_raman_coef j
  else if S name "back_raman" then on_obj full convert_back_raman_coef j
  else if S name "raman_eff" then on_obj full convert_raman_efficiency j
  else if S name "back_raman_eff" then on_obj full convert_back_raman_efficiency j
  else if S name "range" then on_obj full convert_delta_power_range j
  else if S name "back_range" then on_obj full convert_back_delta_power_range j
  else if S name "nf_coef" then on_obj full convert_nf_coef j
  else if S name "back_nf_coef" then on_obj full convert_back_nf_coef j
  else if S name "nf_fit" then on_obj full convert_nf_fit_coef j
  else if S name "back_nf_fit" then on_obj full convert_back_nf_fit_coef j
  else if S name "add_default" then on_obj full add_missing_default_type_variety j
  else if S name "reorder_route" then on_obj full reorder_route_objects j
  else if S name "union" then on_obj full remove_union_that_fail j
  else if S name "alias_edfa" then match j with JObj o => render_alias full (expand_edfa o) | _ => "E:TypeError" end
  else if S name "alias_trx" then match j with JObj o => render_alias full (expand_trx o) | _ => "E:TypeError" end
  else if S name "alias_modes" then
    match (match j with JObj o => jget "modes" o | _ => None end) with
    | Some (JArr l) => match mapM as_obj l with
                | Ok ms => match expand_modes ms with
                           | Ok r => show full (JArr (map JObj r))
                           | Err e => append "E:" e
                           end
                | Err e => append "E:" e
                end
    | _ => "E:TypeError"
    end
  else "E:unknown function"%string.

(* "Y.f": f applied to the YANG form computed by the model; "B.f": f applied to the document the back
   converters of yang_to_legacy see (convert_back (empty_to_none (l2y d)), inside its namespace wrapper) *)
Definition run_fn (full : bool) (name : string) (j : json) : string :=
  if String.prefix "Y." name then
    match legacy_to_yang j with
    | Ok y => run_base full (substring 2 (String.length name - 2) name) y
    | Err e => append "E:" e
    end
  else if String.prefix "B." name then
    match (let* y := legacy_to_yang j in convert_back (empty_to_none y)) with
    | Ok (JObj [(_, inner)]) => run_base full (substring 2 (String.length name - 2) name) inner
    | Ok _ => "E:TypeError:no wrapper"%string
    | Err e => append "E:" e
    end
  else run_base full name j.

Definition run_many (full : bool) (names : list string) (j : json) : string :=
  join "@@" (map (fun n => run_fn full n j) names).

(* literal helpers for generated case files *)
Definition kv (k : string) (v : json) : string * json := (k, v).
Fixpoint split_csv (s : string) (cur : string) : list string :=
  match s with
  | EmptyString => [cur]
  | String c t => if Ascii.eqb c ","%char then cur :: split_csv t EmptyString
                  else split_csv t (append cur (String c EmptyString))
  end.
Definition run_csv (names : string) (j : json) : string := run_many false (split_csv names EmptyString) j.
Definition run_csv_full (names : string) (j : json) : string := run_many true (split_csv names EmptyString) j.
