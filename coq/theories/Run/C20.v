(* Case runner for the C20 correspondence: runs the converters of Model/Sheet.v on literal rows and renders the
   result as one line of JSON text; rationals are rendered as [num, den] (the harness decodes by position). *)
From Coq Require Import QArith.
From Verif Require Import Prelude Model.Sheet.
Open Scope Z_scope.
Open Scope string_scope.
Open Scope list_scope.

Inductive jv := JNull | JB (b : bool) | JS (s : string) | JN (z : Z) | JA (l : list jv)
              | JO (l : list (string * jv)).

Fixpoint esc (s : string) : string :=
  match s with
  | EmptyString => EmptyString
  | String c t =>
      if Ascii.eqb c """" then String "\" (String """" (esc t))
      else if Ascii.eqb c "\" then String "\" (String "\" (esc t))
      else String c (esc t)
  end.
Definition quote (s : string) : string := String """" (esc s +s String """" EmptyString).
Fixpoint jrender (v : jv) : string :=
  match v with
  | JNull => "null"
  | JB true => "true"
  | JB false => "false"
  | JS s => quote s
  | JN z => zs z
  | JA l => "[" +s join "," (map jrender l) +s "]"
  | JO l => "{" +s join "," (map (fun kv => quote (fst kv) +s ":" +s jrender (snd kv)) l) +s "}"
  end.

Definition jos (o : option string) : jv := match o with Some s => JS s | None => JNull end.
Definition juid (u : uid) : jv := JS (render u).

(* Compact positional rendering of a network (the cost of a run is the size of the printed string):
     [ locs, elements, connections ]
     loc        [city|null, region|null, lat, lon]            distinct locations, referred to by index
     element    [uid, loc index, kind, payload...]
                "T" | "R",variety|null,[pre,boo]|null,[[uid,q]..]|null,[[from,to,id]..]|null | "F",true|false
                | "B",variety,length,loss_coef,con_in|null,con_out|null,pmd_coef_sq|null | "A" | "E",variety|null,[g,dp,tilt,out,in]
     connection [i, j]  positions of the first elements carrying the two uids (the uid itself when there is none)
   rationals are [num, den]. *)
Definition jq (q : Q) : jv := let r := Qred q in JA [JN (Qnum r); JN (Zpos (Qden r))].
Definition joq (o : option Q) : jv := match o with Some q => jq q | None => JNull end.
Definition ostr_eqb (a b : option string) : bool :=
  match a, b with Some x, Some y => seqb x y | None, None => true | _, _ => false end.
(* same fraction, syntactically (multiplying 50-bit numerators is what makes Qeq_bool slow); a missed
   identification only costs a repeated entry in the table *)
Definition qsame (a b : Q) : bool := Z.eqb (Qnum a) (Qnum b) && Pos.eqb (Qden a) (Qden b).
Definition loc_eqb (a b : loc) : bool :=
  ostr_eqb (lc_city a) (lc_city b) && ostr_eqb (lc_region a) (lc_region b) &&
  qsame (lc_lat a) (lc_lat b) && qsame (lc_lon a) (lc_lon b).
Fixpoint index_of {A} (p : A -> bool) (l : list A) (k : Z) : option Z :=
  match l with [] => None | x :: t => if p x then Some k else index_of p t (k + 1) end.
Fixpoint dedup_locs (l : list loc) (acc : list loc) : list loc :=
  match l with
  | [] => rev acc
  | x :: t => if existsb (loc_eqb x) acc then dedup_locs t acc else dedup_locs t (x :: acc)
  end.
Definition loc_json (l : loc) : jv := JA [jos (lc_city l); jos (lc_region l); jq (lc_lat l); jq (lc_lon l)].
Definition oper_json (o : oper) : jv :=
  JA [joq (op_gain o); joq (op_dp o); joq (op_tilt o); joq (op_out_voa o); jq (op_in_voa o)].
Definition content_json (c : content) : list jv :=
  match c with
  | CTrx => [JS "T"]
  | CRoadm v r p im =>
      [JS "R"; jos v;
       match r with Some (pre, boo) => JA [JA (map JS pre); JA (map JS boo)] | None => JNull end;
       match p with Some l => JA (map (fun kv => JA [juid (fst kv); jq (snd kv)]) l) | None => JNull end;
       match im with
       | Some l => JA (map (fun t => JA [juid (fst (fst t)); juid (snd (fst t)); JN (snd t)]) l)
       | None => JNull end]
  | CFused l0 => [JS "F"; JB l0]
  | CFiber v len lc ci co p2 => [JS "B"; JS v; jq len; jq lc; joq ci; joq co; joq p2]
  | CEdfaAuto => [JS "A"]
  | CEdfa v o => [JS "E"; jos v; oper_json o]
  end.
Definition el_json (locs : list loc) (e : element) : jv :=
  JA (juid (el_uid e) :: match index_of (loc_eqb (el_loc e)) locs 0 with Some k => JN k | None => JNull end
      :: content_json (el_c e)).
Definition uid_ref (els : list element) (u : uid) : jv :=
  match index_of (fun e => uid_eqb (el_uid e) u) els 0 with Some k => JN k | None => juid u end.
Definition net_json (n : net) : jv :=
  let locs := dedup_locs (map el_loc (elements n)) [] in
  JA [JA (map loc_json locs); JA (map (el_json locs) (elements n));
      JA (map (fun c => JA [uid_ref (elements n) (fst c); uid_ref (elements n) (snd c)]) (connections n))].

Definition conv_case (w : rows) : string :=
  match convert w with Ok n => jrender (net_json n) | Err e => "E:" +s e end.

(* ---- services ---- *)
Definition req_json (r : request) : jv :=
  JO [("request-id", jos (r_id r)); ("source", JS (r_src r)); ("destination", JS (r_dst r));
      ("bidirectional", JB (r_bidir r)); ("trx_type", JS (r_trx r)); ("trx_mode", jos (r_mode r));
      ("spacing", jq (r_spacing_hz r)); ("power_dbm", joq (r_power_dbm r));
      ("max-nb-of-channel", match r_nbch r with Some z => JN z | None => JNull end);
      ("path_bandwidth", jq (r_bw_bps r));
      ("route", JA (map (fun kv => JA [JN (fst kv); JS (snd kv)]) (route_objects r)));
      ("loose", JB (r_loose r));
      ("sync", match pathsync r with
               | Some (i, l) => JA [jos i; JA (map jos l)]
               | None => JNull end)].
(* Request_element alone, one result per row *)
Definition req_case (equipment : list (string * list string)) (bidir : bool) (rs : list req_row) : string :=
  jrender (JA (map (fun r => match request_element equipment bidir r with
                             | Ok q => req_json q
                             | Err e => JS ("E:" +s e) end) rs)).
(* read_service_sheet on the undesigned network converted from the same rows *)
Definition svc_case (w : rows) (equipment : list (string * list string)) (bidir : bool) (rs : list req_row) : string :=
  match convert w with
  | Err e => "E:convert:" +s e
  | Ok n => match read_service_sheet w n equipment bidir rs with
            | Ok l => jrender (JA (map req_json l))
            | Err e => "E:" +s e
            end
  end.

(* ---- compact constructors for the generated case files ---- *)
Definition NR := mkNodeRow.
Definition SR := mkSideRow.
Definition LR := mkLinkRow.
Definition AR := mkAmpRow.
Definition ER := mkEqptRow.
Definition RR := mkRoadmRow.
Definition QR := mkReqRow.
Definition W := mkRows.

(* ---- header recognition: which column is read as which field ---- *)
Definition sheet_spec (k : Z) : hdict * (nat * nat * nat) :=
  if Z.eqb k 0 then (node_headers, nodes_layout)
  else if Z.eqb k 1 then (link_headers, links_layout)
  else if Z.eqb k 2 then (eqpt_headers, eqpts_layout)
  else if Z.eqb k 3 then (roadm_headers, roadms_layout)
  else (service_headers, service_layout).
Definition hdr_case (k : Z) (g : grid) : string :=
  let '(d, (line, _, ncol)) := sheet_spec k in
  match parse_headers g d [] line 0 ncol with
  | Ok hd => jrender (JA (map (fun p => JA [JN (Z.of_nat (fst p)); JS (snd p)]) hd))
  | Err e => "E:" +s e
  end.
Definition xE := CEmpty.
Definition xT := CStr.
Definition xN := CNum.
