(* Case runner for the C20 correspondence: runs the converters of Model/Sheet.v on literal rows and renders the
   result as one line of JSON text.  Leaves are tagged strings: "s:<text>", "q:<num>/<den>", "z:<int>", null, true,
   false, so that the harness can compare numbers exactly / with a tolerance. *)
From Coq Require Import QArith.
From Verif Require Import Prelude Model.Sheet.
Open Scope Z_scope.
Open Scope string_scope.
Open Scope list_scope.

Inductive jv := JNull | JB (b : bool) | JS (s : string) | JQ (q : Q) | JZ (z : Z) | JA (l : list jv)
              | JO (l : list (string * jv)).

Fixpoint esc (s : string) : string :=
  match s with
  | EmptyString => EmptyString
  | String c t =>
      if Ascii.eqb c """" then String "\" (String """" (esc t))
      else if Ascii.eqb c "\" then String "\" (String "\" (esc t))
      else String c (esc t)
  end.
Definition quote (s : string) : string := String """" (esc s +s String """" EmptyString).
Definition qs (q : Q) : string := let r := Qred q in zs (Qnum r) +s "/" +s zs (Zpos (Qden r)).
Fixpoint jrender (v : jv) : string :=
  match v with
  | JNull => "null"
  | JB true => "true"
  | JB false => "false"
  | JS s => quote ("s:" +s s)
  | JQ q => quote ("q:" +s qs q)
  | JZ z => quote ("z:" +s zs z)
  | JA l => "[" +s join "," (map jrender l) +s "]"
  | JO l => "{" +s join "," (map (fun kv => quote (fst kv) +s ":" +s jrender (snd kv)) l) +s "}"
  end.

Definition jos (o : option string) : jv := match o with Some s => JS s | None => JNull end.
Definition joq (o : option Q) : jv := match o with Some q => JQ q | None => JNull end.
Definition juid (u : uid) : jv := JS (render u).

Definition loc_json (l : loc) : jv :=
  JO ((match lc_city l with Some c => [("city", JS c)] | None => [] end) ++
      (match lc_region l with Some c => [("region", JS c)] | None => [] end) ++
      [("latitude", JQ (lc_lat l)); ("longitude", JQ (lc_lon l))]).
Definition oper_json (o : oper) : jv :=
  JO [("gain_target", joq (op_gain o)); ("delta_p", joq (op_dp o)); ("tilt_target", joq (op_tilt o));
      ("out_voa", joq (op_out_voa o)); ("in_voa", JQ (op_in_voa o))].
Definition content_json (c : content) : list (string * jv) :=
  match c with
  | CTrx => [("type", JS "Transceiver")]
  | CRoadm v r p =>
      [("type", JS "Roadm")] ++
      (match v with Some s => [("type_variety", JS s)] | None => [] end) ++
      (match r, p with
       | None, None => []
       | _, _ => [("params", JO (
            (match r with
             | Some (pre, boo) => [("restrictions", JO [("preamp_variety_list", JA (map JS pre));
                                                        ("booster_variety_list", JA (map JS boo))])]
             | None => [] end) ++
            (match p with
             | Some l => [("per_degree_pch_out_db", JA (map (fun kv => JA [juid (fst kv); JQ (snd kv)]) l))]
             | None => [] end)))]
       end)
  | CFused l0 => [("type", JS "Fused")] ++ (if l0 then [("params", JO [("loss", JQ 0)])] else [])
  | CFiber v len lc ci co p2 =>
      [("type", JS "Fiber"); ("type_variety", JS v);
       ("params", JO ([("length", JQ len); ("length_units", JS "km"); ("loss_coef", JQ lc);
                       ("con_in", joq ci); ("con_out", joq co)] ++
                      (match p2 with Some x => [("pmd_coef_sq", JQ x)] | None => [] end)))]
  | CEdfaAuto => [("type", JS "Edfa"); ("operational", JO [("gain_target", JNull); ("tilt_target", JNull)])]
  | CEdfa v o => [("type", JS "Edfa")] ++ (match v with Some s => [("type_variety", JS s)] | None => [] end) ++
                 [("operational", oper_json o)]
  end.
Definition el_json (e : element) : jv :=
  JO ([("uid", juid (el_uid e)); ("metadata", JO [("location", loc_json (el_loc e))])] ++ content_json (el_c e)).
Definition net_json (n : net) : jv :=
  JO [("elements", JA (map el_json (elements n)));
      ("connections", JA (map (fun c => JA [juid (fst c); juid (snd c)]) (connections n)))].

Definition conv_case (w : rows) : string :=
  match convert w with Ok n => jrender (net_json n) | Err e => "E:" +s e end.

(* ---- services ---- *)
Definition req_json (r : request) : jv :=
  JO [("request-id", jos (r_id r)); ("source", JS (r_src r)); ("destination", JS (r_dst r));
      ("bidirectional", JB (r_bidir r)); ("trx_type", JS (r_trx r)); ("trx_mode", jos (r_mode r));
      ("spacing", JQ (r_spacing_hz r)); ("power_dbm", joq (r_power_dbm r));
      ("max-nb-of-channel", match r_nbch r with Some z => JZ z | None => JNull end);
      ("path_bandwidth", JQ (r_bw_bps r));
      ("route", JA (map (fun kv => JA [JZ (fst kv); JS (snd kv)]) (route_objects r)));
      ("loose", JB (r_loose r));
      ("sync", match pathsync r with
               | Some (i, l) => JA [jos i; JA (map jos l)]
               | None => JNull end)].
(* Request_element alone, one result per row *)
Definition req_case (equipment : list (string * list string)) (bidir : bool) (rs : list req_row) : string :=
  jrender (JA (map (fun r => match request_element equipment bidir r with
                             | Ok q => req_json q
                             | Err e => JS ("E:" +s e) end) rs)).
(* read_service_sheet on the undesigned network converted from the same rows *)
Definition svc_case (w : rows) (equipment : list (string * list string)) (bidir : bool) (rs : list req_row) : string :=
  match convert w with
  | Err e => "E:convert:" +s e
  | Ok n => match read_service_sheet w n equipment bidir rs with
            | Ok l => jrender (JA (map req_json l))
            | Err e => "E:" +s e
            end
  end.

(* ---- compact constructors for the generated case files ---- *)
Definition NR := mkNodeRow.
Definition SR := mkSideRow.
Definition LR := mkLinkRow.
Definition AR := mkAmpRow.
Definition ER := mkEqptRow.
Definition RR := mkRoadmRow.
Definition QR := mkReqRow.
Definition W := mkRows.
