(* Case runner for the C01 / C02 correspondence: compact literals, history / element / transceiver
   runners over Model/SI.v and a text renderer (one line per case). *)
From Verif Require Import Prelude Model.SI.
From Coq Require Import QArith Qreduction.
Open Scope Z_scope.

(* a float given as mantissa * 2^exponent (exact) *)
Definition fq (m e : Z) : Q := if 0 <=? e then inject_Z (m * 2 ^ e) else Qmake m (Z.to_pos (2 ^ (- e))).
(* channel literal: f sw baud pch signal_ratio ase_ratio nli_ratio *)
Definition ch (f sw br p s a n : Q) : chan := mkC f sw br p s a n.

(* Q rendered as  <m>e<k>  meaning m * 2^k with 64 significant bits (floor) *)
Definition qs (q : Q) : string :=
  let nq := Qnum q in
  let dq := Zpos (Qden q) in
  if nq =? 0 then "0e0"%string else
  let k := 64 - (Z.log2 (Z.abs nq) - Z.log2 dq) in
  let m := if 0 <=? k then (nq * 2 ^ k) / dq else nq / (dq * 2 ^ (- k)) in
  append (zs m) (append "e" (zs (- k))).

Definition chan_s (c : chan) : string := join "," [qs (cf c); qs (pch c); qs (rs c); qs (ra c); qs (rn c)].
Definition spec_s (sp : spectrum) : string := join "|" (map chan_s sp).
Definition res_s (r : res spectrum) : string :=
  match r with Ok sp => spec_s sp | Err e => append "E:" e end.

(* ---- histories on one SpectralInformation ---- *)
(* HS: one public method / function of info.py;  HRemux: split into bands (empty bands dropped, as
   Multiband_amplifier does) and muxed_spectral_information of the pieces *)
Inductive hop := HS (o : sop) | HRemux (bands : list (Q * Q)).
Definition nonempty {A} (l : list A) : bool := negb (is_nil l).
Definition hstep (h : hop) (sp : spectrum) : res spectrum :=
  match h with
  | HS o => sstep_n o sp
  | HRemux bands => mux (filter nonempty (map (fun b => demux (fst b) (snd b) sp) bands))
  end.
Definition hwf (h : hop) (sp : spectrum) : bool :=
  match h with HS o => swf1b sp o | HRemux _ => true end.
(* per step:  <wf flag><state>  ; stops at the first error *)
Fixpoint hist (ops : list hop) (sp : spectrum) : list string :=
  match ops with
  | [] => []
  | h :: t =>
      match hstep h sp with
      | Err e => [append (bs (hwf h sp)) (append "E:" e)]
      | Ok sp' => append (bs (hwf h sp)) (spec_s sp') :: hist t sp'
      end
  end.
Definition run_hist (sp : spectrum) (ops : list hop) : string := join ";" (hist ops sp).

(* the same history, every step replayed from the state the implementation was in before it (no growth of
   the exact numerals: this is the bulk form); channels are (index into a table of (f, sw, baud), p, s, a, n) *)
Definition tch (tb : list (Q * Q * Q)) (i : Z) (p s a n : Q) : chan :=
  match nth_error tb (Z.to_nat i) with
  | Some (f, sw, br) => mkC f sw br p s a n
  | None => mkC 0 0 0 p s a n
  end.
Definition hstep0 (h : hop) (sp : spectrum) : res spectrum :=
  match h with HS o => sstep o sp | _ => hstep h sp end.
Definition step1 (x : spectrum * hop) : string :=
  let (sp, h) := x in
  append (bs (hwf h sp)) (res_s (hstep0 h sp)).
Definition run_steps (l : list (spectrum * hop)) : string := join ";" (map step1 l).

(* ---- one element of a path, replayed from the snapshot taken before it ---- *)
(*  <program is an instance of the kind's program><side conditions hold>#<state after>  *)
Definition run_elem (k : ekind) (e : eprog) (sp : spectrum) : string :=
  append (bs (eprog_okb k e)) (append (bs (ewfb e sp)) (append "#" (res_s (erun e sp)))).

(* ---- Transceiver figures (1/linear) for one channel ---- *)
Definition fig_s (r : figures) : string :=
  join "," [qs (f_osnr r); qs (f_nli r); qs (f_gsnr r); qs (f_osnr01 r); qs (f_gsnr01 r)].
Definition run_trx (c : chan) (args : list (option Q)) : string :=
  append (fig_s (calc_snr c)) (append "/" (fig_s (update_snr args c))).
