(* Case runner for the C01 / C02 correspondence: compact literals, history / element / transceiver
   runners over Model/SI.v and a text renderer (one line per case). *)
From Verif Require Import Prelude Model.SI.
From Coq Require Import QArith Qreduction Qabs.
Open Scope Z_scope.

(* a float given as mantissa * 2^exponent (exact) *)
Definition fq (m e : Z) : Q := if 0 <=? e then inject_Z (m * 2 ^ e) else Qmake m (Z.to_pos (2 ^ (- e))).
(* channel literal: f sw baud pch signal_ratio ase_ratio nli_ratio *)
Definition ch (f sw br p s a n : Q) : chan := mkC f sw br p s a n.

(* Q rendered as  <m>e<k>  meaning m * 2^k, correct to better than 2^-60 relative: numerator and denominator
   are first truncated to 70 significant bits (shifts), so that the division is on small numbers *)
Definition qs (q : Q) : string :=
  let nq := Qnum q in
  let dq := Zpos (Qden q) in
  if nq =? 0 then "0e0"%string else
  let sn := Z.max 0 (Z.log2 (Z.abs nq) - 70) in
  let sd := Z.max 0 (Z.log2 dq - 70) in
  let n' := Z.shiftr nq sn in
  let d' := Z.shiftr dq sd in
  let k := 56 - (Z.log2 (Z.abs n') - Z.log2 d') in
  let m := if 0 <=? k then (n' * 2 ^ k) / d' else n' / (d' * 2 ^ (- k)) in
  append (zs m) (append "e" (zs (sn - sd - k))).

Definition chan_s (c : chan) : string := join "," [qs (cf c); qs (pch c); qs (rs c); qs (ra c); qs (rn c)].
Definition spec_s (sp : spectrum) : string := join "|" (map chan_s sp).
Definition res_s (r : res spectrum) : string :=
  match r with Ok sp => spec_s sp | Err e => append "E:" e end.

(* ---- histories on one SpectralInformation ---- *)
(* HS: one public method / function of info.py;  HRemux: split into bands (empty bands dropped, as
   Multiband_amplifier does) and muxed_spectral_information of the pieces *)
Inductive hop := HS (o : sop) | HRemux (bands : list (Q * Q)).
Definition nonempty {A} (l : list A) : bool := negb (is_nil l).
Definition hstep (h : hop) (sp : spectrum) : res spectrum :=
  match h with
  | HS o => sstep_n o sp
  | HRemux bands => mux (filter nonempty (map (fun b => demux (fst b) (snd b) sp) bands))
  end.
Definition hwf (h : hop) (sp : spectrum) : bool :=
  match h with HS o => swf1b sp o | HRemux _ => true end.
(* per step:  <wf flag><state>  ; stops at the first error *)
Fixpoint hist (ops : list hop) (sp : spectrum) : list string :=
  match ops with
  | [] => []
  | h :: t =>
      match hstep h sp with
      | Err e => [append (bs (hwf h sp)) (append "E:" e)]
      | Ok sp' => append (bs (hwf h sp)) (spec_s sp') :: hist t sp'
      end
  end.
Definition run_hist (sp : spectrum) (ops : list hop) : string := join ";" (hist ops sp).

(* comparison with the state observed on the implementation, done here so that the bulk runs only print a
   verdict: frequencies exactly, total power to 1e-9 relative, shares to 1e-9 relative or 1e-13 absolute *)
Definition tol_rel : Q := 1 # 1000000000.
Definition tol_abs : Q := 1 # 10000000000000.
Definition qclose (rel ab m x : Q) : bool :=
  let d := Qabs (m - x) in
  let am := Qabs m in
  let ax := Qabs x in
  Qle_bool d ab || Qle_bool d (rel * (if Qle_bool am ax then ax else am)).
Definition diff_s (i : Z) (field : string) (m : Q) : string :=
  append "!" (append (zs i) (append "," (append field (append "," (qs m))))).
Definition chan_cmp (i : Z) (m x : chan) : option string :=
  if negb (Qeq_bool (cf m) (cf x)) then Some (diff_s i "frequency" (cf m))
  else if negb (qclose tol_rel 0 (pch m) (pch x)) then Some (diff_s i "pch" (pch m))
  else if negb (qclose tol_rel tol_abs (rs m) (rs x)) then Some (diff_s i "signal_ratio" (rs m))
  else if negb (qclose tol_rel tol_abs (ra m) (ra x)) then Some (diff_s i "ase_ratio" (ra m))
  else if negb (qclose tol_rel tol_abs (rn m) (rn x)) then Some (diff_s i "nli_ratio" (rn m))
  else None.
Fixpoint spec_cmp (i : Z) (m x : spectrum) : string :=
  match m, x with
  | [], [] => "="%string
  | c :: t, d :: u => match chan_cmp i c d with Some s => s | None => spec_cmp (i + 1) t u end
  | _, _ => append "!" (append (zs (i + Z.of_nat (length m))) (append ",count," (zs (i + Z.of_nat (length x)))))
  end.
(* expected: Some state observed after the step, None when the implementation raised *)
Definition res_cmp (r : res spectrum) (x : option spectrum) : string :=
  match r, x with
  | Err e, _ => append "E:" e
  | Ok sp, Some xs => spec_cmp 0 sp xs
  | Ok _, None => "ok"%string
  end.

(* the same history, every step replayed from the state the implementation was in before it (no growth of
   the exact numerals: this is the bulk form); channels are (index into a table of (f, sw, baud), p, s, a, n) *)
Definition tch (tb : list (Q * Q * Q)) (i : Z) (p s a n : Q) : chan :=
  match nth_error tb (Z.to_nat i) with
  | Some (f, sw, br) => mkC f sw br p s a n
  | None => mkC 0 0 0 p s a n
  end.
Definition hstep0 (h : hop) (sp : spectrum) : res spectrum :=
  match h with HS o => sstep o sp | _ => hstep h sp end.
Definition step1 (x : spectrum * hop * option spectrum) : string :=
  let '(sp, h, ex) := x in
  append (bs (hwf h sp)) (res_cmp (hstep0 h sp) ex).
Definition run_steps (l : list (spectrum * hop * option spectrum)) : string := join ";" (map step1 l).

(* ---- one element of a path, replayed from the snapshot taken before it ---- *)
(*  <program is an instance of the kind's program><side conditions hold>#<verdict against the snapshot after>  *)
Definition run_elem (k : ekind) (e : eprog) (sp : spectrum) (ex : option spectrum) : string :=
  append (bs (eprog_okb k e)) (append (bs (ewfb e sp)) (append "#" (res_cmp (erun e sp) ex))).

(* ---- Transceiver figures (1/linear) for one channel ---- *)
Definition fig_s (r : figures) : string :=
  join "," [qs (f_osnr r); qs (f_nli r); qs (f_gsnr r); qs (f_osnr01 r); qs (f_gsnr01 r)].
Definition run_trx (c : chan) (args : list (option Q)) : string :=
  append (fig_s (calc_snr c)) (append "/" (fig_s (update_snr args c))).
