(* Case runner for the C14 correspondence: decodes compact literals, runs the model history step by
   step and renders one text line per case. *)
From Verif Require Import Prelude Model.Spectrum.
Open Scope Z_scope.

Fixpoint cells_of_string (s : string) : list slot :=
  match s with
  | EmptyString => []
  | String c t => (if Ascii.eqb c "u" then SU else if Ascii.eqb c "0" then SO else SF) :: cells_of_string t
  end.

(* run-length rendering: u12,1 300,0 8 ... *)
Fixpoint rle (l : list slot) (cur : option (slot * Z)) : list string :=
  match l with
  | [] => match cur with Some (s, k) => [append (slot_s s) (zs k)] | None => [] end
  | x :: t =>
      match cur with
      | None => rle t (Some (x, 1))
      | Some (s, k) =>
          if String.eqb (slot_s s) (slot_s x) then rle t (Some (s, k + 1))
          else append (slot_s s) (zs k) :: rle t (Some (x, 1))
      end
  end.
Definition cells_s (l : list slot) : string := join "." (rle l None).

Definition bitmap_s (b : bitmap) : string :=
  join "," [zs (n_min b); zs (n_max b); zs (fi_min b); zs (fi_max b); cells_s (cells b)].
Definition oms_s (o : oms) : string :=
  join "," [bitmap_s (bm o); zs (nb_ch o); zlist_s (services o)].
Definition state_s (st : state) : string := join "/" (map oms_s st).

Definition outcome_s (o : outcome) : string :=
  match o with
  | Skipped => "S"
  | Blocked r => append "B:" r
  | Accepted ns ms => append "A" (append (zlist_s ns) (zlist_s ms))
  end%string.

(* an OMS given by the harness: observed n_min n_max fi_min fi_max, guard band in slots, cells *)
Definition ob (nmin nmax fmin fmax g : Z) (c : string) : oms :=
  mkO (mkB nmin nmax fmin fmax g (zrange nmin (nmax + 1)) (cells_of_string c)) 0 [].

Definition rq (id : Z) (pre : bool) (bw sp br : Z) (sl : list slot_req) (po : list Z) : request :=
  mkR id pre bw sp br sl po.

Fixpoint steps (p : policy) (st : state) (rqs : list request) : list string :=
  match rqs with
  | [] => []
  | r :: t =>
      match pth_assign_one p st r with
      | Err e => [append "E:" e]
      | Ok (st', o) => append (outcome_s o) (append "#" (state_s st')) :: steps p st' t
      end
  end.

Definition run_case (p : policy) (st : state) (rqs : list request) : string :=
  join ";" (steps p st rqs).
