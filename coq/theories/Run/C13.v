(* Case runners for the C13 correspondence: compact literals, runners over Model/Verdict.v and one-line renderers. *)
From Coq Require Import QArith Qreduction.
From Verif Require Import Prelude Model.Verdict.
Open Scope Z_scope.

(* a float given exactly as mantissa * 2^exponent *)
Definition fq (m e : Z) : Q := if 0 <=? e then inject_Z (m * 2 ^ e) else Qmake m (Z.to_pos (2 ^ (- e))).
(* exact rendering  num/den  (reduced) *)
Definition qs (q : Q) : string :=
  let r := Qred q in append (zs (Qnum r)) (append "/" (zs (Zpos (Qden r)))).
Definition dash : string := "-".
Definition qlist_s (l : list Q) : string := join "," (map qs l).
Definition pen_s (p : pen) : string := match p with PFin q => qs q | PInf => "inf"%string end.
Definition met_s (m : met) : string := match m with MFin q => qs q | MNegInf => "-inf"%string end.
Definition rmet_s (r : res met) : string := match r with Ok m => met_s m | Err e => append "E:" e end.
Definition tab_s (t : table) : string := join ";" (map (fun p => append (qs (fst p)) (append ":" (qs (snd p)))) t).

(* ---- update_snr histories: channels (baud, 4 raw figures as 1/linear), list of argument lists ---- *)
Definition rxc (b ro rs ro01 rs01 : Q) : rxch := receive1 b ro rs ro01 rs01.
Definition rx_s (c : rxch) : string := qlist_s [osnr_bw c; snr_bw c; osnr_01 c; snr_01 c; raw_osnr_bw c; raw_snr_bw c; raw_osnr_01 c; raw_snr_01 c].
Definition upd_case (r : receiver) (h : list (list (option arg))) : string :=
  match run_updates r h with
  | Ok r' => join "|" (map rx_s r')
  | Err e => append "E:" e
  end.

(* ---- penalties: raw tables as listed in the equipment file, impairment values per channel ---- *)
Definition tb (cd pmd pdl : table) : tables := mkT cd pmd pdl.
Definition norm_s (raw : table) : string := match raw with [] => dash | _ => tab_s (normalise raw) end.
Fixpoint pens (T : tables) (cd pmd pdl : list Q) : list string :=
  match cd, pmd, pdl with
  | c :: cd', p :: pmd', d :: pdl' => pen_s (total_pen T c p d) :: pens T cd' pmd' pdl'
  | _, _, _ => []
  end.
Definition pen_case (T : tables) (cd pmd pdl : list Q) : string :=
  join "#" [norm_s (t_cd T); norm_s (t_pmd T); norm_s (t_pdl T); join "," (pens T cd pmd pdl)].

(* ---- fixed mode: threshold = OSNR + margin, forward figures, optional reverse figures ---- *)
Definition fg (g cd pmd pdl : list Q) : figs := mkF g cd pmd pdl.
Definition ostr (o : option string) : string := match o with Some s => s | None => dash end.
Definition fixed_case (osnr margin : Q) (T : tables) (fwd : figs) (rev : option figs) : string :=
  match metric T fwd with
  | Err e => append "E:" e
  | Ok mf =>
      match rev with
      | None => join "|" [ostr (decide_fixed (osnr + margin)%Q mf None); met_s mf; dash]
      | Some fr =>
          match metric T fr with
          | Err e => append "E:" e
          | Ok mr => join "|" [ostr (decide_fixed (osnr + margin)%Q mf (Some mr)); met_s mf; met_s mr]
          end
      end
  end%string.

(* ---- automatic mode ---- *)
Definition md (id : Z) (baud off bitrate minsp osnr : Q) (T : tables) : mode := mkM id baud off bitrate minsp osnr T.
(* receiver figures per (baud, offset, mode id), given as an association list; a missing entry = snr is None *)
Fixpoint lookup_figs (l : list (Q * Q * Z * figs)) (it : iter) (m : mode) : option figs :=
  match l with
  | [] => None
  | (b, o, i, f) :: t =>
      if Qeq_bool b (fst it) && Qeq_bool o (snd it) && (i =? m_id m) then Some f else lookup_figs t it m
  end.
Fixpoint lookup_rev (l : list (Z * figs)) (i : Z) : option figs :=
  match l with [] => None | (j, f) :: t => if j =? i then Some f else lookup_rev t i end.
Definition it_s (it : iter) : string := append (qs (fst it)) (append "," (qs (snd it))).
Definition outcome_s (o : outcome) : string :=
  match o with
  | Selected it m => join ":" ["S"; zs (m_id m); it_s it]
  | NoFeasibleMode it m => join ":" ["N"; zs (m_id m); it_s it]
  | NoBaudrate => "B"
  | NoComputedSnr => "C"
  | Raised e => append "E:" e
  end%string.
Definition explore_s (lib : list mode) (sp : Q) : string :=
  join ";" (map (fun x => append (it_s (fst x)) (append ":" (zs (m_id (snd x))))) (explore lib sp)).
(* outcome | final blocking reason | metric of the decisive (iteration, mode) | reverse metric | exploration order *)
Definition auto_case (margin sp : Q) (lib : list mode) (fl : list (Q * Q * Z * figs)) (rl : list (Z * figs)) : string :=
  let P := lookup_figs fl in
  let o := mode_loop margin P lib sp in
  let mf := match o with
            | Selected it m | NoFeasibleMode it m =>
                match P it m with Some f => rmet_s (metric (m_tab m) f) | None => dash end
            | _ => dash end in
  let rv := match mode_of o with
            | Some m => match lookup_rev rl (m_id m) with Some f => Some (metric (m_tab m) f) | None => None end
            | None => None end in
  let reason := match rv with
                | Some (Ok r) => ostr (decide_auto margin o (Some r))
                | Some (Err e) => append "E:" e
                | None => ostr (decide_auto margin o None)
                end in
  join "|" [outcome_s o; reason; mf; match rv with Some r => rmet_s r | None => dash end; explore_s lib sp]%string.

(* ---- the line model with amplifier state (used by examples and by C16) ---- *)
Definition chp_s (c : chp) : string := append (qs (sig c)) (append "~" (qs (nse c))).
Definition spectrum_s (sp : spectrum) : string := join "," (map chp_s sp).

(* ---- amplifier state histories (dB): designed gain, p_max, events; gains after every propagation ---- *)
Definition ap (pin : Q) : aev := AProp (Some pin).
Definition ap_none : aev := AProp None.
Definition amp_case (g0 pmax : Q) (evs : list aev) : string := qlist_s (amp_history g0 pmax evs).
