(* Case runners for the Raman-on part of C05: the binary64 instance (NumF) of Model/Raman.v, evaluated by
   vm_compute; floats are rendered exactly by NumRun.fstr. *)
From Coq Require Export PrimFloat.
From Verif Require Import Prelude Num NumRun Model.Raman.

Definition run_pert (order : Z) (alpha : list PrimFloat.float) (cr : list (list PrimFloat.float))
           (grid : list (PrimFloat.float * PrimFloat.float)) (p : list PrimFloat.float) : string :=
  join ";" (map flist_s (@pert_profile NumF order alpha cr grid p)).
Definition run_iter (nco : nat) (alpha : list PrimFloat.float) (cr : list (list PrimFloat.float))
           (z ll : list PrimFloat.float) (cols : list (list PrimFloat.float)) : string :=
  let '(c, it, res, acc) := @iterative_algorithm NumF nco alpha cr z ll cols in
  append (join ";" (map flist_s c)) (append "#" (append (zs it) (append "#" (append (fstr res) (append "#" (fstr acc)))))).
