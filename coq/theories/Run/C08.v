(* Case runner for the C08 correspondence and oracle: decodes compact literals, runs Chain.design_line on every
   line of a network and renders one text line per case; evaluates the validators on observed lines. *)
From Verif Require Import Prelude Model.Chain.
From Coq Require Import QArith.
Open Scope Z_scope.

Definition fb (n : string) (raman : bool) (len lc : Q) (cin cout : option Q) (att : Q) (lum : list (Q * Q)) : elem :=
  Fib (mkFib n raman len lc cin cout att lum).
Definition fu (n : string) (loss : Q) : elem := Fus n loss.
(* an amplifier of the input network *)
Definition am (n : string) (multi : bool) (var : string) (g dp voa : option Q) : elem :=
  Amp (mkAmp n multi false var g dp voa).
(* an amplifier observed after design *)
Definition amv (n : string) (multi auto : bool) (var : string) (g dp voa : option Q) : elem :=
  Amp (mkAmp n multi auto var g dp voa).
Definition ln (sk : ekind) (src : string) (bands : Z) (dk : ekind) (dst : string) (dst_first : bool)
  (els : list elem) : line := mkLine sk src bands dk dst dst_first els.
Fixpoint qlookup (k : string) (l : list (string * Q)) : Q :=
  match l with [] => 0%Q | (k', v) :: t => if String.eqb k k' then v else qlookup k t end.
Definition cf (mx padlen : Z) (pad cin cout eol : Q) (rg : list (string * Q)) : cfg :=
  mkCfg mx padlen pad cin cout eol (fun k => qlookup k rg).

Definition el_s (e : elem) : string :=
  match e with
  | Fib f => join "~" [(if f_raman f then "R" else "F")%string; f_name f; qs (f_len f); qs (f_lc f); oqs (f_cin f);
                       oqs (f_cout f); qs (f_att f); qs (qsum (map snd (f_lumped f)))]
  | Fus n l => join "~" ["U"%string; n; qs l]
  | Amp a => join "~" ["A"%string; a_name a; bs (a_multi a); bs (a_auto a)]
  end.
Definition line_s (r : res line) : string :=
  match r with
  | Ok l => join "|" (map el_s (l_els l))
  | Err e => append "E:" e
  end.
Definition run_case (c : cfg) (ls : list line) : string := join ";" (map (fun l => line_s (design_line c l)) ls).
(* through the entry point with its option no_insert_edfas *)
Definition run_case_opt (no_insert : bool) (c : cfg) (ls : list line) : string :=
  join ";" (map (fun l => line_s (design_line_opt no_insert c l)) ls).

(* ---- oracle: the validators on one observed line; "ok" or the list of failing clauses key@index *)
Fixpoint idx_fails {A} (key : string) (p : A -> bool) (l : list A) (i : Z) : list string :=
  match l with
  | [] => []
  | x :: t => (if p x then [] else [append key (append "@" (zs i))]) ++ idx_fails key p t (i + 1)
  end.
Fixpoint adj_fails {A} (key : string) (p : A -> A -> bool) (l : list A) (i : Z) : list string :=
  match l with
  | x :: ((y :: _) as t) => (if p x y then [] else [append key (append "@" (zs i))]) ++ adj_fails key p t (i + 1)
  | _ => []
  end.
(* maximal fibre/fused segments between amplifiers, with the index of their first element and whether an
   amplifier stands on both sides *)
Fixpoint segs (l : list elem) (i : Z) (prev_amp : bool) (cur : list elem) (start : Z) : list (Z * bool * list elem) :=
  match l with
  | [] => match cur with [] => [] | _ => [(start, false, rev cur)] end
  | Amp a :: t => (match cur with [] => [] | _ => [(start, prev_amp, rev cur)] end) ++ segs t (i + 1) true [] (i + 1)
  | e :: t => segs t (i + 1) prev_amp (e :: cur) (match cur with [] => i | _ => start end)
  end.
Definition seg_fails (pad : Q) (els : list elem) : list string :=
  flat_map (fun s => match s with
                     | (i, both, r) => if negb both || run_padded_strict pad r then []
                                       else [append "padding@" (zs (i + Z.of_nat (length r) - 1))]
                     end) (segs els 0 false [] 0).
Definition check_line (lib : list string) (pm : bool) (pad : Q) (sk dk : ekind) (els : list elem) : string :=
  let f := idx_fails "conn" fib_ok els 0
           ++ idx_fails "amp" (amp_ok lib pm) els 0
           ++ adj_fails "junction" pair_ok (path sk dk els) 0
           ++ idx_fails "padcore" (run_padded pad) (runs els) 0
           ++ seg_fails pad els
           ++ (if nodupb (names els) then [] else ["dupname@0"%string]) in
  match f with [] => "ok"%string | _ => join "," f end.

(* cheap encodings of observed elements: only what the validators look at *)
Definition ob (b : bool) : option Q := if b then Some 0%Q else None.
Definition fbv (n : string) (raman : bool) (loss : Q) (cin cout : bool) : elem :=
  Fib (mkFib n raman loss 1 (ob cin) (ob cout) 0 []).
Definition amb (n : string) (multi auto : bool) (var : string) (g dp voa : bool) : elem :=
  Amp (mkAmp n multi auto var (ob g) (ob dp) (ob voa)).
Definition check_net (lib : list string) (pm : bool) (pad : Q) (ls : list (ekind * ekind * list elem)) : string :=
  join ";" (map (fun l => match l with (sk, dk, els) => check_line lib pm pad sk dk els end) ls).
(* with no_insert_edfas the junction rule (what amplifier insertion guarantees) does not apply; every fibre still has
   its connector losses, every amplifier its settings, every span its padding *)
Definition check_line_opt (no_insert : bool) (lib : list string) (pm : bool) (pad : Q) (sk dk : ekind) (els : list elem) : string :=
  let f := idx_fails "conn" fib_ok els 0
           ++ idx_fails "amp" (amp_ok lib pm) els 0
           ++ (if no_insert then [] else adj_fails "junction" pair_ok (path sk dk els) 0)
           ++ idx_fails "padcore" (run_padded pad) (runs els) 0
           ++ seg_fails pad els
           ++ (if nodupb (names els) then [] else ["dupname@0"%string]) in
  match f with [] => "ok"%string | _ => join "," f end.
Definition check_net_opt (no_insert : bool) (lib : list string) (pm : bool) (pad : Q) (ls : list (ekind * ekind * list elem)) : string :=
  join ";" (map (fun l => match l with (sk, dk, els) => check_line_opt no_insert lib pm pad sk dk els end) ls).
