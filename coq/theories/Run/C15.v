(* Case runners for the C15 correspondence: decode compact literals, run the model, render one text line
   per case (no newlines inside a result). *)
From Coq Require Import QArith.
From Verif Require Import Prelude Model.Spectrum Model.Oms.
Local Open Scope Z_scope.

Fixpoint cells_of_str (s : string) : list slot :=
  match s with
  | EmptyString => []
  | String c t => (if Ascii.eqb c "u" then SU else if Ascii.eqb c "0" then SO else SF) :: cells_of_str t
  end.

(* run-length rendering of cells: u12.1300.08 ... *)
Fixpoint rle_cells (l : list slot) (cur : option (slot * Z)) : list string :=
  match l with
  | [] => match cur with Some (s, k) => [append (slot_s s) (zs k)] | None => [] end
  | x :: t =>
      match cur with
      | None => rle_cells t (Some (x, 1))
      | Some (s, k) =>
          if String.eqb (slot_s s) (slot_s x) then rle_cells t (Some (s, k + 1))
          else append (slot_s s) (zs k) :: rle_cells t (Some (x, 1))
      end
  end.
Definition cells_str (l : list slot) : string := join "." (rle_cells l None).

(* runs of consecutive integers: start:len.start:len ... *)
Fixpoint runs (l : list Z) (cur : option (Z * Z)) : list string :=
  match l with
  | [] => match cur with Some (a, k) => [append (zs a) (append ":" (zs k))] | None => [] end
  | x :: t =>
      match cur with
      | None => runs t (Some (x, 1))
      | Some (a, k) =>
          if x =? a + k then runs t (Some (a, k + 1))
          else append (zs a) (append ":" (zs k)) :: runs t (Some (x, 1))
      end
  end.
Definition runs_s (l : list Z) : string := join "." (runs l None).

Definition bm_s (b : bitmap) : string :=
  join "," [zs (n_min b); zs (n_max b); zs (fi_min b); zs (fi_max b); runs_s (idx b); cells_str (cells b)].

Definition err_s (e : string) : string := append "E:" e.

(* ---- (a) align_grids on OMS objects built with update_spectrum ---- *)
Definition mk (f_min f_max grid guardband : Q) (c : option string) : res bitmap :=
  mk_bitmap f_min f_max grid guardband (option_map cells_of_str c).

Definition align_case (l : list (res bitmap)) : string :=
  match mapM (fun x => x) l with
  | Err e => err_s e
  | Ok bs =>
      match align_grids bs with
      | Err e => err_s e
      | Ok al => join "/" (map bm_s al)
      end
  end.

(* ---- (b) create_oms_bitmap + Bitmap ---- *)
Definition cob_case (common : list band) (f_min f_max grid guardband : Q) : string :=
  match create_oms_bitmap common f_min f_max grid with
  | Err e => err_s e
  | Ok c =>
      append (cells_str c) (append "|"
        match mk_bitmap f_min f_max grid guardband (Some c) with
        | Err e => err_s e
        | Ok b => bm_s b
        end)
  end.

(* frequency_to_n / nvalue_to_frequency / slots *)
Definition f2n_case (l : list (Q * Q)) : string := zlist_s (map (fun p => frequency_to_n (fst p) (snd p)) l).
Definition q_s (q : Q) : string := let r := Qred q in append (zs (Qnum r)) (append "/" (zs (Zpos (Qden r)))).
Definition n2f_case (l : list (Z * Q)) : string := join "," (map (fun p => q_s (nvalue_to_frequency (fst p) (snd p))) l).
Definition slots_case (l : list (Z * Z)) : string :=
  join "," (map (fun p => let a := mvalue_to_slots (fst p) (snd p) in
                          let b := slots_to_m (fst p) (snd p) in
                          join ":" [zs (fst a); zs (snd a); zs (fst b); zs (snd b)]) l).
Definition fcr_case (amps : list (list band)) (si : band) : string :=
  join "," (map (fun b => append (q_s (fst b)) (append ":" (q_s (snd b)))) (find_common_range amps si)).

(* find_common_range on dictionaries that carry spacing entries: k = 0 key absent, 1 None, 2 a value *)
Definition sb (lo hi : Q) (k : Z) (s : Q) : sband :=
  (lo, hi, if k =? 0 then None else if k =? 1 then Some None else Some (Some s)).
Definition fcrsp_case (amps : list (list sband)) (si : band) : string :=
  join "," (map (fun b => append (q_s (fst b)) (append ":" (q_s (snd b)))) (find_common_range_sp amps si)).

(* ---- (c) build_oms_list on an extracted graph ---- *)
Definition nd (u : Z) (k : Z) (s : list Z) (b : list band) : node :=
  mkN u (if k =? 0 then KRoadm else if k =? 1 then KTrx else if k =? 2 then KAmp else KOther) s b.
Definition ln (s : Z) (e : list Z) (d : Z) : line := mkL s e d.

Definition oms_s (o : oms_rec) : string :=
  join ";" [zlist_s (el_ids o); bm_s (smap o); ozs (rev_id o)].

Definition net_case (g : graph) (si : band) (d : list line) : string :=
  match build_oms_list g si with
  | Err e => append (err_s e) (append "#" (append (bs (chain_wf_b g d)) (append (bs (net_hyps_b g si d)) (bs (net_local_hyps_b g si)))))
  | Ok r =>
      join "#" [join "/" (map oms_s r);
                append (bs (chain_wf_b g d)) (append (bs (net_hyps_b g si d)) (bs (net_local_hyps_b g si)));
                ozlist_s (map (fun n => last_owner (map el_ids r) (uid n) 0 None) g)]
  end.
