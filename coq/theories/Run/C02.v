(* C02 shares the case runner of C01 (histories, element replay, transceiver figures). *)
From Verif Require Export Run.C01.
