(* Executable model of gnpy/topology/spectrum_assignment.py (Bitmap, OMS.assign_spectrum,
   bitmap_sum, aggregate_oms_bitmap, spectrum_selection, determine_slot_numbers, compute_n_m,
   pth_assign_spectrum) and gnpy/core/utils.py order_slots / restore_order.
   Definitions only; proofs are in Proofs/Spectrum*.v.  Every Python exception is an explicit Err. *)
From Verif Require Import Prelude.
Open Scope Z_scope.

Inductive slot := SU | SO | SF.   (* UNUSABLE, OCCUPIED, FREE *)
Definition is_free (s : slot) : bool := match s with SF => true | _ => false end.
Definition slot_s (s : slot) : string := match s with SU => "u" | SO => "0" | SF => "1" end%string.

(* gb = guardband / grid (4 with the defaults).  idx is Bitmap.freq_index. *)
Record bitmap := mkB { n_min : Z; n_max : Z; fi_min : Z; fi_max : Z; gb : Z; idx : list Z; cells : list slot }.

Definition blen (b : bitmap) : Z := Z.of_nat (length (cells b)).
Definition set_cells (b : bitmap) (c : list slot) : bitmap :=
  mkB (n_min b) (n_max b) (fi_min b) (fi_max b) (gb b) (idx b) c.

(* Bitmap(f_min = nvalue_to_frequency(nmin), f_max = nvalue_to_frequency(nmax), guardband, bitmap) *)
Definition new_bitmap (nmin nmax g : Z) (c : list slot) : res bitmap :=
  if Z.of_nat (length c) =? nmax - nmin + 1
  then Ok (mkB nmin nmax (nmin + g) (nmax - g) g (zrange nmin (nmax + 1)) c)
  else Err "SpectrumError:bitmap_len".

Definition geti (b : bitmap) (n : Z) : res Z :=
  match zindex (idx b) n with Some i => Ok i | None => Err "ValueError:geti" end.

(* l[a:b] = vals *)
Definition pyslice_assign {A} (l : list A) (a b : Z) (vals : list A) : list A :=
  let len := Z.of_nat (length l) in
  let a' := clip len a in
  let b' := Z.max a' (clip len b) in
  firstn (Z.to_nat a') l ++ vals ++ skipn (Z.to_nat b') l.

(* OMS.assign_spectrum *)
Definition assign (b : bitmap) (n m : Z) : res bitmap :=
  if m <=? 0 then Err "SpectrumError:M" else
  if fi_max b <? n then Err "SpectrumError:upper" else
  if n <? fi_min b then Err "SpectrumError:lower" else
  let startn := n - m in
  let stopn := n + m - 1 in
  if n_max b <? stopn then Err "SpectrumError:over" else
  if startn <=? n_min b then Err "SpectrumError:below" else
  let* a := geti b startn in
  let* z := geti b stopn in
  Ok (set_cells b (pyslice_assign (cells b) a (z + 1) (repeat SO (Z.to_nat (stopn - startn + 1))))).

Definition sum_slot (s1 s2 : slot) : slot :=
  match s1, s2 with SF, SF => SF | _, _ => SO end.
Fixpoint bitmap_sum (l1 l2 : list slot) : list slot :=
  match l1, l2 with
  | a :: t1, b :: t2 => sum_slot a b :: bitmap_sum t1 t2
  | _, _ => []
  end.

(* ---- state: one record per OMS (position in the list = oms_id) ---- *)
Record oms := mkO { bm : bitmap; nb_ch : Z; services : list Z }.
Definition state := list oms.

Definition get_oms (st : state) (i : Z) : res oms :=
  match pyidx st i with Some o => Ok o | None => Err "IndexError:oms" end.

Fixpoint agg_cells (st : state) (ids : list Z) (acc : list slot) : res (list slot) :=
  match ids with
  | [] => Ok acc
  | i :: t => let* o := get_oms st i in agg_cells st t (bitmap_sum (cells (bm o)) acc)
  end.

(* aggregate_oms_bitmap (with the copy of the first bitmap: values, not objects, are what the model has) *)
Definition aggregate (st : state) (path_oms : list Z) : res bitmap :=
  match path_oms with
  | [] => Err "IndexError:path_oms"
  | i0 :: t =>
      let* o0 := get_oms st i0 in
      let* c := agg_cells st t (cells (bm o0)) in
      new_bitmap (n_min (bm o0)) (n_max (bm o0)) (gb (bm o0)) c
  end.

(* freq_availability[lo:hi] == [FREE] * k *)
Definition slice_all_free (c : list slot) (lo hi k : Z) : bool :=
  let s := pyslice c lo hi in
  (Z.of_nat (length s) =? Z.max 0 k) && forallb is_free s.

Definition idx_at (b : bitmap) (i : Z) : res Z :=
  match pyidx (idx b) i with Some v => Ok v | None => Err "IndexError:freq_index" end.

(* the comprehension condition of spectrum_selection(requested_n=None), with Python's short-circuit *)
Definition cand_ok (b : bitmap) (m i : Z) : res bool :=
  if slice_all_free (cells b) i (i + 2 * m) (2 * m) then
    let* lo := idx_at b i in
    if fi_min b <=? lo then
      let* hi := idx_at b (i + 2 * m - 1) in Ok (hi <=? fi_max b)
    else Ok false
  else Ok false.

Fixpoint cands_from (b : bitmap) (m : Z) (i : Z) (fuel : nat) : res (list Z) :=
  match fuel with
  | O => Ok []
  | S f =>
      let* ok := cand_ok b m i in
      let* rest := cands_from b m (i + 1) f in
      if ok then (let* v := idx_at b i in Ok ((v + m) :: rest)) else Ok rest
  end.

Inductive policy := FirstFit | LastFit.

(* spectrum_selection(test_oms, m, None, policy): centre n of the selected candidate *)
Definition select_free (b : bitmap) (m : Z) (p : policy) : res (option Z) :=
  let* c := cands_from b m 0 (length (cells b)) in
  match p with
  | FirstFit => Ok (hd_error c)
  | LastFit => Ok (hd_error (rev c))
  end.

(* determine_slot_numbers *)
Definition dsn_cond (b : bitmap) (c i req : Z) : res bool :=
  if slice_all_free (cells b) (c - i) (c + i) (2 * i) then
    let* lo := idx_at b (c - i) in
    if fi_min b <=? lo then
      let* hi := idx_at b (c + i - 1) in
      if hi <=? fi_max b then Ok (i <=? req) else Ok false
    else Ok false
  else Ok false.

Fixpoint dsn_loop (b : bitmap) (c req pcm i : Z) (fuel : nat) : res Z :=
  match fuel with
  | O => Err "fuel"
  | S f =>
      let* ok := dsn_cond b c i req in
      if ok then dsn_loop b c req pcm (i + pcm) f else Ok (i - pcm)
  end.

Definition mem_z (x : Z) (l : list Z) : bool := existsb (Z.eqb x) l.

Definition determine_slot_numbers (b : bitmap) (n req pcm : Z) : res Z :=
  if negb (mem_z n (idx b)) then Ok 0 else
  let* c := geti b n in
  if pcm <=? 0 then Err "diverges:per_channel_m<=0" else
  dsn_loop b c req pcm pcm (Z.to_nat (Z.max 0 (req / pcm) + 2)).

(* ---- order_slots / restore_order ---- *)
(* sort key: (M None -> +inf else -M , N None -> +inf); ascending, stable *)
Definition key_le (a b : option Z * option Z) : bool :=
  (* lexicographic <= on (k1, k2) with None = +inf; first component already negated for Some *)
  let le1 (x y : option Z) := match x, y with
                              | Some u, Some v => u <=? v | Some _, None => true
                              | None, Some _ => false | None, None => true end in
  let lt1 (x y : option Z) := match x, y with
                              | Some u, Some v => u <? v | Some _, None => true
                              | None, _ => false end in
  lt1 (fst a) (fst b) || (le1 (fst a) (fst b) && le1 (fst b) (fst a) && le1 (snd a) (snd b)).

Definition slot_req := (option Z * option Z)%type.   (* (N, M) *)
Definition skey (s : slot_req) : option Z * option Z :=
  (match snd s with Some m => Some (- m) | None => None end, fst s).

Fixpoint insert_by {A} (le : A -> A -> bool) (x : A) (l : list A) : list A :=
  match l with
  | [] => [x]
  | y :: t => if le y x then y :: insert_by le x t else x :: l
  end.
(* stable: x goes after every y with y <= x *)
Definition sort_by {A} (le : A -> A -> bool) (l : list A) : list A :=
  fold_left (fun acc x => insert_by le x acc) l [].

Definition enumerate {A} (l : list A) : list (Z * A) :=
  combine (zrange 0 (Z.of_nat (length l))) l.

(* returns the ordered list of (original index, (N, M)) *)
Definition order_slots (l : list slot_req) : list (Z * slot_req) :=
  sort_by (fun a b => key_le (skey (snd a)) (skey (snd b))) (enumerate l).

(* restore_order(elements, order): elements[k] belongs to original index order[k]; None skipped *)
Definition restore_order {A} (elements : list (option A)) (order : list Z) : list A :=
  let tagged := combine order elements in
  let sorted := sort_by (fun a b => fst a <=? fst b) tagged in
  flat_map (fun p => match snd p with Some v => [v] | None => [] end) sorted.

(* ---- compute_n_m ---- *)
Inductive step_res := Continue (n m : Z) | Break | ReturnBlocked.

Definition cnm_step (test : bitmap) (remaining pcm : Z) (p : policy) (s : slot_req) : res step_res :=
  match s with
  | (Some n, Some m) =>
      let* av := determine_slot_numbers test n m m in
      if av =? 0 then Ok ReturnBlocked else Ok (Continue n m)
  | (None, Some m) =>
      let* c := select_free test m p in
      match c with None => Ok ReturnBlocked | Some n => Ok (Continue n m) end
  | (Some n, None) =>
      let* m := determine_slot_numbers test n remaining pcm in
      if (m =? 0) || (remaining <=? 0) then Ok Break else Ok (Continue n m)
  | (None, None) =>
      if remaining <=? 0 then Ok Break else
      let* c := select_free test remaining p in
      match c with None => Ok Break | Some n => Ok (Continue n remaining) end
  end.

(* loop result: selected (n,m) in processing order, remaining, final test bitmap; None = early return *)
Fixpoint cnm_loop (test : bitmap) (remaining pcm : Z) (p : policy) (l : list slot_req)
         (sel : list (Z * Z)) : res (option (list (Z * Z) * Z * bitmap)) :=
  match l with
  | [] => Ok (Some (sel, remaining, test))
  | s :: t =>
      let* r := cnm_step test remaining pcm p s in
      match r with
      | ReturnBlocked => Ok None
      | Break => Ok (Some (sel, remaining, test))
      | Continue n m =>
          let* test' := assign test n m in
          cnm_loop test' (remaining - m) pcm p t (sel ++ [(n, m)])
      end
  end.

Definition compute_n_m (st : state) (required_m pcm : Z) (p : policy) (slots : list slot_req)
           (path_oms : list Z) : res (list Z * list Z * Z) :=
  let ordered := order_slots slots in
  let* test := aggregate st path_oms in
  let* r := cnm_loop test required_m pcm p (map snd ordered) [] in
  match r with
  | None => Ok ([], [], required_m)
  | Some (sel, remaining, _) =>
      let pad := repeat (@None (Z * Z)) (length ordered - length sel) in
      let restored := restore_order (map Some sel ++ pad) (map fst ordered) in
      Ok (map fst restored, map snd restored, remaining)
  end.

(* ---- pth_assign_spectrum, one request ---- *)
Definition cdiv (a b : Z) : Z := - ((- a) / b).    (* ceil(a / b), b > 0 *)

Record request := mkR {
  rid : Z;
  pre_blocked : bool;            (* hasattr(rq, 'blocking_reason') *)
  bandwidth : Z; spacing : Z; bit_rate : Z;   (* path_bandwidth [bit/s], spacing [Hz], bit_rate [bit/s] *)
  slots : list slot_req;         (* zip(rq.N, rq.M) *)
  path_oms : list Z              (* build_path_oms_id_list(pth + rpth) *)
}.

Definition slot_width : Z := 12500000000.

Inductive outcome :=
  | Skipped                                    (* already blocked: N = M = None *)
  | Blocked (reason : string)
  | Accepted (ns ms : list Z).

Definition all_m_defined (l : list slot_req) : bool :=
  forallb (fun s => match snd s with Some m => negb (m =? 0) | None => false end) l.

Fixpoint assign_all (b : bitmap) (ns ms : list Z) : res bitmap :=
  match ns, ms with
  | n :: tn, m :: tm => let* b' := assign b n m in assign_all b' tn tm
  | _, _ => Ok b
  end.

Fixpoint update_oms (st : state) (i : Z) (f : oms -> res oms) : res state :=
  (* oms_list[i] for the (non-negative) ids produced by build_oms_list *)
  match st with
  | [] => Err "IndexError:oms"
  | o :: t => if i =? 0 then (let* o' := f o in Ok (o' :: t))
              else (let* t' := update_oms t (i - 1) f in Ok (o :: t'))
  end.

Fixpoint commit (st : state) (ids : list Z) (ns ms : list Z) (r nb_wl : Z) : res state :=
  match ids with
  | [] => Ok st
  | i :: t =>
      let* st' := update_oms st i (fun o =>
                    let* b' := assign_all (bm o) ns ms in
                    Ok (mkO b' (nb_ch o + nb_wl) (services o ++ [r]))) in
      commit st' t ns ms r nb_wl
  end.

Definition pth_assign_one (p : policy) (st : state) (rq : request) : res (state * outcome) :=
  if pre_blocked rq then Ok (st, Skipped) else
  let nb_wl := cdiv (bandwidth rq) (bit_rate rq) in
  let pcm := cdiv (spacing rq) slot_width * cdiv (bit_rate rq) (bit_rate rq) in
  let required_m := cdiv (spacing rq) slot_width * nb_wl in
  if all_m_defined (slots rq) &&
     (fold_left (fun acc s => match snd s with Some m => acc + m / pcm | None => acc end) (slots rq) 0 <? nb_wl)
  then Ok (st, Blocked "NOT_ENOUGH_RESERVED_SPECTRUM") else
  let* r := compute_n_m st required_m pcm p (slots rq) (path_oms rq) in
  let '(ns, ms, remaining) := r in
  if 0 <? remaining then Ok (st, Blocked "NO_SPECTRUM") else
  let* st' := commit st (path_oms rq) ns ms (rid rq) nb_wl in
  Ok (st', Accepted ns ms).

(* a history: requests served in order; the ghost log records every outcome *)
Fixpoint run (p : policy) (st : state) (rqs : list request) : res (state * list outcome) :=
  match rqs with
  | [] => Ok (st, [])
  | rq :: t =>
      let* r := pth_assign_one p st rq in
      let* r' := run p (fst r) t in
      Ok (fst r', snd r :: snd r')
  end.
