(* C20 — executable model of the spreadsheet converters.  Definitions only (no lemmas).

   Modelled code (as it is in /repo now):
     gnpy/tools/convert.py        Node/Link/Eqpt/Roadm.update_attr (76-84, 131-142, 195-206, 242-251): cleaning of empty
                                  cells, defaults, west side of a Link defaulting to its east side (an Eqpt row's west
                                  side defaults to the class defaults, NOT to east);
                                  parse_excel's node-type normalisation and its two checks (972-1003);
                                  sanity_check (402-511, incl. the self-loop and FUSED-degree rules of c9212f62 / 07aa6e2a) with the
                                  order in which the rules fire;
                                  create_roadm_element / create_east|west_eqpt_element / create_east|west_fiber_element
                                  (505-692), xls_to_json_data (695-787) without region filter,
                                  eqpt_connection_by_city, connect_eqpt, eqpt_in_city_to_city (1008-1101),
                                  fiber_dest_from_source, fiber_link, midpoint (1179-1243)
     gnpy/tools/service_sheet.py  Request.update_attr (61-74), Request_element (105-254), read_service_sheet (256-274),
                                  correct_xls_route_list (349-437) for the name classes listed at `correct_route`
     gnpy/tools/xls_utils.py      correct_cell_int_to_str

   Input = parsed rows: what parse_sheet yields (one dict per non-empty row; a cell is empty, a string or a number).
   Header recognition and cell reading (openpyxl / xlrd) are exercised by the harness, not modelled.
   Numbers are exact rationals.  Not modelled: 'State'/'Country' columns (never used), the Roadms sheet's per-degree
   impairment columns, region filtering, cells of the wrong kind (a number where a name is expected ...).

   uids are built symbolically (`uid`) and turned into the byte strings of the f-strings by `render`; convert.py never
   compares uids, only city names, so this is the same computation.  Every place where Python raises is an Err. *)
From Coq Require Import QArith Qround.
From Verif Require Import Prelude.
Open Scope Z_scope.

Infix "+s" := String.append (right associativity, at level 60).
Notation seqb := String.eqb.

(* ---------- small helpers ---------- *)
Definition odef {A} (d : A) (o : option A) : A := match o with Some x => x | None => d end.
(* clean_kwargs drops '' and None before the default is applied *)
Definition ostr (d : string) (o : option string) : string :=
  match o with Some s => if seqb s "" then d else s | None => d end.
Definition oor {A} (o d : option A) : option A := match o with Some x => Some x | None => d end.
Definition ostr_o (o : option string) : option string :=
  match o with Some s => if seqb s "" then None else Some s | None => None end.
Definition smem (x : string) (l : list string) : bool := existsb (seqb x) l.
Fixpoint dupb (l : list string) : bool :=
  match l with [] => false | x :: t => smem x t || dupb t end.

(* str.split(sep) for a non-empty separator: leftmost non-overlapping occurrences *)
Fixpoint split_go (sep : string) (s : string) (skip : nat) : string * list string :=
  match s with
  | EmptyString => (EmptyString, [])
  | String c t =>
      match skip with
      | S k => split_go sep t k
      | O => if String.prefix sep s
             then (EmptyString, let (x, r) := split_go sep t (String.length sep - 1) in x :: r)
             else let (x, r) := split_go sep t 0 in (String c x, r)
      end
  end.
Definition split (sep s : string) : list string := let (x, r) := split_go sep s 0 in x :: r.
Definition bar : string := " | ".
(* list.remove(x) inside silent_remove: first occurrence only *)
Fixpoint remove_first (x : string) (l : list string) : list string :=
  match l with [] => [] | y :: t => if seqb y x then t else y :: remove_first x t end.

(* int(x): truncation toward zero *)
Definition qtrunc (q : Q) : Z := if Qle_bool 0 q then Qfloor q else Qceiling q.
(* round(x, 3): round-half-even on the exact value (a float is an exact rational) *)
Definition round_half_even (q : Q) : Z :=
  let f := Qfloor q in
  let r := (q - inject_Z f)%Q in
  match Qcompare r (1 # 2) with
  | Lt => f
  | Gt => f + 1
  | Eq => if Z.even f then f else f + 1
  end.
Definition round3 (q : Q) : Q := Qred (inject_Z (round_half_even (q * 1000)) / 1000).

(* ---------- parsed rows and the data classes built from them ---------- *)
Inductive ntype := TRoadm | TIla | TFused.
Definition ntype_eqb (a b : ntype) : bool :=
  match a, b with TRoadm, TRoadm | TIla, TIla | TFused, TFused => true | _, _ => false end.

Record node_row := mkNodeRow {
  nr_city : string; nr_region : option string; nr_lat : option Q; nr_lon : option Q;
  nr_type : option string; nr_boost : option string; nr_pre : option string }.
Record node := mkNode {
  n_city : string; n_region : string; n_lat : Q; n_lon : Q; n_type : ntype; n_boost : string; n_pre : string }.
(* parse_excel: anything but the exact strings ROADM / ILA / FUSED becomes ILA (default ILA) *)
Definition norm_type (o : option string) : ntype :=
  match o with
  | Some s => if seqb s "ROADM" then TRoadm else if seqb s "FUSED" then TFused else TIla
  | None => TIla
  end.
Definition mk_node (r : node_row) : node :=
  mkNode (nr_city r) (ostr "" (nr_region r)) (odef 0%Q (nr_lat r)) (odef 0%Q (nr_lon r))
         (norm_type (nr_type r)) (ostr "" (nr_boost r)) (ostr "" (nr_pre r)).
Definition set_type (n : node) (t : ntype) : node :=
  mkNode (n_city n) (n_region n) (n_lat n) (n_lon n) t (n_boost n) (n_pre n).

(* one direction of a Links row *)
Record side_row := mkSideRow {
  sr_dist : option Q; sr_fiber : option string; sr_lineic : option Q; sr_con_in : option Q;
  sr_con_out : option Q; sr_pmd : option Q; sr_cable : option string }.
Record link_row := mkLinkRow { lr_from : string; lr_to : string; lr_east : side_row; lr_west : side_row }.
Record side := mkSide {
  s_dist : Q; s_fiber : string; s_lineic : Q; s_con_in : option Q; s_con_out : option Q;
  s_pmd : option Q; s_cable : string }.
Record link := mkLink { l_from : string; l_to : string; l_east : side; l_west : side }.
Definition default_side : side := mkSide 80%Q "SSMF" (1 # 5)%Q None None None "".
(* a side's cells over the values it falls back to *)
Definition fill_side (d : side) (r : side_row) : side :=
  mkSide (odef (s_dist d) (sr_dist r)) (ostr (s_fiber d) (sr_fiber r)) (odef (s_lineic d) (sr_lineic r))
         (oor (sr_con_in r) (s_con_in d)) (oor (sr_con_out r) (s_con_out d)) (oor (sr_pmd r) (s_pmd d))
         (ostr (s_cable d) (sr_cable r)).
(* Link.update_attr: east over the class defaults, west over east *)
Definition mk_link (r : link_row) : link :=
  let e := fill_side default_side (lr_east r) in
  mkLink (lr_from r) (lr_to r) e (fill_side e (lr_west r)).

Record amp_row := mkAmpRow {
  ar_type : option string; ar_gain : option Q; ar_dp : option Q; ar_tilt : option Q;
  ar_att_out : option Q; ar_att_in : option Q }.
Record eqpt_row := mkEqptRow { er_from : string; er_to : string; er_east : amp_row; er_west : amp_row }.
Record amp := mkAmp {
  a_type : string; a_gain : option Q; a_dp : option Q; a_tilt : option Q; a_att_out : option Q; a_att_in : Q }.
Record eqpt := mkEqpt { e_from : string; e_to : string; e_east : amp; e_west : amp }.
(* Eqpt.update_attr: both sides over the class defaults *)
Definition mk_amp (r : amp_row) : amp :=
  mkAmp (ostr "" (ar_type r)) (ar_gain r) (ar_dp r) (ar_tilt r) (ar_att_out r) (odef 0%Q (ar_att_in r)).
Definition mk_eqpt (r : eqpt_row) : eqpt :=
  mkEqpt (er_from r) (er_to r) (mk_amp (er_east r)) (mk_amp (er_west r)).

Record roadm_row := mkRoadmRow {
  rr_from : string; rr_to : string; rr_target : option Q; rr_variety : option string }.

Record rows := mkRows {
  w_nodes : list node_row; w_links : list link_row; w_eqpts : list eqpt_row; w_roadms : list roadm_row }.

(* ---------- uids ---------- *)
Inductive dir := East | West.
Definition dir_eqb (a b : dir) : bool := match a, b with East, East | West, West => true | _, _ => false end.
Definition rev_dir (d : dir) : dir := match d with East => West | West => East end.
Definition dir_s (d : dir) : string := match d with East => "east" | West => "west" end.
Inductive uid :=
| UTrx (c : string)
| URoadm (c : string)
| UFused (d : dir) (c : string)
| UFiber (a b k : string)
| UEdfa (d : dir) (c : string)
| UEdfaTo (d : dir) (a z : string).
Definition render (u : uid) : string :=
  match u with
  | UTrx c => "trx " +s c
  | URoadm c => "roadm " +s c
  | UFused d c => dir_s d +s " fused spans in " +s c
  | UFiber a b k => "fiber (" +s a +s " → " +s b +s ")-" +s k
  | UEdfa d c => dir_s d +s " edfa in " +s c
  | UEdfaTo d a z => dir_s d +s " edfa in " +s a +s " to " +s z
  end.
Definition uid_eqb (u v : uid) : bool :=
  match u, v with
  | UTrx a, UTrx b | URoadm a, URoadm b => seqb a b
  | UFused d a, UFused e b | UEdfa d a, UEdfa e b => dir_eqb d e && seqb a b
  | UFiber a b k, UFiber a' b' k' => seqb a a' && seqb b b' && seqb k k'
  | UEdfaTo d a z, UEdfaTo e a' z' => dir_eqb d e && seqb a a' && seqb z z'
  | _, _ => false
  end.

(* ---------- the converted network ---------- *)
Record loc := mkLoc { lc_city : option string; lc_region : option string; lc_lat : Q; lc_lon : Q }.
Record oper := mkOper { op_gain : option Q; op_dp : option Q; op_tilt : option Q; op_out_voa : option Q; op_in_voa : Q }.
Inductive content :=
| CTrx
| CRoadm (variety : option string) (restr : option (list string * list string)) (pdeg : option (list (uid * Q)))
| CFused (loss0 : bool)                                    (* params {'loss': 0} present? *)
| CFiber (variety : string) (length_km loss_coef : Q) (con_in con_out : option Q) (pmd2 : option Q)
                                                           (* pmd2 = pmd_coef squared, exact *)
| CEdfaAuto                                                (* operational {gain_target: None, tilt_target: None} *)
| CEdfa (variety : option string) (o : oper).
Record element := mkEl { el_uid : uid; el_loc : loc; el_c : content }.
Record net := mkNet { elements : list element; connections : list (uid * uid) }.

(* ---------- indices of xls_to_json_data ---------- *)
Definition cities (ns : list node) : list string := map n_city ns.
(* links_by_city[c]: a link is appended under its from_city and under its to_city *)
Definition links_of (c : string) (ls : list link) : list link :=
  flat_map (fun l => (if seqb (l_from l) c then [l] else []) ++ (if seqb (l_to l) c then [l] else [])) ls.
Definition has_links (c : string) (ls : list link) : bool :=
  existsb (fun l => seqb (l_from l) c || seqb (l_to l) c) ls.
Definition eqpts_of (c : string) (es : list eqpt) : list eqpt := filter (fun e => seqb (e_from e) c) es.
Definition has_eqpt (c : string) (es : list eqpt) : bool := existsb (fun e => seqb (e_from e) c) es.
Fixpoint find_node (c : string) (ns : list node) : option node :=
  match ns with [] => None | n :: t => if seqb (n_city n) c then Some n else find_node c t end.
Definition type_of (c : string) (ns : list node) : option ntype := option_map n_type (find_node c ns).

(* ---------- parse_excel's checks ---------- *)
Definition parse_check (ns : list node) (ls : list link) : res unit :=
  if dupb (cities ns) then Err "NetworkTopologyError:duplicate_city"
  else if existsb (fun l => negb (smem (l_from l) (cities ns)) || negb (smem (l_to l) (cities ns))) ls
  then Err "NetworkTopologyError:link_unknown_node"
  else Ok tt.

(* ---------- sanity_check ---------- *)
(* Link.__eq__ : same or reversed end points *)
Definition link_eqv (a b : link) : bool :=
  (seqb (l_from a) (l_from b) && seqb (l_to a) (l_to b)) || (seqb (l_from a) (l_to b) && seqb (l_to a) (l_from b)).
(* some two rows (different positions) are equivalent *)
Fixpoint dup_links (ls : list link) : bool :=
  match ls with [] => false | l :: t => existsb (link_eqv l) t || dup_links t end.
Definition pair_key (a z : string) : string := a +s "|" +s z.
Definition possible_links (ls : list link) : list string :=
  map (fun l => pair_key (l_from l) (l_to l)) ls ++ map (fun l => pair_key (l_to l) (l_from l)) ls.
Definition bad_eqpt (ls : list link) (e : eqpt) : bool :=
  negb (smem (pair_key (e_from e) (e_to e)) (possible_links ls)) ||
  negb (smem (pair_key (e_to e) (e_from e)) (possible_links ls)).
(* ILA declared for a site whose degree is not 2 becomes ROADM *)
Definition correct_type (ls : list link) (n : node) : node :=
  if ntype_eqb (n_type n) TIla && negb (Nat.eqb (length (links_of (n_city n) ls)) 2)
  then set_type n TRoadm else n.
Definition sanity_check (ns : list node) (ls : list link) (es : list eqpt) : res (list node) :=
  if existsb (fun l => seqb (l_from l) (l_to l)) ls then Err "NetworkTopologyError:self_loop_link"
  else if dup_links ls then Err "NetworkTopologyError:duplicate_link"
  else if existsb (fun n => negb (has_links (n_city n) ls)) ns then Err "NetworkTopologyError:unreferenced_node"
  else if existsb (fun e => negb (smem (e_from e) (cities ns)) || negb (smem (e_to e) (cities ns))) es
  then Err "NetworkTopologyError:eqpt_unknown_node"
  else if existsb (bad_eqpt ls) es then Err "NetworkTopologyError:eqpt_unknown_link"
  else if dupb (map (fun e => pair_key (e_from e) (e_to e)) es) then Err "NetworkTopologyError:duplicate_eqpt"
  else if existsb (fun n => ntype_eqb (n_type n) TIla && Nat.ltb 1 (length (eqpts_of (n_city n) es))) ns
  then Err "NetworkTopologyError:duplicate_ila"
  else if existsb (fun n => ntype_eqb (n_type n) TFused && negb (Nat.eqb (length (links_of (n_city n) ls)) 2)) ns
  then Err "NetworkTopologyError:fused_degree"
  else Ok (map (correct_type ls) ns).

(* ---------- element builders ---------- *)
Definition node_loc (n : node) : loc := mkLoc (Some (n_city n)) (Some (n_region n)) (n_lat n) (n_lon n).
Definition trx_el (n : node) : element := mkEl (UTrx (n_city n)) (node_loc n) CTrx.

Definition restrictions (n : node) : option (list string * list string) :=
  if negb (seqb (n_pre n) "") || negb (seqb (n_boost n) "")
  then Some (remove_first "" (split bar (n_pre n)), remove_first "" (split bar (n_boost n)))
  else None.
Definition roadms_of (c : string) (rs : list roadm_row) : list roadm_row := filter (fun r => seqb (rr_from r) c) rs.
Definition per_degree (c : string) (rs : list roadm_row) : list (uid * Q) :=
  flat_map (fun r => match rr_target r with Some t => [(UEdfaTo East c (rr_to r), t)] | None => [] end) rs.
Definition last_variety (rs : list roadm_row) : option string :=
  fold_left (fun acc r => match ostr_o (rr_variety r) with Some v => Some v | None => acc end) rs None.
Definition roadm_el (rs : list roadm_row) (n : node) : element :=
  let mine := roadms_of (n_city n) rs in
  mkEl (URoadm (n_city n)) (node_loc n)
       (CRoadm (last_variety mine) (restrictions n)
               (match mine with [] => None | _ => Some (per_degree (n_city n) mine) end)).
Definition fused_el (d : dir) (n : node) : element := mkEl (UFused d (n_city n)) (node_loc n) (CFused false).

Definition midpoint (a b : node) : loc :=
  mkLoc None None (Qred ((n_lat a + n_lat b) / 2)) (Qred ((n_lon a + n_lon b) / 2)).
Definition lookup_node (c : string) (ns : list node) : res node :=
  match find_node c ns with Some n => Ok n | None => Err "KeyError:nodes_by_city" end.
(* pmd_coef = pmd * 1e-12 / sqrt(distance * 1000), present when the PMD cell is non-zero; carried squared *)
Definition pmd2_of (s : side) : option Q :=
  match s_pmd s with
  | Some p => if Qeq_bool p 0 then None
              else Some (Qred (p * p / (inject_Z (10 ^ 24)) / (s_dist s * 1000)))
  | None => None
  end.
Definition fiber_content (s : side) : content :=
  CFiber (s_fiber s) (round3 (s_dist s)) (s_lineic s) (s_con_in s) (s_con_out s) (pmd2_of s).
Definition east_fiber_uid (l : link) : uid := UFiber (l_from l) (l_to l) (s_cable (l_east l)).
Definition west_fiber_uid (l : link) : uid := UFiber (l_to l) (l_from l) (s_cable (l_west l)).
(* convert_pmd_lineic divides by sqrt(length): ZeroDivisionError / ValueError when a PMD is given for a length <= 0 *)
Definition pmd_check (s : side) : res unit :=
  match s_pmd s with
  | Some p => if Qeq_bool p 0 then Ok tt
              else if Qeq_bool (s_dist s) 0 then Err "ZeroDivisionError:pmd"
              else if Qle_bool (s_dist s) 0 then Err "ValueError:pmd"
              else Ok tt
  | None => Ok tt
  end.
Definition fiber_el (ns : list node) (d : dir) (l : link) : res element :=
  let* a := lookup_node (l_from l) ns in
  let* b := lookup_node (l_to l) ns in
  let* _ := pmd_check (match d with East => l_east l | West => l_west l end) in
  Ok (match d with
      | East => mkEl (east_fiber_uid l) (midpoint a b) (fiber_content (l_east l))
      | West => mkEl (west_fiber_uid l) (midpoint a b) (fiber_content (l_west l))
      end).
Definition auto_edfa_el (d : dir) (n : node) : element := mkEl (UEdfa d (n_city n)) (node_loc n) CEdfaAuto.

Definition amp_oper (a : amp) : oper := mkOper (a_gain a) (a_dp a) (a_tilt a) (a_att_out a) (a_att_in a).
(* the type written in the sheet is compared after .lower() with '' and 'fused' *)
Definition lower_ascii (c : ascii) : ascii :=
  let n := nat_of_ascii c in if (Nat.leb 65 n && Nat.leb n 90)%bool then ascii_of_nat (n + 32) else c.
Fixpoint lower (s : string) : string :=
  match s with EmptyString => EmptyString | String c t => String (lower_ascii c) (lower t) end.
Definition is_fused_type (t : string) : bool := seqb (lower t) "fused".
Definition amp_content (a : amp) : content :=
  if seqb (a_type a) "" then CEdfa None (amp_oper a)
  else if is_fused_type (a_type a) then CFused true
  else CEdfa (Some (a_type a)) (amp_oper a).
Definition eqpt_el (ns : list node) (d : dir) (e : eqpt) : res element :=
  let* a := lookup_node (e_from e) ns in
  Ok (mkEl (UEdfaTo d (e_from e) (e_to e)) (node_loc a)
           (amp_content (match d with East => e_east e | West => e_west e end))).

Fixpoint mapM {A B} (f : A -> res B) (l : list A) : res (list B) :=
  match l with
  | [] => Ok []
  | x :: t => let* y := f x in let* r := mapM f t in Ok (y :: r)
  end.

(* ---------- connection builders ---------- *)
Definition other_city (c : string) (l : link) : string := if seqb (l_from l) c then l_to l else l_from l.
Definition fiber_dest_from_source (c : string) (ls : list link) : list string := map (other_city c) (links_of c ls).
Definition in2 (x a b : string) : bool := seqb x a || seqb x b.
Definition fiber_link (f t : string) (ls : list link) : res uid :=
  match find (fun li => in2 (l_from li) f t && in2 (l_to li) f t) (links_of f ls) with
  | Some li => Ok (if seqb (l_from li) f then east_fiber_uid li else west_fiber_uid li)
  | None => Err "StopIteration:fiber_link"
  end.
Definition connect_eqpt (from_ : uid) (in_ : option uid) (to_ : uid) : list (uid * uid) :=
  match in_ with Some a => [(from_, a); (a, to_)] | None => [(from_, to_)] end.
(* eqpt_in_city_to_city; for an ILA the loop variable `direction` is overwritten by the (fixed) reverse
   direction as soon as one row names another neighbour, and stays so for the following rows *)
Definition eqpt_in_city_to_city (c to_ : string) (es : list eqpt) (t : ntype) (d : dir) : option uid :=
  let mine := eqpts_of c es in
  let r :=
    match mine with
    | [] => match t with TIla => Some (UEdfa d c) | _ => None end
    | _ =>
        match t with
        | TRoadm => fold_left (fun acc e => if seqb (e_to e) to_ then Some (UEdfaTo d (e_from e) (e_to e)) else acc)
                              mine None
        | TIla => snd (fold_left (fun st e => let d' := if seqb (e_to e) to_ then fst st else rev_dir d in
                                             (d', Some (UEdfaTo d' (e_from e) (e_to e))))
                                 mine (d, None))
        | TFused => None
        end
    end in
  match t with TFused => Some (UFused d c) | _ => r end.

Definition eqpt_connection_by_city (c : string) (ns : list node) (ls : list link) (es : list eqpt)
  : res (list (uid * uid)) :=
  let others := fiber_dest_from_source c ls in
  let* n := lookup_node c ns in
  match n_type n with
  | TRoadm =>
      let* l := mapM (fun o =>
                  let* out := fiber_link c o ls in
                  let* inc := fiber_link o c ls in
                  Ok (connect_eqpt (URoadm c) (eqpt_in_city_to_city c o es TRoadm East) out ++
                      connect_eqpt inc (eqpt_in_city_to_city c o es TRoadm West) (URoadm c))) others in
      Ok (concat l)
  | t =>
      match others with
      | o0 :: o1 :: _ =>
          let* f0 := fiber_link o0 c ls in
          let* t0 := fiber_link c o1 ls in
          let* f1 := fiber_link o1 c ls in
          let* t1 := fiber_link c o0 ls in
          Ok (connect_eqpt f0 (eqpt_in_city_to_city c o0 es t West) t0 ++
              connect_eqpt f1 (eqpt_in_city_to_city c o0 es t East) t1)
      | _ => Err "IndexError:site_degree"
      end
  end.

(* ---------- xls_to_json_data ---------- *)
Definition is_t (t : ntype) (n : node) : bool := ntype_eqb (n_type n) t.
Definition build (ns : list node) (ls : list link) (es : list eqpt) (rs : list roadm_row) : res net :=
  let roadms := filter (is_t TRoadm) ns in
  let fused := filter (is_t TFused) ns in
  let ilas := filter (fun n => is_t TIla n && negb (has_eqpt (n_city n) es)) ns in
  let* ef := mapM (fiber_el ns East) ls in
  let* wf := mapM (fiber_el ns West) ls in
  let* ee := mapM (eqpt_el ns East) es in
  let* we := mapM (eqpt_el ns West) es in
  let* cx := mapM (fun n => eqpt_connection_by_city (n_city n) ns ls es) ns in
  Ok (mkNet
        (map trx_el roadms ++ map (roadm_el rs) roadms ++ map (fused_el West) fused ++ map (fused_el East) fused
         ++ ef ++ wf ++ map (auto_edfa_el West) ilas ++ map (auto_edfa_el East) ilas ++ ee ++ we)
        (concat cx ++
         flat_map (fun n => [(UTrx (n_city n), URoadm (n_city n)); (URoadm (n_city n), UTrx (n_city n))]) roadms)).

Definition convert (w : rows) : res net :=
  let ns := map mk_node (w_nodes w) in
  let ls := map mk_link (w_links w) in
  let es := map mk_eqpt (w_eqpts w) in
  let* _ := parse_check ns ls in
  let* ns' := sanity_check ns ls es in
  build ns' ls es (w_roadms w).

(* ================================================================== service sheet ===== *)
Inductive cell := CEmpty | CStr (s : string) | CNum (q : Q).
(* clean_kwargs + default None/'' + correct_cell_int_to_str *)
Definition id_str (c : cell) : option string :=
  match c with
  | CEmpty => None
  | CStr s => if seqb s "" then None else Some s
  | CNum q => Some (zs (qtrunc q))
  end.
Record req_row := mkReqRow {
  q_id : cell; q_src : option string; q_dst : option string; q_trx : cell; q_mode : cell;
  q_spacing : option Q; q_power : option Q; q_nbch : option Q; q_disj : cell; q_path : option string;
  q_loose : option string; q_bw : option Q }.
Record request := mkReq {
  r_id : option string; r_src : string; r_dst : string; r_bidir : bool; r_trx : string; r_mode : option string;
  r_spacing_hz : Q; r_power_dbm : option Q; r_nbch : option Z; r_disj : list string; r_nodes : list string;
  r_loose : bool; r_bw_bps : Q }.
(* f'{x}' of a possibly missing value *)
Definition pystr (o : option string) : string := odef "None"%string o.
Definition is_loose_cell (o : option string) : bool :=
  match ostr_o o with
  | None => true
  | Some s => seqb s "yes" || seqb s "Yes" || seqb s "YES"
  end.
Fixpoint assoc {A} (k : string) (l : list (string * A)) : option A :=
  match l with [] => None | (k', v) :: t => if seqb k' k then Some v else assoc k t end.
Definition giga : Q := inject_Z (10 ^ 9).
(* Request_element.__init__ ; equipment = transceiver type -> mode formats *)
Definition request_element (equipment : list (string * list string)) (bidir : bool) (r : req_row) : res request :=
  let id := id_str (q_id r) in
  let* modes := match id_str (q_trx r) with
                | Some t => match assoc t equipment with Some m => Ok (t, m) | None => Err "ServiceError:unknown_trx" end
                | None => Err "ServiceError:unknown_trx"
                end in
  let* mode := match id_str (q_mode r) with
               | None => Ok None
               | Some m => if smem m (snd modes) then Ok (Some m) else Err "ServiceError:unknown_mode"
               end in
  let* sp := match q_spacing r with
             | Some s => if Qeq_bool s 0 then Err "ServiceError:missing_spacing" else Ok (Qred (s * giga))
             | None => Err "ServiceError:missing_spacing"
             end in
  let dj := odef ""%string (id_str (q_disj r)) in
  let nl := ostr "" (q_path r) in
  Ok (mkReq id ("trx " +s pystr (ostr_o (q_src r))) ("trx " +s pystr (ostr_o (q_dst r))) bidir (fst modes) mode sp
            (q_power r) (option_map qtrunc (q_nbch r))
            (if seqb dj "" then [] else split bar dj)
            (if seqb nl "" then [] else split bar nl)
            (is_loose_cell (q_loose r))
            (match q_bw r with Some b => Qred (b * giga) | None => 0%Q end)).

(* list.index *)
Fixpoint sindex_from (l : list string) (x : string) (k : Z) : Z :=
  match l with [] => -1 | y :: t => if seqb y x then k else sindex_from t x (k + 1) end.
(* explicit-route-objects: (index, node-id); hop-type is r_loose for all *)
Definition route_objects (r : request) : list (Z * string) :=
  map (fun n => (sindex_from (r_nodes r) n 0, n)) (r_nodes r).
(* pathsync: synchronization-id and request-id-number, only when 'disjoint from' is filled *)
Definition pathsync (r : request) : option (option string * list (option string)) :=
  match r_disj r with [] => None | d => Some (r_id r, r_id r :: map Some d) end.

(* correct_xls_route_list for one request, for route entries of these classes (the harness generates only these in
   the stream compared with the model; ILA / FUSED city names, whose direction is resolved by walking the network
   graph, are judged by the oracle only):
     exact uid of a ROADM of the network      kept
     city declared ROADM in the Nodes sheet   replaced by 'roadm <city>'
     uid of a transceiver or of a fibre       LOOSE: dropped, STRICT: ServiceError
     a name known nowhere                     LOOSE: dropped, STRICT: ServiceError
   `declared` = cities whose Type cell is exactly ROADM (corresp_names re-parses the sheet, so the ILA->ROADM
   correction of sanity_check is not seen there); `roadm_uids`, `trxfiber` = rendered uids of the network. *)
Inductive nclass := NExact | NCity | NTrxFiber | NUnknown.
Definition classify (declared roadm_uids trxfiber : list string) (n : string) : nclass :=
  if smem n trxfiber then NTrxFiber
  else if smem n roadm_uids then NExact
  else if smem n declared then NCity
  else NUnknown.
Fixpoint replace_first (x y : string) (l : list string) : list string :=
  match l with [] => [] | z :: t => if seqb z x then y :: t else z :: replace_first x y t end.
Fixpoint last_s (l : list string) : option string :=
  match l with [] => None | [x] => Some x | _ :: t => last_s t end.
Definition pop_ends (src dst : string) (l : list string) : list string :=
  let l1 := match l with x :: t => if seqb src x then t else l | [] => [] end in
  match last_s l1 with
  | Some y => if seqb dst y then removelast l1 else l1
  | None => l1
  end.
(* the loop runs over a copy (temp) taken after the pops; removals / replacements act on the first occurrence in
   the live list *)
Fixpoint correct_loop (declared roadm_uids trxfiber : list string) (loose : bool) (temp live : list string)
  : res (list string) :=
  match temp with
  | [] => Ok live
  | n :: t =>
      match classify declared roadm_uids trxfiber n with
      | NExact => correct_loop declared roadm_uids trxfiber loose t live
      | NCity => correct_loop declared roadm_uids trxfiber loose t (replace_first n ("roadm " +s n) live)
      | NTrxFiber => if loose then correct_loop declared roadm_uids trxfiber loose t (remove_first n live)
                     else Err "ServiceError:trx_or_fiber_in_strict_route"
      | NUnknown => if loose then correct_loop declared roadm_uids trxfiber loose t (remove_first n live)
                    else Err "ServiceError:unknown_node_in_strict_route"
      end
  end.
Definition correct_route (declared roadm_uids trxfiber trx_uids : list string) (r : request) : res request :=
  if negb (smem (r_src r) trx_uids) then Err "ServiceError:source"
  else if negb (smem (r_dst r) trx_uids) then Err "ServiceError:destination"
  else
    let l := pop_ends (r_src r) (r_dst r) (r_nodes r) in
    let* l' := correct_loop declared roadm_uids trxfiber (r_loose r) l l in
    Ok (mkReq (r_id r) (r_src r) (r_dst r) (r_bidir r) (r_trx r) (r_mode r) (r_spacing_hz r) (r_power_dbm r)
              (r_nbch r) (r_disj r) l' (r_loose r) (r_bw_bps r)).

(* read_service_sheet on the network converted from the same workbook (before auto-design) *)
Definition is_roadm_el (e : element) : bool := match el_c e with CRoadm _ _ _ => true | _ => false end.
Definition is_trx_el (e : element) : bool := match el_c e with CTrx => true | _ => false end.
Definition is_fiber_el (e : element) : bool := match el_c e with CFiber _ _ _ _ _ _ => true | _ => false end.
Definition uids_where (p : element -> bool) (n : net) : list string :=
  map (fun e => render (el_uid e)) (filter p (elements n)).
Definition declared_roadm (w : rows) : list string :=
  map nr_city (filter (fun r => ntype_eqb (norm_type (nr_type r)) TRoadm) (w_nodes w)).
Definition read_service_sheet (w : rows) (n : net) (equipment : list (string * list string)) (bidir : bool)
                              (rs : list req_row) : res (list request) :=
  let* reqs := mapM (request_element equipment bidir) rs in
  mapM (correct_route (declared_roadm w) (uids_where is_roadm_el n)
                      (uids_where (fun e => is_trx_el e || is_fiber_el e) n) (uids_where is_trx_el n)) reqs.
