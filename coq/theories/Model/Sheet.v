(* C20 — executable model of the spreadsheet converters.  Definitions only (no lemmas).

   Modelled code (as it is in /repo now):
     gnpy/tools/convert.py        Node/Link/Eqpt/Roadm.update_attr (76-84, 131-142, 195-206, 242-251): cleaning of empty
                                  cells, defaults, west side of a Link defaulting to its east side (an Eqpt row's west
                                  side defaults to the class defaults, NOT to east);
                                  parse_excel's node-type normalisation and its two checks (972-1003);
                                  sanity_check (402-511, incl. the self-loop and FUSED-degree rules of c9212f62 / 07aa6e2a) with the
                                  order in which the rules fire;
                                  create_roadm_element / create_east|west_eqpt_element / create_east|west_fiber_element
                                  (505-692), xls_to_json_data (695-787) without region filter,
                                  eqpt_connection_by_city, connect_eqpt, eqpt_in_city_to_city (1008-1101),
                                  fiber_dest_from_source, fiber_link, midpoint (1179-1243)
     gnpy/tools/service_sheet.py  Request.update_attr (61-74), Request_element (105-254), read_service_sheet (256-274),
                                  correct_xls_route_list (349-437) for the name classes listed at `correct_route`
     gnpy/tools/xls_utils.py      correct_cell_int_to_str

   Input = parsed rows: what parse_sheet yields (one dict per non-empty row; a cell is empty, a string or a number).
   Header recognition and cell reading (openpyxl / xlrd) are exercised by the harness, not modelled.
   Numbers are exact rationals.  Not modelled: 'State'/'Country' columns (never used),
   cells of the wrong kind, region filtering (a number where a name is expected ...).

   uids are built symbolically (`uid`) and turned into the byte strings of the f-strings by `render`; convert.py never
   compares uids, only city names, so this is the same computation.  Every place where Python raises is an Err. *)
From Coq Require Import QArith Qround.
From Verif Require Import Prelude.
Open Scope Z_scope.

Infix "+s" := String.append (right associativity, at level 60).
Notation seqb := String.eqb.

(* ---------- small helpers ---------- *)
Definition odef {A} (d : A) (o : option A) : A := match o with Some x => x | None => d end.
(* clean_kwargs drops '' and None before the default is applied *)
Definition ostr (d : string) (o : option string) : string :=
  match o with Some s => if seqb s "" then d else s | None => d end.
Definition oor {A} (o d : option A) : option A := match o with Some x => Some x | None => d end.
Definition ostr_o (o : option string) : option string :=
  match o with Some s => if seqb s "" then None else Some s | None => None end.
Definition smem (x : string) (l : list string) : bool := existsb (seqb x) l.
Fixpoint dupb (l : list string) : bool :=
  match l with [] => false | x :: t => smem x t || dupb t end.

(* str.split(sep) for a non-empty separator: leftmost non-overlapping occurrences *)
Fixpoint split_go (sep : string) (s : string) (skip : nat) : string * list string :=
  match s with
  | EmptyString => (EmptyString, [])
  | String c t =>
      match skip with
      | S k => split_go sep t k
      | O => if String.prefix sep s
             then (EmptyString, let (x, r) := split_go sep t (String.length sep - 1) in x :: r)
             else let (x, r) := split_go sep t 0 in (String c x, r)
      end
  end.
Definition split (sep s : string) : list string := let (x, r) := split_go sep s 0 in x :: r.
Definition bar : string := " | ".
(* list.remove(x) inside silent_remove: first occurrence only *)
Fixpoint remove_first (x : string) (l : list string) : list string :=
  match l with [] => [] | y :: t => if seqb y x then t else y :: remove_first x t end.

(* int(x): truncation toward zero *)
Definition qtrunc (q : Q) : Z := if Qle_bool 0 q then Qfloor q else Qceiling q.
(* round(x, 3): round-half-even on the exact value (a float is an exact rational) *)
Definition round_half_even (q : Q) : Z :=
  let f := Qfloor q in
  let r := (q - inject_Z f)%Q in
  match Qcompare r (1 # 2) with
  | Lt => f
  | Gt => f + 1
  | Eq => if Z.even f then f else f + 1
  end.
Definition round3 (q : Q) : Q := Qred (inject_Z (round_half_even (q * 1000)) / 1000).

(* ---------- parsed rows and the data classes built from them ---------- *)
Inductive ntype := TRoadm | TIla | TFused.
Definition ntype_eqb (a b : ntype) : bool :=
  match a, b with TRoadm, TRoadm | TIla, TIla | TFused, TFused => true | _, _ => false end.

Record node_row := mkNodeRow {
  nr_city : string; nr_region : option string; nr_lat : option Q; nr_lon : option Q;
  nr_type : option string; nr_boost : option string; nr_pre : option string }.
Record node := mkNode {
  n_city : string; n_region : string; n_lat : Q; n_lon : Q; n_type : ntype; n_boost : string; n_pre : string }.
(* parse_excel: anything but the exact strings ROADM / ILA / FUSED becomes ILA (default ILA) *)
Definition norm_type (o : option string) : ntype :=
  match o with
  | Some s => if seqb s "ROADM" then TRoadm else if seqb s "FUSED" then TFused else TIla
  | None => TIla
  end.
Definition mk_node (r : node_row) : node :=
  mkNode (nr_city r) (ostr "" (nr_region r)) (odef 0%Q (nr_lat r)) (odef 0%Q (nr_lon r))
         (norm_type (nr_type r)) (ostr "" (nr_boost r)) (ostr "" (nr_pre r)).
Definition set_type (n : node) (t : ntype) : node :=
  mkNode (n_city n) (n_region n) (n_lat n) (n_lon n) t (n_boost n) (n_pre n).

(* one direction of a Links row *)
Record side_row := mkSideRow {
  sr_dist : option Q; sr_fiber : option string; sr_lineic : option Q; sr_con_in : option Q;
  sr_con_out : option Q; sr_pmd : option Q; sr_cable : option string }.
Record link_row := mkLinkRow { lr_from : string; lr_to : string; lr_east : side_row; lr_west : side_row }.
Record side := mkSide {
  s_dist : Q; s_fiber : string; s_lineic : Q; s_con_in : option Q; s_con_out : option Q;
  s_pmd : option Q; s_cable : string }.
Record link := mkLink { l_from : string; l_to : string; l_east : side; l_west : side }.
Definition default_side : side := mkSide 80%Q "SSMF" (1 # 5)%Q None None None "".
(* a side's cells over the values it falls back to *)
Definition fill_side (d : side) (r : side_row) : side :=
  mkSide (odef (s_dist d) (sr_dist r)) (ostr (s_fiber d) (sr_fiber r)) (odef (s_lineic d) (sr_lineic r))
         (oor (sr_con_in r) (s_con_in d)) (oor (sr_con_out r) (s_con_out d)) (oor (sr_pmd r) (s_pmd d))
         (ostr (s_cable d) (sr_cable r)).
(* Link.update_attr: east over the class defaults, west over east *)
Definition mk_link (r : link_row) : link :=
  let e := fill_side default_side (lr_east r) in
  mkLink (lr_from r) (lr_to r) e (fill_side e (lr_west r)).

Record amp_row := mkAmpRow {
  ar_type : option string; ar_gain : option Q; ar_dp : option Q; ar_tilt : option Q;
  ar_att_out : option Q; ar_att_in : option Q }.
Record eqpt_row := mkEqptRow { er_from : string; er_to : string; er_east : amp_row; er_west : amp_row }.
Record amp := mkAmp {
  a_type : string; a_gain : option Q; a_dp : option Q; a_tilt : option Q; a_att_out : option Q; a_att_in : Q }.
Record eqpt := mkEqpt { e_from : string; e_to : string; e_east : amp; e_west : amp }.
(* Eqpt.update_attr: both sides over the class defaults *)
Definition mk_amp (r : amp_row) : amp :=
  mkAmp (ostr "" (ar_type r)) (ar_gain r) (ar_dp r) (ar_tilt r) (ar_att_out r) (odef 0%Q (ar_att_in r)).
Definition mk_eqpt (r : eqpt_row) : eqpt :=
  mkEqpt (er_from r) (er_to r) (mk_amp (er_east r)) (mk_amp (er_west r)).

(* a cell whose kind matters: empty, text or number *)
Inductive cell := CEmpty | CStr (s : string) | CNum (q : Q).
Record roadm_row := mkRoadmRow {
  rr_from : string; rr_to : string; rr_target : option Q; rr_variety : option string;
  rr_from_deg : option string;       (* 'from degrees': names separated by ' | ' *)
  rr_imp : cell }.                   (* 'from degree to degree impairment id': a number or ids separated by ' | ' *)

Record rows := mkRows {
  w_nodes : list node_row; w_links : list link_row; w_eqpts : list eqpt_row; w_roadms : list roadm_row }.

(* ---------- uids ---------- *)
Inductive dir := East | West.
Definition dir_eqb (a b : dir) : bool := match a, b with East, East | West, West => true | _, _ => false end.
Definition rev_dir (d : dir) : dir := match d with East => West | West => East end.
Definition dir_s (d : dir) : string := match d with East => "east" | West => "west" end.
Inductive uid :=
| UTrx (c : string)
| URoadm (c : string)
| UFused (d : dir) (c : string)
| UFiber (a b k : string)
| UEdfa (d : dir) (c : string)
| UEdfaTo (d : dir) (a z : string).
Definition render (u : uid) : string :=
  match u with
  | UTrx c => "trx " +s c
  | URoadm c => "roadm " +s c
  | UFused d c => dir_s d +s " fused spans in " +s c
  | UFiber a b k => "fiber (" +s a +s " → " +s b +s ")-" +s k
  | UEdfa d c => dir_s d +s " edfa in " +s c
  | UEdfaTo d a z => dir_s d +s " edfa in " +s a +s " to " +s z
  end.
Definition uid_eqb (u v : uid) : bool :=
  match u, v with
  | UTrx a, UTrx b | URoadm a, URoadm b => seqb a b
  | UFused d a, UFused e b | UEdfa d a, UEdfa e b => dir_eqb d e && seqb a b
  | UFiber a b k, UFiber a' b' k' => seqb a a' && seqb b b' && seqb k k'
  | UEdfaTo d a z, UEdfaTo e a' z' => dir_eqb d e && seqb a a' && seqb z z'
  | _, _ => false
  end.

(* ---------- the converted network ---------- *)
Record loc := mkLoc { lc_city : option string; lc_region : option string; lc_lat : Q; lc_lon : Q }.
Record oper := mkOper { op_gain : option Q; op_dp : option Q; op_tilt : option Q; op_out_voa : option Q; op_in_voa : Q }.
Inductive content :=
| CTrx
| CRoadm (variety : option string) (restr : option (list string * list string)) (pdeg : option (list (uid * Q)))
         (pimp : option (list (uid * uid * Z)))             (* per_degree_impairments: from_degree, to_degree, id *)
| CFused (loss0 : bool)                                    (* params {'loss': 0} present? *)
| CFiber (variety : string) (length_km loss_coef : Q) (con_in con_out : option Q) (pmd2 : option Q)
                                                           (* pmd2 = pmd_coef squared, exact *)
| CEdfaAuto                                                (* operational {gain_target: None, tilt_target: None} *)
| CEdfa (variety : option string) (o : oper).
Record element := mkEl { el_uid : uid; el_loc : loc; el_c : content }.
Record net := mkNet { elements : list element; connections : list (uid * uid) }.

(* ---------- indices of xls_to_json_data ---------- *)
Definition cities (ns : list node) : list string := map n_city ns.
(* links_by_city[c]: a link is appended under its from_city and under its to_city *)
Definition links_of (c : string) (ls : list link) : list link :=
  flat_map (fun l => (if seqb (l_from l) c then [l] else []) ++ (if seqb (l_to l) c then [l] else [])) ls.
Definition has_links (c : string) (ls : list link) : bool :=
  existsb (fun l => seqb (l_from l) c || seqb (l_to l) c) ls.
Definition eqpts_of (c : string) (es : list eqpt) : list eqpt := filter (fun e => seqb (e_from e) c) es.
Definition has_eqpt (c : string) (es : list eqpt) : bool := existsb (fun e => seqb (e_from e) c) es.
Fixpoint find_node (c : string) (ns : list node) : option node :=
  match ns with [] => None | n :: t => if seqb (n_city n) c then Some n else find_node c t end.
Definition type_of (c : string) (ns : list node) : option ntype := option_map n_type (find_node c ns).

(* ---------- parse_excel's checks ---------- *)
Definition parse_check (ns : list node) (ls : list link) : res unit :=
  if dupb (cities ns) then Err "NetworkTopologyError:duplicate_city"
  else if existsb (fun l => negb (smem (l_from l) (cities ns)) || negb (smem (l_to l) (cities ns))) ls
  then Err "NetworkTopologyError:link_unknown_node"
  else Ok tt.

(* ---------- sanity_check ---------- *)
(* Link.__eq__ : same or reversed end points *)
Definition link_eqv (a b : link) : bool :=
  (seqb (l_from a) (l_from b) && seqb (l_to a) (l_to b)) || (seqb (l_from a) (l_to b) && seqb (l_to a) (l_from b)).
(* some two rows (different positions) are equivalent *)
Fixpoint dup_links (ls : list link) : bool :=
  match ls with [] => false | l :: t => existsb (link_eqv l) t || dup_links t end.
Definition pair_key (a z : string) : string := a +s "|" +s z.
Definition possible_links (ls : list link) : list string :=
  map (fun l => pair_key (l_from l) (l_to l)) ls ++ map (fun l => pair_key (l_to l) (l_from l)) ls.
Definition bad_eqpt (ls : list link) (e : eqpt) : bool :=
  negb (smem (pair_key (e_from e) (e_to e)) (possible_links ls)) ||
  negb (smem (pair_key (e_to e) (e_from e)) (possible_links ls)).
(* ILA declared for a site whose degree is not 2 becomes ROADM *)
Definition correct_type (ls : list link) (n : node) : node :=
  if ntype_eqb (n_type n) TIla && negb (Nat.eqb (length (links_of (n_city n) ls)) 2)
  then set_type n TRoadm else n.
Definition sanity_check (ns : list node) (ls : list link) (es : list eqpt) : res (list node) :=
  if existsb (fun l => seqb (l_from l) (l_to l)) ls then Err "NetworkTopologyError:self_loop_link"
  else if dup_links ls then Err "NetworkTopologyError:duplicate_link"
  else if existsb (fun n => negb (has_links (n_city n) ls)) ns then Err "NetworkTopologyError:unreferenced_node"
  else if existsb (fun e => negb (smem (e_from e) (cities ns)) || negb (smem (e_to e) (cities ns))) es
  then Err "NetworkTopologyError:eqpt_unknown_node"
  else if existsb (bad_eqpt ls) es then Err "NetworkTopologyError:eqpt_unknown_link"
  else if dupb (map (fun e => pair_key (e_from e) (e_to e)) es) then Err "NetworkTopologyError:duplicate_eqpt"
  else if existsb (fun n => ntype_eqb (n_type n) TIla && Nat.ltb 1 (length (eqpts_of (n_city n) es))) ns
  then Err "NetworkTopologyError:duplicate_ila"
  else if existsb (fun n => ntype_eqb (n_type n) TFused && negb (Nat.eqb (length (links_of (n_city n) ls)) 2)) ns
  then Err "NetworkTopologyError:fused_degree"
  else Ok (map (correct_type ls) ns).

(* ---------- element builders ---------- *)
Definition node_loc (n : node) : loc := mkLoc (Some (n_city n)) (Some (n_region n)) (n_lat n) (n_lon n).
Definition trx_el (n : node) : element := mkEl (UTrx (n_city n)) (node_loc n) CTrx.

Definition restrictions (n : node) : option (list string * list string) :=
  if negb (seqb (n_pre n) "") || negb (seqb (n_boost n) "")
  then Some (remove_first "" (split bar (n_pre n)), remove_first "" (split bar (n_boost n)))
  else None.
Definition roadms_of (c : string) (rs : list roadm_row) : list roadm_row := filter (fun r => seqb (rr_from r) c) rs.
Definition per_degree (c : string) (rs : list roadm_row) : list (uid * Q) :=
  flat_map (fun r => match rr_target r with Some t => [(UEdfaTo East c (rr_to r), t)] | None => [] end) rs.
Definition last_variety (rs : list roadm_row) : option string :=
  fold_left (fun acc r => match ostr_o (rr_variety r) with Some v => Some v | None => acc end) rs None.
(* int(str): optional blanks, optional sign, decimal digits *)
Definition is_digit (c : ascii) : bool := let n := nat_of_ascii c in (Nat.leb 48 n && Nat.leb n 57)%bool.
Fixpoint digits_val (s : string) (acc : Z) : option Z :=
  match s with
  | EmptyString => Some acc
  | String c t => if is_digit c then digits_val t (10 * acc + Z.of_nat (nat_of_ascii c - 48)) else None
  end.
Fixpoint lstrip (s : string) : string :=
  match s with String c t => if Ascii.eqb c " " then lstrip t else s | EmptyString => s end.
Fixpoint rev_s (s : string) (acc : string) : string :=
  match s with EmptyString => acc | String c t => rev_s t (String c acc) end.
Definition strip (s : string) : string := rev_s (lstrip (rev_s (lstrip s) "")) "".
Definition parse_int (s : string) : option Z :=
  match strip s with
  | EmptyString => None
  | String c t =>
      if Ascii.eqb c "-" then match t with EmptyString => None | _ => option_map Z.opp (digits_val t 0) end
      else if Ascii.eqb c "+" then match t with EmptyString => None | _ => digits_val t 0 end
      else digits_val (String c t) 0
  end.
Fixpoint mapM {A B} (f : A -> res B) (l : list A) : res (list B) :=
  match l with
  | [] => Ok []
  | x :: t => let* y := f x in let* r := mapM f t in Ok (y :: r)
  end.
(* transform_data: a float gives one id, a string a list of ids; None = nothing to transform *)
Definition transform_data (c : cell) : res (option (list Z)) :=
  match c with
  | CEmpty => Ok None
  | CNum q => Ok (Some [qtrunc q])
  | CStr s => if seqb s "" then Ok None
              else let* ids := mapM (fun x => match parse_int x with Some z => Ok z | None => Err "ValueError:impairment_id" end)
                                    (split bar s) in Ok (Some ids)
  end.
(* the per-degree impairments one Roadms row contributes to the ROADM of its Node A: None = the row has not both cells *)
Definition row_impairments (c : string) (r : roadm_row) : res (option (list (uid * uid * Z))) :=
  match ostr_o (rr_from_deg r) with
  | None => Ok None
  | Some fd =>
      let* ids := transform_data (rr_imp r) in
      match ids with
      | None => Ok None
      | Some ids =>
          let fds := split bar fd in
          if Nat.eqb (length fds) (length ids)
          then Ok (Some (map (fun p => (UEdfaTo West c (fst p), UEdfaTo East c (rr_to r), snd p)) (combine fds ids)))
          else Err "NetworkTopologyError:impairment_mismatch"
      end
  end.
Definition cat_options {A} (l : list (option (list A))) : option (list A) :=
  if existsb (fun o => match o with Some _ => true | None => false end) l
  then Some (flat_map (fun o => match o with Some x => x | None => [] end) l) else None.
Definition roadm_el (rs : list roadm_row) (n : node) : res element :=
  let mine := roadms_of (n_city n) rs in
  let* imps := mapM (row_impairments (n_city n)) mine in
  Ok (mkEl (URoadm (n_city n)) (node_loc n)
           (CRoadm (last_variety mine) (restrictions n)
                   (match mine with [] => None | _ => Some (per_degree (n_city n) mine) end)
                   (cat_options imps))).
Definition fused_el (d : dir) (n : node) : element := mkEl (UFused d (n_city n)) (node_loc n) (CFused false).

Definition midpoint (a b : node) : loc :=
  mkLoc None None (Qred ((n_lat a + n_lat b) / 2)) (Qred ((n_lon a + n_lon b) / 2)).
Definition lookup_node (c : string) (ns : list node) : res node :=
  match find_node c ns with Some n => Ok n | None => Err "KeyError:nodes_by_city" end.
(* pmd_coef = pmd * 1e-12 / sqrt(distance * 1000), present when the PMD cell is non-zero; carried squared *)
Definition pmd2_of (s : side) : option Q :=
  match s_pmd s with
  | Some p => if Qeq_bool p 0 then None
              else Some (Qred (p * p / (inject_Z (10 ^ 24)) / (s_dist s * 1000)))
  | None => None
  end.
Definition fiber_content (s : side) : content :=
  CFiber (s_fiber s) (round3 (s_dist s)) (s_lineic s) (s_con_in s) (s_con_out s) (pmd2_of s).
Definition east_fiber_uid (l : link) : uid := UFiber (l_from l) (l_to l) (s_cable (l_east l)).
Definition west_fiber_uid (l : link) : uid := UFiber (l_to l) (l_from l) (s_cable (l_west l)).
(* convert_pmd_lineic divides by sqrt(length): ZeroDivisionError / ValueError when a PMD is given for a length <= 0 *)
Definition pmd_check (s : side) : res unit :=
  match s_pmd s with
  | Some p => if Qeq_bool p 0 then Ok tt
              else if Qeq_bool (s_dist s) 0 then Err "ZeroDivisionError:pmd"
              else if Qle_bool (s_dist s) 0 then Err "ValueError:pmd"
              else Ok tt
  | None => Ok tt
  end.
Definition fiber_el (ns : list node) (d : dir) (l : link) : res element :=
  let* a := lookup_node (l_from l) ns in
  let* b := lookup_node (l_to l) ns in
  let* _ := pmd_check (match d with East => l_east l | West => l_west l end) in
  Ok (match d with
      | East => mkEl (east_fiber_uid l) (midpoint a b) (fiber_content (l_east l))
      | West => mkEl (west_fiber_uid l) (midpoint a b) (fiber_content (l_west l))
      end).
Definition auto_edfa_el (d : dir) (n : node) : element := mkEl (UEdfa d (n_city n)) (node_loc n) CEdfaAuto.

Definition amp_oper (a : amp) : oper := mkOper (a_gain a) (a_dp a) (a_tilt a) (a_att_out a) (a_att_in a).
(* the type written in the sheet is compared after .lower() with '' and 'fused' *)
Definition lower_ascii (c : ascii) : ascii :=
  let n := nat_of_ascii c in if (Nat.leb 65 n && Nat.leb n 90)%bool then ascii_of_nat (n + 32) else c.
Fixpoint lower (s : string) : string :=
  match s with EmptyString => EmptyString | String c t => String (lower_ascii c) (lower t) end.
Definition is_fused_type (t : string) : bool := seqb (lower t) "fused".
Definition amp_content (a : amp) : content :=
  if seqb (a_type a) "" then CEdfa None (amp_oper a)
  else if is_fused_type (a_type a) then CFused true
  else CEdfa (Some (a_type a)) (amp_oper a).
Definition eqpt_el (ns : list node) (d : dir) (e : eqpt) : res element :=
  let* a := lookup_node (e_from e) ns in
  Ok (mkEl (UEdfaTo d (e_from e) (e_to e)) (node_loc a)
           (amp_content (match d with East => e_east e | West => e_west e end))).

(* ---------- connection builders ---------- *)
Definition other_city (c : string) (l : link) : string := if seqb (l_from l) c then l_to l else l_from l.
Definition fiber_dest_from_source (c : string) (ls : list link) : list string := map (other_city c) (links_of c ls).
Definition in2 (x a b : string) : bool := seqb x a || seqb x b.
Definition fiber_link (f t : string) (ls : list link) : res uid :=
  match find (fun li => in2 (l_from li) f t && in2 (l_to li) f t) (links_of f ls) with
  | Some li => Ok (if seqb (l_from li) f then east_fiber_uid li else west_fiber_uid li)
  | None => Err "StopIteration:fiber_link"
  end.
Definition connect_eqpt (from_ : uid) (in_ : option uid) (to_ : uid) : list (uid * uid) :=
  match in_ with Some a => [(from_, a); (a, to_)] | None => [(from_, to_)] end.
(* eqpt_in_city_to_city; for an ILA the loop variable `direction` is overwritten by the (fixed) reverse
   direction as soon as one row names another neighbour, and stays so for the following rows *)
Definition eqpt_in_city_to_city (c to_ : string) (es : list eqpt) (t : ntype) (d : dir) : option uid :=
  let mine := eqpts_of c es in
  let r :=
    match mine with
    | [] => match t with TIla => Some (UEdfa d c) | _ => None end
    | _ =>
        match t with
        | TRoadm => fold_left (fun acc e => if seqb (e_to e) to_ then Some (UEdfaTo d (e_from e) (e_to e)) else acc)
                              mine None
        | TIla => snd (fold_left (fun st e => let d' := if seqb (e_to e) to_ then fst st else rev_dir d in
                                             (d', Some (UEdfaTo d' (e_from e) (e_to e))))
                                 mine (d, None))
        | TFused => None
        end
    end in
  match t with TFused => Some (UFused d c) | _ => r end.

Definition eqpt_connection_by_city (c : string) (ns : list node) (ls : list link) (es : list eqpt)
  : res (list (uid * uid)) :=
  let others := fiber_dest_from_source c ls in
  let* n := lookup_node c ns in
  match n_type n with
  | TRoadm =>
      let* l := mapM (fun o =>
                  let* out := fiber_link c o ls in
                  let* inc := fiber_link o c ls in
                  Ok (connect_eqpt (URoadm c) (eqpt_in_city_to_city c o es TRoadm East) out ++
                      connect_eqpt inc (eqpt_in_city_to_city c o es TRoadm West) (URoadm c))) others in
      Ok (concat l)
  | t =>
      match others with
      | o0 :: o1 :: _ =>
          let* f0 := fiber_link o0 c ls in
          let* t0 := fiber_link c o1 ls in
          let* f1 := fiber_link o1 c ls in
          let* t1 := fiber_link c o0 ls in
          Ok (connect_eqpt f0 (eqpt_in_city_to_city c o0 es t West) t0 ++
              connect_eqpt f1 (eqpt_in_city_to_city c o0 es t East) t1)
      | _ => Err "IndexError:site_degree"
      end
  end.

(* ---------- xls_to_json_data ---------- *)
Definition is_t (t : ntype) (n : node) : bool := ntype_eqb (n_type n) t.
Definition build (ns : list node) (ls : list link) (es : list eqpt) (rs : list roadm_row) : res net :=
  let roadms := filter (is_t TRoadm) ns in
  let fused := filter (is_t TFused) ns in
  let ilas := filter (fun n => is_t TIla n && negb (has_eqpt (n_city n) es)) ns in
  let* re := mapM (roadm_el rs) roadms in
  let* ef := mapM (fiber_el ns East) ls in
  let* wf := mapM (fiber_el ns West) ls in
  let* ee := mapM (eqpt_el ns East) es in
  let* we := mapM (eqpt_el ns West) es in
  let* cx := mapM (fun n => eqpt_connection_by_city (n_city n) ns ls es) ns in
  Ok (mkNet
        (map trx_el roadms ++ re ++ map (fused_el West) fused ++ map (fused_el East) fused
         ++ ef ++ wf ++ map (auto_edfa_el West) ilas ++ map (auto_edfa_el East) ilas ++ ee ++ we)
        (concat cx ++
         flat_map (fun n => [(UTrx (n_city n), URoadm (n_city n)); (URoadm (n_city n), UTrx (n_city n))]) roadms)).

Definition convert (w : rows) : res net :=
  let ns := map mk_node (w_nodes w) in
  let ls := map mk_link (w_links w) in
  let es := map mk_eqpt (w_eqpts w) in
  let* _ := parse_check ns ls in
  let* ns' := sanity_check ns ls es in
  build ns' ls es (w_roadms w).

(* ================================================================== service sheet ===== *)
(* clean_kwargs + default None/'' + correct_cell_int_to_str *)
Definition id_str (c : cell) : option string :=
  match c with
  | CEmpty => None
  | CStr s => if seqb s "" then None else Some s
  | CNum q => Some (zs (qtrunc q))
  end.
Record req_row := mkReqRow {
  q_id : cell; q_src : option string; q_dst : option string; q_trx : cell; q_mode : cell;
  q_spacing : option Q; q_power : option Q; q_nbch : option Q; q_disj : cell; q_path : option string;
  q_loose : option string; q_bw : option Q }.
Record request := mkReq {
  r_id : option string; r_src : string; r_dst : string; r_bidir : bool; r_trx : string; r_mode : option string;
  r_spacing_hz : Q; r_power_dbm : option Q; r_nbch : option Z; r_disj : list string; r_nodes : list string;
  r_loose : bool; r_bw_bps : Q }.
(* f'{x}' of a possibly missing value *)
Definition pystr (o : option string) : string := odef "None"%string o.
Definition is_loose_cell (o : option string) : bool :=
  match ostr_o o with
  | None => true
  | Some s => seqb s "yes" || seqb s "Yes" || seqb s "YES"
  end.
Fixpoint assoc {A} (k : string) (l : list (string * A)) : option A :=
  match l with [] => None | (k', v) :: t => if seqb k' k then Some v else assoc k t end.
Definition giga : Q := inject_Z (10 ^ 9).
(* Request_element.__init__ ; equipment = transceiver type -> mode formats *)
Definition request_element (equipment : list (string * list string)) (bidir : bool) (r : req_row) : res request :=
  let id := id_str (q_id r) in
  let* modes := match id_str (q_trx r) with
                | Some t => match assoc t equipment with Some m => Ok (t, m) | None => Err "ServiceError:unknown_trx" end
                | None => Err "ServiceError:unknown_trx"
                end in
  let* mode := match id_str (q_mode r) with
               | None => Ok None
               | Some m => if smem m (snd modes) then Ok (Some m) else Err "ServiceError:unknown_mode"
               end in
  let* sp := match q_spacing r with
             | Some s => if Qeq_bool s 0 then Err "ServiceError:missing_spacing" else Ok (Qred (s * giga))
             | None => Err "ServiceError:missing_spacing"
             end in
  let dj := odef ""%string (id_str (q_disj r)) in
  let nl := ostr "" (q_path r) in
  Ok (mkReq id ("trx " +s pystr (ostr_o (q_src r))) ("trx " +s pystr (ostr_o (q_dst r))) bidir (fst modes) mode sp
            (q_power r) (option_map qtrunc (q_nbch r))
            (if seqb dj "" then [] else split bar dj)
            (if seqb nl "" then [] else split bar nl)
            (is_loose_cell (q_loose r))
            (match q_bw r with Some b => Qred (b * giga) | None => 0%Q end)).

(* list.index *)
Fixpoint sindex_from (l : list string) (x : string) (k : Z) : Z :=
  match l with [] => -1 | y :: t => if seqb y x then k else sindex_from t x (k + 1) end.
(* explicit-route-objects: (index, node-id); hop-type is r_loose for all *)
Definition route_objects (r : request) : list (Z * string) :=
  map (fun n => (sindex_from (r_nodes r) n 0, n)) (r_nodes r).
(* pathsync: synchronization-id and request-id-number, only when 'disjoint from' is filled *)
Definition pathsync (r : request) : option (option string * list (option string)) :=
  match r_disj r with [] => None | d => Some (r_id r, r_id r :: map Some d) end.

(* ---------- name correction: corresp_names, corresp_next_node, find_node_sugestion, correct_xls_route_list ----------
   on the network converted from the same workbook (before auto-design; the 'Edfa_preamp_roadm ...' names of
   auto-design do not exist yet).  Everything works on rendered uids (strings): convert.py matches by substring. *)
Inductive ekind := KTrx | KRoadm | KFused | KFiber | KEdfa.
Definition ekind_eqb (a b : ekind) : bool :=
  match a, b with KTrx, KTrx | KRoadm, KRoadm | KFused, KFused | KFiber, KFiber | KEdfa, KEdfa => true | _, _ => false end.
Definition kind_of (c : content) : ekind :=
  match c with
  | CTrx => KTrx | CRoadm _ _ _ _ => KRoadm | CFused _ => KFused | CFiber _ _ _ _ _ _ => KFiber
  | CEdfaAuto | CEdfa _ _ => KEdfa
  end.
Record graph := mkGraph { g_nodes : list (string * ekind); g_edges : list (string * string) }.
Definition graph_of (n : net) : graph :=
  mkGraph (map (fun e => (render (el_uid e), kind_of (el_c e))) (elements n))
          (map (fun c => (render (fst c), render (snd c))) (connections n)).
Definition uids_of_kind (k : ekind) (g : graph) : list string :=
  map fst (filter (fun p => ekind_eqb (snd p) k) (g_nodes g)).
(* `sub in s` *)
Fixpoint contains (sub s : string) : bool :=
  String.prefix sub s || match s with String _ t => contains sub t | EmptyString => false end.
Definition first_containing (sub : string) (g : graph) : option string :=
  option_map fst (find (fun p => contains sub (fst p)) (g_nodes g)).
Definition kind_at (g : graph) (u : string) : option ekind :=
  option_map snd (find (fun p => seqb (fst p) u) (g_nodes g)).
(* next(network.successors(u)) *)
Definition succ1 (g : graph) (u : string) : option string :=
  option_map snd (find (fun e => seqb (fst e) u) (g_edges g)).
(* while isinstance(next_nd, (Fiber, Fused)): next_nd = next(successors(next_nd)) ; fuel = number of nodes *)
Definition skipped_kind (k : ekind) : bool := match k with KFiber | KFused => true | _ => false end.
Fixpoint skip_line (fuel : nat) (g : graph) (u : string) : res string :=
  match kind_at g u with
  | Some k =>
      if skipped_kind k then
        match fuel with
        | O => Err "Loop:fibres_and_fused_only"
        | S f => match succ1 g u with Some v => skip_line f g v | None => Err "StopIteration:successors" end
        end
      else Ok u
  | None => Ok u
  end.

(* insertion-ordered dict: key -> list *)
Definition al : Type := list (string * list string).
Fixpoint al_get (k : string) (l : al) : option (list string) :=
  match l with [] => None | (k', v) :: t => if seqb k' k then Some v else al_get k t end.
Fixpoint al_extend (k : string) (vs : list string) (l : al) : al :=       (* d[k].extend(vs) on a defaultdict(list) *)
  match l with
  | [] => [(k, vs)]
  | (k', v) :: t => if seqb k' k then (k', v ++ vs) :: t else (k', v) :: al_extend k vs t
  end.
Fixpoint al_extend_if (k : string) (vs : list string) (l : al) : al :=    (* d.get(k, []).extend(vs) *)
  match l with
  | [] => []
  | (k', v) :: t => if seqb k' k then (k', v ++ vs) :: t else (k', v) :: al_extend_if k vs t
  end.
Fixpoint al_set (k : string) (vs : list string) (l : al) : al :=
  match l with
  | [] => [(k, vs)]
  | (k', v) :: t => if seqb k' k then (k', vs) :: t else (k', v) :: al_set k vs t
  end.

Definition edfa_to_name (d : dir) (e : eqpt) : string := render (UEdfaTo d (e_from e) (e_to e)).
Definition corresp_roadm (w : rows) : al :=
  map (fun r => (nr_city r, [render (URoadm (nr_city r))]))
      (filter (fun r => ntype_eqb (norm_type (nr_type r)) TRoadm) (w_nodes w)).
Definition corresp_fused (w : rows) (g : graph) : al :=
  let fused := uids_of_kind KFused g in
  let base := map (fun r => (nr_city r, [render (UFused West (nr_city r)); render (UFused East (nr_city r))]))
                  (filter (fun r => ntype_eqb (norm_type (nr_type r)) TFused &&
                                    smem (render (UFused West (nr_city r))) fused &&
                                    smem (render (UFused East (nr_city r))) fused) (w_nodes w)) in
  fold_left (fun acc e =>
               let acc1 := if is_fused_type (a_type (e_east e)) && smem (edfa_to_name East e) fused
                           then al_extend_if (e_from e) [edfa_to_name East e] acc else acc in
               if is_fused_type (a_type (e_west e)) && smem (edfa_to_name West e) fused
               then al_extend_if (e_from e) [edfa_to_name West e] acc1 else acc1)
            (map mk_eqpt (w_eqpts w)) base.
Definition corresp_ila (w : rows) (g : graph) (cfused : al) : al :=
  let ila := uids_of_kind KEdfa g in
  let c1 := fold_left (fun acc e =>
                         fold_left (fun a nm => if smem nm ila then al_extend (e_from e) [nm] a else a)
                                   [edfa_to_name East e; edfa_to_name West e] acc)
                      (map mk_eqpt (w_eqpts w)) [] in
  let c2 := fold_left (fun acc r =>
                         fold_left (fun a nm => if smem nm ila then al_extend (nr_city r) [nm] a else a)
                                   [render (UEdfa East (nr_city r)); render (UEdfa West (nr_city r))] acc)
                      (w_nodes w) c1 in
  fold_left (fun acc kv => al_extend (fst kv) (snd kv) acc) cfused c2.

(* corresp_next_node: for every name, the actual uid (first node whose uid contains it) and the sheet name of
   the next ROADM / amplifier site downstream *)
Definition next_key (croadm cila : al) (nd : string) : option string :=
  match find (fun kv => smem nd (snd kv)) croadm with
  | Some kv => Some (fst kv)
  | None => option_map fst (find (fun kv => existsb (fun e => contains e nd) (snd kv)) cila)
  end.
Definition next_step (g : graph) (croadm : al) (st : res (al * list (string * string) * list string)) (key elem : string)
  : res (al * list (string * string) * list string) :=
  let* s := st in
  let '(cila, nn, temp) := s in
  match first_containing elem g with
  | None => Err "StopIteration:no_node_contains_name"
  | Some cname =>
      let temp' := remove_first elem temp ++ [cname] in
      match succ1 g cname with
      | None => Err "StopIteration:successors"
      | Some v =>
          let* nd := skip_line (length (g_nodes g)) g v in
          (* the roadm lookup always (re)assigns; the ila lookup only when the name has no entry yet *)
          match find (fun kv => smem nd (snd kv)) croadm with
          | Some kv => Ok (cila, (cname, fst kv) :: nn, temp')
          | None =>
              match assoc cname nn with
              | Some _ => Ok (cila, nn, temp')
              | None =>
                  match find (fun kv => existsb (fun e => contains e nd) (snd kv)) cila with
                  | Some kv => Ok (cila, (cname, fst kv) :: nn, temp')
                  | None => Ok (cila, nn, temp')
                  end
              end
          end
      end
  end.
Definition corresp_next_node (g : graph) (croadm cila0 : al) : res (al * list (string * string)) :=
  fold_left (fun st key =>
               let* s := st in
               let '(cila, nn) := s in
               let lst := odef [] (al_get key cila) in
               let* r := fold_left (fun a elem => next_step g croadm a key elem) lst (Ok (cila, nn, lst)) in
               let '(cila', nn', temp) := r in
               Ok (al_set key temp cila', nn'))
            (map fst cila0) (Ok (cila0, [])).

(* find_node_sugestion *)
Definition suggestions (g : graph) (croadm cfused cila : al) (n : string) : list string :=
  if smem n (uids_of_kind KRoadm g ++ uids_of_kind KEdfa g) then [n]
  else match al_get n croadm with
       | Some v => v
       | None => match al_get n cfused with
                 | Some v => v ++ odef [] (al_get n cila)
                 | None => odef [] (al_get n cila)
                 end
       end.

(* what happens to the hop at position i of the (popped) route list *)
Inductive action := AKeep | ARename (s : string) | ADrop | AFail (e : string).
Definition decide (g : graph) (croadm cfused cila : al) (nn : list (string * string)) (loose : bool)
                  (dst : string) (route : list string) (i : nat) (n : string) : action :=
  if smem n (uids_of_kind KTrx g ++ uids_of_kind KFiber g)
  then (if loose then ADrop else AFail "ServiceError:trx_or_fiber_in_strict_route")
  else
    match suggestions g croadm cfused cila n with
    | [] => if loose then ADrop else AFail "ServiceError:unknown_node_in_strict_route"
    | [x] => if seqb x n then AKeep else ARename x
    | sg =>
        (* several candidates: the one whose downstream neighbour is named later in the list (or is the destination)
           and not earlier; none -> the hop is skipped, whatever the strictness *)
        match find (fun s => match assoc s nn with
                             | Some c => smem c (skipn i route ++ [dst]) && negb (smem c (firstn i route))
                             | None => false
                             end) sg with
        | Some x => if seqb x n then AKeep else ARename x
        | None => ADrop
        end
    end.

Fixpoint replace_first (x y : string) (l : list string) : list string :=
  match l with [] => [] | z :: t => if seqb z x then y :: t else z :: replace_first x y t end.
Fixpoint last_s (l : list string) : option string :=
  match l with [] => None | [x] => Some x | _ :: t => last_s t end.
Definition pop_ends (src dst : string) (l : list string) : list string :=
  let l1 := match l with x :: t => if seqb src x then t else l | [] => [] end in
  match last_s l1 with
  | Some y => if seqb dst y then removelast l1 else l1
  | None => l1
  end.
(* the loop runs over a copy (temp) taken after the pops; every removal / replacement acts on the FIRST occurrence
   of the hop's name in the live list (list.remove / list.index) *)
Fixpoint surgery (dec : nat -> string -> action) (i : nat) (temp live : list string) : res (list string) :=
  match temp with
  | [] => Ok live
  | n :: t =>
      match dec i n with
      | AKeep => surgery dec (S i) t live
      | ARename s => surgery dec (S i) t (replace_first n s live)
      | ADrop => surgery dec (S i) t (remove_first n live)
      | AFail e => Err e
      end
  end.

Record corresp := mkCorresp { k_graph : graph; k_roadm : al; k_fused : al; k_ila : al; k_next : list (string * string) }.
Definition build_corresp (w : rows) (n : net) : res corresp :=
  let g := graph_of n in
  let cr := corresp_roadm w in
  let cf := corresp_fused w g in
  let* r := corresp_next_node g cr (corresp_ila w g cf) in
  Ok (mkCorresp g cr cf (fst r) (snd r)).
Definition correct_route (k : corresp) (r : request) : res request :=
  let trx := uids_of_kind KTrx (k_graph k) in
  if negb (smem (r_src r) trx) then Err "ServiceError:source"
  else if negb (smem (r_dst r) trx) then Err "ServiceError:destination"
  else
    let l := pop_ends (r_src r) (r_dst r) (r_nodes r) in
    let* l' := surgery (decide (k_graph k) (k_roadm k) (k_fused k) (k_ila k) (k_next k) (r_loose r) (r_dst r) l) 0 l l in
    Ok (mkReq (r_id r) (r_src r) (r_dst r) (r_bidir r) (r_trx r) (r_mode r) (r_spacing_hz r) (r_power_dbm r)
              (r_nbch r) (r_disj r) l' (r_loose r) (r_bw_bps r)).

(* read_service_sheet on the network converted from the same workbook (before auto-design) *)
Definition read_service_sheet (w : rows) (n : net) (equipment : list (string * list string)) (bidir : bool)
                              (rs : list req_row) : res (list request) :=
  let* reqs := mapM (request_element equipment bidir) rs in
  let* k := build_corresp w n in
  mapM (correct_route k) reqs.

(* ================================================================== header recognition =====
   convert.read_header / read_slice / parse_headers / parse_row (262-364): which column of a sheet is read as which
   field.  A sheet is a grid of cells (row-major; cells beyond the end of a row are empty). *)
Definition grid : Type := list (list cell).
(* row[a:b] of line `line`; [] when the line does not exist *)
Definition row_slice (g : grid) (line a b : nat) : list cell := firstn (b - a) (skipn a (nth line g [])).
(* cell.value.strip() if cell.value else '' ; a non-zero number has no .strip(): AttributeError *)
Definition header_text (c : cell) : option string :=
  match c with
  | CEmpty => Some EmptyString
  | CStr s => Some (strip s)
  | CNum q => if Qeq_bool q 0 then Some EmptyString else None
  end.
Fixpoint all_some {A} (l : list (option A)) : option (list A) :=
  match l with
  | [] => Some []
  | Some x :: t => option_map (cons x) (all_some t)
  | None :: _ => None
  end.
Fixpoint number_from {A} (k : nat) (l : list A) : list (A * nat) :=
  match l with [] => [] | x :: t => (x, k) :: number_from (S k) t end.
Fixpoint last_col (l : list (string * nat)) : option nat :=
  match l with [] => None | [x] => Some (snd x) | _ :: t => last_col t end.
(* read_header: the non-empty headers of a line with their columns, closed by a sentinel at the end of the slice;
   any exception while reading the line gives no header at all *)
Definition read_header (g : grid) (line a b : nat) : list (string * nat) :=
  match all_some (map header_text (row_slice g line a b)) with
  | None => []
  | Some hs =>
      let hi := filter (fun p => negb (seqb (fst p) "")) (number_from a hs) in
      match last_col hi with
      | None => []
      | Some c => if Nat.eqb c b then hi else hi ++ [(EmptyString, b)]
      end
  end.
(* read_slice: the first header CONTAINING the label, with the column of the next header *)
Fixpoint first_match (label : string) (hi : list (string * nat)) : option (nat * nat) :=
  match hi with
  | [] => None
  | (h, c) :: t => if contains label h
                   then match t with (_, c') :: _ => Some (c, c') | [] => None end   (* [] : IndexError, unreachable *)
                   else first_match label t
  end.
Definition read_slice (g : grid) (line a b : nat) (label : string) : option (nat * nat) :=
  first_match label (read_header g line a b).
(* the label is looked for on the given line and, failing that, on the nine following ones *)
Fixpoint find_label (g : grid) (line a b : nat) (label : string) (tries : nat) : option (nat * nat) :=
  match tries with
  | O => None
  | S k => match read_slice g line a b label with
           | Some r => Some r
           | None => find_label g (S line) a b label k
           end
  end.
(* headers[col] = field on an insertion-ordered dict *)
Fixpoint hd_set (c : nat) (f : string) (l : list (nat * string)) : list (nat * string) :=
  match l with
  | [] => [(c, f)]
  | (c', f') :: t => if Nat.eqb c' c then (c', f) :: t else (c', f') :: hd_set c f t
  end.
Definition mandatory (label : string) : bool :=
  seqb label "east" || seqb label "Node A" || seqb label "Node Z" || seqb label "City".
Definition flat_dict : Type := list (string * string).                       (* label -> field *)
Definition hdict : Type := list (string * (string + flat_dict)).              (* label -> field | group of labels *)
Definition no_header_error : string := "NetworkTopologyError:no_header".
Fixpoint parse_flat (g : grid) (d : flat_dict) (hd : list (nat * string)) (line a b : nat) : res (list (nat * string)) :=
  match d with
  | [] => match hd with [] => Err no_header_error | _ => Ok hd end
  | (label, field) :: t =>
      match find_label g line a b label 10 with
      | Some (c, _) => parse_flat g t (hd_set c field hd) line a b
      | None => if mandatory label then Err "NetworkTopologyError:missing_header" else parse_flat g t hd line a b
      end
  end.
Fixpoint parse_headers (g : grid) (d : hdict) (hd : list (nat * string)) (line a b : nat) : res (list (nat * string)) :=
  match d with
  | [] => match hd with [] => Err no_header_error | _ => Ok hd end
  | (label, v) :: t =>
      match find_label g line a b label 10 with
      | Some (c, c') =>
          match v with
          | inl field => parse_headers g t (hd_set c field hd) line a b
          | inr sub => let* hd' := parse_flat g sub hd (S line) c c' in parse_headers g t hd' line a b
          end
      | None => if mandatory label then Err "NetworkTopologyError:missing_header" else parse_headers g t hd line a b
      end
  end.
(* parse_row: field -> cell; when two columns carry the same field the later one (in insertion order) wins *)
Definition parse_row (row : list cell) (hd : list (nat * string)) (field : string) : cell :=
  fold_left (fun acc p => if seqb (snd p) field then nth (fst p) row CEmpty else acc) hd CEmpty.
(* parse_sheet: the data rows (first cell not empty) from `start` on *)
Definition is_empty_cell (c : cell) : bool := match c with CEmpty => true | CStr s => seqb s "" | CNum _ => false end.
Definition data_rows (g : grid) (start ncol : nat) : list (list cell) :=
  map (firstn ncol) (filter (fun r => negb (is_empty_cell (nth 0 r CEmpty))) (skipn start g)).

(* the dictionaries of parse_excel / parse_service_sheet *)
Definition side_dict (p : string) : flat_dict :=
  [("Distance (km)", p +s "_distance"); ("Fiber type", p +s "_fiber"); ("lineic att", p +s "_lineic");
   ("Con_in", p +s "_con_in"); ("Con_out", p +s "_con_out"); ("PMD", p +s "_pmd"); ("Cable id", p +s "_cable")]%string.
Definition link_headers : hdict :=
  [("Node A", inl "from_city"); ("Node Z", inl "to_city"); ("east", inr (side_dict "east")); ("west", inr (side_dict "west"))]%string.
Definition node_headers : hdict :=
  [("City", inl "city"); ("State", inl "state"); ("Country", inl "country"); ("Region", inl "region");
   ("Latitude", inl "latitude"); ("Longitude", inl "longitude"); ("Type", inl "node_type");
   ("Booster_restriction", inl "booster_restriction"); ("Preamp_restriction", inl "preamp_restriction")]%string.
Definition amp_dict (p : string) : flat_dict :=
  [("amp type", p +s "_amp_type"); ("amp gain", p +s "_amp_gain"); ("delta p", p +s "_amp_dp");
   ("tilt", p +s "_tilt_vs_wavelength"); ("att_out", p +s "_att_out"); ("att_in", p +s "_att_in")]%string.
Definition eqpt_headers : hdict :=
  [("Node A", inl "from_city"); ("Node Z", inl "to_city"); ("east", inr (amp_dict "east")); ("west", inr (amp_dict "west"))]%string.
Definition roadm_headers : hdict :=
  [("Node A", inl "from_node"); ("Node Z", inl "to_node"); ("per degree target power (dBm)", inl "target_pch_out_db");
   ("type_variety", inl "type_variety"); ("from degrees", inl "from_degrees");
   ("from degree to degree impairment id", inl "impairment_ids")]%string.
Definition service_headers : hdict :=
  [("route id", inl "request_id"); ("Source", inl "source"); ("Destination", inl "destination");
   ("TRX type", inl "trx_type"); ("Mode", inl "mode"); ("System: spacing", inl "spacing");
   ("System: input power (dBm)", inl "power"); ("System: nb of channels", inl "nb_channel");
   ("routing: disjoint from", inl "disjoint_from"); ("routing: path", inl "nodes_list");
   ("routing: is loose?", inl "is_loose"); ("path bandwidth", inl "path_bandwidth")]%string.
(* (header line, first data line, number of columns) *)
Definition nodes_layout := (4, 5, 10)%nat.
Definition links_layout := (3, 5, 16)%nat.
Definition eqpts_layout := (3, 5, 14)%nat.
Definition roadms_layout := (3, 5, 6)%nat.
Definition service_layout := (4, 5, 12)%nat.
