(* C13 — executable model of the feasibility verdict of a service.
   Anchors (gnpy):
     core/utils.py        snr_sum                                   l.221-226
     core/elements.py     Transceiver._calc_snr / update_snr        l.217-250   [raw figures vs current figures]
                          Transceiver._calc_penalty / calc_penalties l.196-215  (numpy.interp, inf outside)
     tools/json_io.py     Transceiver.__init__ (penalty tables normalised at load: inserted (0,0), sort) l.166-197
     topology/request.py  propagate l.397-423, propagate_and_optimize_mode l.425-498,
                          verdict of compute_path_with_disjunction l.1164-1227
     core/elements.py     Edfa.interpol_params l.1441-1446 (the clamp  effective_gain = min(effective_gain, p_max - pin))
   Numbers: Q.  Signal-to-noise figures of the receiver are kept as 1/ratio in linear units (a noiseless line is 0);
   the verdict works in dB on values handed over by the caller (dB <-> linear conversions are inputs).
   Definitions only; proofs are in Proofs/Verdict.v. *)
From Verif Require Import Prelude.
From Coq Require Import QArith Qround Qminmax.
Open Scope Q_scope.

Definition Qlt_bool (a b : Q) : bool := negb (Qle_bool b a).

(* ====================================================================================================
   1. Receiver figures: Transceiver._calc_snr + update_snr, in linear-inverse units
   ==================================================================================================== *)
Definition ref_bw : Q := 12500000000.           (* 12.5e9 Hz = 0.1 nm *)

(* one received channel: baud rate, the four raw (line only) figures and the four current figures *)
Record rxch := mkRx {
  baud : Q;
  raw_osnr_bw : Q; raw_snr_bw : Q; raw_osnr_01 : Q; raw_snr_01 : Q;
  osnr_bw : Q; snr_bw : Q; osnr_01 : Q; snr_01 : Q }.
Definition receiver := list rxch.

(* Transceiver._calc_snr: the raw values are recorded and the current values are reset to them *)
Definition receive1 (b ro rs ro01 rs01 : Q) : rxch := mkRx b ro rs ro01 rs01 ro rs ro01 rs01.

(* an argument of update_snr: a scalar (tx_osnr) or one value per channel (roadm-osnr array); None is skipped *)
Inductive arg := Scalar (q : Q) | Arr (l : list Q).
Definition arg_at (a : arg) (k : nat) : Q := match a with Scalar q => q | Arr l => nth k l 0 end.
Definition arg_fits (n : nat) (a : option arg) : bool :=
  match a with Some (Arr l) => Nat.eqb (length l) n | _ => true end.
(* snr_added (as 1/linear) for channel k:  sum of db2lin(-s) over the arguments that are not None *)
Fixpoint added_at (args : list (option arg)) (k : nat) : Q :=
  match args with
  | [] => 0
  | Some a :: t => arg_at a k + added_at t k
  | None :: t => added_at t k
  end.
(* Roadm.set_roadm_paths, default model: the add stage and the drop stage are each given add_drop_osnr + 10log10(2) dB, i.e.
   each is worth half of the noise 1/add_drop_osnr *)
Definition add_drop_stage (add_drop : Q) : Q := add_drop / 2.
(* utils.snr_sum(snr, bw, snr_added):  1/snr' = 1/snr + (1/snr_added) * (bw / 12.5e9) *)
Definition snr_sum (x bw added : Q) : Q := x + added * (bw / ref_bw).
(* update_snr on one channel: every current figure is recomputed from the RAW figure *)
Definition update1 (added : Q) (c : rxch) : rxch :=
  mkRx (baud c) (raw_osnr_bw c) (raw_snr_bw c) (raw_osnr_01 c) (raw_snr_01 c)
       (snr_sum (raw_osnr_bw c) (baud c) added) (snr_sum (raw_snr_bw c) (baud c) added)
       (snr_sum (raw_osnr_01 c) ref_bw added) (snr_sum (raw_snr_01 c) ref_bw added).
Fixpoint update_from (k : nat) (args : list (option arg)) (r : receiver) : receiver :=
  match r with [] => [] | c :: t => update1 (added_at args k) c :: update_from (S k) args t end.
(* numpy raises ValueError when an array argument cannot be broadcast against the channels *)
Definition update_snr (r : receiver) (args : list (option arg)) : res receiver :=
  if forallb (arg_fits (length r)) args then Ok (update_from 0 args r) else Err "ValueError:broadcast".
(* a history of update_snr calls on the same receiver (the mode loop calls it once per mode) *)
Fixpoint run_updates (r : receiver) (h : list (list (option arg))) : res receiver :=
  match h with [] => Ok r | a :: t => let* r' := update_snr r a in run_updates r' t end.

(* ====================================================================================================
   2. Penalties: tables normalised at load, numpy.interp with inf outside
   ==================================================================================================== *)
Inductive pen := PFin (q : Q) | PInf.                  (* a penalty in dB; +inf outside the table *)
Definition table := list (Q * Q).                      (* (impairment value, penalty value) *)

(* list.sort(key = impairment): stable insertion, ascending *)
Fixpoint ins_pt (p : Q * Q) (l : table) : table :=
  match l with
  | [] => [p]
  | y :: t => if Qlt_bool (fst y) (fst p) then y :: ins_pt p t else p :: l
  end.
Definition sort_tab (l : table) : table := fold_right ins_pt [] l.
(* json_io.Transceiver.__init__: if every listed impairment value is > 0 a (0, 0) point is put in front; then sort *)
Definition normalise (raw : table) : table :=
  sort_tab (if forallb (fun p => Qlt_bool 0 (fst p)) raw then (0, 0) :: raw else raw).

(* numpy.interp(x, xp, fp, left=inf, right=inf) for ascending xp *)
Fixpoint interp_seg (x : Q) (l : table) : pen :=
  match l with
  | [] => PInf
  | (x0, y0) :: t =>
      match t with
      | [] => if Qeq_bool x x0 then PFin y0 else PInf
      | (x1, y1) :: _ =>
          if Qlt_bool x x1 then PFin (y0 + (x - x0) * ((y1 - y0) / (x1 - x0))) else interp_seg x t
      end
  end.
Definition interp (x : Q) (l : table) : pen :=
  match l with
  | [] => PInf
  | (x0, _) :: _ => if Qlt_bool x x0 then PInf else interp_seg x l
  end.

(* numpy.interp with explicit `left` / `right` keyword values; None = the keyword is absent (numpy then answers the first /
   last ordinate).  `interp` above is the instance left = right = inf that Transceiver._calc_penalty asks for. *)
Fixpoint interp_seg_gen (right : option pen) (x : Q) (l : table) : pen :=
  match l with
  | [] => PInf
  | (x0, y0) :: t =>
      match t with
      | [] => if Qeq_bool x x0 then PFin y0 else match right with Some p => p | None => PFin y0 end
      | (x1, y1) :: _ =>
          if Qlt_bool x x1 then PFin (y0 + (x - x0) * ((y1 - y0) / (x1 - x0))) else interp_seg_gen right x t
      end
  end.
Definition interp_gen (left right : option pen) (x : Q) (l : table) : pen :=
  match l with
  | [] => PInf
  | (x0, y0) :: _ =>
      if Qlt_bool x x0 then match left with Some p => p | None => PFin y0 end else interp_seg_gen right x l
  end.

(* the three tables of a mode as listed in the equipment file; [] = impairment not listed (no entry in the dict) *)
Record tables := mkT { t_cd : table; t_pmd : table; t_pdl : table }.
Definition one_pen (raw : table) (v : Q) : pen :=
  match raw with [] => PFin 0 | _ => interp v (normalise raw) end.
Definition pen_add (a b : pen) : pen :=
  match a, b with PFin x, PFin y => PFin (x + y) | _, _ => PInf end.
(* calc_penalties: total_penalty = sum of the per-impairment penalties *)
Definition total_pen (T : tables) (cd pmd pdl : Q) : pen :=
  pen_add (pen_add (one_pen (t_cd T) cd) (one_pen (t_pmd T) pmd)) (one_pen (t_pdl T) pdl).

(* ====================================================================================================
   3. The metric  round(min(snr_01nm - total_penalty), 2)  and the fixed-mode verdict
   ==================================================================================================== *)
Inductive met := MNegInf | MFin (q : Q).               (* GSNR - penalty: -inf when the penalty is +inf *)
Definition met_sub (g : Q) (p : pen) : met := match p with PFin q => MFin (g - q) | PInf => MNegInf end.
Definition met_min (a b : met) : met :=
  match a, b with MFin x, MFin y => MFin (Qmin x y) | _, _ => MNegInf end.
Definition met_lt (a b : met) : bool :=
  match a, b with
  | MNegInf, MFin _ => true
  | MFin x, MFin y => Qlt_bool x y
  | _, MNegInf => false
  end.
(* round-half-even on the exact value *)
Definition round_half_even (q : Q) : Z :=
  let f := Qfloor q in
  match Qcompare (q - inject_Z f) (1 # 2) with
  | Lt => f
  | Gt => (f + 1)%Z
  | Eq => if Z.even f then f else (f + 1)%Z
  end.
Definition round2 (q : Q) : Q := inject_Z (round_half_even (q * 100)) / 100.
Definition met_round2 (m : met) : met := match m with MFin q => MFin (round2 q) | MNegInf => MNegInf end.

(* what the receiver holds after propagate(): GSNR in 0.1 nm (dB, after update_snr) and the three impairments *)
Record figs := mkF { f_g01 : list Q; f_cd : list Q; f_pmd : list Q; f_pdl : list Q }.
Fixpoint chan_mets (T : tables) (g cd pmd pdl : list Q) : res (list met) :=
  match g, cd, pmd, pdl with
  | [], [], [], [] => Ok []
  | g0 :: g', c0 :: c', p0 :: p', d0 :: d' =>
      let* r := chan_mets T g' c' p' d' in Ok (met_sub g0 (total_pen T c0 p0 d0) :: r)
  | _, _, _, _ => Err "ValueError:shape"
  end.
Definition min_mets (l : list met) : res met :=
  match l with [] => Err "ValueError:min of empty" | x :: t => Ok (fold_left met_min t x) end.
Definition metric (T : tables) (f : figs) : res met :=
  let* l := chan_mets T (f_g01 f) (f_cd f) (f_pmd f) (f_pdl f) in
  let* m := min_mets l in Ok (met_round2 m).

(* compute_path_with_disjunction l.1171 / l.1220:  round(min, 2) < OSNR + margin  ->  blocked *)
Definition blocked_fixed (thr : Q) (m : met) : bool := met_lt m (MFin thr).
(* propagate_and_optimize_mode l.473:  round(min, 2) > OSNR + margin  ->  selected *)
Definition passes_auto (thr : Q) (m : met) : bool := met_lt (MFin thr) m.

(* blocking reason of a request whose mode is given: forward direction first, then (bidir) the reverse one;
   a reason set by the forward direction is kept *)
Definition MODE_NOT_FEASIBLE : string := "MODE_NOT_FEASIBLE".
Definition decide_fixed (thr : Q) (fwd : met) (rev : option met) : option string :=
  if blocked_fixed thr fwd then Some MODE_NOT_FEASIBLE else
  match rev with
  | Some r => if blocked_fixed thr r then Some MODE_NOT_FEASIBLE else None
  | None => None
  end.

(* ====================================================================================================
   4. propagate_and_optimize_mode
   ==================================================================================================== *)
Record mode := mkM { m_id : Z; m_baud : Q; m_off : Q; m_bitrate : Q; m_minsp : Q; m_osnr : Q; m_tab : tables }.
Definition iter := (Q * Q)%type.                        (* (baud rate, equalization offset) of one propagation *)

Definition fits (sp : Q) (m : mode) : bool := Qle_bool (m_minsp m) sp.
Definition iter_eqb (a b : iter) : bool := Qeq_bool (fst a) (fst b) && Qeq_bool (snd a) (snd b).
(* tuple comparison a > b *)
Definition iter_gtb (a b : iter) : bool :=
  Qlt_bool (fst b) (fst a) || (Qeq_bool (fst a) (fst b) && Qlt_bool (snd b) (snd a)).
(* set(...) : keep one representative of each value *)
Fixpoint dedup (l : list iter) : list iter :=
  match l with
  | [] => []
  | x :: t => if existsb (iter_eqb x) t then dedup t else x :: dedup t
  end.
(* sorted(..., reverse=True) *)
Fixpoint ins_iter (x : iter) (l : list iter) : list iter :=
  match l with
  | [] => [x]
  | y :: t => if iter_gtb y x then y :: ins_iter x t else x :: l
  end.
Definition sort_iters (l : list iter) : list iter := fold_right ins_iter [] l.
Definition iters (lib : list mode) (sp : Q) : list iter :=
  sort_iters (dedup (map (fun m => (m_baud m, m_off m)) (filter (fits sp) lib))).

(* sorted(modes, key=(bit_rate, offset), reverse=True): stable, equal keys keep the library order *)
Definition key_gtb (a b : mode) : bool := iter_gtb (m_bitrate a, m_off a) (m_bitrate b, m_off b).
Fixpoint ins_mode (x : mode) (l : list mode) : list mode :=
  match l with
  | [] => [x]
  | y :: t => if key_gtb y x then y :: ins_mode x t else x :: l
  end.
Definition sort_modes (l : list mode) : list mode := fold_right ins_mode [] l.
(* the modes explored under the propagation (baud, offset): the fitting modes with that baud rate AND that offset
   (request.py: `this_mode['baud_rate'] == this_br and this_mode['equalization_offset_db'] == this_offset`) *)
Definition modes_of (lib : list mode) (sp : Q) (it : iter) : list mode :=
  sort_modes (filter (fun m => Qeq_bool (m_baud m) (fst it) && Qeq_bool (m_off m) (snd it) && fits sp m) lib).

(* the receiver after the propagation of iteration `it`, updated for mode m; None = path[-1].snr is None *)
Definition provider := iter -> mode -> option figs.

Inductive verdict1 := Pass | Fail | NoSnr | Raise (e : string).
Definition eval1 (margin : Q) (P : provider) (it : iter) (m : mode) : verdict1 :=
  match P it m with
  | None => NoSnr
  | Some f =>
      match metric (m_tab m) f with
      | Err e => Raise e
      | Ok x => if passes_auto (m_osnr m + margin) x then Pass else Fail
      end
  end.

Inductive outcome :=
| Selected (it : iter) (m : mode)
| NoFeasibleMode (it : iter) (m : mode)          (* the last explored mode and its propagation *)
| NoBaudrate
| NoComputedSnr
| Raised (e : string).

Inductive tried := Found (m : mode) | Stop (o : outcome) | Continue.
Fixpoint try_modes (margin : Q) (P : iter -> mode -> option figs) (it : iter) (ms : list mode) : tried :=
  match ms with
  | [] => Continue
  | m :: t =>
      match eval1 margin P it m with
      | Pass => Found m
      | Fail => try_modes margin P it t
      | NoSnr => Stop NoComputedSnr
      | Raise e => Stop (Raised e)
      end
  end.

(* The loop threads an explicit propagation state S: `step s it` propagates the request with the baud rate and
   offset of `it` on the path in state s and returns the new state of the path together with the receiver figures
   (per mode).  The pure loop below is the instance whose state is trivial. *)
Definition stepper (S : Type) := S -> iter -> S * (mode -> option figs).
Definition dummy_mode : mode := mkM 0 0 0 0 0 0 (mkT [] [] []).
Fixpoint loop_st {S : Type} (step : stepper S) (margin : Q) (lib : list mode) (sp : Q) (s : S) (its : list iter)
         (lst : option (iter * mode)) : outcome * S :=
  match its with
  | [] =>
      match lst with
      | Some (it, m) => (NoFeasibleMode it m, s)
      | None => (Raised "UnboundLocalError:last_explored_mode", s)
      end
  | it :: t =>
      let (s', pf) := step s it in
      let ms := modes_of lib sp it in
      match try_modes margin (fun _ => pf) it ms with
      | Found m => (Selected it m, s')
      | Stop o => (o, s')
      | Continue =>
          loop_st step margin lib sp s' t (match ms with [] => lst | _ => Some (it, List.last ms dummy_mode) end)
      end
  end.
Definition mode_loop_st {S : Type} (step : stepper S) (margin : Q) (lib : list mode) (sp : Q) (s : S) : outcome * S :=
  match iters lib sp with
  | [] => (NoBaudrate, s)
  | its => loop_st step margin lib sp s its None
  end.

(* the loop fed with receiver figures that only depend on (iteration, mode): the specification-level loop *)
Definition pure_step (P : provider) : stepper unit := fun _ it => (tt, P it).
Definition mode_loop (margin : Q) (P : provider) (lib : list mode) (sp : Q) : outcome :=
  fst (mode_loop_st (pure_step P) margin lib sp tt).

(* the exploration order: (propagation, mode) pairs in the order the code evaluates them *)
Definition explore (lib : list mode) (sp : Q) : list (iter * mode) :=
  flat_map (fun it => map (pair it) (modes_of lib sp it)) (iters lib sp).
(* specification: the first explored pair that does not fail decides *)
Fixpoint first_decisive (margin : Q) (P : provider) (l : list (iter * mode)) (lst : option (iter * mode)) : outcome :=
  match l with
  | [] =>
      match lst with
      | Some (it, m) => NoFeasibleMode it m
      | None => NoBaudrate
      end
  | (it, m) :: t =>
      match eval1 margin P it m with
      | Pass => Selected it m
      | Fail => first_decisive margin P t (Some (it, m))
      | NoSnr => NoComputedSnr
      | Raise e => Raised e
      end
  end.

(* blocking reason and mode bookkeeping of compute_path_with_disjunction for a request without mode *)
Definition reason_of (o : outcome) : option string :=
  match o with
  | Selected _ _ => None
  | NoFeasibleMode _ _ => Some "NO_FEASIBLE_MODE"
  | NoBaudrate => Some "NO_FEASIBLE_BAUDRATE_WITH_SPACING"
  | NoComputedSnr => Some "NO_COMPUTED_SNR"
  | Raised e => Some e
  end%string.
(* the mode written into the request (baud_rate, OSNR, penalties, offset ...) *)
Definition mode_of (o : outcome) : option mode :=
  match o with Selected _ m => Some m | NoFeasibleMode _ m => Some m | _ => None end.
(* l.1210-1227: with bidir and a mode (selected or last explored) the reverse path is propagated with that mode;
   a failing reverse direction blocks unless a reason is already set *)
Definition decide_auto (margin : Q) (o : outcome) (rev : option met) : option string :=
  match reason_of o with
  | Some r => Some r
  | None =>
      match mode_of o, rev with
      | Some m, Some r => if blocked_fixed (m_osnr m + margin) r then Some MODE_NOT_FEASIBLE else None
      | _, _ => None
      end
  end.

(* ====================================================================================================
   5. A line with amplifier state (linear units): what the mode loop / a batch of requests shares
   ==================================================================================================== *)
(* per channel powers (mW): signal and accumulated noise *)
Record chp := mkP { sig : Q; nse : Q }.
Definition spectrum := list chp.
Definition ptot (sp : spectrum) : Q := fold_right (fun c a => sig c + nse c + a) 0 sp.

Inductive elem :=
| Fiber (loss : Q)                         (* linear power factor *)
| Edfa (gain pmax nf : Q)                  (* gain: CURRENT effective gain (state); pmax: total output cap; nf: input-referred ASE per channel *)
| Roadm (target : Q)                       (* per-channel egress target power, never amplifies *)
| Trx.
Definition path := list elem.

Definition scale (k : Q) (c : chp) : chp := mkP (sig c * k) (nse c * k).
(* Edfa.interpol_params l.1441-1446:  effective_gain = min(effective_gain, p_max - pin_db), kept on the object *)
Definition clamp (gain pmax pin : Q) : Q := if Qeq_bool pin 0 then gain else Qmin gain (pmax / pin).
Definition elem_step (off : Q) (e : elem) (sp : spectrum) : elem * spectrum :=
  match e with
  | Fiber l => (e, map (scale l) sp)
  | Edfa g pmax nf =>
      let g' := clamp g pmax (ptot sp) in
      (Edfa g' pmax nf, map (fun c => mkP (sig c * g') ((nse c + nf) * g')) sp)
  | Roadm t =>
      (e, map (fun c => let p := sig c + nse c in
                         if Qlt_bool (t * off) p then scale (t * off / p) c else c) sp)
  | Trx => (e, sp)
  end.
Fixpoint propagate_path (off : Q) (p : path) (sp : spectrum) : path * spectrum :=
  match p with
  | [] => ([], sp)
  | e :: t =>
      let (e', sp') := elem_step off e sp in
      let (t', sp'') := propagate_path off t sp' in
      (e' :: t', sp'')
  end.

(* a load: number of channels, power per channel at the transmitter, offset factor of the ROADM targets *)
Record load := mkL { l_nch : nat; l_pch : Q; l_off : Q }.
Definition launch (l : load) : spectrum := repeat (mkP (l_pch l) 0) (l_nch l).
Definition run_load (p : path) (l : load) : path * spectrum := propagate_path (l_off l) p (launch l).

(* successive propagations on the SAME path objects without any restore (what the loop did before fix 6c7139d6; kept
   to state why the restore is needed) *)
Fixpoint leaky_runs (p : path) (ls : list load) : list spectrum :=
  match ls with
  | [] => []
  | l :: t => let (p', sp) := run_load p l in sp :: leaky_runs p' t
  end.
(* every propagation starts from the designed state *)
Definition fresh_runs (p : path) (ls : list load) : list spectrum := map (fun l => snd (run_load p l)) ls.

(* request.py l.436-442: the designed effective gain of every amplifier of the path is recorded before the loop and
   written back at the top of every iteration; everything else on the path objects is left as the last propagation
   left it *)
Definition restore1 (d e : elem) : elem :=
  match d, e with
  | Edfa g _ _, Edfa _ pmax nf => Edfa g pmax nf
  | _, _ => e
  end.
Fixpoint restore (designed p : path) : path :=
  match designed, p with
  | d :: dt, e :: pt => restore1 d e :: restore dt pt
  | _, _ => p
  end.

(* steppers for loop_st: `conv` turns the received spectrum into the per-mode receiver figures (dB conversions,
   tx/add-drop noise, impairments) and `load_of` gives the load of an iteration; both are arbitrary *)
(* the code: restore the designed gains, propagate on the path objects; the path keeps the state of this propagation *)
Definition code_step (designed : path) (load_of : iter -> load) (conv : spectrum -> mode -> option figs) : stepper path :=
  fun p it => let (p', sp) := run_load (restore designed p) (load_of it) in (p', conv sp).
(* hypothetical loop without the restore *)
Definition leaky_step (load_of : iter -> load) (conv : spectrum -> mode -> option figs) : stepper path :=
  fun p it => let (p', sp) := run_load p (load_of it) in (p', conv sp).
Definition fresh_provider (designed : path) (load_of : iter -> load) (conv : spectrum -> mode -> option figs) : provider :=
  fun it => conv (snd (run_load designed (load_of it))).
(* the state of the path handed back to the caller: that of the LAST propagation made (the deciding one) *)
Definition final_state (designed : path) (load_of : iter -> load) (o : outcome) : option path :=
  match o with
  | Selected it _ | NoFeasibleMode it _ => Some (fst (run_load designed (load_of it)))
  | NoBaudrate => Some designed
  | _ => None
  end.

(* ====================================================================================================
   6. Amplifier state in dB, as Edfa.interpol_params computes it (numerically tied to gnpy by the harness)
   ==================================================================================================== *)
(* elements.py l.1441-1446:  effective_gain = min(effective_gain, p_max - pin_db)   (dB, dBm; pin_db = -inf for no power) *)
Definition clamp_db (g pmax : Q) (pin : option Q) : Q :=
  match pin with Some p => Qmin g (pmax - p) | None => g end.
(* what happens to one amplifier object over time:
     ASnap      propagate_and_optimize_mode records its gain before the (baud, offset) loop
     ARestore   ... and writes it back at the top of an iteration
     AProp pin  the amplifier propagates a spectrum whose total input power is pin *)
Inductive aev := ASnap | ARestore | AProp (pin : option Q).
Record ast := mkAst { a_cur : Q; a_snap : Q }.
Definition astep (pmax : Q) (s : ast) (e : aev) : ast :=
  match e with
  | ASnap => mkAst (a_cur s) (a_cur s)
  | ARestore => mkAst (a_snap s) (a_snap s)
  | AProp pin => mkAst (clamp_db (a_cur s) pmax pin) (a_snap s)
  end.
(* the effective gain after every propagation of a history that starts from gain g0 *)
Fixpoint atrace (pmax : Q) (s : ast) (evs : list aev) : list Q :=
  match evs with
  | [] => []
  | e :: t =>
      let s' := astep pmax s e in
      match e with AProp _ => a_cur s' :: atrace pmax s' t | _ => atrace pmax s' t end
  end.
Definition amp_history (g0 pmax : Q) (evs : list aev) : list Q := atrace pmax (mkAst g0 g0) evs.
(* the two shapes the code produces *)
Definition loop_events (pins : list (option Q)) : list aev := ASnap :: flat_map (fun p => [ARestore; AProp p]) pins.
Definition shared_events (pins : list (option Q)) : list aev := map AProp pins.
