(* C18 — legacy <-> YANG conversion of gnpy input documents (gnpy/tools/convert_legacy_yang.py,
   gnpy/tools/yang_convert_utils.py) and the other_name expansion of gnpy/tools/json_io.py:_equipment_from_json.
   Executable definitions only (the lemmas are in Proofs/Yang.v).

   JSON values.  Python dicts are association lists in insertion order (keys unique: invariant `wf_keys`
   of Proofs/Yang.v).  Numbers are exact decimals  JNum m d = m / 10^d :
     d = 0      a Python int
     d >= 1     a Python float, identified with the decimal that repr() prints (shortest round-tripping
                decimal; integral floats are  m*10 / 10^1, e.g. 25.0 = JNum 250 1)
   Every place where Python raises is an explicit  Err "Type:detail". *)
From Verif Require Import Prelude Model.YangPrecision.
Open Scope Z_scope.

Inductive json :=
| JNull
| JBool (b : bool)
| JNum (m : Z) (d : nat)
| JStr (s : string)
| JArr (l : list json)
| JObj (o : list (string * json)).

Definition obj := list (string * json).

(* ------------------------------------------------------------------ dict primitives *)
Fixpoint jget (k : string) (o : obj) : option json :=
  match o with
  | [] => None
  | (k', v) :: t => if String.eqb k k' then Some v else jget k t
  end.
Definition jhas (k : string) (o : obj) : bool := match jget k o with Some _ => true | None => false end.
(* del d[k] / d.pop(k, None) *)
Fixpoint jdel (k : string) (o : obj) : obj :=
  match o with
  | [] => []
  | (k', v) :: t => if String.eqb k k' then jdel k t else (k', v) :: jdel k t
  end.
(* d[k] = v : in place when the key exists, appended otherwise *)
Fixpoint jset (k : string) (v : json) (o : obj) : obj :=
  match o with
  | [] => [(k, v)]
  | (k', v') :: t => if String.eqb k k' then (k', v) :: t else (k', v') :: jset k v t
  end.
Definition jreq (k : string) (o : obj) : res json :=
  match jget k o with Some v => Ok v | None => Err (append "KeyError:" k) end.
Definition as_obj (j : json) : res obj :=
  match j with JObj o => Ok o | _ => Err "TypeError:dict expected"%string end.
Definition as_arr (j : json) : res (list json) :=
  match j with JArr l => Ok l | _ => Err "TypeError:list expected"%string end.
Definition is_str (s : string) (j : json) : bool := match j with JStr s' => String.eqb s s' | _ => false end.

(* Python truthiness *)
Definition truthy (j : json) : bool :=
  match j with
  | JNull => false
  | JBool b => b
  | JNum m _ => negb (m =? 0)
  | JStr s => negb (String.eqb s "")
  | JArr l => match l with [] => false | _ => true end
  | JObj o => match o with [] => false | _ => true end
  end.

(* f is outside the fix, so that mapM can carry the nested recursion over JSON values *)
Definition mapM {A B} (f : A -> res B) : list A -> res (list B) :=
  fix go (l : list A) : res (list B) :=
    match l with
    | [] => Ok []
    | x :: t => let* y := f x in let* t' := go t in Ok (y :: t')
    end.

(* `k in v` for a JSON value v that is a dict (lists: only the [None] produced from null is in the domain
   of the documents considered; a list never contains the key strings tested below) *)
Definition key_in (k : string) (j : json) : res bool :=
  match j with
  | JObj o => Ok (jhas k o)
  | JArr _ => Ok false
  | JStr _ => Err "Unmodelled:substring test"%string
  | _ => Err "TypeError:argument is not iterable"%string
  end.

(* ------------------------------------------------------------------ None <-> [None] *)
Fixpoint none_to_empty (j : json) : json :=
  match j with
  | JNull => JArr [JNull]
  | JArr l => match l with
              | [JNull] => j
              | _ => JArr (map none_to_empty l)
              end
  | JObj o => JObj (map (fun kv => (fst kv, none_to_empty (snd kv))) o)
  | _ => j
  end.

Fixpoint empty_to_none (j : json) : json :=
  match j with
  | JArr l => match l with
              | [JNull] => JNull
              | _ => JArr (map empty_to_none l)
              end
  | JObj o => JObj (map (fun kv => (fst kv, empty_to_none (snd kv))) o)
  | _ => j
  end.

(* ------------------------------------------------------------------ decimal text *)
Definition pow10 (n : nat) : Z := 10 ^ Z.of_nat n.
Definition digit_char (d : Z) : ascii := ascii_of_nat (48 + Z.to_nat d).
(* exactly k digits of n (zero padded, n taken modulo 10^k) *)
Fixpoint digs (k : nat) (n : Z) : list ascii :=
  match k with
  | O => []
  | S k' => digs k' (n / 10) ++ [digit_char (n mod 10)]
  end.
Fixpoint ndigits_fuel (f : nat) (n : Z) : nat :=
  match f with
  | O => 1%nat
  | S f' => if n <? 10 then 1%nat else S (ndigits_fuel f' (n / 10))
  end.
Definition ndigits (n : Z) : nat := ndigits_fuel (Z.to_nat (Z.log2 n)) n.
Definition nat_str (n : Z) : list ascii := digs (ndigits n) n.

Definition dot : ascii := "."%char.
Definition minus : ascii := "-"%char.
Definition plus : ascii := "+"%char.
Definition sign_str (neg : bool) : list ascii := if neg then [minus] else [].

(* a / 10^d, d >= 1, printed as  [-]int.frac  with exactly d fractional digits *)
Definition fixed_str (neg : bool) (a : Z) (d : nat) : list ascii :=
  sign_str neg ++ nat_str (a / pow10 d) ++ dot :: digs d (a mod pow10 d).

(* rstrip('0') then keep one digit after the point: numerically *)
Fixpoint strip0 (a : Z) (d : nat) : Z * nat :=
  match d with
  | S (S _ as d') => if a mod 10 =? 0 then strip0 (a / 10) d' else (a, d)
  | _ => (a, d)
  end.

(* format(x, '.{fd}f') on |x| = a / 10^d : correctly rounded; an exact decimal tie goes to the even neighbour
   (Python rounds the binary double: a decimal tie that is not a dyadic rational is outside the model's
   domain, the harness does not judge such numbers) ; result scaled by 10^fd *)
Definition round_he (a : Z) (d fd : nat) : Z :=
  if (d <=? fd)%nat then a * pow10 (fd - d)
  else
    let p := pow10 (d - fd) in
    let q := a / p in
    let r := a mod p in
    if 2 * r <? p then q else if p <? 2 * r then q + 1 else if Z.even q then q else q + 1.

(* parts[1][0:min(fd, len(parts[1]))] : truncation of the repr digits *)
Definition trunc_to (a : Z) (d fd : nat) : Z * nat :=
  if (d <=? fd)%nat then (a, d) else (a / pow10 (d - fd), fd).

(* does repr(float) use exponent notation?  x <> 0 and (|x| < 1e-4 or |x| >= 1e16) *)
Definition repr_has_e (m : Z) (d : nat) : bool :=
  negb (m =? 0) && ((Z.abs m * 10000 <? pow10 d) || (pow10 (d + 16) <=? Z.abs m)).

(* str(PrettyFloat) with .fraction_digit = fd on the number JNum m d  (PrettyFloat.__repr__) *)
Definition pretty (fd : Z) (m : Z) (d : nat) : res (list ascii) :=
  if (fd <? 0) || (18 <? fd) then Err "ValueError:Fraction digit not handled"%string
  else
    let fdn := Z.to_nat fd in
    let neg := m <? 0 in
    let a := Z.abs m in
    if (d =? 0)%nat || repr_has_e m d || (fd <? 17) then
      let r := round_he a d fdn in
      match fdn with
      | O => Ok (sign_str neg ++ nat_str r)
      | _ => let '(a', d') := strip0 r fdn in Ok (fixed_str neg a' d')
      end
    else
      let '(a1, d1) := trunc_to a d fdn in
      let '(a', d') := strip0 a1 d1 in Ok (fixed_str neg a' d').

(* ---- parsing: float(s) / int(s) on plain decimal text  [+-]digits[.digits] ---- *)
Definition digit_val (c : ascii) : option Z :=
  let n := nat_of_ascii c in
  if (48 <=? n)%nat && (n <=? 57)%nat then Some (Z.of_nat n - 48) else None.
Fixpoint val_acc (acc : Z) (cs : list ascii) : option Z :=
  match cs with
  | [] => Some acc
  | c :: t => match digit_val c with Some v => val_acc (10 * acc + v) t | None => None end
  end.
Fixpoint split_dot (cs : list ascii) : list ascii * option (list ascii) :=
  match cs with
  | [] => ([], None)
  | c :: t => if Ascii.eqb c dot then ([], Some t)
              else let '(a, b) := split_dot t in (c :: a, b)
  end.
Definition strip_sign (cs : list ascii) : bool * list ascii :=
  match cs with
  | c :: t => if Ascii.eqb c minus then (true, t) else if Ascii.eqb c plus then (false, t) else (false, cs)
  | [] => (false, [])
  end.
(* a float as the model sees it: at least one fractional digit, no superfluous trailing zero *)
Definition norm_float (m : Z) (d : nat) : json :=
  match d with
  | O => JNum (m * 10) 1
  | _ => let '(a, d') := strip0 (Z.abs m) d in JNum (if m <? 0 then - a else a) d'
  end.
Definition py_float (s : string) : res json :=
  let '(neg, body) := strip_sign (list_ascii_of_string s) in
  let '(ip, fp) := split_dot body in
  let fpd := match fp with Some f => f | None => [] end in
  match ip ++ fpd with
  | [] => Err "ValueError:could not convert string to float"%string
  | ds => match val_acc 0 ds with
          | Some a => Ok (norm_float (if neg then - a else a) (length fpd))
          | None => Err "ValueError:could not convert string to float"%string
          end
  end.
Definition py_int (s : string) : res json :=
  let '(neg, body) := strip_sign (list_ascii_of_string s) in
  match body with
  | [] => Err "ValueError:invalid literal for int()"%string
  | ds => match val_acc 0 ds with
          | Some a => Ok (JNum (if neg then - a else a) 0)
          | None => Err "ValueError:invalid literal for int()"%string
          end
  end.

(* ------------------------------------------------------------------ convert_dict / convert_back *)
Fixpoint assoc_z (k : string) (t : list (string * Z)) : option Z :=
  match t with
  | [] => None
  | (k', v) :: r => if String.eqb k k' then Some v else assoc_z k r
  end.
Definition prec (k : string) : option Z := assoc_z k precision_table.
Definition prec_d (k : string) : Z := match prec k with Some v => v | None => 2 end.   (* precision.get(k, 2) *)

Definition cnum (fd : Z) (m : Z) (d : nat) : res json :=
  match d with
  | O => (* isinstance(data, int) *)
      if 0 <? fd then let* s := pretty fd m d in Ok (JStr (string_of_list_ascii s))
      else if fd <? 0 then Ok (JNum (m * 10) 1)          (* returns the PrettyFloat object: a float *)
      else Ok (JNum m 0)
  | _ => let* s := pretty fd m d in Ok (JStr (string_of_list_ascii s))
  end.

Fixpoint convert_dict_fd (fd : Z) (j : json) {struct j} : res json :=
  match j with
  | JObj o =>
      let* o' := mapM (fun kv => let* v' := convert_dict_fd (prec_d (fst kv)) (snd kv) in Ok (fst kv, v')) o in
      Ok (JObj o')
  | JArr l => let* l' := mapM (convert_dict_fd fd) l in Ok (JArr l')
  | JNum m d => cnum fd m d
  | _ => Ok j
  end.
Definition convert_dict (j : json) : res json := convert_dict_fd 2 j.

Definition in_none_m1 (fd : option Z) : bool :=
  match fd with None => true | Some f => f =? -1 end.

Fixpoint convert_back_fd (fd : option Z) (j : json) {struct j} : res json :=
  match j with
  | JObj o =>
      let* o' := mapM (fun kv => let* v' := convert_back_fd (prec (fst kv)) (snd kv) in Ok (fst kv, v')) o in
      Ok (JObj o')
  | JArr l =>
      (* a string element of a list is float()ed whatever the digits (even 0), unless the key is string-typed *)
      let* l' := mapM (fun x => match x with
                                | JStr s => if in_none_m1 fd then Ok x else py_float s
                                | _ => convert_back_fd fd x
                                end) l in
      Ok (JArr l')
  | JStr s =>
      match fd with
      | None => Ok j
      | Some f => if 0 <? f then py_float s else if f <? 0 then Ok j else py_int s
      end
  | _ => Ok j
  end.
Definition convert_back (j : json) : res json := convert_back_fd None j.

(* ------------------------------------------------------------------ remove_namespace_context *)
Fixpoint drop_s (n : nat) (s : string) : string :=
  match n, s with
  | O, _ => s
  | S n', String _ t => drop_s n' t
  | S _, EmptyString => EmptyString
  end.
(* first occurrence of ns in s : (text before, text after) *)
Fixpoint find_sub (ns s : string) : option (string * string) :=
  if String.prefix ns s then Some (EmptyString, drop_s (String.length ns) s)
  else match s with
       | EmptyString => None
       | String c t => match find_sub ns t with
                       | Some (a, b) => Some (String c a, b)
                       | None => None
                       end
       end.
(* s.split(ns)[1] when ns in s *)
Definition strip_ns_str (ns s : string) : string :=
  match find_sub ns s with
  | None => s
  | Some (_, after) => match find_sub ns after with
                       | Some (mid, _) => mid
                       | None => after
                       end
  end.
Fixpoint remove_ns (ns : string) (j : json) : json :=
  match j with
  | JStr s => JStr (strip_ns_str ns s)
  | JArr l => JArr (map (remove_ns ns) l)
  | JObj o => JObj (map (fun kv => (fst kv, remove_ns ns (snd kv))) o)
  | _ => j
  end.

(* ------------------------------------------------------------------ keys and namespaces *)
Definition K_elements := "elements"%string.
Definition K_params := "params"%string.
Definition K_type := "type"%string.
Definition K_roadm := "Roadm"%string.
Definition K_degree := "degree_uid"%string.
Definition K_pdt := "per_degree_power_targets"%string.
Definition K_pddb := "per_degree_design_bands"%string.
Definition K_pddbt := "per_degree_design_bands_targets"%string.
Definition K_db := "design_bands"%string.
Definition K_loss := "loss_coef"%string.
Definition K_losspf := "loss_coef_per_frequency"%string.
Definition K_raman := "raman_coefficient"%string.
Definition K_raman_eff := "raman_efficiency"%string.
Definition eq_types : list string :=
  ["per_degree_pch_out_db"; "per_degree_psd_out_mWperGHz"; "per_degree_psd_out_mWperSlotWidth"]%string.

Definition TOPO_NMSP := "gnpy-network-topology:topology"%string.
Definition EQPT_NMSP := "gnpy-eqpt-config:equipment"%string.
Definition SERV_NMSP := "gnpy-path-computation:services"%string.
Definition RESP_NMSP := "gnpy-path-computation:responses"%string.
Definition EDFA_CONFIG_NMSP := "gnpy-edfa-config:edfa-config"%string.
Definition SIM_PARAMS_NMSP := "gnpy-sim-params:sim-params"%string.
Definition SPECTRUM_NMSP := "gnpy-spectrum:spectrum"%string.
Definition API_NMSP := "gnpy-api:api"%string.
Definition EQPT_TYPES := ["Edfa"; "Transceiver"; "Fiber"; "Roadm"]%string.
Definition EDFA_CONFIG_KEYS := ["nf_fit_coeff"; "nf_ripple"; "gain_ripple"; "dgt"]%string.
Definition SIM_PARAMS_KEYS := ["raman_params"; "nli_params"]%string.
Definition any_key (ks : list string) (o : obj) : bool := existsb (fun k => jhas k o) ks.

(* for elem in json_data['elements']: elem is updated by f *)
Definition on_elements (f : obj -> res obj) (doc : obj) : res obj :=
  let* els := jreq K_elements doc in
  let* l := as_arr els in
  let* l' := mapM (fun e => let* eo := as_obj e in let* eo' := f eo in Ok (JObj eo')) l in
  Ok (jset K_elements (JArr l') doc).

(* elem[key] (a dict, when the guard holds) is replaced by g elem[key] *)
Definition upd_sub (key : string) (g : obj -> res obj) (e : obj) : res obj :=
  let* p := jreq key e in
  let* po := as_obj p in
  let* po' := g po in
  Ok (jset key (JObj po') e).

Definition roadm_with_params (e : obj) : res bool :=
  let* t := jreq K_type e in Ok (is_str K_roadm t && jhas K_params e).
(* per-degree design bands: ROADMs and transceivers *)
Definition K_trx := "Transceiver"%string.
Definition band_elem_with_params (e : obj) : res bool :=
  let* t := jreq K_type e in Ok ((is_str K_roadm t || is_str K_trx t) && jhas K_params e).

(* ------------------------------------------------------------------ reorder_keys *)
Definition reorder_item (key : string) (it : json) : res json :=
  let* o := as_obj it in
  match jget key o with
  | None => Ok it
  | Some JNull => Ok (JObj (jdel key o))
  | Some v => Ok (JObj ((key, v) :: jdel key o))
  end.
Definition reorder_keys (key : string) (l : json) : res json :=
  let* items := as_arr l in let* items' := mapM (reorder_item key) items in Ok (JArr items').

(* if sub in elem and key in elem[sub]: elem[sub][key] = reorder_keys(elem[sub][key], first) *)
Definition reorder_in (sub key first : string) (e : obj) : res obj :=
  match jget sub e with
  | None => Ok e
  | Some sv =>
      let* has := key_in key sv in
      if has then upd_sub sub (fun so => let* l := jreq key so in let* l' := reorder_keys first l in
                                         Ok (jset key l' so)) e
      else Ok e
  end.
Definition reorder_raman_pumps (doc : obj) : res obj :=
  on_elements (reorder_in "operational" "raman_pumps" "frequency") doc.
Definition reorder_lumped_losses (doc : obj) : res obj :=
  on_elements (reorder_in K_params "lumped_losses" "position") doc.

(* ------------------------------------------------------------------ remove_null_region_city *)
Definition null_to_empty_str (name : string) (loc : obj) : obj :=
  match jget name loc with
  | Some JNull => jset name (JStr "") loc
  | _ => loc
  end.
Definition region_city_elem (e : obj) : res obj :=
  match jget "metadata" e with
  | None => Ok e
  | Some md =>
      let* has := key_in "location" md in
      if has then
        upd_sub "metadata" (fun mo =>
          let* loc := jreq "location" mo in
          match loc with
          | JObj lo => Ok (jset "location" (JObj (null_to_empty_str "region" (null_to_empty_str "city" lo))) mo)
          | JArr _ => Ok mo                       (* `name in [None]` is False *)
          | _ => Err "TypeError:argument is not iterable"%string
          end) e
      else Ok e
  end.
Definition remove_null_region_city (doc : obj) : res obj := on_elements region_city_elem doc.

(* ------------------------------------------------------------------ convert_degree / convert_back_degree *)
Definition degree_entries (eqt : string) (items : obj) : list json :=
  map (fun dv => JObj [(K_degree, JStr (fst dv)); (eqt, snd dv)]) items.

(* one iteration of `for equalization_type in [...]` : (params, new_targets) *)
Definition degree_step (st : res (obj * list json)) (eqt : string) : res (obj * list json) :=
  let* (p, nt) := st in
  match jget eqt p with
  | None => Ok (p, nt)
  | Some t =>
      if truthy t then
        match t with
        | JObj items => Ok (jdel eqt p, nt ++ degree_entries eqt items)
        | _ => Err "AttributeError:items"%string
        end
      else Ok (jdel eqt p, nt)
  end.
Definition degree_params (p : obj) : res obj :=
  let* (p', nt) := fold_left degree_step eq_types (Ok (p, [])) in
  Ok (match nt with [] => p' | _ => jset K_pdt (JArr nt) p' end).
Definition degree_elem (e : obj) : res obj :=
  let* g := roadm_with_params e in if g then upd_sub K_params degree_params e else Ok e.
Definition convert_degree (doc : obj) : res obj := on_elements degree_elem doc.

Definition as_key (j : json) : res string :=
  match j with
  | JStr s => Ok s
  | JArr _ | JObj _ => Err "TypeError:unhashable type"%string
  | _ => Err "Unmodelled:non-string dict key"%string
  end.
(* elem[params][eq_type][degree_uid] = target[eq_type] for the eq_types present in target *)
Definition back_target_step (du : string) (tg : obj) (st : res obj) (eqt : string) : res obj :=
  let* p := st in
  match jget eqt tg with
  | None => Ok p
  | Some v =>
      let* cur := match jget eqt p with
                  | None => Ok []
                  | Some (JObj d) => Ok d
                  | Some _ => Err "TypeError:item assignment"%string
                  end in
      Ok (jset eqt (JObj (jset du v cur)) p)
  end.
Definition back_target (st : res obj) (t : json) : res obj :=
  let* p := st in
  let* tg := as_obj t in
  let* duj := jreq K_degree tg in
  let* du := as_key duj in
  fold_left (back_target_step du tg) eq_types (Ok p).
Definition back_degree_params (p : obj) : res obj :=
  match jget K_pdt p with
  | None => Ok p
  | Some pt =>
      let p' := jdel K_pdt p in
      if truthy pt then let* l := as_arr pt in fold_left back_target l (Ok p') else Ok p'
  end.
Definition back_degree_elem (e : obj) : res obj :=
  let* g := roadm_with_params e in if g then upd_sub K_params back_degree_params e else Ok e.
Definition convert_back_degree (doc : obj) : res obj := on_elements back_degree_elem doc.

(* ------------------------------------------------------------------ design bands *)
Definition design_band_params (p : obj) : res obj :=
  match jget K_pddb p with
  | None => Ok p
  | Some t =>
      let p' := jdel K_pddb p in
      if truthy t then
        match t with
        | JObj items =>
            Ok (jset K_pddbt (JArr (map (fun dv => JObj [(K_degree, JStr (fst dv)); (K_db, snd dv)]) items)) p')
        | _ => Err "AttributeError:items"%string
        end
      else Ok p'
  end.
Definition design_band_elem (e : obj) : res obj :=
  let* g := band_elem_with_params e in if g then upd_sub K_params design_band_params e else Ok e.
Definition convert_design_band (doc : obj) : res obj := on_elements design_band_elem doc.

Definition back_db_step (st : res obj) (t : json) : res obj :=
  let* d := st in
  let* tg := as_obj t in
  let* duj := jreq K_degree tg in
  let* du := as_key duj in
  let* v := jreq K_db tg in
  Ok (jset du v d).
Definition back_design_band_params (p : obj) : res obj :=
  match jget K_pddbt p with
  | None => Ok p
  | Some t =>
      let p' := jdel K_pddbt p in
      if truthy t then
        let* l := as_arr t in
        let* d := fold_left back_db_step l (Ok []) in
        Ok (match d with [] => p' | _ => jset K_pddb (JObj d) p' end)
      else Ok p'
  end.
Definition back_design_band_elem (e : obj) : res obj :=
  let* g := band_elem_with_params e in if g then upd_sub K_params back_design_band_params e else Ok e.
Definition convert_back_design_band (doc : obj) : res obj := on_elements back_design_band_elem doc.

(* ------------------------------------------------------------------ per-frequency loss *)
Fixpoint zip2 (k1 k2 : string) (l1 l2 : list json) : list json :=
  match l1, l2 with
  | x :: t1, y :: t2 => JObj [(k1, x); (k2, y)] :: zip2 k1 k2 t1 t2
  | _, _ => []
  end.
(* zip(a, b) needs two iterables *)
Definition as_iter (j : option json) : res (list json) :=
  match j with
  | Some (JArr l) => Ok l
  | _ => Err "TypeError:zip argument is not iterable"%string
  end.
Definition loss_params (p : obj) : res obj :=
  match jget K_loss p with
  | Some (JObj lc) =>
      let p' := jdel K_loss p in
      match jget "value" lc with
      | Some v =>
          if truthy v then
            let* vl := as_iter (Some v) in
            let* fl := as_iter (jget "frequency" lc) in
            Ok (jset K_losspf (JArr (zip2 "frequency" "loss_coef_value" fl vl)) p')
          else Ok p'
      | None => Ok p'
      end
  | _ => Ok p
  end.
Definition with_params (g : obj -> res obj) (e : obj) : res obj :=
  match jget K_params e with
  | None => Ok e
  | Some (JObj _) => upd_sub K_params g e
  | Some (JArr _) => Ok e                       (* `key in [None]` is False *)
  | Some _ => Err "TypeError:argument is not iterable"%string
  end.
Definition convert_loss_coeff_list (doc : obj) : res obj := on_elements (with_params loss_params) doc.

Definition pluck (k : string) (l : list json) : res (list json) :=
  mapM (fun it => let* o := as_obj it in jreq k o) l.
Definition back_loss_params (p : obj) : res obj :=
  match jget K_losspf p with
  | None => Ok p
  | Some l =>
      let p' := jdel K_losspf p in
      if truthy l then
        let* items := as_arr l in
        let* fs := pluck "frequency" items in
        let* vs := pluck "loss_coef_value" items in
        Ok (jset K_loss (JObj [("frequency"%string, JArr fs); ("value"%string, JArr vs)]) p')
      else Ok p'
  end.
Definition convert_back_loss_coeff_list (doc : obj) : res obj := on_elements (with_params back_loss_params) doc.

(* ------------------------------------------------------------------ Raman coefficient (topology) *)
Definition opt_list (j : option json) : res json :=      (* d.pop(k, []) *)
  match j with Some v => Ok v | None => Ok (JArr []) end.
Definition raman_params (p : obj) : res obj :=
  match jget K_raman p with
  | None => Ok p
  | Some rcj =>
      let* has := key_in "g0" rcj in
      if has then
        let* rc := as_obj rcj in
        let p' := jdel K_raman p in
        let* g0 := opt_list (jget "g0" rc) in
        let* fo := opt_list (jget "frequency_offset" rc) in
        if truthy fo then
          let* rf := jreq "reference_frequency" rc in
          let* fl := as_iter (Some fo) in
          let* gl := as_iter (Some g0) in
          Ok (jset K_raman (JObj [("reference_frequency"%string, rf);
                                  ("g0_per_frequency"%string, JArr (zip2 "frequency_offset" "g0" fl gl))]) p')
        else Ok p'
      else Ok p
  end.
Definition convert_raman_coef (doc : obj) : res obj := on_elements (with_params raman_params) doc.

Definition back_raman_params (p : obj) : res obj :=
  match jget K_raman p with
  | None => Ok p
  | Some rcj =>
      let* has := key_in "g0_per_frequency" rcj in
      if has then
        let* rc := as_obj rcj in
        let p' := jdel K_raman p in
        let* gpf := jreq "g0_per_frequency" rc in
        let* items := as_arr gpf in
        let* g0s := pluck "g0" items in
        let* fos := pluck "frequency_offset" items in
        match fos with
        | [] => Ok p'
        | _ => let* rf := jreq "reference_frequency" rc in
               Ok (jset K_raman (JObj [("reference_frequency"%string, rf); ("g0"%string, JArr g0s);
                                       ("frequency_offset"%string, JArr fos)]) p')
        end
      else Ok p
  end.
Definition convert_back_raman_coef (doc : obj) : res obj := on_elements (with_params back_raman_params) doc.

(* ------------------------------------------------------------------ equipment: lists of entries *)
(* if key in json_data: for entry in json_data[key]: entry updated by f *)
Definition on_entries (key : string) (f : obj -> res obj) (doc : obj) : res obj :=
  match jget key doc with
  | None => Ok doc
  | Some l =>
      let* items := as_arr l in
      let* items' := mapM (fun e => let* eo := as_obj e in let* eo' := f eo in Ok (JObj eo')) items in
      Ok (jset key (JArr items') doc)
  end.

(* RamanFiber library entries *)
Definition raman_eff_entry (e : obj) : res obj :=
  match jget K_raman_eff e with
  | None => Ok e
  | Some rej =>
      let* has_cr := key_in "cr" rej in
      let* has_g0 := if has_cr then Ok false else key_in "g0" rej in
      if has_cr || has_g0 then
        let vk := (if has_cr then "cr" else "g0")%string in
        let* re := as_obj rej in
        let e' := jdel K_raman_eff e in
        let* vs := opt_list (jget vk re) in
        let* fo := opt_list (jget "frequency_offset" re) in
        if truthy fo then
          let* fl := as_iter (Some fo) in
          let* vl := as_iter (Some vs) in
          Ok (jset K_raman_eff (JArr (zip2 "frequency_offset" vk fl vl)) e')
        else Ok e'
      else Ok e
  end.
Definition convert_raman_efficiency (doc : obj) : res obj := on_entries "RamanFiber" raman_eff_entry doc.

Definition pluck_if (k : string) (l : list json) : res (list json) :=   (* [c[k] for c in l if k in c] *)
  let* ll := mapM (fun it => let* o := as_obj it in
                             Ok (match jget k o with Some v => [v] | None => [] end)) l in
  Ok (concat ll).
Definition back_raman_eff_entry (e : obj) : res obj :=
  match jget K_raman_eff e with
  | Some (JArr items) =>
      let e' := jdel K_raman_eff e in
      let* crs := pluck_if "cr" items in
      let* g0s := pluck_if "g0" items in
      let* fos := pluck "frequency_offset" items in
      match fos with
      | [] => Ok e'
      | _ => let gl := match crs with [] => g0s | _ => crs end in
             (* the code stores the result under 'raman_coefficient', not 'raman_efficiency' *)
             Ok (jset K_raman (JObj [("g0"%string, JArr gl); ("frequency_offset"%string, JArr fos)]) e')
      end
  | _ => Ok e
  end.
Definition convert_back_raman_efficiency (doc : obj) : res obj := on_entries "RamanFiber" back_raman_eff_entry doc.

(* Span / SI power ranges *)
Definition nth_req (l : list json) (i : nat) : res json :=
  match nth_error l i with Some v => Ok v | None => Err "IndexError:list index out of range"%string end.
Definition range_entry (lk dk : string) (e : obj) : res obj :=
  if jhas dk e then Ok e
  else match jget lk e with
       | None => Err (append "KeyError:" lk)
       | Some r =>
           let* l := as_arr r in
           let* a := nth_req l 0 in let* b := nth_req l 1 in let* c := nth_req l 2 in
           Ok (jdel lk (jset dk (JObj [("min_value"%string, a); ("max_value"%string, b); ("step"%string, c)]) e))
       end.
Definition convert_delta_power_range (doc : obj) : res obj :=
  let* d1 := on_entries "Span" (range_entry "delta_power_range_db" "delta_power_range_dict_db") doc in
  on_entries "SI" (range_entry "power_range_db" "power_range_dict_db") d1.

(* for span in json_data.get(key, []): if dk in span: r = span.pop(dk); span[lk] = [r[min], r[max], r[step]] *)
Definition back_range_entry (lk dk : string) (e : json) : res json :=
  let* has := key_in dk e in
  if has then
    let* eo := as_obj e in
    let* r := jreq dk eo in
    let* ro := as_obj r in
    let* a := jreq "min_value" ro in let* b := jreq "max_value" ro in let* c := jreq "step" ro in
    Ok (JObj (jset lk (JArr [a; b; c]) (jdel dk eo)))
  else Ok e.
Definition back_range_all (key lk dk : string) (doc : obj) : res obj :=
  match jget key doc with
  | None => Ok doc
  | Some l =>
      let* items := as_arr l in
      let* items' := mapM (back_range_entry lk dk) items in
      Ok (jset key (JArr items') doc)
  end.
Definition convert_back_delta_power_range (doc : obj) : res obj :=
  let* d1 := back_range_all "Span" "delta_power_range_db" "delta_power_range_dict_db" doc in
  back_range_all "SI" "power_range_db" "power_range_dict_db" d1.

(* nf_coef / nf_fit_coeff : [c0, c1, ...] <-> [{coef_order: i, nf_coef: ci}] *)
Fixpoint enum_coef (i : Z) (l : list json) : list json :=
  match l with
  | [] => []
  | c :: t => JObj [("coef_order"%string, JNum i 0); ("nf_coef"%string, c)] :: enum_coef (i + 1) t
  end.
Definition is_dict (j : json) : bool := match j with JObj _ => true | _ => false end.
Definition nf_forth (key : string) (e : obj) : res obj :=
  match jget key e with
  | None => Ok e
  | Some v =>
      let* l := as_arr v in
      let* h := nth_req l 0 in
      if is_dict h then Ok e else Ok (jset key (JArr (enum_coef 0 l)) (jdel key e))
  end.
(* sorted(..., key=coef_order): stable insertion sort on the numeric value *)
Definition num_lt (a b : json) : res bool :=
  match a, b with
  | JNum m1 d1, JNum m2 d2 => Ok (m1 * pow10 d2 <? m2 * pow10 d1)
  | _, _ => Err "Unmodelled:coef_order is not a number"%string
  end.
(* x comes from the left of l in the input: it goes before every element that is not strictly smaller *)
Fixpoint insert_by (x : json * json) (l : list (json * json)) : res (list (json * json)) :=
  match l with
  | [] => Ok [x]
  | y :: t => let* lt := num_lt (fst y) (fst x) in
              if lt then let* t' := insert_by x t in Ok (y :: t') else Ok (x :: l)
  end.
Fixpoint sort_by (l : list (json * json)) : res (list (json * json)) :=
  match l with
  | [] => Ok []
  | x :: t => let* t' := sort_by t in insert_by x t'
  end.
(* insertion from the right end keeps equal keys in input order *)
Definition nf_back (key : string) (e : obj) : res obj :=
  match jget key e with
  | None => Ok e
  | Some v =>
      let* l := as_arr v in
      let* h := nth_req l 0 in
      if is_dict h then
        let* pairs := mapM (fun it => let* o := as_obj it in let* k := jreq "coef_order" o in Ok (k, it)) l in
        let* sorted := sort_by pairs in
        let* cs := mapM (fun p => let* o := as_obj (snd p) in jreq "nf_coef" o) sorted in
        Ok (jset key (JArr cs) (jdel key e))
      else Ok e
  end.
Definition convert_nf_coef (doc : obj) : res obj := on_entries "Edfa" (nf_forth "nf_coef") doc.
Definition convert_back_nf_coef (doc : obj) : res obj := on_entries "Edfa" (nf_back "nf_coef") doc.
Definition convert_nf_fit_coef (doc : obj) : res obj := nf_forth "nf_fit_coeff" doc.
Definition convert_back_nf_fit_coef (doc : obj) : res obj := nf_back "nf_fit_coeff" doc.

(* add_missing_default_type_variety: the FIRST Roadm entry without type_variety gets 'default' (then break) *)
Fixpoint add_default_first (l : list json) : res (list json) :=
  match l with
  | [] => Ok []
  | e :: t =>
      let* has := key_in "type_variety" e in
      if has then let* t' := add_default_first t in Ok (e :: t')
      else let* eo := as_obj e in Ok (JObj (("type_variety"%string, JStr "default") :: eo) :: t)
  end.
Definition add_missing_default_type_variety (doc : obj) : res obj :=
  match jget K_roadm doc with
  | None => Ok doc
  | Some l => let* items := as_arr l in let* items' := add_default_first items in
              Ok (jset K_roadm (JArr items') doc)
  end.

(* ------------------------------------------------------------------ services *)
Definition reorder_route_request (r : obj) : res obj :=
  match jget "explicit-route-objects" r with
  | None => Ok r
  | Some _ =>
      upd_sub "explicit-route-objects"
        (fun ero => let* l := jreq "route-object-include-exclude" ero in
                    let* l' := reorder_keys "index" l in
                    Ok (jset "route-object-include-exclude" l' ero)) r
  end.
Definition on_requests (f : obj -> res obj) (doc : obj) : res obj :=
  let* rs := jreq "path-request" doc in
  let* l := as_arr rs in
  let* l' := mapM (fun e => let* eo := as_obj e in let* eo' := f eo in Ok (JObj eo')) l in
  Ok (jset "path-request" (JArr l') doc).
Definition reorder_route_objects (doc : obj) : res obj := on_requests reorder_route_request doc.

(* if d.get(k) is None: d.pop(k, None) *)
Definition pop_if_none (k : string) (o : obj) : obj :=
  match jget k o with Some JNull => jdel k o | _ => o end.
Definition is_empty_obj (j : json) : bool := match j with JObj [] => true | _ => false end.
Fixpoint remove_first_empty (l : list json) : list json :=
  match l with
  | [] => []
  | x :: t => if is_empty_obj x then t else x :: remove_first_empty t
  end.
Fixpoint set_nth (l : list json) (i : nat) (v : json) : list json :=
  match l, i with
  | _ :: t, O => v :: t
  | x :: t, S i' => x :: set_nth t i' v
  | [], _ => []
  end.
(* for slot in freq_slot: ... freq_slot.remove(slot)  — the list iterator advances by index while the
   list shrinks *)
Fixpoint slot_loop (fuel : nat) (i : nat) (l : list json) : res (list json) :=
  match fuel with
  | O => Ok l
  | S fuel' =>
      match nth_error l i with
      | None => Ok l
      | Some s =>
          let* so := as_obj s in
          let so' := pop_if_none "M" (pop_if_none "N" so) in
          let l1 := set_nth l i (JObj so') in
          let l2 := match so' with [] => remove_first_empty l1 | _ => l1 end in
          slot_loop fuel' (S i) l2
      end
  end.
Definition union_te (te : obj) : res obj :=
  let* te1 :=
    match jget "effective-freq-slot" te with
    | None => Ok te
    | Some fs =>
        if truthy fs then
          let* l := as_arr fs in
          let* l' := slot_loop (length l) 0 l in
          Ok (match l' with [] => jdel "effective-freq-slot" te | _ => jset "effective-freq-slot" (JArr l') te end)
        else Ok te
    end in
  Ok (pop_if_none "output-power" (pop_if_none "trx_mode" (pop_if_none "max-nb-of-channel" te1))).
Definition union_request (r : obj) : res obj :=
  upd_sub "path-constraints" (upd_sub "te-bandwidth" union_te) r.
Definition remove_union_that_fail (doc : obj) : res obj := on_requests union_request doc.

(* ------------------------------------------------------------------ dispatch *)
Definition chain (fs : list (obj -> res obj)) (d : obj) : res obj :=
  fold_left (fun st f => let* x := st in f x) fs (Ok d).

Definition topo_forth : list (obj -> res obj) :=
  [reorder_raman_pumps; reorder_lumped_losses; remove_null_region_city; convert_degree; convert_design_band;
   convert_loss_coeff_list; convert_raman_coef].
Definition topo_forth_yang : list (obj -> res obj) :=
  [convert_degree; convert_design_band; convert_loss_coeff_list; remove_null_region_city].
Definition eqpt_forth : list (obj -> res obj) :=
  [convert_raman_efficiency; convert_delta_power_range; convert_nf_coef; add_missing_default_type_variety].
Definition serv_forth : list (obj -> res obj) := [reorder_route_objects; remove_union_that_fail].
Definition topo_back : list (obj -> res obj) :=
  [convert_back_degree; convert_back_design_band; convert_back_loss_coeff_list; convert_back_raman_coef].
Definition eqpt_back : list (obj -> res obj) :=
  [convert_back_delta_power_range; convert_back_raman_efficiency; convert_back_nf_coef].

(* json_data[ns] = f(json_data[ns]) *)
Definition under (ns : string) (fs : list (obj -> res obj)) (top : obj) : res obj :=
  let* inner := jreq ns top in
  let* io := as_obj inner in
  let* io' := chain fs io in
  Ok (jset ns (JObj io') top).

Definition legacy_to_yang (doc : json) : res json :=
  let* top := as_obj (none_to_empty doc) in
  let* r :=
    if jhas K_elements top then let* d := chain topo_forth top in Ok [(TOPO_NMSP, JObj d)]
    else if jhas TOPO_NMSP top then under TOPO_NMSP topo_forth_yang top
    else if any_key EQPT_TYPES top then let* d := chain eqpt_forth top in Ok [(EQPT_NMSP, JObj d)]
    else if jhas EQPT_NMSP top then under EQPT_NMSP eqpt_forth top
    else if jhas "path-request" top then let* d := chain serv_forth top in Ok [(SERV_NMSP, JObj d)]
    else if jhas SERV_NMSP top then under SERV_NMSP serv_forth top
    else if any_key EDFA_CONFIG_KEYS top then let* d := convert_nf_fit_coef top in Ok [(EDFA_CONFIG_NMSP, JObj d)]
    else if jhas EDFA_CONFIG_NMSP top then under EDFA_CONFIG_NMSP [convert_nf_fit_coef] top
    else if jhas "spectrum" top then let* s := jreq "spectrum" top in Ok [(SPECTRUM_NMSP, s)]
    else if any_key SIM_PARAMS_KEYS top then Ok [(SIM_PARAMS_NMSP, JObj top)]
    else if jhas "response" top then Ok [(RESP_NMSP, JObj top)]
    else if jhas API_NMSP top then let* a := jreq API_NMSP top in Ok [(API_NMSP, a)]
    else if any_key [SPECTRUM_NMSP; SIM_PARAMS_NMSP; RESP_NMSP] top then Ok top
    else Err "ValueError:Unrecognized type of content"%string in
  convert_dict (JObj r).

(* yang_to_legacy after its libyang validation step (validation is not modelled: it accepts or raises, it
   does not transform) *)
Definition yang_to_legacy (doc : json) : res json :=
  let* b := convert_back (empty_to_none doc) in
  let* top := as_obj b in
  (* identities may be namespace-qualified ("gnpy-network-topology:Roadm"): the namespace is removed first, because the
     back converters select the elements on their type *)
  if jhas K_elements top then
    let* t := as_obj (remove_ns "gnpy-network-topology:" (JObj top)) in
    let* d := chain topo_back t in Ok (JObj d)
  else if jhas TOPO_NMSP top then
    let* inner := jreq TOPO_NMSP top in
    let* io := as_obj (remove_ns "gnpy-network-topology:" inner) in
    let* d := chain topo_back io in Ok (JObj d)
  else if any_key EQPT_TYPES top then
    let* d := chain eqpt_back top in Ok (remove_ns "gnpy-eqpt-config:" (JObj d))
  else if jhas EQPT_NMSP top then
    let* t' := under EQPT_NMSP eqpt_back top in
    let* inner := jreq EQPT_NMSP t' in Ok (remove_ns "gnpy-eqpt-config:" inner)
  else if any_key EDFA_CONFIG_KEYS top then let* d := convert_back_nf_fit_coef top in Ok (JObj d)
  else if jhas EDFA_CONFIG_NMSP top then let* t' := under EDFA_CONFIG_NMSP [convert_back_nf_fit_coef] top in Ok (JObj t')
  else if jhas SERV_NMSP top then jreq SERV_NMSP top
  else if jhas SIM_PARAMS_NMSP top then jreq SIM_PARAMS_NMSP top
  else if jhas SPECTRUM_NMSP top then let* s := jreq SPECTRUM_NMSP top in Ok (JObj [("spectrum"%string, s)])
  else if jhas RESP_NMSP top then jreq RESP_NMSP top
  else if jhas API_NMSP top then Err "Unmodelled:api section"%string
  else if any_key (SIM_PARAMS_KEYS ++ ["spectrum"; "response"; "path-request"]%string) top then Ok (JObj top)
  else Err "ValueError:Unrecognized type of content"%string.

(* ------------------------------------------------------------------ other_name expansion (json_io.py:576-611) *)
Definition subkey (e : obj) : res string :=        (* entry.get('type_variety', 'default') used as dict key *)
  match jget "type_variety" e with
  | None => Ok "default"%string
  | Some j => as_key j
  end.
Definition alias_names (e : obj) : res (list string) :=   (* entry['other_name'] + [subkey] *)
  let* sk := subkey e in
  let* on := jreq "other_name" e in
  let* l := as_arr on in
  let* names := mapM as_key l in
  Ok (names ++ [sk]).
(* equipment[key][name] = constructor(kwargs) : the pairs (name, kwargs) in assignment order *)
Definition expand_edfa (e : obj) : res (list (string * obj)) :=
  if jhas "other_name" e then
    let* names := alias_names e in
    Ok (map (fun n => (n, jdel "other_name" (jset "type_variety" (JStr n) e))) names)
  else let* sk := subkey e in Ok [(sk, e)].
(* Transceiver branch: copy, pop other_name, then set the name on the copy *)
Definition expand_trx (e : obj) : res (list (string * obj)) :=
  if jhas "other_name" e then
    let* names := alias_names e in
    Ok (map (fun n => (n, jset "type_variety" (JStr n) (jdel "other_name" e))) names)
  else let* sk := subkey e in Ok [(sk, e)].
(* the dict equipment[key] after the assignments: the last assignment to a name wins *)
Fixpoint lookup_last (n : string) (l : list (string * obj)) : option obj :=
  match l with
  | [] => None
  | (k, v) :: t => match lookup_last n t with
                   | Some r => Some r
                   | None => if String.eqb n k then Some v else None
                   end
  end.

(* ------------------------------------------------------------------ mode-level other_name (json_io.Transceiver.__init__) *)
(* on the modes as they are after the penalties have been rearranged: every mode keeps its place without its
   other_name list; one copy per alias (format = alias) is appended after all the declared modes *)
Definition mode_alias_names (m : obj) : res (list string) :=
  match jget "other_name" m with
  | None => Ok []
  | Some on => let* l := as_arr on in mapM as_key l
  end.
Definition mode_aliases (m : obj) : res (list obj) :=
  let* names := mode_alias_names m in
  Ok (map (fun n => jset "format" (JStr n) (jdel "other_name" m)) names).
Definition expand_modes (ms : list obj) : res (list obj) :=
  let* al := mapM mode_aliases ms in
  Ok (map (jdel "other_name") ms ++ concat al).
