(* C08 — auto-design of a line (gnpy/core/network.py: add_missing_elements_in_network, split_fiber,
   calculate_new_length, add_roadm_preamp/booster, add_inline_amplifier, add_connector_loss, add_fiber_padding).

   Abstraction: between two ROADM / transceiver endpoints a line is a chain `list elem`.  Lengths are metres,
   loss coefficients dB/m (what FiberParams stores), every float is its exact rational value.
   Executable definitions only; the lemmas are in Proofs/Chain.v. *)
From Verif Require Import Prelude.
From Coq Require Import QArith Qround.
Open Scope Z_scope.

(* ---------- numbers ---------- *)
Definition Qltb (x y : Q) : bool := negb (Qle_bool y x).
Definition qz (z : Z) : Q := inject_Z z.
Definition qs (q : Q) : string :=
  let r := Qred q in append (zs (Qnum r)) (append "/" (zs (Zpos (Qden r)))).
Definition oqs (o : option Q) : string := match o with Some q => qs q | None => "N"%string end.
Definition oget (o : option Q) : Q := match o with Some q => q | None => 0%Q end.
Fixpoint qsum (l : list Q) : Q := match l with [] => 0%Q | x :: t => (x + qsum t)%Q end.

(* ---------- elements ---------- *)
Record fib := mkFib {
  f_name : string;
  f_raman : bool;                 (* RamanFiber *)
  f_len : Q;                      (* params.length, m *)
  f_lc : Q;                       (* params.loss_coef, dB/m *)
  f_cin : option Q;               (* params.con_in  (None until add_connector_loss) *)
  f_cout : option Q;              (* params.con_out *)
  f_att : Q;                      (* params.att_in *)
  f_lumped : list (Q * Q)         (* params.lumped_losses: (position km, loss dB) *)
}.
Record amp := mkAmp {
  a_name : string;
  a_multi : bool;                 (* Multiband_amplifier (true) / Edfa (false) *)
  a_auto : bool;                  (* inserted by auto-design (not present in the input) *)
  a_var : string;                 (* params.type_variety ("" = to be selected) *)
  a_gain : option Q;              (* effective_gain *)
  a_dp : option Q;                (* delta_p *)
  a_voa : option Q                (* out_voa *)
}.
Inductive elem := Fib (f : fib) | Fus (n : string) (loss : Q) | Amp (a : amp).
Inductive ekind := Roadm | Trx.
Record line := mkLine {
  l_sk : ekind; l_src : string; l_bands : Z;   (* source endpoint; number of node-level design bands *)
  l_dk : ekind; l_dst : string;
  l_dst_first : bool;     (* add_roadm_preamp of the destination runs before add_roadm_booster of the source
                             (the ROADMs are visited in node order; same ROADM: preamp first) *)
  l_els : list elem
}.
Record cfg := mkCfg {
  c_max : Z;        (* int(convert_length(max_length, units))  [m] *)
  c_padlen : Z;     (* int(padding / 0.2 * 1e3)                [m] *)
  c_pad : Q;        (* Span.padding *)
  c_cin : Q; c_cout : Q;   (* Span.con_in / con_out defaults *)
  c_eol : Q;        (* Span.EOL *)
  c_rg : string -> Q  (* per RamanFiber uid: the gain estimate_raman_gain returns to add_fiber_padding, i.e. asked without
                         a span input power (reference power, rounded to 2 decimals, never cached: gnpy fixes 36fd5b85,
                         d3e2700d) while the fibre still has its att_in from before padding; an input, the Raman solver
                         is not modelled *)
}.
Definition c_min (c : cfg) : Z := Z.max (c_padlen c) 50000.
Definition c_target (c : cfg) : Z := Z.max (c_min c) (Z.min (c_max c) 90000).

Definition dflt : elem := Fus "" 0%Q.

Definition el_name (e : elem) : string :=
  match e with Fib f => f_name f | Fus n _ => n | Amp a => a_name a end.
Definition is_fib (e : elem) : bool := match e with Fib _ => true | _ => false end.
Definition is_fus (e : elem) : bool := match e with Fus _ _ => true | _ => false end.
Definition is_amp (e : elem) : bool := match e with Amp _ => true | _ => false end.
Definition is_auto (e : elem) : bool := match e with Amp a => a_auto a | _ => false end.

(* Fiber.loss at the reference frequency: loss_coef*length + con_in + con_out + att_in + lumped losses.
   con_in/con_out are None only before add_connector_loss (Python would raise TypeError there; design_line
   always runs add_connector_loss first, see Proofs/Chain.v conn_all_some). *)
Definition fib_loss (f : fib) : Q :=
  (f_lc f * f_len f + oget (f_cin f) + oget (f_cout f) + f_att f + qsum (map snd (f_lumped f)))%Q.
Definition el_loss (e : elem) : Q :=
  match e with Fib f => fib_loss f | Fus _ l => l | Amp _ => 0%Q end.

(* ---------- calculate_new_length ---------- *)
Definition in_bounds (x : Q) (mn mx : Z) : bool := Qle_bool (qz mn) x && Qle_bool x (qz mx).
Definition calc_len (L : Q) (mn mx tg : Z) : res (Q * Z) :=
  if Qltb L (qz mx) then Ok (L, 1)
  else
    let n2 := Qfloor (L / qz tg) in
    let n1 := n2 + 1 in
    if (n2 =? 0) || (n1 =? 0) then Err "ZeroDivisionError:calculate_new_length"
    else
      let len1 := (L / qz n1)%Q in
      let len2 := (L / qz n2)%Q in
      let b1 := in_bounds len1 mn mx in
      let b2 := in_bounds len2 mn mx in
      if b1 && negb b2 then Ok (len1, n1)
      else if b2 && negb b1 then Ok (len2, n2)
      else if Qle_bool (len2 - qz tg) (qz tg - len1) && Qle_bool len2 (qz mx) then Ok (len2, n2)
      else Ok (len1, n1).

(* ---------- split_fiber ---------- *)
Definition split_name (u : string) (k n : Z) : string :=
  append u (append "_(" (append (zs k) (append "/" (append (zs n) ")")))).
(* Fiber.__init__ of every new span: all lumped positions strictly inside (0, length km) *)
Definition lumped_inside (f : fib) (len : Q) : bool :=
  forallb (fun pl => Qltb 0 (fst pl) && Qltb (fst pl) (len / qz 1000)) (f_lumped f).
Definition sub_span (f : fib) (len : Q) (n k : Z) : elem :=
  Fib (mkFib (split_name (f_name f) k n) false len (f_lc f) (f_cin f) (f_cout f) (f_att f) (f_lumped f)).
Definition split_fib (c : cfg) (f : fib) : res (list elem) :=
  let* ln := calc_len (f_len f) (c_min c) (c_max c) (c_target c) in
  let '(len, n) := ln in
  if n =? 1 then Ok [Fib f]
  else if lumped_inside f len then Ok (map (sub_span f len n) (zrange 1 (n + 1)))
  else Err "NetworkTopologyError:lumped loss outside the new span".
Fixpoint split_chain (c : cfg) (l : list elem) : res (list elem) :=
  match l with
  | [] => Ok []
  | Fib f :: t => let* a := split_fib c f in let* b := split_chain c t in Ok (a ++ b)
  | e :: t => let* b := split_chain c t in Ok (e :: b)
  end.

(* ---------- amplifier insertion ---------- *)
Definition has_kind (m : bool) (l : list elem) : bool :=
  existsb (fun e => match e with Amp a => Bool.eqb (a_multi a) m | _ => false end) l.
(* check_oms_single_type *)
Definition kind_check (l : list elem) : res unit :=
  if has_kind true l && has_kind false l then Err "NetworkTopologyError:multiband and single band mixed" else Ok tt.
Definition new_amp (name : string) (multi : bool) : elem := Amp (mkAmp name multi true "" None None None).
Definition booster_name (r x : string) : string := append "Edfa_booster_" (append r (append "_to_" x)).
Definition preamp_name (r x : string) : string := append "Edfa_preamp_" (append r (append "_from_" x)).
Definition inline_name (x : string) : string := append "Edfa_" x.

Definition add_booster (l : line) : res line :=
  match l_sk l with
  | Trx => Ok l
  | Roadm =>
      let els := l_els l in
      let ins (x : string) :=
        let* _ := kind_check els in
        let multi := has_kind true els || (negb (has_kind false els) && (1 <? l_bands l)) in
        Ok (mkLine (l_sk l) (l_src l) (l_bands l) (l_dk l) (l_dst l) (l_dst_first l)
                   (new_amp (booster_name (l_src l) x) multi :: els)) in
      match els with
      | Fib f :: _ => ins (f_name f)
      | [] => match l_dk l with Roadm => ins (l_dst l) | Trx => Ok l end
      | _ => Ok l
      end
  end.
Definition add_preamp (l : line) : res line :=
  match l_dk l with
  | Trx => Ok l
  | Roadm =>
      let els := l_els l in
      let ins (x : string) :=
        let* _ := kind_check els in
        Ok (mkLine (l_sk l) (l_src l) (l_bands l) (l_dk l) (l_dst l) (l_dst_first l)
                   (els ++ [new_amp (preamp_name (l_dst l) x) (has_kind true els)])) in
      match els with
      | [] => match l_sk l with Roadm => ins (l_src l) | Trx => Ok l end
      | _ => match last els dflt with Fib f => ins (f_name f) | _ => Ok l end
      end
  end.
(* add_inline_amplifier, fibres taken in chain order: the OMS walked for the type check is the rest of the line *)
Fixpoint add_inline (l : list elem) : res (list elem) :=
  match l with
  | [] => Ok []
  | e :: t =>
      let* t' := add_inline t in
      match e, t with
      | Fib f, Fib _ :: _ =>
          let* _ := kind_check t in
          Ok (e :: new_amp (inline_name (f_name f)) (has_kind true t) :: t')
      | _, _ => Ok (e :: t')
      end
  end.
Definition with_els (l : line) (els : list elem) : line :=
  mkLine (l_sk l) (l_src l) (l_bands l) (l_dk l) (l_dst l) (l_dst_first l) els.
Definition add_missing (c : cfg) (l : line) : res line :=
  let* s := split_chain c (l_els l) in
  let l0 := with_els l s in
  let* l2 := (if l_dst_first l then let* l1 := add_preamp l0 in add_booster l1
              else let* l1 := add_booster l0 in add_preamp l1) in
  let* i := add_inline (l_els l2) in
  Ok (with_els l2 i).

(* ---------- add_connector_loss ---------- *)
Definition next_is_fus (t : list elem) : bool := match t with Fus _ _ :: _ => true | _ => false end.
Definition conn_fib (c : cfg) (f : fib) (nf : bool) : fib :=
  let ci := match f_cin f with Some x => x | None => c_cin c end in
  let co := match f_cout f with Some x => x | None => c_cout c end in
  mkFib (f_name f) (f_raman f) (f_len f) (f_lc f) (Some ci) (Some (if nf then co else (co + c_eol c)%Q))
        (f_att f) (f_lumped f).
Fixpoint conn (c : cfg) (l : list elem) : list elem :=
  match l with
  | [] => []
  | Fib f :: t => Fib (conn_fib c f (next_is_fus t)) :: conn c t
  | e :: t => e :: conn c t
  end.

(* ---------- add_fiber_padding ---------- *)
(* prev_node_generator / next_node_generator join two neighbours into one span iff at least one of them is a
   Fused and both are Fiber/Fused: amplifiers and fibre-fibre junctions separate spans *)
Definition brk (x y : elem) : bool :=
  match x, y with
  | Amp _, _ => true
  | _, Amp _ => true
  | Fib _, Fib _ => true
  | _, _ => false
  end.
Fixpoint groups {A} (b : A -> A -> bool) (l : list A) : list (list A) :=
  match l with
  | [] => []
  | x :: t =>
      match groups b t with
      | (y :: r) :: rs => if b x y then [x] :: (y :: r) :: rs else (x :: y :: r) :: rs
      | _ => [[x]]
      end
  end.
Definition runs (l : list elem) : list (list elem) := groups brk l.
Definition run_loss (r : list elem) : Q := qsum (map el_loss r).
Definition has_raman (r : list elem) : bool :=
  existsb (fun e => match e with Fib f => f_raman f | _ => false end) r.
Definition bump (e : elem) (d : Q) : elem :=
  match e with
  | Fib f => Fib (mkFib (f_name f) (f_raman f) (f_len f) (f_lc f) (f_cin f) (f_cout f) (f_att f + d)%Q (f_lumped f))
  | _ => e
  end.
(* Raman gain of the fibres of a span as an estimate without span input power returns it *)
Definition raman_first (rg : string -> Q) (r : list elem) : Q :=
  qsum (map (fun e => match e with Fib f => if f_raman f then rg (f_name f) else 0%Q | _ => 0%Q end) r).
(* span_loss of a span during add_fiber_padding: losses minus the estimated Raman gains (estimated at the reference
   power since gnpy fix 36fd5b85; before, a Raman fibre in such a span raised TypeError: finding F15) *)
Definition span_sl (c : cfg) (r : list elem) : Q := (run_loss r - raman_first (c_rg c) r)%Q.
(* the fibre whose successor is not a Fused is the last element of its run; a Raman last fibre is skipped *)
Definition pad_run (c : cfg) (r : list elem) : res (list elem) :=
  match last r dflt with
  | Fib f =>
      if f_raman f then Ok r
      else
        let sl := span_sl c r in
        if Qltb sl (c_pad c) then
          match r with
          | Fib g :: t => Ok (bump (Fib g) (c_pad c - sl) :: t)
          | _ => Ok r          (* first node of the span is a Fused: no padding *)
          end
        else Ok r
  | _ => Ok r                  (* the span ends with a Fused (or is an amplifier): never visited *)
  end.
Fixpoint mapM {A B} (f : A -> res B) (l : list A) : res (list B) :=
  match l with
  | [] => Ok []
  | x :: t => let* y := f x in let* ys := mapM f t in Ok (y :: ys)
  end.
Definition pad_chain (c : cfg) (l : list elem) : res (list elem) :=
  let* rs := mapM (pad_run c) (runs l) in Ok (concat rs).

(* ---------- the whole fibre-level design of one line ---------- *)
Definition design_line (c : cfg) (l : line) : res line :=
  let* l1 := add_missing c l in
  let* p := pad_chain c (conn c (l_els l1)) in
  Ok (with_els l1 p).

(* the entry point of the tools, worker_utils.designed_network(..., no_insert_edfas): add_missing_elements_in_network
   (splitting and amplifier insertion) is skipped when the option is set; connector losses and padding always run *)
Definition design_line_opt (no_insert : bool) (c : cfg) (l : line) : res line :=
  if no_insert then
    let* p := pad_chain c (conn c (l_els l)) in
    Ok (with_els l p)
  else design_line c l.

(* ---------- observations: validators (reflection theorems in Proofs/Chain.v) ---------- *)
Inductive node := NEnd (k : ekind) | NEl (e : elem).
Definition path (sk dk : ekind) (els : list elem) : list node := NEnd sk :: map NEl els ++ [NEnd dk].
Definition n_fib (n : node) : bool := match n with NEl (Fib _) => true | _ => false end.
Definition n_roadm (n : node) : bool := match n with NEnd Roadm => true | _ => false end.
Definition n_auto (n : node) : bool := match n with NEl e => is_auto e | _ => false end.
(* junction rule of a designed line, for two neighbours x -> y *)
Definition pair_ok (x y : node) : bool :=
  negb (n_fib x && n_fib y)                       (* no fibre-fibre junction *)
  && negb (n_roadm x && n_fib y)                  (* no ROADM-fibre junction without booster *)
  && negb (n_fib x && n_roadm y)                  (* no fibre-ROADM junction without preamp *)
  && (negb (n_auto x) || n_fib y || n_roadm y)    (* an inserted amplifier only touches fibres / ROADMs *)
  && (negb (n_auto y) || n_fib x || n_roadm x).
Fixpoint adj_ok {A} (p : A -> A -> bool) (l : list A) : bool :=
  match l with
  | x :: ((y :: _) as t) => p x y && adj_ok p t
  | _ => true
  end.
Definition junctions_ok (sk dk : ekind) (els : list elem) : bool := adj_ok pair_ok (path sk dk els).

Definition fib_ok (e : elem) : bool :=
  match e with Fib f => match f_cin f, f_cout f with Some _, Some _ => true | _, _ => false end | _ => true end.
Definition is_some {A} (o : option A) : bool := match o with Some _ => true | None => false end.
Definition amp_ok (lib : list string) (power_mode : bool) (e : elem) : bool :=
  match e with
  | Amp a => existsb (String.eqb (a_var a)) lib && is_some (a_gain a) && is_some (a_voa a)
             && (negb power_mode || is_some (a_dp a))
  | _ => true
  end.
Definition designed_ok (lib : list string) (power_mode : bool) (els : list elem) : bool :=
  forallb (fun e => fib_ok e && amp_ok lib power_mode e) els.

(* padding clause on one span: a span that starts with a fibre, ends with a non-Raman fibre and contains no
   Raman fibre has at least the padding loss *)
Definition run_padded (pad : Q) (r : list elem) : bool :=
  match r, last r dflt with
  | Fib _ :: _, Fib f => f_raman f || has_raman r || Qle_bool pad (run_loss r)
  | _, _ => true
  end.
Definition padding_ok (pad : Q) (els : list elem) : bool := forallb (run_padded pad) (runs els).
(* the amplifier-to-amplifier reading of the property text: every fibre/fused run without Raman fibre *)
Definition run_padded_strict (pad : Q) (r : list elem) : bool :=
  existsb is_amp r || has_raman r || negb (existsb is_fib r) || Qle_bool pad (run_loss r).

Fixpoint nodupb (l : list string) : bool :=
  match l with [] => true | x :: t => negb (existsb (String.eqb x) t) && nodupb t end.
Definition names (els : list elem) : list string := map el_name els.
