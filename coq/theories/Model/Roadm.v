(* C06 — executable model of a ROADM crossing, in the dB domain, over Q.  Definitions only (no lemmas).

   Modelled code (as it is in /repo now):
     gnpy/core/elements.py   Roadm.get_roadm_target_power / get_per_degree_ref_power / get_per_degree_power (505-571),
                             Roadm.propagate (573-650), set_roadm_paths (652-700), get_roadm_path, get_impairment (744-772)
     gnpy/core/parameters.py RoadmParams single-policy check and get_roadm_path_impairments (110-153)
     gnpy/tools/json_io.py   Roadm (equipment entry, 138-154), merge_equalization (1046-1065) + merge_amplifier_restrictions
     gnpy/core/network.py    set_roadm_per_degree_targets (1296-1315)

   Conventions.  Powers are dBm, losses/offsets dB, all exact rationals.  A PSD target  psd [mW/GHz]  enters as
   d = 10·log10(psd)  and a channel carries  cbaud = 10·log10(baud/1 GHz),  cslot = 10·log10(slot width/1 GHz),
   so that  "PSD × baud rate"  is  d + cbaud  in dB  (= 10·log10(psd·baud·1e-9), what psd2powerdbm computes);
   the logarithms are computed by the harness independently of gnpy.  Degrees are integer ids (the harness maps
   uids injectively).  Every place where Python raises is an  Err "Type:detail". *)
From Coq Require Import QArith Qabs Qminmax.
From Verif Require Import Prelude.
Open Scope Q_scope.

(* ---------- spectrum ---------- *)
(* one carrier: frequency, baud rate and slot width (dB of GHz), per-channel offset delta_pdb_per_channel,
   total power pch (dBm), the three shares signal/ase/nli of DESIGN C01, and the accumulated PMD and PDL, carried
   squared (pmd^2 [s^2], pdl^2 [dB^2]) so that the quadrature sum  sqrt(x^2 + y^2)  stays in Q *)
Record chan := mkC { cf : Q; cbaud : Q; cslot : Q; coff : Q; cp : Q; cs : Q; ca : Q; cn : Q; cpmd2 : Q; cpdl2 : Q }.
Definition set_p (c : chan) (p : Q) : chan :=
  mkC (cf c) (cbaud c) (cslot c) (coff c) p (cs c) (ca c) (cn c) (cpmd2 c) (cpdl2 c).
(* spectral_info.pmd = sqrt(pmd^2 + a^2) ; spectral_info.pdl = sqrt(pdl^2 + b^2) *)
Definition add_pol (c : chan) (a b : Q) : chan :=
  mkC (cf c) (cbaud c) (cslot c) (coff c) (cp c) (cs c) (ca c) (cn c) (cpmd2 c + a * a) (cpdl2 c + b * b).
Definition add_pol3 (x : chan * (Q * Q)) : chan := add_pol (fst x) (fst (snd x)) (snd (snd x)).

(* ---------- equalisation policies and their resolution ---------- *)
Inductive policy := Power (t : Q) | Psd (d : Q) | Psw (d : Q).

(* psd2powerdbm in dB: constant power / PSD x baud rate / PSW x slot width *)
Definition target_dbm (pl : policy) (baud_db slot_db : Q) : Q :=
  match pl with Power t => t | Psd d => d + baud_db | Psw d => d + slot_db end.
Definition chan_target (pl : policy) (c : chan) : Q := target_dbm pl (cbaud c) (cslot c).

Fixpoint zfind {A} (k : Z) (l : list (Z * A)) : option A :=
  match l with
  | [] => None
  | (k', v) :: t => if (k' =? k)%Z then Some v else zfind k t
  end.
Definition zhas {A} (k : Z) (l : list (Z * A)) : bool := match zfind k l with Some _ => true | None => false end.

Inductive ptype := Express | Add | Drop.
Definition ptype_eqb (a b : ptype) : bool :=
  match a, b with Express, Express | Add, Add | Drop, Drop => true | _, _ => false end.

(* a value of a JSON/kwargs key: missing, explicit null, or a number *)
Inductive kv := Absent | Null | Val (q : Q).

(* one entry of an impairment profile: frequency-range (None = lower-frequency is None: matches everything)
   and the state of its 'roadm-maxloss', 'roadm-pmd' and 'roadm-pdl' keys *)
Record band := mkBand { brange : option (Q * Q); bml : kv; bpmd : kv; bpdl : kv }.
Record profile := mkProf { pid : Z; ptyp : ptype; pbands : list band }.
(* an internal path as recorded by set_roadm_paths *)
Record rpath := mkPath { pfrom : Z; pto : Z; pbs : list band }.

Record roadm := mkRoadm {
  npow : option Q; npsd : option Q; npsw : option Q;              (* node level: target_pch_out_dbm, PSD (dB), PSW (dB) *)
  dpow : list (Z * Q); dpsd : list (Z * Q); dpsw : list (Z * Q);  (* per_degree_pch_out_dbm / _psd / _psw *)
  refc : option (Q * Q);                                          (* ref_carrier: baud rate, slot width (dB of GHz) *)
  refin : list (Z * Q);                                           (* ref_pch_in_dbm *)
  rpaths : list rpath }.

(* get_roadm_target_power: first node-level attribute that `is not None` *)
Definition node_policy (r : roadm) : option policy :=
  match npow r with
  | Some t => Some (Power t)
  | None => match npsd r with
            | Some d => Some (Psd d)
            | None => match npsw r with Some d => Some (Psw d) | None => None end
            end
  end.

(* get_per_degree_power / get_per_degree_ref_power: the egress degree's entry of whichever kind, else node level *)
Definition resolve (r : roadm) (deg : Z) : option policy :=
  match zfind deg (dpow r) with
  | Some t => Some (Power t)
  | None => match zfind deg (dpsd r) with
            | Some d => Some (Psd d)
            | None => match zfind deg (dpsw r) with
                      | Some d => Some (Psw d)
                      | None => node_policy r
                      end
            end
  end.

(* target of the reference carrier; needs self.ref_carrier for PSD / PSW *)
Definition ref_target (r : roadm) (deg : Z) : res (option Q) :=
  match resolve r deg with
  | None => Ok None
  | Some (Power t) => Ok (Some t)
  | Some pl => match refc r with
               | Some (b, w) => Ok (Some (target_dbm pl b w))
               | None => Err "AttributeError:ref_carrier is None"
               end
  end.

(* ---------- impairments: set_roadm_paths, get_roadm_path, get_impairment('roadm-maxloss') ---------- *)
(* RoadmParams.get_roadm_path_impairments: a dict keyed by id (a repeated id overwrites in place) *)
Fixpoint prof_set (l : list profile) (p : profile) : list profile :=
  match l with
  | [] => [p]
  | x :: t => if (pid x =? pid p)%Z then p :: t else x :: prof_set t p
  end.
Definition prof_dict (l : list profile) : list profile := fold_left prof_set l [].

(* roadm_global_impairment: frequency-range None/None, no 'roadm-maxloss' key, 'roadm-pmd' / 'roadm-pdl' = params.pmd / params.pdl *)
Definition global_band (pmd pdl : Q) : band := mkBand None Absent (Val pmd) (Val pdl).

Definition select_bands (gb : band) (profs : list profile) (pt : ptype) (iid : option Z) : res (list band) :=
  match iid with
  | None => match find (fun p => ptype_eqb (ptyp p) pt) profs with
            | Some p => Ok (pbands p)
            | None => Ok [gb]
            end
  | Some i => match find (fun p => (pid p =? i)%Z) profs with
              | Some p => Ok (pbands p)
              | None => Err "NetworkTopologyError:impairment profile id is not defined"
              end
  end.

(* one set_roadm_paths(from, to, path_type, impairment_id) call *)
Record pcall := mkCall { c_from : Z; c_to : Z; c_pt : ptype; c_id : option Z }.
Fixpoint set_paths (gb : band) (profs : list profile) (calls : list pcall) (acc : list rpath) : res (list rpath) :=
  match calls with
  | [] => Ok acc
  | c :: t => let* bs := select_bands gb profs (c_pt c) (c_id c) in
              set_paths gb profs t (acc ++ [mkPath (c_from c) (c_to c) bs])
  end.

Fixpoint get_path (ps : list rpath) (from to : Z) : res (list band) :=
  match ps with
  | [] => Err "NetworkTopologyError:could not find from_degree-to_degree path"
  | p :: t => if ((pfrom p =? from) && (pto p =? to))%Z then Ok (pbs p) else get_path t from to
  end.

Definition in_band (b : band) (f : Q) : bool :=
  match brange b with None => true | Some (lo, hi) => Qle_bool lo f && Qle_bool f hi end.
(* item.get('roadm-maxloss', default 0); an explicit null is skipped and the search goes on *)
Definition band_val (b : band) : option Q :=
  match bml b with Absent => Some 0 | Null => None | Val q => Some q end.
Fixpoint lookup1 (bs : list band) (f : Q) : option Q :=
  match bs with
  | [] => None
  | b :: t => if in_band b f then match band_val b with Some q => Some q | None => lookup1 t f end
              else lookup1 t f
  end.
(* get_impairment: one value per frequency that finds a band; frequencies without a band contribute nothing *)
Definition lookup_all (bs : list band) (fs : list Q) : list Q :=
  flat_map (fun f => match lookup1 bs f with Some q => [q] | None => [] end) fs.

(* get_impairment for a key whose default is None ('roadm-pmd', 'roadm-pdl'): an entry where the key is missing or
   null is skipped and the search goes on *)
Definition kv_val (k : kv) : option Q := match k with Val q => Some q | _ => None end.
Fixpoint lookup1k (sel : band -> kv) (bs : list band) (f : Q) : option Q :=
  match bs with
  | [] => None
  | b :: t => if in_band b f then match kv_val (sel b) with Some q => Some q | None => lookup1k sel t f end
              else lookup1k sel t f
  end.
Definition lookup_allk (sel : band -> kv) (bs : list band) (fs : list Q) : list Q :=
  flat_map (fun f => match lookup1k sel bs f with Some q => [q] | None => [] end) fs.

(* numpy semantics of an elementwise operation between the n carriers and the looked-up values
   ( pch *= 1/db2lin(maxloss) ,  pmd**2 + pmd_impairment**2 ): None -> TypeError, length 1 broadcasts, other lengths
   must agree *)
Definition broadcast (raw : list Q) (n : nat) : res (list Q) :=
  match raw with
  | [] => Err "TypeError:no impairment value for any channel"
  | [q] => Ok (repeat q n)
  | _ => if Nat.eqb (length raw) n then Ok raw else Err "ValueError:operands could not be broadcast"
  end.

Definition qmaxl (h : Q) (t : list Q) : Q := fold_left Qmax t h.

(* ---------- Roadm.propagate ---------- *)
(* per channel, exactly the sequence of elements.py:589-635:
     net   = pin - maxloss                      (apply_attenuation_db(roadm_maxloss_db))
     tpc   = target + delta_pdb_per_channel
     corr  = (|net - tpc| - (net - tpc)) / 2    (calculate_absolute_min_or_zero)
     newt  = tpc - corr
     dp    = net - newt                         (apply_attenuation_db(delta_power))
     out   = net - dp                                                                    *)
Definition net_in (c : chan) (ml : Q) : Q := cp c - ml.
Definition correction (x : Q) : Q := (Qabs x - x) / 2.
Definition delta_power (tgt ml : Q) (c : chan) : Q :=
  let net := net_in c ml in
  let tpc := tgt + coff c in
  let newt := tpc - correction (net - tpc) in
  net - newt.
Definition equalize (pl : policy) (cm : chan * Q) : chan :=
  let (c, ml) := cm in
  set_p c (net_in c ml - delta_power (chan_target pl c) ml c).

Record pout := mkOut { o_chans : list chan; o_loss : list Q; o_ref_out : Q; o_ref_loss : Q }.

Definition path_maxloss (r : roadm) (from deg : Z) (l : list chan) : res (list Q * Q) :=
  let* bs := get_path (rpaths r) from deg in
  let raw := lookup_all bs (map cf l) in
  let* mls := broadcast raw (length l) in
  match raw with
  | [] => Err "TypeError:no impairment value for any channel"
  | h :: t => Ok (mls, qmaxl h t)                      (* max(roadm_maxloss_db) *)
  end.

(* the power part of propagate (elements.py:589-635) *)
Definition propagate_power (r : roadm) (deg from : Z) (l : list chan) : res pout :=
  let* (mls, mx) := path_maxloss r from deg l in
  let* rt := ref_target r deg in
  match zfind from (refin r) with
  | None => Err "KeyError:ref_pch_in_dbm[from_degree]"
  | Some rin =>
      match rt, resolve r deg with
      | Some rtg, Some pl =>
          let ref_out := Qmin (rin - mx) rtg in
          let outs := map (equalize pl) (combine l mls) in
          Ok (mkOut outs (map (fun cc => cp (fst cc) - cp (snd cc)) (combine l outs)) ref_out (rin - ref_out))
      | _, _ => Err "TypeError:no equalisation target"
      end
  end.

(* the PMD / PDL part (elements.py:637-643): per-carrier 'roadm-pmd' then 'roadm-pdl' of the internal path *)
Definition path_pol (r : roadm) (from deg : Z) (l : list chan) : res (list Q * list Q) :=
  let* bs := get_path (rpaths r) from deg in
  let* pm := broadcast (lookup_allk bpmd bs (map cf l)) (length l) in
  let* pd := broadcast (lookup_allk bpdl bs (map cf l)) (length l) in
  Ok (pm, pd).

(* Roadm.propagate: powers first; the PMD / PDL update comes last and may still raise *)
Definition propagate (r : roadm) (deg from : Z) (l : list chan) : res pout :=
  let* o := propagate_power r deg from l in
  let* (pm, pd) := path_pol r from deg l in
  Ok (mkOut (map add_pol3 (combine (o_chans o) (combine pm pd))) (o_loss o) (o_ref_out o) (o_ref_loss o)).

(* ---------- design step: set_roadm_per_degree_targets (network.py:1296-1315) ---------- *)
(* the code tests the node-level values with `is not None` (F12 fixed: a 0 dBm target is a target). *)
Definition truthy_pow (o : option Q) : bool := match o with Some _ => true | None => false end.
Definition truthy_lin (o : option Q) : bool := match o with Some _ => true | None => false end.
Definition getq (o : option Q) : Q := match o with Some q => q | None => 0 end.

Definition with_deg (r : roadm) (a b c : list (Z * Q)) : roadm :=
  mkRoadm (npow r) (npsd r) (npsw r) a b c (refc r) (refin r) (rpaths r).

Definition deg_has (r : roadm) (d : Z) : bool := zhas d (dpow r) || zhas d (dpsd r) || zhas d (dpsw r).

Fixpoint set_targets (r : roadm) (next_oms : list Z) : res roadm :=
  match next_oms with
  | [] => Ok r
  | d :: t =>
      if deg_has r d then set_targets r t
      else if truthy_pow (npow r) then set_targets (with_deg r (dpow r ++ [(d, getq (npow r))]) (dpsd r) (dpsw r)) t
      else if truthy_lin (npsd r) then set_targets (with_deg r (dpow r) (dpsd r ++ [(d, getq (npsd r))]) (dpsw r)) t
      else if truthy_lin (npsw r) then set_targets (with_deg r (dpow r) (dpsd r) (dpsw r ++ [(d, getq (npsw r))])) t
      else Err "ConfigurationError:needs an equalization target"
  end.

(* ---------- design step: reference input powers (set_roadm_input_powers, network.py:1424-1516) ---------- *)
(* what feeds an ingress degree, found by walking upstream through fibres / fused elements (their losses add up
   in `loss`): a transceiver (reference power pref), an amplifier (pref + delta_p - out_voa), or another ROADM
   (its reference target on the degree it leaves through; that ROADM has the single policy pl) *)
Inductive feed := FTrx (loss : Q) | FEdfa (dp voa loss : Q) | FRoadm (pl : policy) (loss : Q).
Definition feed_power (pref b w : Q) (f : feed) : Q :=
  match f with
  | FTrx l => pref - l
  | FEdfa dp voa l => pref + dp - voa - l
  | FRoadm pl l => target_dbm pl b w - l
  end.
Definition input_powers (pref b w : Q) (feeds : list (Z * feed)) : list (Z * Q) :=
  map (fun kf => (fst kf, feed_power pref b w (snd kf))) feeds.

(* target_to_be_supported: the largest reference target configured on the ROADM (per-degree tables and node level);
   ConfigurationError when there is none.  b, w: reference carrier *)
Definition qmax_list (l : list Q) : option Q := match l with [] => None | h :: t => Some (qmaxl h t) end.
Definition opt_list (o : option Q) : list Q := match o with Some q => [q] | None => [] end.
Definition supported (r : roadm) (b w : Q) : res Q :=
  let temp := opt_list (qmax_list (map snd (dpow r)))
           ++ opt_list (qmax_list (map (fun kv => snd kv + b) (dpsd r)))
           ++ opt_list (qmax_list (map (fun kv => snd kv + w) (dpsw r)))
           ++ opt_list (npow r)
           ++ opt_list (match npsd r with Some d => Some (d + b) | None => None end)
           ++ opt_list (match npsw r with Some d => Some (d + w) | None => None end) in
  match qmax_list temp with
  | None => Err "ConfigurationError:could not find target power/PSD/PSW"
  | Some m => Ok m
  end.
(* ingress degrees for which the design logs "maximum target power can not be met" *)
Definition warned (m : Q) (rin : list (Z * Q)) : list Z :=
  map fst (filter (fun kv => negb (Qle_bool m (snd kv))) rin).

(* ---------- design step: internal paths (set_roadm_internal_paths, network.py:1567-1638) ---------- *)
(* per_degree_impairments: dict keyed by "from-to" (a repeated pair overwrites in place) *)
Record pdi := mkPdi { i_from : Z; i_to : Z; i_id : Z }.
Definition pdi_same (a b : pdi) : bool := ((i_from a =? i_from b) && (i_to a =? i_to b))%Z.
Fixpoint pdi_set (l : list pdi) (e : pdi) : list pdi :=
  match l with
  | [] => [e]
  | x :: t => if pdi_same x e then e :: t else x :: pdi_set t e
  end.
Definition pdi_dict (l : list pdi) : list pdi := fold_left pdi_set l [].
Definition pdi_find (d : list pdi) (from to : Z) : option Z :=
  match find (fun e => ((i_from e =? from) && (i_to e =? to))%Z) d with Some e => Some (i_id e) | None => None end.
(* get_path_type_per_id *)
Definition prof_type (profs : list profile) (iid : option Z) : option ptype :=
  match iid with
  | None => None
  | Some i => match find (fun p => (pid p =? i)%Z) profs with Some p => Some (ptyp p) | None => None end
  end.
(* a degree connected to a transceiver must be add or drop: a user-chosen profile of another type is an error *)
Definition typed_call (profs : list profile) (d : list pdi) (want : ptype) (from to : Z) : res pcall :=
  let iid := pdi_find d from to in
  match prof_type profs iid with
  | Some t => if ptype_eqb t want then Ok (mkCall from to want iid)
              else Err "NetworkTopologyError:path_type of the chosen impairment does not fit the degree"
  | None => Ok (mkCall from to want iid)
  end.
Fixpoint mapM {A B} (f : A -> res B) (l : list A) : res (list B) :=
  match l with
  | [] => Ok []
  | x :: t => let* y := f x in let* ys := mapM f t in Ok (y :: ys)
  end.
Definition zmem (k : Z) (l : list Z) : bool := existsb (fun x => (x =? k)%Z) l.
Definition nonempty {A} (l : list A) : bool := match l with [] => false | _ => true end.

(* prev / next : ingress / egress degrees that are not transceivers; drops / adds : transceiver degrees *)
Definition internal_paths (profs : list profile) (pdis : list pdi) (prev next drops adds : list Z) : res (list pcall) :=
  let d := pdi_dict pdis in
  let* a := mapM (fun from =>
                    let* ds := mapM (fun dr => typed_call profs d Drop from dr) drops in
                    Ok (map (fun to => mkCall from to Express (pdi_find d from to)) next ++ ds)) prev in
  let* b := mapM (fun to => mapM (fun ad => typed_call profs d Add ad to) adds) next in
  let froms := prev ++ (if nonempty next then adds else []) in
  let tos := if nonempty prev then next ++ drops else [] in
  if forallb (fun e => zmem (i_from e) froms && zmem (i_to e) tos) d then Ok (concat a ++ concat b)
  else Err "NetworkTopologyError:per_degree_impairments names a wrong from-to degree".

(* ---------- single-policy checks on the set of provided keys ---------- *)
(* state of the three keys target_pch_out_db / target_psd_out_mWperGHz / target_out_mWperSlotWidth *)
Record keys3 := mkK { kpow : kv; kpsd : kv; kpsw : kv }.
Definition present (k : kv) : bool := match k with Absent => false | _ => true end.
Definition valued (k : kv) : option Q := match k with Val q => Some q | _ => None end.
Definition b2z (b : bool) : Z := if b then 1%Z else 0%Z.
Definition count_present (k : keys3) : Z := (b2z (present (kpow k)) + b2z (present (kpsd k)) + b2z (present (kpsw k)))%Z.
Definition count_valued (k : keys3) : Z :=
  (b2z (truthy_lin (valued (kpow k))) + b2z (truthy_lin (valued (kpsd k))) + b2z (truthy_lin (valued (kpsw k))))%Z.

(* json_io.Roadm.__init__ (equipment library entry): key presence *)
Definition eqpt_check (e : keys3) : res keys3 :=
  if (1 <? count_present e)%Z then Err "EquipmentConfigError:only one equalization type should be set"
  else if (count_present e =? 0)%Z then Err "EquipmentConfigError:no equalization type set"
  else Ok e.

(* merge_equalization + merge_amplifier_restrictions in network_from_json: the policy keys of the merged params *)
Definition merge_policy (el eq : keys3) : res keys3 :=
  if (1 <? count_present el)%Z then Err "ConfigurationError:invalid equalization settings"
  else if (count_present el =? 1)%Z then Ok el
  else Ok eq.

(* RoadmParams.__init__: kwargs.get(k) is not None *)
Definition roadm_params (k : keys3) : res (option Q * option Q * option Q) :=
  if (1 <? count_valued k)%Z then Err "ParametersError:more than one equalisation type"
  else Ok (valued (kpow k), valued (kpsd k), valued (kpsw k)).

(* equipment entry -> element config -> Roadm element *)
Definition load_policy (eq el : keys3) : res (option Q * option Q * option Q) :=
  let* e := eqpt_check eq in
  let* m := merge_policy el e in
  roadm_params m.

Definition count_some (t : option Q * option Q * option Q) : Z :=
  let '(a, b, c) := t in (b2z (truthy_lin a) + b2z (truthy_lin b) + b2z (truthy_lin c))%Z.

(* ---------- vocabulary of the theorem statements (Props/C06.v) ---------- *)
(* the i-th channel of a crossing: input channel, the path loss applied to it, output channel *)
Definition chan_at (l : list chan) (mls : list Q) (outs : list chan) (i : nat) (c : chan) (ml : Q) (c' : chan) : Prop :=
  nth_error l i = Some c /\ nth_error mls i = Some ml /\ nth_error outs i = Some c'.
Definition vals (k : keys3) : option Q * option Q * option Q := (valued (kpow k), valued (kpsd k), valued (kpsw k)).
Definition no_null (k : keys3) : Prop := kpow k <> Null /\ kpsd k <> Null /\ kpsw k <> Null.
Definition exactly_one (r : roadm) : Prop := count_some (npow r, npsd r, npsw r) = 1%Z.
