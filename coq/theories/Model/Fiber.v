(* C05 — executable model of the fibre span (gnpy/core/elements.py Fiber, science_utils.py RamanSolver,
   parameters.py FiberParams) and of the CD / PMD / PDL / latency accumulation along a path.
   Definitions only (no lemmas): Proofs/Fiber.v holds the proofs.

   Conventions: everything over Q (exact).  Powers and losses are in dB / dBm (the code's detour through
   10**(x/10) is what the correspondence run checks).  User parameters enter in the units of the JSON
   (length + units, loss_coef in dB/km, lumped positions in km), the conversions of FiberParams /
   Fiber.__init__ are part of the model.  pi is a parameter of the dispersion formulas (any non-zero
   rational): Proofs/Fiber.v shows that it cancels. *)
From Coq Require Import QArith Qminmax.
From Verif Require Import Prelude.
Open Scope Q_scope.

Definition c_light : Q := 299792458.

Definition qsum (l : list Q) : Q := fold_right Qplus 0 l.
Definition qprod (l : list Q) : Q := fold_right Qmult 1 l.
Definition qltb (a b : Q) : bool := negb (Qle_bool b a).

(* ------------------------------------------------------------------------------------------------
   scipy interp1d(x, y) (kind=linear, bounds_error -> ValueError, assume_sorted=False: x is sorted
   first) as used by Fiber.interpolate_parameter_over_spectrum, which turns the ValueError into a
   SpectrumError.  In exact arithmetic it is numpy.interp inside the range. *)
Fixpoint ins_pt (p : Q * Q) (l : list (Q * Q)) : list (Q * Q) :=
  match l with
  | [] => [p]
  | q :: t => if Qle_bool (fst q) (fst p) then q :: ins_pt p t else p :: l
  end.
Definition sort_pts (l : list (Q * Q)) : list (Q * Q) := fold_left (fun acc p => ins_pt p acc) l [].

Fixpoint interp_sorted (pts : list (Q * Q)) (x : Q) : res Q :=
  match pts with
  | [] => Err "ValueError:out-of-range"%string
  | (x0, y0) :: t =>
      match t with
      | [] => Err "ValueError:out-of-range"%string
      | (x1, y1) :: _ =>
          if Qle_bool x0 x && Qle_bool x x1 then
            if Qeq_bool x0 x1 then Err "ZeroDivision:duplicate-knot"%string
            else Ok (y0 + (y1 - y0) / (x1 - x0) * (x - x0))
          else interp_sorted t x
      end
  end.
Definition interp1d (pts : list (Q * Q)) (x : Q) : res Q := interp_sorted (sort_pts pts) x.
Definition interpolate_parameter (pts : list (Q * Q)) (x : Q) : res Q :=
  match interp1d pts x with
  | Ok v => Ok v
  | Err _ => Err "SpectrumError:spectrum-exceeds-parameter-range"%string
  end.

(* ------------------------------------------------------------------------------------------------
   fibre parameters (FiberParams) *)
Inductive coef := Scalar (v : Q) | PerFreq (pts : list (Q * Q)).          (* (frequency Hz, value) *)
Inductive disp :=
  | DispScalar (d : Q) (slope : option Q)                                  (* 'dispersion' [, 'dispersion_slope'] *)
  | DispPerFreq (pts : list (Q * Q)).                                      (* 'dispersion_per_frequency' *)

Record fiber := mkFiber {
  f_len : Q;  f_len_km : bool;                 (* 'length', 'length_units' == 'km' *)
  f_att_in : Q;  f_con_in : Q;  f_con_out : Q; (* dB *)
  f_loss : coef;                               (* dB/km *)
  f_lumped : list (Q * Q);                     (* (position km, loss dB) *)
  f_ref : Q;                                   (* ref_frequency Hz *)
  f_disp : disp;
  f_pmd_coef : Q;                              (* s/sqrt(m) *)
  f_n1 : Q }.

Definition len_m (fib : fiber) : Q := if f_len_km fib then f_len fib * 1000 else f_len fib.
(* Fiber.__init__: z_lumped_losses [km] -> [m]; loss [dB] *)
Definition lumped_m (fib : fiber) : list (Q * Q) := map (fun zl => (fst zl * 1000, snd zl)) (f_lumped fib).

(* Fiber.__init__: every position strictly between 0 and 1e-3*length, else NetworkTopologyError *)
Definition lumped_in_range (fib : fiber) : bool :=
  forallb (fun zl => qltb 0 (fst zl) && qltb (fst zl) (len_m fib / 1000)) (f_lumped fib).
Definition fiber_check (fib : fiber) : res unit :=
  if lumped_in_range fib then Ok tt else Err "NetworkTopologyError:lumped-loss-position"%string.

(* Fiber.loss_coef_func [dB/m] *)
Definition loss_coef_at (fib : fiber) (f : Q) : res Q :=
  match f_loss fib with
  | Scalar v => Ok (v / 1000)
  | PerFreq [] => Err "ValueError:empty-loss-coef"%string
  | PerFreq [(_, v)] => Ok (v / 1000)
  | PerFreq pts => interpolate_parameter (map (fun p => (fst p, snd p / 1000)) pts) f
  end.

(* ------------------------------------------------------------------------------------------------
   RamanSolver._create_lumped_losses (after fix d757514e): the lumped losses first, then the neutral
   value for every grid point; numpy.unique(..., return_inverse=True) gives the sorted distinct positions,
   multiply.at accumulates ALL values that share a position.  op / one = (+, 0) in dB, ( *, 1) linear. *)
Fixpoint ins_acc {V : Type} (op : V -> V -> V) (k : Q) (v : V) (l : list (Q * V)) : list (Q * V) :=
  match l with
  | [] => [(k, v)]
  | (k', v') :: t =>
      match k ?= k' with
      | Lt => (k, v) :: l
      | Eq => (k', op v' v) :: t
      | Gt => (k', v') :: ins_acc op k v t
      end
  end.
Definition merge_list {V : Type} (op : V -> V -> V) (l : list (Q * V)) : list (Q * V) :=
  fold_left (fun acc kv => ins_acc op (fst kv) (snd kv) acc) l [].
Definition merge_grid {V : Type} (op : V -> V -> V) (one : V) (zl : list (Q * V)) (z : list Q) : list (Q * V) :=
  merge_list op (zl ++ map (fun x => (x, one)) z).

(* ------------------------------------------------------------------------------------------------
   Raman off: RamanSolver.calculate_attenuation_profile, last column, in dB:
   exp(-alpha z_end) * cumprod(lumped)[-1]  ==  loss_coef*length + sum of the merged lumped losses.
   (z_end is the fibre length for every fibre that passes fiber_check.) *)
Definition attenuation_db (fib : fiber) (a : Q) : Q :=
  a * len_m fib + qsum (map snd (merge_grid Qplus 0 (lumped_m fib) [0; len_m fib])).

(* Fiber.propagate, power part, one channel of frequency f and input power p [dBm] *)
Definition fiber_power_out (fib : fiber) (f p : Q) : res Q :=
  let* _ := fiber_check fib in
  let* a := loss_coef_at fib f in
  Ok (p - (f_con_in fib + f_att_in fib) - attenuation_db fib a - f_con_out fib).

(* the budget of the property statement *)
Definition loss_budget (fib : fiber) (a : Q) : Q :=
  f_att_in fib + f_con_in fib + len_m fib * a + qsum (map snd (f_lumped fib)) + f_con_out fib.

(* Fiber.loss (a property: evaluated at the reference frequency, all lumped losses summed) *)
Definition fiber_loss_prop (fib : fiber) : res Q :=
  let* a := loss_coef_at fib (f_ref fib) in
  Ok (a * len_m fib + f_con_in fib + f_con_out fib + f_att_in fib + qsum (map snd (f_lumped fib))).

(* ------------------------------------------------------------------------------------------------
   chromatic dispersion: Fiber.beta2, beta3, chromatic_dispersion.  pi is a parameter. *)
Definition sq (x : Q) : Q := x * x.
Definition cube (x : Q) : Q := x * x * x.

Definition dispersion_at (fib : fiber) (f : Q) : res Q :=
  match f_disp fib with
  | DispScalar d None => Ok (sq (f / f_ref fib) * d)
  | DispScalar d (Some s) => Ok (d + s * (c_light / f - c_light / f_ref fib))
  | DispPerFreq pts => interpolate_parameter pts f
  end.
Definition beta2 (pi : Q) (fib : fiber) (f : Q) : res Q :=
  let* d := dispersion_at fib f in
  Ok (Qred (- (sq (c_light / f) * d) / (2 * pi * c_light))).

(* numpy.polyfit(x, y, 2)[1]: linear coefficient of the least-squares parabola (normal equations,
   Cramer's rule; exact).  Fewer than 3 distinct abscissae make the system singular. *)
Definition det3 (a b c d e f g h i : Q) : Q :=
  Qred (a * Qred (e * i - f * h)) - Qred (b * Qred (d * i - f * g)) + Qred (c * Qred (d * h - e * g)).
(* Qred only normalises the representation (Qred q == q); it keeps the exact evaluation small *)
Definition qsum_red (l : list Q) : Q := fold_right (fun x s => Qred (x + s)) 0 l.
Definition psum (k : nat) (xs : list Q) : Q := qsum_red (map (fun x => Qpower (Qred x) (Z.of_nat k)) xs).
Definition pmom (k : nat) (xs ys : list Q) : Q :=
  qsum_red (map (fun xy => Qpower (Qred (fst xy)) (Z.of_nat k) * snd xy) (combine xs ys)).
Definition polyfit2_lin (xs ys : list Q) : res Q :=
  let s0 := psum 0 xs in let s1 := psum 1 xs in let s2 := psum 2 xs in
  let s3 := psum 3 xs in let s4 := psum 4 xs in
  let t0 := pmom 0 xs ys in let t1 := pmom 1 xs ys in let t2 := pmom 2 xs ys in
  let d := Qred (det3 s4 s3 s2 s3 s2 s1 s2 s1 s0) in
  if Qeq_bool d 0 then Err "LinAlg:rank-deficient-polyfit"%string
  else Ok (Qred (Qred (det3 s4 t2 s2 s3 t1 s1 s2 t0 s0) / d)).

Fixpoint mapM {A B} (f : A -> res B) (l : list A) : res (list B) :=
  match l with
  | [] => Ok []
  | x :: t => let* y := f x in let* r := mapM f t in Ok (y :: r)
  end.

Definition beta3 (pi : Q) (fib : fiber) (f : Q) : res Q :=
  match f_disp fib with
  | DispPerFreq pts =>
      let* b2s := mapM (fun p => beta2 pi fib (fst p)) pts in
      let* b := polyfit2_lin (map (fun p => fst p - f_ref fib) pts) b2s in
      Ok (b / (2 * pi))
  | DispScalar _ None => Ok 0
  | DispScalar _ (Some s) =>
      let* b2 := beta2 pi fib f in
      Ok ((s - (4 * pi * cube f / sq c_light) * b2) / sq (2 * pi * sq f / c_light))
  end.
Definition chromatic_dispersion (pi : Q) (fib : fiber) (f : Q) : res Q :=
  let* b2 := beta2 pi fib f in
  let* b3 := beta3 pi fib f in
  let beta := b2 + 2 * pi * b3 * (f - f_ref fib) in
  Ok (- beta * 2 * pi * sq (f_ref fib) / c_light * len_m fib).

(* Fiber.pmd squared; FiberParams latency *)
Definition fiber_pmd2 (fib : fiber) : Q := sq (f_pmd_coef fib) * len_m fib.
Definition fiber_latency (fib : fiber) : Q := len_m fib / (c_light / f_n1 fib).

(* ------------------------------------------------------------------------------------------------
   accumulation along a path.  What one element adds to one channel: CD, latency, PMD^2, PDL^2. *)
Record contrib := mkC { d_cd : Q; d_lat : Q; d_pmd2 : Q; d_pdl2 : Q }.
Record acc := mkA { a_cd : Q; a_lat : Q; a_pmd2 : Q; a_pdl2 : Q }.

(* ROADM impairment tables: first band whose range is open or contains the frequency (Roadm.get_impairment) *)
Definition band := (option (Q * Q) * Q)%type.
Fixpoint band_lookup (bs : list band) (f : Q) : res Q :=
  match bs with
  | [] => Err "ValueError:no-impairment-for-frequency"%string
  | (None, v) :: _ => Ok v
  | (Some (lo, hi), v) :: t => if Qle_bool lo f && Qle_bool f hi then Ok v else band_lookup t f
  end.

(* Roadm.set_roadm_paths: the impairment profile a crossing of path type pt gets.  profiles = the variety's
   roadm-path-impairments in library order as (id, path type, table); impairment_id = what per_degree_impairments
   binds to the (from, to) degree pair (None when nothing is bound: `impairment_id is None`; the id 0 is an id). *)
Fixpoint first_of_type {A : Type} (profiles : list (Z * Z * A)) (pt : Z) : option A :=
  match profiles with
  | [] => None
  | (_, t, a) :: r => if Z.eqb t pt then Some a else first_of_type r pt
  end.
Fixpoint profile_by_id {A : Type} (profiles : list (Z * Z * A)) (i : Z) : option A :=
  match profiles with
  | [] => None
  | (j, _, a) :: r => if Z.eqb j i then Some a else profile_by_id r i
  end.
Definition roadm_profile {A : Type} (profiles : list (Z * Z * A)) (global : A) (pt : Z) (impairment_id : option Z) : res A :=
  match impairment_id with
  | None => match first_of_type profiles pt with Some a => Ok a | None => Ok global end
  | Some i => match profile_by_id profiles i with
              | Some a => Ok a
              | None => Err "NetworkTopologyError:impairment-profile-id"%string
              end
  end.

Inductive element :=
  | EFiber (fib : fiber)
  | EAmp (pmd pdl : Q)                       (* Edfa.propagate: params.pmd, params.pdl *)
  | ERoadm (pmd pdl : list band)             (* Roadm.propagate: roadm-pmd, roadm-pdl of the internal path *)
  | EOther.                                  (* Fused, Transceiver: nothing *)

Definition elem_contrib (pi : Q) (e : element) (f : Q) : res contrib :=
  match e with
  | EFiber fib =>
      let* _ := fiber_check fib in
      let* _ := loss_coef_at fib f in
      let* cd := chromatic_dispersion pi fib f in
      Ok (mkC cd (fiber_latency fib) (fiber_pmd2 fib) 0)
  | EAmp pmd pdl => Ok (mkC 0 0 (sq pmd) (sq pdl))
  | ERoadm pmd pdl =>
      let* a := band_lookup pmd f in
      let* b := band_lookup pdl f in
      Ok (mkC 0 0 (sq a) (sq b))
  | EOther => Ok (mkC 0 0 0 0)
  end.

Definition add_contrib (a : acc) (c : contrib) : acc :=
  mkA (a_cd a + d_cd c) (a_lat a + d_lat c) (a_pmd2 a + d_pmd2 c) (a_pdl2 a + d_pdl2 c).
Definition accumulate (cs : list contrib) (a : acc) : acc := fold_left add_contrib cs a.

Definition propagate_path (pi : Q) (els : list element) (f : Q) (a : acc) : res acc :=
  let* cs := mapM (fun e => elem_contrib pi e f) els in
  Ok (accumulate cs a).

(* ------------------------------------------------------------------------------------------------
   evaluation aid for the case runner: with a dispersion table beta3 does not depend on the channel, so it
   is computed once per fibre and shared by all channels (Proofs/Fiber.v: propagate_path_with_sound shows
   that the result is the one of propagate_path) *)
Definition beta3_shared (pi : Q) (fib : fiber) : option (res Q) :=
  match f_disp fib with
  | DispPerFreq _ => Some (beta3 pi fib 0)
  | DispScalar _ _ => None
  end.
Definition chromatic_dispersion_with (pi : Q) (fib : fiber) (sh : option (res Q)) (f : Q) : res Q :=
  let* b2 := beta2 pi fib f in
  let* b3 := match sh with Some r => r | None => beta3 pi fib f end in
  let beta := b2 + 2 * pi * b3 * (f - f_ref fib) in
  Ok (- beta * 2 * pi * sq (f_ref fib) / c_light * len_m fib).
Definition elem_shared (pi : Q) (e : element) : option (res Q) :=
  match e with EFiber fib => beta3_shared pi fib | _ => None end.
Definition elem_contrib_with (pi : Q) (e : element) (sh : option (res Q)) (f : Q) : res contrib :=
  match e with
  | EFiber fib =>
      let* _ := fiber_check fib in
      let* _ := loss_coef_at fib f in
      let* cd := chromatic_dispersion_with pi fib sh f in
      Ok (mkC cd (fiber_latency fib) (fiber_pmd2 fib) 0)
  | _ => elem_contrib pi e f
  end.
Definition propagate_path_with (pi : Q) (els : list element) (shs : list (option (res Q))) (f : Q) (a : acc) : res acc :=
  let* cs := mapM (fun es => elem_contrib_with pi (fst es) (snd es) f) (combine els shs) in
  Ok (accumulate cs a).

(* ------------------------------------------------------------------------------------------------
   Raman on, method 'numerical': the explicit Euler scheme of
   calculate_unidirectional_stimulated_raman_scattering on the merged grid [(z_i, lumped_i)]:
     P_j(i) = P_j(i-1) * (1 + (-alpha_j + sum_k cr_jk P_k(i-1)) * (z_i - z_{i-1})) * lumped_{i-1}
   (Qred only normalises the representation: Qred q == q) *)
Definition dot (r p : list Q) : Q := qsum (map (fun rp => fst rp * snd rp) (combine r p)).
Definition euler_step (alpha : list Q) (cr : list (list Q)) (dz ll : Q) (p : list Q) : list Q :=
  map (fun t => let '(pj, (aj, crj)) := t in Qred (pj * (1 + (- aj + Qred (dot crj p)) * dz) * ll))
      (combine p (combine alpha cr)).
Fixpoint euler (alpha : list Q) (cr : list (list Q)) (grid : list (Q * Q)) (p : list Q) : list Q :=
  match grid with
  | [] => p
  | (z0, l0) :: t =>
      match t with
      | [] => p
      | (z1, _) :: _ => euler alpha cr t (euler_step alpha cr (z1 - z0) l0 p)
      end
  end.
(* the same scheme for the loss profile g = P / P_in (no division: P_k = p0_k * g_k) *)
Definition euler_step_g (alpha : list Q) (cr : list (list Q)) (p0 : list Q) (dz ll : Q) (g : list Q) : list Q :=
  let p := map (fun pg => fst pg * snd pg) (combine p0 g) in
  map (fun t => let '(gj, (aj, crj)) := t in Qred (gj * (1 + (- aj + Qred (dot crj p)) * dz) * ll))
      (combine g (combine alpha cr)).
Fixpoint euler_g (alpha : list Q) (cr : list (list Q)) (p0 : list Q) (grid : list (Q * Q)) (g : list Q) : list Q :=
  match grid with
  | [] => g
  | (z0, l0) :: t =>
      match t with
      | [] => g
      | (z1, _) :: _ => euler_g alpha cr p0 t (euler_step_g alpha cr p0 (z1 - z0) l0 g)
      end
  end.
(* zero-power closed form for one channel: prod_k (1 - alpha dz_k) * lumped_k over the steps of the grid *)
Fixpoint grid_factor (a : Q) (grid : list (Q * Q)) : Q :=
  match grid with
  | [] => 1
  | (z0, l0) :: t =>
      match t with
      | [] => 1
      | (z1, _) :: _ => (1 - a * (z1 - z0)) * l0 * grid_factor a t
      end
  end.
(* numpy.append(arange(0, L, step), L) for step > 0 *)
Fixpoint arange_fuel (n : nat) (x step L : Q) : list Q :=
  match n with
  | O => []
  | S n' => if qltb x L then x :: arange_fuel n' (x + step) step L else []
  end.
Definition solver_grid (fuel : nat) (step L : Q) : list Q := arange_fuel fuel 0 step L ++ [L].

(* Euler solver of a fibre without pumps at input powers p (W), lumped losses given as linear factors *)
Definition euler_fiber (alpha : list Q) (cr : list (list Q)) (lumped_lin : list (Q * Q)) (z : list Q)
           (p : list Q) : list Q :=
  euler alpha cr (merge_grid Qmult 1 lumped_lin z) p.
