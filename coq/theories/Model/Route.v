(* C11 — routing: executable definitions only (no lemmas; proofs are in Proofs/Route.v).

   Graph   = adjacency list, node ids and weights are integers.  Weight unit: centimetre,
             w_cm = round (100 * weight_in_m): the 0.01 "non-fibre hop" weights of gnpy are exactly 1,
             fibre spans are their length in cm.
   Models  : ispart (request.py:956-967), unique_ordered (utils.py), explicit_path (request.py:1278-1308, validated),
             compute_constrained_path (330-379) = model_ccp, correct_json_route_list (1060-1105, per request),
             find_reversed_path (922-953).
   Spec    : paths / all_routes = complete DFS enumeration of simple paths, route_ok = validator,
             model_route = specification-level reference (optimum over the complete enumeration),
             potential_ok = dual-potential certificate of an unconstrained shortest path. *)
From Verif Require Import Prelude.
Open Scope Z_scope.

(* ------------------------------------------------------------------ graph *)
Definition graph := list (Z * list (Z * Z)).          (* u, [(v, weight)] *)

Fixpoint succs (g : graph) (u : Z) : list (Z * Z) :=
  match g with
  | [] => []
  | (x, l) :: t => if x =? u then l else succs t u
  end.

Fixpoint memZ (x : Z) (l : list Z) : bool :=
  match l with
  | [] => false
  | y :: t => if x =? y then true else memZ x t
  end.

Definition nodes (g : graph) : list Z := map fst g ++ flat_map (fun r => map fst (snd r)) g.

(* edge weight (first matching successor; a DiGraph has no parallel edges) *)
Fixpoint assocZ (l : list (Z * Z)) (v : Z) : option Z :=
  match l with
  | [] => None
  | (x, w) :: t => if x =? v then Some w else assocZ t v
  end.
Definition ew (g : graph) (u v : Z) : option Z := assocZ (succs g u) v.

Fixpoint weight (g : graph) (p : list Z) : Z :=
  match p with
  | u :: ((v :: _) as q) => match ew g u v with Some w => w | None => 0 end + weight g q
  | _ => 0
  end.

(* ------------------------------------------------------------------ complete enumeration of simple paths *)
Fixpoint paths (g : graph) (fuel : nat) (vis : list Z) (u t : Z) : list (list Z) :=
  match fuel with
  | O => []
  | S f =>
      if u =? t then [[t]]
      else flat_map (fun vw : Z * Z =>
                       if memZ (fst vw) (u :: vis) then []
                       else map (cons u) (paths g f (u :: vis) (fst vw) t)) (succs g u)
  end.

Definition all_routes (g : graph) (s t : Z) : list (list Z) := paths g (S (length (nodes g))) [] s t.

(* ------------------------------------------------------------------ ispart (request.py:956-967) *)
Fixpoint idx_from (l : list Z) (x : Z) (k : nat) : option nat :=
  match l with
  | [] => None
  | y :: t => if y =? x then Some k else idx_from t x (S k)
  end.
Definition idx (l : list Z) (x : Z) : option nat := idx_from l x 0.     (* list.index *)

Fixpoint ispart_from (j : nat) (a b : list Z) : bool :=
  match a with
  | [] => true
  | e :: a' =>
      match idx b e with
      | None => false                                   (* elem not in pthb *)
      | Some i => if (j <=? i)%nat then ispart_from i a' b else false
      end
  end.
Definition ispart (a b : list Z) : bool := ispart_from 0 a b.

(* ------------------------------------------------------------------ validator *)
Fixpoint walkb (g : graph) (p : list Z) : bool :=
  match p with
  | [] => false
  | [_] => true
  | u :: ((v :: _) as q) => if memZ v (map fst (succs g u)) then walkb g q else false
  end.

Fixpoint nodupb (p : list Z) : bool :=
  match p with
  | [] => true
  | x :: t => if memZ x t then false else nodupb t
  end.

Definition headb (p : list Z) (s : Z) : bool := match p with x :: _ => x =? s | [] => false end.
Definition lastb (p : list Z) (t : Z) : bool := last p t =? t.

Definition route_ok (g : graph) (s t : Z) (inc p : list Z) : bool :=
  walkb g p && nodupb p && headb p s && lastb p t && ispart inc p.

(* ------------------------------------------------------------------ specification-level reference *)
Inductive outcome := RPath (p : list Z) | RBlock (reason : string).

(* first minimum by weight (min(key=...) semantics) *)
Fixpoint best_from (g : graph) (cur : list Z) (ps : list (list Z)) : list Z :=
  match ps with
  | [] => cur
  | p :: t => if weight g p <? weight g cur then best_from g p t else best_from g cur t
  end.
Definition best (g : graph) (ps : list (list Z)) : option (list Z) :=
  match ps with [] => None | p :: t => Some (best_from g p t) end.

Definition model_route (g : graph) (s t : Z) (inc : list Z) (strict : bool) : outcome :=
  let all := all_routes g s t in
  match best g all with
  | None => RBlock "NO_PATH"
  | Some pu =>
      match best g (filter (ispart inc) all) with
      | Some p => RPath p
      | None => if strict then RBlock "NO_PATH_WITH_CONSTRAINT" else RPath pu
      end
  end.

(* ------------------------------------------------------------------ network view: kinds and OMS *)
Inductive kind := KT | KR | KL.                        (* transceiver, ROADM, line element *)
Record net := mkNet {
  ngraph : graph;
  nkinds : list kind;                                  (* node id = position *)
  noms : list (list Z * option Z)                      (* oms id = position: el_list (ROADM .. ROADM), reversed oms id *)
}.
Definition kind_of (n : net) (x : Z) : option kind := if x <? 0 then None else nth_error (nkinds n) (Z.to_nat x).
Definition is_roadm (n : net) (x : Z) : bool := match kind_of n x with Some KR => true | _ => false end.
Definition is_trx (n : net) (x : Z) : bool := match kind_of n x with Some KT => true | _ => false end.
Definition is_line (n : net) (x : Z) : bool := match kind_of n x with Some KL => true | _ => false end.
Definition roadms (n : net) (p : list Z) : list Z := filter (is_roadm n) p.

Definition interior (l : list Z) : list Z := removelast (tl l).
Fixpoint oms_find (l : list (list Z * option Z)) (x : Z) (k : Z) : option Z :=
  match l with
  | [] => None
  | (els, _) :: t => if memZ x (interior els) then Some k else oms_find t x (k + 1)
  end.
(* el.oms_id : only line elements carry one *)
Definition oms_of (n : net) (x : Z) : option Z := if is_line n x then oms_find (noms n) x 0 else None.
Definition oms_els (n : net) (o : Z) : list Z :=
  if o <? 0 then [] else match nth_error (noms n) (Z.to_nat o) with Some (els, _) => els | None => [] end.
Definition oms_rev (n : net) (o : Z) : option Z :=
  if o <? 0 then None else match nth_error (noms n) (Z.to_nat o) with Some (_, r) => r | None => None end.

(* utils.unique_ordered: keep first occurrences, in order *)
Fixpoint uo (seen l : list Z) : list Z :=
  match l with
  | [] => []
  | x :: t => if memZ x seen then uo seen t else x :: uo (x :: seen) t
  end.
Definition unique_ordered (l : list Z) : list Z := uo [] l.

(* ------------------------------------------------------------------ explicit_path (request.py:1278-1307) *)
Fixpoint first_pred (g : graph) (t : Z) : option Z :=
  match g with
  | [] => None
  | (u, l) :: r => if memZ t (map fst l) then Some u else first_pred r t
  end.

(* path.extend(oms.el_list) along the chain, None as soon as two successive OMS are not adjacent *)
Fixpoint chain (n : net) (o0 : Z) (rest : list Z) (acc : list Z) : option (list Z) :=
  match rest with
  | [] => Some acc
  | o :: r =>
      match oms_els n o0, oms_els n o with
      | (_ :: _) as e0, (h :: _) as e1 =>
          if last e0 0 =? h then chain n o r (acc ++ e1) else None          (* is_adjacent *)
      | _, _ => None
      end
  end.

Definition explicit_path_raw (n : net) (node_list : list Z) (s t : Z) : option (list Z) :=
  let path_oms := unique_ordered (flat_map (fun e => match oms_of n e with Some o => [o] | None => [] end) node_list) in
  match path_oms with
  | [] => None
  | o0 :: rest =>
      match succs (ngraph n) s, first_pred (ngraph n) t with
      | (nx, _) :: _, Some pv =>
          let sr := if is_roadm n nx then nx else s in
          let dr := if is_roadm n pv then pv else t in
          match oms_els n o0, oms_els n (last path_oms o0) with
          | (h :: _), ((_ :: _) as el) =>
              if (h =? sr) && (last el 0 =? dr) then
                match chain n o0 rest (s :: oms_els n o0) with
                | Some p => Some (unique_ordered (p ++ [t]))
                | None => None
                end
              else None
          | _, _ => None
          end
      | _, _ => None                                                          (* StopIteration *)
      end
  end.

(* the end of explicit_path (fix bd5aee7e): the spelled list is only returned when it ends at the destination, every
   consecutive pair is an edge and the whole include list is crossed in order.  unique_ordered output is duplicate-free
   and starts with the source, so this is exactly route_ok. *)
Definition explicit_check (n : net) (node_list : list Z) (t : Z) (p : list Z) : bool :=
  lastb p t && walkb (ngraph n) p && ispart node_list p.
Definition explicit_path (n : net) (node_list : list Z) (s t : Z) : option (list Z) :=
  match explicit_path_raw n node_list s t with
  | Some p => if explicit_check n node_list t p then Some p else None
  | None => None
  end.

(* ------------------------------------------------------------------ compute_constrained_path (request.py:330-379)
   nodes_list / loose (true = STRICT) are the request's lists *including* the appended destination. *)
Inductive ccp := CExplicit (p : list Z) | CSearch (o : outcome).

Definition model_ccp (n : net) (s t : Z) (nodes_list : list Z) (strict_list : list bool) : res ccp :=
  if negb (last nodes_list (t + 1) =? t) then Err "ValueError:last node should be destination"
  else
    let inc := removelast nodes_list in
    match explicit_path n inc s t with
    | Some p => Ok (CExplicit p)
    | None => Ok (CSearch (model_route (ngraph n) s t inc (existsb (fun b => b) (removelast strict_list))))
    end.

(* ------------------------------------------------------------------ correct_json_route_list (request.py:1060-1105), one request.
   names are node ids; a name that is not in the topology is any id without a kind (e.g. negative). *)
Fixpoint remove_at {A} (k : nat) (l : list A) : list A :=
  match k, l with
  | _, [] => []
  | O, _ :: t => t
  | S k', x :: t => x :: remove_at k' t
  end.

(* loop over the deep-copied lists (temp); cur = the live lists being edited *)
Fixpoint clean_loop (n : net) (temp : list (Z * bool)) (cur_nodes : list Z) (cur_strict : list bool)
  : res (list Z * list bool) :=
  match temp with
  | [] => Ok (cur_nodes, cur_strict)
  | (x, st) :: r =>
      match kind_of n x with
      | Some KR | Some KL => clean_loop n r cur_nodes cur_strict
      | _ =>                                                     (* not in the topology, or a transceiver *)
          if st then Err "ServiceError:strict constraint can not be applied"
          else match idx cur_nodes x with
               | Some k => clean_loop n r (remove_at k cur_nodes) (remove_at k cur_strict)
               | None => Err "ValueError:list.index"
               end
      end
  end.

Definition clean_route (n : net) (s t : Z) (nodes_list : list Z) (strict_list : list bool)
  : res (list Z * list bool) :=
  if negb (is_trx n s) then Err "ServiceError:source"
  else if negb (is_trx n t) then Err "ServiceError:destination"
  else
    let '(n1, s1) := match nodes_list with
                     | x :: r => if x =? s then (r, tl strict_list) else (nodes_list, strict_list)
                     | [] => (nodes_list, strict_list) end in
    let '(n2, s2) := match n1 with
                     | _ :: _ => if last n1 0 =? t then (removelast n1, removelast s1) else (n1, s1)
                     | [] => (n1, s1) end in
    clean_loop n (combine n2 s2) n2 s2.

(* ------------------------------------------------------------------ find_reversed_path (request.py:922-953) *)
Definition oeqb (a b : option Z) : bool :=
  match a, b with Some x, Some y => x =? y | None, None => true | _, _ => false end.
Fixpoint omem (x : option Z) (l : list (option Z)) : bool :=
  match l with [] => false | y :: t => if oeqb x y then true else omem x t end.
Fixpoint ouo (seen l : list (option Z)) : list (option Z) :=
  match l with
  | [] => []
  | x :: t => if omem x seen then ouo seen t else x :: ouo (x :: seen) t
  end.

Fixpoint rev_extend (n : net) (p_oms : list (option Z)) (acc : list Z) : res (list Z) :=
  match p_oms with
  | [] => Ok acc
  | Some o :: r => rev_extend n r (unique_ordered (acc ++ oms_els n o))
  | None :: _ => Err "ValueError:can not handle unidir topology"
  end.

(* [el.oms.reversed_oms for el in pth if el is a line element] *)
Definition line_rev_oms (n : net) (pth : list Z) : list (option Z) :=
  flat_map (fun e => if is_line n e
                     then [match oms_of n e with Some o => oms_rev n o | None => None end]
                     else []) pth.

Definition find_reversed_path (n : net) (pth : list Z) : res (list Z) :=
  match pth with
  | [] => Err "IndexError:pth[-1]"
  | first :: _ =>
      let p_oms := ouo [] (rev (line_rev_oms n pth)) in           (* OrderedDict.fromkeys(reversed(...)) *)
      let* rp := rev_extend n p_oms [last pth first] in
      Ok (rp ++ [first])
  end.

(* executable form of the hypotheses of Proofs.reversed_sites: every crossed OMS has a reversed OMS, and the
   reversed OMS of the hop r_i -> r_(i+1) contains exactly the ROADMs r_(i+1), r_i in that order *)
Fixpoint pairs (l : list Z) : list (list Z) :=
  match l with
  | a :: ((b :: _) as t) => [a; b] :: pairs t
  | _ => []
  end.
Fixpoint all_some (l : list (option Z)) : option (list Z) :=
  match l with
  | [] => Some []
  | Some x :: t => match all_some t with Some r => Some (x :: r) | None => None end
  | None :: _ => None
  end.
Fixpoint zlist_eqb (a b : list Z) : bool :=
  match a, b with
  | [], [] => true
  | x :: a', y :: b' => (x =? y) && zlist_eqb a' b'
  | _, _ => false
  end.
Fixpoint zll_eqb (a b : list (list Z)) : bool :=
  match a, b with
  | [], [] => true
  | x :: a', y :: b' => zlist_eqb x y && zll_eqb a' b'
  | _, _ => false
  end.
Definition rev_wf (n : net) (pth : list Z) : bool :=
  match pth with
  | [] => false
  | first :: _ =>
      negb (is_roadm n first) && negb (is_roadm n (last pth first)) &&
      nodupb (roadms n pth) && (2 <=? Z.of_nat (length (roadms n pth))) &&
      match all_some (ouo [] (rev (line_rev_oms n pth))) with
      | Some os => zll_eqb (map (fun o => roadms n (oms_els n o)) os) (pairs (rev (roadms n pth)))
      | None => false
      end
  end.

(* ------------------------------------------------------------------ dual-potential certificate (large graphs, no includes) *)
Definition pot (pi : list Z) (x : Z) : Z := if x <? 0 then 0 else nth (Z.to_nat x) pi 0.
Definition feasible (g : graph) (pi : list Z) : bool :=
  forallb (fun r : Z * list (Z * Z) =>
             forallb (fun vw : Z * Z => pot pi (fst vw) <=? pot pi (fst r) + snd vw) (succs g (fst r))) g.
Definition potential_ok (g : graph) (pi : list Z) (s t : Z) (p : list Z) : bool :=
  feasible g pi && (pot pi t - pot pi s =? weight g p).

(* certificate for a request WITH an include list on a large mesh: one feasible potential per leg
   s -> inc_1 -> ... -> inc_k -> t; the sum of the leg distances bounds every walk crossing inc in order from below *)
Fixpoint seg_bound (pis : list (list Z)) (u : Z) (rest : list Z) : Z :=
  match pis, rest with
  | pi :: pis', v :: rest' => (pot pi v - pot pi u) + seg_bound pis' v rest'
  | _, _ => 0
  end.
Definition seg_cert_ok (g : graph) (pis : list (list Z)) (s t : Z) (inc p : list Z) : bool :=
  forallb (feasible g) pis && (length pis =? S (length inc))%nat && (seg_bound pis s (inc ++ [t]) =? weight g p).

(* ------------------------------------------------------------------ uniqueness certificate for an explicit answer.
   An edge u -> v of the path p is *forced* when v is the only successor of u (and u is not the destination), or u is
   the only predecessor of v (and v is not the source).  Starting from the anchors (source, destination, the listed
   elements) membership in any route of the request propagates forwards through only-successor edges and backwards
   through only-predecessor edges; if that reaches a forcing end of every edge of p, p is the only route of the request. *)
Definition only_succ (g : graph) (u v : Z) : bool :=
  match succs g u with [(x, _)] => x =? v | _ => false end.
Definition only_pred (g : graph) (u v : Z) : bool :=          (* every edge into v leaves u *)
  forallb (fun r : Z * list (Z * Z) => if memZ v (map fst (succs g (fst r))) then fst r =? u else true) g.
Definition ffwd (g : graph) (t u v : Z) : bool := only_succ g u v && negb (u =? t).
Definition fbwd (g : graph) (s u v : Z) : bool := only_pred g u v && negb (v =? s).

Fixpoint fgo (g : graph) (t : Z) (A : list Z) (u : Z) (fu : bool) (l : list Z) : list bool :=
  match l with
  | [] => []
  | v :: l' => let fv := memZ v A || (fu && ffwd g t u v) in fv :: fgo g t A v fv l'
  end.
Definition fscan (g : graph) (t : Z) (A p : list Z) : list bool :=
  match p with [] => [] | x :: l => let fx := memZ x A in fx :: fgo g t A x fx l end.
(* run on rev p: two successive elements v, u of rev p are the edge u -> v of p *)
Fixpoint bgo (g : graph) (s : Z) (A : list Z) (v : Z) (bv : bool) (l : list Z) : list bool :=
  match l with
  | [] => []
  | u :: l' => let bu := memZ u A || (bv && fbwd g s u v) in bu :: bgo g s A u bu l'
  end.
Definition bscan (g : graph) (s : Z) (A p : list Z) : list bool :=
  rev (match rev p with [] => [] | x :: l => let bx := memZ x A in bx :: bgo g s A x bx l end).
Fixpoint orl (a b : list bool) : list bool :=
  match a, b with x :: a', y :: b' => (x || y) :: orl a' b' | _, _ => [] end.
Fixpoint echeck (g : graph) (s t : Z) (p : list Z) (M : list bool) : bool :=
  match p, M with
  | u :: ((v :: _) as p'), mu :: ((mv :: _) as M') =>
      ((ffwd g t u v && mu) || (fbwd g s u v && mv)) && echeck g s t p' M'
  | [_], [_] => true
  | _, _ => false
  end.
Definition explicit_forced (n : net) (inc : list Z) (s t : Z) (p : list Z) : bool :=
  let g := ngraph n in
  let A := s :: t :: inc in
  echeck g s t p (orl (fscan g t A p) (bscan g s A p)).

(* ------------------------------------------------------------------ pieces named for the translator tie (Gen/RouteGen.v)
   search_by = the contract of the networkx calls of compute_constrained_path: shortest_simple_paths enumerates the
   loop-free paths by increasing weight (NetworkXNoPath when there is none), `next(p for p in ... if filt p)` takes the
   first one passing the filter (StopIteration when none does), dijkstra_path is a lightest path.  What is decided
   around them (the filter, when to fall back, the two reasons) comes from gnpy's source. *)
Definition search_by (g : graph) (s t : Z) (filt : list Z -> bool) (fall_back : bool) (r_none r_constraint : string)
  : outcome :=
  let all := all_routes g s t in
  match best g all with
  | None => RBlock r_none
  | Some pu =>
      match best g (filter filt all) with
      | Some p => RPath p
      | None => if fall_back then RPath pu else RBlock r_constraint
      end
  end.
(* json_io.network_from_json: weight of the edge leaving a node, in cm (0.01 m = 1) *)
Definition edge_weight (is_fibre : bool) (length_cm : Z) : Z := if is_fibre then length_cm else 1.
(* find_reversed_path: the elements whose OMS is collected *)
Definition rev_keeps (n : net) (el : Z) : bool := negb (is_trx n el) && negb (is_roadm n el).

(* clean_route above removes the own source listed first with `tl` on both lists (= pop(0), pop(0)) and the own destination
   listed last with `removelast` on both (= pop(-1), pop(-1)): the positions, in the order loose_list / nodes_list *)
Definition clean_pops : list Z := [0; 0; -1; -1].
(* what makes two requests twins for requests_aggregation, besides their groups: plain equality of these attributes
   (in particular nodes_list and loose_list as ORDERED lists) = the signature the harness gives a request *)
Definition twin_attrs : list string :=
  ["source"; "destination"; "bidir"; "tsp"; "tsp_mode"; "baud_rate"; "nodes_list"; "loose_list"; "spacing"; "power";
   "nb_channel"; "f_min"; "f_max"; "format"; "OSNR"; "roll_off"; "tx_power"]%string.
