(* Executable model of the OMS / spectrum-map construction of gnpy/topology/spectrum_assignment.py
   (frequency_to_n, nvalue_to_frequency, mvalue_to_slots, slots_to_m, Bitmap.__init__, insert_left,
   insert_right, align_grids, find_network_freq_range, create_oms_bitmap, build_oms_list, reversed_oms),
   gnpy/topology/request.py find_elements_common_range and gnpy/core/utils.py find_common_range
   (the f_min / f_max part; spacing does not reach the spectrum map).
   Definitions only; proofs are in Proofs/Oms.v.  Every Python exception is an explicit Err.
   Frequencies are exact rationals (every IEEE double is one); int() is truncation toward zero of the
   exact quotient. *)
From Coq Require Import QArith.
From Coq Require PrimFloat Uint63.
From Verif Require Import Prelude Model.Spectrum.
Local Open Scope Z_scope.

(* ---------------------------------------------------------------- frequency <-> slot index *)
Definition f_ref : Q := 193100000000000 # 1.          (* 193.1e12 *)
Definition default_grid : Q := 6250000000 # 1.        (* DEFAULT_GRID = 0.00625e12 *)
Definition default_guardband : Q := 25000000000 # 1.  (* DEFAULT_GUARDBAND = 0.025e12 *)

(* int(x) for an exact rational x: truncation toward zero *)
Definition qtrunc (q : Q) : Z := Z.quot (Qnum q) (Zpos (Qden q)).

(* frequency_to_n: (int)((freq - 193.1e12) / grid) *)
Definition frequency_to_n (freq grid : Q) : Z := qtrunc ((freq - f_ref) / grid).
(* nvalue_to_frequency: 193.1e12 + nvalue * grid *)
Definition nvalue_to_frequency (n : Z) (grid : Q) : Q := (f_ref + inject_Z n * grid)%Q.

(* mvalue_to_slots / slots_to_m  ((int)(x / 2) on integers: true division then truncation) *)
Definition mvalue_to_slots (n m : Z) : Z * Z := (n - m, n + m - 1).
Definition slots_to_m (startn stopn : Z) : Z * Z :=
  (Z.quot (startn + stopn + 1) 2, Z.quot (stopn - startn + 1) 2).
(* m_to_freq *)
Definition m_to_freq (n m : Z) (grid : Q) : Q * Q :=
  let '(a, b) := mvalue_to_slots n m in (nvalue_to_frequency a grid, nvalue_to_frequency (b + 1) grid).

(* the IEEE-double versions, for the finite round-trip theorem (execution by vm_compute only) *)
Module F.
  Import PrimFloat.
  Definition of_Z (z : Z) : float :=
    if (z <? 0)%Z then PrimFloat.opp (of_uint63 (Uint63.of_Z (- z))) else of_uint63 (Uint63.of_Z z).
  (* int(x) for a finite double with |x| < 2^62: mantissa shifted by the exponent *)
  Definition trunc (x : float) : Z :=
    let a := PrimFloat.abs x in
    let '(m, e) := frshiftexp a in                (* a = m * 2^(e - 2101), m in [0.5, 1) *)
    let mant := Uint63.to_Z (normfr_mantissa m) in   (* m * 2^53 *)
    let ex := (Uint63.to_Z e - 2101)%Z in
    let v := if (ex <=? 0)%Z then 0%Z
             else if (ex <=? 53)%Z then Z.shiftr mant (53 - ex) else Z.shiftl mant (ex - 53) in
    if PrimFloat.ltb x zero then (- v)%Z else v.
  Definition f_ref : float := of_Z 193100000000000.
  Definition frequency_to_n (freq grid : float) : Z := trunc (PrimFloat.div (PrimFloat.sub freq f_ref) grid).
  Definition nvalue_to_frequency (n : Z) (grid : float) : float := PrimFloat.add f_ref (PrimFloat.mul (of_Z n) grid).
End F.

(* ---------------------------------------------------------------- Bitmap *)
(* [x] * k   (a non-positive multiplier gives the empty list) *)
Definition rep {A} (x : A) (k : Z) : list A := repeat x (Z.to_nat k).

(* Bitmap(f_min, f_max, grid, guardband, bitmap).  The record field gb (guard band in slots, used only by
   the C14 model) is derived; freq_index_min/max are computed with the DEFAULT grid, as the code does. *)
Definition mk_bitmap (f_min f_max grid guardband : Q) (existing : option (list slot)) : res bitmap :=
  if Qeq_bool grid 0 then Err "ZeroDivisionError:grid" else
  let nmin := frequency_to_n f_min grid in
  let nmax := frequency_to_n f_max grid in
  let fimin := frequency_to_n (f_min + guardband) default_grid in
  let fimax := frequency_to_n (f_max - guardband) default_grid in
  let ix := zrange nmin (nmax + 1) in
  let g := qtrunc (guardband / grid) in
  match existing with
  | None => Ok (mkB nmin nmax fimin fimax g ix (rep SF (nmax - nmin + 1)))
  | Some c => if Nat.eqb (length c) (length ix) then Ok (mkB nmin nmax fimin fimax g ix c)
              else Err "SpectrumError:bitmap_len"
  end.

(* Bitmap.insert_left: n_min := freq_index[0] *)
Definition insert_left (b : bitmap) (nw : list slot) : res bitmap :=
  let ix := zrange (n_min b - Z.of_nat (length nw)) (n_min b) ++ idx b in
  match ix with
  | [] => Err "IndexError:freq_index"
  | h :: _ => Ok (mkB h (n_max b) (fi_min b) (fi_max b) (gb b) ix (nw ++ cells b))
  end.

(* Bitmap.insert_right (as fixed by 0e9c3f66): n_max := freq_index[-1] *)
Definition insert_right (b : bitmap) (nw : list slot) : res bitmap :=
  let ix := idx b ++ zrange (n_max b + 1) (n_max b + 1 + Z.of_nat (length nw)) in
  match ix with
  | [] => Err "IndexError:freq_index"
  | _ => Ok (mkB (n_min b) (List.last ix 0) (fi_min b) (fi_max b) (gb b) ix (cells b ++ nw))
  end.

Fixpoint mapM {A B} (f : A -> res B) (l : list A) : res (list B) :=
  match l with
  | [] => Ok []
  | x :: t => let* y := f x in let* r := mapM f t in Ok (y :: r)
  end.

Definition align_one (nmin nmax : Z) (b : bitmap) : res bitmap :=
  let* b1 := if 0 <? n_min b - nmin then insert_left b (rep SO (n_min b - nmin)) else Ok b in
  if 0 <? nmax - n_max b1 then insert_right b1 (rep SO (nmax - n_max b1)) else Ok b1.

Definition list_min (x : Z) (l : list Z) : Z := fold_left Z.min l x.
Definition list_max (x : Z) (l : list Z) : Z := fold_left Z.max l x.

(* align_grids on the spectrum maps of the OMS list *)
Definition align_grids (l : list bitmap) : res (list bitmap) :=
  match l with
  | [] => Err "ValueError:min"
  | b0 :: t =>
      let nmin := list_min (n_min b0) (map n_min t) in
      let nmax := list_max (n_max b0) (map n_max t) in
      mapM (align_one nmin nmax) l
  end.

(* the cell stored for slot number n (through freq_index, as geti does) *)
Definition cell_at (b : bitmap) (n : Z) : option slot :=
  match zindex (idx b) n with Some i => nth_error (cells b) (Z.to_nat i) | None => None end.

(* ---------------------------------------------------------------- find_common_range (f_min, f_max) *)
Definition band := (Q * Q)%type.
Definition Qltb (a b : Q) : bool := negb (Qle_bool b a).
Definition qmax (a b : Q) : Q := if Qltb a b then b else a.     (* max(a, b) *)
Definition qmin (a b : Q) : Q := if Qltb b a then b else a.     (* min(a, b) *)
Definition sort_bands (l : list band) : list band :=
  sort_by (fun a b => Qle_bool (fst a) (fst b)) l.             (* sorted(key=f_min), stable *)
Definition band_eqb (a b : band) : bool := Qeq_bool (fst a) (fst b) && Qeq_bool (snd a) (snd b).
Fixpoint bands_eqb (l1 l2 : list band) : bool :=
  match l1, l2 with
  | [], [] => true
  | a :: t1, b :: t2 => band_eqb a b && bands_eqb t1 t2
  | _, _ => false
  end.
(* remove_duplicates *)
Fixpoint dedupe (l : list (list band)) (seen : list (list band)) : list (list band) :=
  match l with
  | [] => []
  | a :: t => if existsb (bands_eqb a) seen then dedupe t seen else a :: dedupe t (seen ++ [a])
  end.
Definition intersect (common bands : list band) : list band :=
  flat_map (fun first => flat_map (fun second =>
     let lo := qmax (fst first) (fst second) in
     let hi := qmin (snd first) (snd second) in
     if Qltb lo hi then [(lo, hi)] else []) bands) common.
(* find_common_range(amp_bands, si_f_min, si_f_max, ...) *)
Definition find_common_range (amp_bands : list (list band)) (si : band) : list band :=
  match dedupe (map sort_bands amp_bands) [] with
  | [] => [si]
  | c0 :: t => sort_bands (fold_left intersect (c0 :: t) c0)
  end.

(* ---------------------------------------------------------------- create_oms_bitmap *)
(* the map after the first band: per further band [UNUSABLE]*(lo' - prev - 1) + [FREE]*(hi' - lo' + 1) with
   lo' = max(lo, prev + 1), hi' = max(hi, lo' - 1) (5d131b9c: two bands closer than one slot do not count the shared
   slot twice), then [UNUSABLE]*(n_max - last) (a781ae5d).  Written by direct recursion; the code's left-nested
   accumulation builds the same list. *)
Fixpoint oms_tail (nmax prev : Z) (nb : list (Z * Z)) : list slot :=
  match nb with
  | [] => rep SU (nmax - prev)
  | (lo, hi) :: t =>
      let lo' := Z.max lo (prev + 1) in
      let hi' := Z.max hi (lo' - 1) in
      rep SU (lo' - prev - 1) ++ rep SF (hi' - lo' + 1) ++ oms_tail nmax hi' t
  end.
Definition oms_cells (nmin nmax : Z) (nb : list (Z * Z)) : res (list slot) :=
  match nb with
  | [] => Err "IndexError:common_range"
  | (lo0, hi0) :: t => Ok (rep SU (lo0 - nmin) ++ rep SF (hi0 - lo0 + 1) ++ oms_tail nmax hi0 t)
  end.
Definition band_slots (grid : Q) (b : band) : Z * Z := (frequency_to_n (fst b) grid, frequency_to_n (snd b) grid).
Definition create_oms_bitmap (common : list band) (f_min f_max grid : Q) : res (list slot) :=
  if Qeq_bool grid 0 then Err "ZeroDivisionError:grid" else
  oms_cells (frequency_to_n f_min grid) (frequency_to_n f_max grid) (map (band_slots grid) common).

(* slot n lies inside one of the bands (its nominal central frequency is within [f_min, f_max]) *)
Definition in_bands (grid : Q) (common : list band) (n : Z) : bool :=
  existsb (fun b => Qle_bool (fst b) (nvalue_to_frequency n grid) && Qle_bool (nvalue_to_frequency n grid) (snd b)) common.
Definition in_slots (nb : list (Z * Z)) (n : Z) : bool :=
  existsb (fun b => (fst b <=? n) && (n <=? snd b)) nb.

(* ---------------------------------------------------------------- the network graph *)
Inductive nkind := KRoadm | KTrx | KAmp | KOther.      (* Roadm, Transceiver, Edfa/Multiband_amplifier, Fiber/Fused/... *)
Definition kind_eqb (a b : nkind) : bool :=
  match a, b with KRoadm, KRoadm | KTrx, KTrx | KAmp, KAmp | KOther, KOther => true | _, _ => false end.
(* one vertex: successors in networkx edge order; abands = params.bands of an amplifier *)
Record node := mkN { uid : Z; kind : nkind; succs : list Z; abands : list band }.
Definition graph := list node.        (* in network.nodes() order *)

Fixpoint lookup (g : graph) (u : Z) : option node :=
  match g with
  | [] => None
  | n :: t => if uid n =? u then Some n else lookup t u
  end.
Definition kind_of (g : graph) (u : Z) : option nkind := option_map kind (lookup g u).
Definition is_kind (g : graph) (k : nkind) (u : Z) : bool :=
  match kind_of g u with Some k' => kind_eqb k k' | None => false end.

(* oms_vertices: ROADMs, then transceivers whose first successor is not a ROADM *)
Fixpoint trx_vertices (g : graph) (l : list node) : res (list node) :=
  match l with
  | [] => Ok []
  | n :: t =>
      if kind_eqb (kind n) KTrx then
        match succs n with
        | [] => Err "StopIteration:successors"
        | s :: _ => let* r := trx_vertices g t in Ok (if is_kind g KRoadm s then r else n :: r)
        end
      else trx_vertices g t
  end.
Definition oms_vertices (g : graph) : res (list node) :=
  let* tv := trx_vertices g g in
  Ok (filter (fun n => kind_eqb (kind n) KRoadm) g ++ tv).

(* the while loop of build_oms_list: from nd_in to nd_out, until a ROADM is met.
   Out of fuel = the Python loop does not terminate (a ROADM-free cycle). *)
Fixpoint walk (g : graph) (fuel : nat) (nd_in nd_out : Z) : res (list Z) :=
  match fuel with
  | O => Err "diverges:walk"
  | S f =>
      match lookup g nd_out with
      | None => Err "KeyError:node"
      | Some n =>
          if kind_eqb (kind n) KRoadm then Ok [nd_out]
          else match filter (fun s => negb (s =? nd_in)) (succs n) with
               | [] => Err "StopIteration:next"
               | nx :: _ => let* r := walk g f nd_out nx in Ok (nd_out :: r)
               end
      end
  end.

(* the (vertex, first hop) pairs in the order the two for loops visit them *)
Definition starts_of (g : graph) (vs : list node) : list (Z * Z) :=
  flat_map (fun n => map (fun t => (uid n, t)) (filter (fun t => negb (is_kind g KTrx t)) (succs n))) vs.

Definition oms_els (g : graph) (st : Z * Z) : res (list Z) :=
  let* r := walk g (S (length g * length g)) (fst st) (snd st) in Ok (fst st :: r).

(* el_id_list of every OMS, in oms_id order *)
Definition build_oms_els (g : graph) : res (list (list Z)) :=
  let* vs := oms_vertices g in
  mapM (oms_els g) (starts_of g vs).

(* find_network_freq_range *)
Definition all_amp_bands (g : graph) : list band :=
  flat_map (fun n => if kind_eqb (kind n) KAmp then abands n else []) g.
Definition find_network_freq_range (g : graph) : res (Q * Q) :=
  match all_amp_bands g with
  | [] => Err "ValueError:min"
  | b :: t => Ok (fold_left qmin (map fst t) (fst b), fold_left qmax (map snd t) (snd b))
  end.

(* find_elements_common_range(oms.el_list, equipment) *)
Definition elements_common_range (g : graph) (els : list Z) (si : band) : list band :=
  let amps := flat_map (fun u => match lookup g u with
                                 | Some n => if kind_eqb (kind n) KAmp then [abands n] else []
                                 | None => [] end) els in
  find_common_range amps si.

(* the spectrum map of one OMS: create_oms_bitmap + update_spectrum *)
Definition oms_bitmap (g : graph) (si : band) (f_min f_max : Q) (els : list Z) : res bitmap :=
  let* c := create_oms_bitmap (elements_common_range g els si) f_min f_max default_grid in
  mk_bitmap f_min f_max default_grid default_guardband (Some c).

(* reversed_oms: first OMS running between the same two ends in the opposite direction *)
Fixpoint find_index {A} (p : A -> bool) (l : list A) (k : Z) : option Z :=
  match l with
  | [] => None
  | x :: t => if p x then Some k else find_index p t (k + 1)
  end.
Definition ends (el : list Z) : option (Z * Z) :=
  match el with [] => None | h :: _ => Some (h, List.last el h) end.
Definition is_reverse (a b : Z * Z) : bool := (fst a =? snd b) && (snd a =? fst b).
Definition reversed_oms (els : list (list Z)) : res (list (option Z)) :=
  let* es := mapM (fun el => match ends el with Some e => Ok e | None => Err "IndexError:el_id_list" end) els in
  Ok (map (fun e => find_index (is_reverse e) es 0) es).

Record oms_rec := mkOms { el_ids : list Z; smap : bitmap; rev_id : option Z }.

(* build_oms_list(network, equipment); si = (SI default f_min, f_max) *)
Definition build_oms_list (g : graph) (si : band) : res (list oms_rec) :=
  let* vs := oms_vertices g in
  let* fr := find_network_freq_range g in
  let* raw := mapM (fun st => let* el := oms_els g st in
                              let* b := oms_bitmap g si (fst fr) (snd fr) el in Ok (el, b))
                   (starts_of g vs) in
  let* al := align_grids (map snd raw) in
  let* rv := reversed_oms (map fst raw) in
  Ok (map (fun x => mkOms (fst (fst x)) (snd (fst x)) (snd x)) (combine (combine (map fst raw) al) rv)).

(* element.oms_id after build_oms_list: the last OMS that walked through it (interior elements only) *)
Definition interior (el : list Z) : list Z := removelast (tl el).
Fixpoint last_owner (els : list (list Z)) (u : Z) (k : Z) (acc : option Z) : option Z :=
  match els with
  | [] => acc
  | el :: t => last_owner t u (k + 1) (if existsb (Z.eqb u) (interior el) then Some k else acc)
  end.

(* ---------------------------------------------------------------- chain-structured graphs *)
(* a line: ROADM src -> els (fibres, amplifiers, fused) -> ROADM dst *)
Record line := mkL { src : Z; lels : list Z; dst : Z }.
Definition line_path (l : line) : list Z := src l :: lels l ++ [dst l].
Definition first_hop (l : line) : Z := hd (dst l) (lels l).

(* consecutive triples x, y, z of the path: y's successor list is exactly [z], y is not a ROADM/transceiver,
   and z differs from x (the `uid != nd_in.uid` filter must let z through) *)
Fixpoint chain_ok_b (g : graph) (x : Z) (p : list Z) : bool :=
  match p with
  | y :: ((z :: _) as t) =>
      match lookup g y with
      | Some n => negb (kind_eqb (kind n) KRoadm) && negb (kind_eqb (kind n) KTrx) &&
                  match succs n with [s] => (s =? z) && negb (z =? x) | _ => false end
      | None => false
      end && chain_ok_b g y t
  | _ => true
  end.
Definition line_ok_b (g : graph) (l : line) : bool :=
  is_kind g KRoadm (dst l) && chain_ok_b g (src l) (lels l ++ [dst l]).

Fixpoint nodup_b (l : list Z) : bool :=
  match l with [] => true | x :: t => negb (existsb (Z.eqb x) t) && nodup_b t end.
Fixpoint pairs_eqb (a b : list (Z * Z)) : bool :=
  match a, b with
  | [], [] => true
  | (x, y) :: t, (x', y') :: t' => (x =? x') && (y =? y') && pairs_eqb t t'
  | _, _ => false
  end.
Definition is_line_node (n : node) : bool := negb (kind_eqb (kind n) KRoadm) && negb (kind_eqb (kind n) KTrx).

(* chain-structured: d lists the lines in the order the loops of build_oms_list meet them *)
Definition chain_wf_b (g : graph) (d : list line) : bool :=
  nodup_b (map uid g)
  && forallb (fun n => negb (kind_eqb (kind n) KTrx) ||
                       match succs n with s :: _ => is_kind g KRoadm s | [] => false end) g
  && pairs_eqb (map (fun l => (src l, first_hop l)) d)
               (starts_of g (filter (fun n => kind_eqb (kind n) KRoadm) g))
  && forallb (line_ok_b g) d
  && nodup_b (flat_map lels d)
  && forallb (fun n => negb (is_line_node n) || existsb (Z.eqb (uid n)) (flat_map lels d)) g.

(* ---------------------------------------------------------------- checkable hypotheses of the theorems *)
(* common bands sorted, not overlapping (they may touch), inside [f_min, f_max] *)
Fixpoint sorted_from_b (prev : Q) (common : list band) (f_max : Q) : bool :=
  match common with
  | [] => Qle_bool prev f_max
  | (lo, hi) :: t => Qle_bool prev lo && Qle_bool lo hi && sorted_from_b hi t f_max
  end.
Definition sorted_in_b (f_min f_max : Q) (common : list band) : bool :=
  match common with
  | [] => false
  | (lo, hi) :: t => Qle_bool f_min lo && Qle_bool lo hi && sorted_from_b hi t f_max
  end.
Definition common_ok_b (g : graph) (si : band) (f_min f_max : Q) (els : list Z) : bool :=
  sorted_in_b f_min f_max (elements_common_range g els si).
(* all hypotheses of build_oms_list_ok on a concrete network *)
Definition net_hyps_b (g : graph) (si : band) (d : list line) : bool :=
  chain_wf_b g d && negb (Nat.eqb (length d) 0) &&
  match find_network_freq_range g with
  | Ok (f_min, f_max) => forallb (fun l => common_ok_b g si f_min f_max (line_path l)) d
  | Err _ => false
  end.

(* ---------------------------------------------------------------- find_common_range with the 'spacing' key *)
(* remove_duplicates compares whole dictionaries: a band carries its spacing entry
   (None = key absent, Some None = None, Some (Some s) = a value) *)
Definition sband := (Q * Q * option (option Q))%type.
Definition sb_band (b : sband) : band := (fst (fst b), snd (fst b)).
Definition osp_eqb (a b : option (option Q)) : bool :=
  match a, b with
  | None, None => true
  | Some None, Some None => true
  | Some (Some x), Some (Some y) => Qeq_bool x y
  | _, _ => false
  end.
Definition sband_eqb (a b : sband) : bool := band_eqb (sb_band a) (sb_band b) && osp_eqb (snd a) (snd b).
Fixpoint sbands_eqb (l1 l2 : list sband) : bool :=
  match l1, l2 with
  | [], [] => true
  | a :: t1, b :: t2 => sband_eqb a b && sbands_eqb t1 t2
  | _, _ => false
  end.
Definition sort_sbands (l : list sband) : list sband :=
  sort_by (fun a b => Qle_bool (fst (sb_band a)) (fst (sb_band b))) l.
Fixpoint dedupe_sp (l seen : list (list sband)) : list (list sband) :=
  match l with
  | [] => []
  | a :: t => if existsb (sbands_eqb a) seen then dedupe_sp t seen else a :: dedupe_sp t (seen ++ [a])
  end.
(* the (f_min, f_max) of find_common_range when the input dictionaries carry spacing entries *)
Definition find_common_range_sp (amps : list (list sband)) (si : band) : list band :=
  match dedupe_sp (map sort_sbands amps) [] with
  | [] => [si]
  | c0 :: t => sort_bands (fold_left intersect (map (map sb_band) (c0 :: t)) (map sb_band c0))
  end.

(* ---------------------------------------------------------------- local graph conditions *)
Definition is_line_uid (g : graph) (u : Z) : bool :=
  match lookup g u with Some n => is_line_node n | None => false end.
(* all edges that end in a line element (fibre, amplifier, fused ...), as their targets *)
Definition line_targets (g : graph) : list Z := flat_map (fun n => filter (is_line_uid g) (succs n)) g.
Definition roadm_starts (g : graph) : list (Z * Z) := starts_of g (filter (fun n => kind_eqb (kind n) KRoadm) g).
Definition walk_of (g : graph) (st : Z * Z) : res (list Z) := walk g (S (length g * length g)) (fst st) (snd st).
Definition line_of_walk (st : Z * Z) (p : list Z) : line := mkL (fst st) (removelast p) (List.last p 0).
(* the line decomposition read off the walks *)
Definition lines_of (g : graph) : res (list line) :=
  mapM (fun st => let* p := walk_of g st in Ok (line_of_walk st p)) (roadm_starts g).
(* a transceiver only feeds ROADMs (none sits on a line); a line element has exactly one successor, a line element
   or a ROADM *)
Definition node_local_b (g : graph) (n : node) : bool :=
  match kind n with
  | KRoadm => true
  | KTrx => match succs n with [] => false | _ => forallb (is_kind g KRoadm) (succs n) end
  | _ => match succs n with [s] => is_kind g KRoadm s || is_line_uid g s | _ => false end
  end.
Definition local_wf_b (g : graph) : bool :=
  nodup_b (map uid g)
  && forallb (node_local_b g) g
  && nodup_b (line_targets g)                                   (* at most one edge into every line element *)
  && forallb (fun st => match walk_of g st with Ok _ => true | Err _ => false end) (roadm_starts g)
                                                                (* every walk from a ROADM reaches a ROADM *)
  && forallb (fun n => negb (is_line_node n) ||
                       existsb (fun st => match walk_of g st with
                                          | Ok p => existsb (Z.eqb (uid n)) (removelast p)
                                          | Err _ => false end) (roadm_starts g)) g.
                                                                (* every line element is met from a ROADM *)

(* every amplifier's own bands pairwise non-overlapping *)
Definition dj_b (a b : band) : bool := Qle_bool (snd a) (fst b) || Qle_bool (snd b) (fst a).
Fixpoint pdisj_b (l : list band) : bool :=
  match l with [] => true | a :: t => forallb (dj_b a) t && pdisj_b t end.
Definition amps_ok_b (g : graph) : bool :=
  forallb (fun n => negb (kind_eqb (kind n) KAmp) || pdisj_b (abands n)) g.
Definition oms_amp_bands (g : graph) (els : list Z) : list (list band) :=
  flat_map (fun u => match lookup g u with
                     | Some n => if kind_eqb (kind n) KAmp then [abands n] else []
                     | None => [] end) els.
(* hypotheses of build_oms_list_local: local graph conditions, amplifier bands, and the two situations the open
   findings are about excluded (an OMS whose amplifiers share no band; an amplifier-less OMS whose SI band leaves
   the range of the amplifiers) *)
Definition net_local_hyps_b (g : graph) (si : band) : bool :=
  local_wf_b g && amps_ok_b g &&
  match lines_of g, find_network_freq_range g with
  | Ok d, Ok (f_min, f_max) =>
      negb (Nat.eqb (length d) 0) &&
      forallb (fun l => match elements_common_range g (line_path l) si with [] => false | _ => true end &&
                        match oms_amp_bands g (line_path l) with
                        | [] => Qle_bool f_min (fst si) && Qle_bool (fst si) (snd si) && Qle_bool (snd si) f_max
                        | _ => true end) d
  | _, _ => false
  end.
