(* C19 — the response states exactly what was computed: executable definitions only
   (no lemmas; proofs are in Proofs/Response.v).

   Models (gnpy/topology/request.py):
     ResultElement.detailed_path_json / path_properties / pathresult (168-327)  = detailed_path_json, path_properties, pathresult
     read_property, _get_srce_dest_trx, _jsontopath_metric, _jsontoparams, jsontocsv (501-649) = csv_row
     compare_reqs, requests_aggregation (985-1057)                              = compare_reqs, requests_aggregation
   Validator:  response_ok obs resp  (proved equivalent to the declarative Spec in Proofs/Response.v).

   JSON numbers are exact rationals: a float of the response document enters as the decimal its repr() prints,
   receiver figures enter as the exact value of each float.  round(x, 2) is modelled as round-half-even of the
   exact value to hundredths (round2); means are exact. *)
From Verif Require Import Prelude.
From Coq Require Import QArith Qround.
Open Scope Z_scope.

(* ------------------------------------------------------------------ JSON *)
Inductive json :=
| JNull
| JBool (b : bool)
| JNum (q : Q)
| JStr (s : string)
| JArr (l : list json)
| JObj (kv : list (string * json)).

Fixpoint jget (k : string) (kv : list (string * json)) : option json :=
  match kv with
  | [] => None
  | (k', v) :: t => if String.eqb k k' then Some v else jget k t
  end.

Definition isNone {A} (o : option A) : bool := match o with None => true | Some _ => false end.

(* a JSON number that is an integer *)
Definition as_int (j : json) : option Z :=
  match j with
  | JNum q => let z := Qfloor q in if Qeq_bool q (inject_Z z) then Some z else None
  | _ => None
  end.

(* ------------------------------------------------------------------ numbers *)
(* round-half-even of an exact rational to an integer (Python round() on the exact value) *)
Definition round_he (q : Q) : Z :=
  let d := Zpos (Qden q) in
  let f := Qnum q / d in
  let r := Qnum q mod d in
  if 2 * r <? d then f else if d <? 2 * r then f + 1 else if Z.even f then f else f + 1.

Definition round2 (q : Q) : Z := round_he (q * (100 # 1)).      (* hundredths *)
Definition of_cents (z : Z) : Q := z # 100.
Definition round2q (q : Q) : Q := of_cents (round2 q).          (* round(q, 2) *)

(* addition that keeps a common denominator (the harness writes every array over one power of two, so that sums
   stay small; equal to Qplus as a rational, see Proofs/Response.v qadd_cd_ok) *)
Definition qadd_cd (a b : Q) : Q :=
  if Pos.eqb (Qden a) (Qden b) then (Qnum a + Qnum b) # (Qden a) else (a + b)%Q.
Fixpoint qsum (l : list Q) : Q := match l with [] => 0%Q | x :: t => qadd_cd x (qsum t) end.
Definition qmean (l : list Q) : option Q :=
  match l with [] => None | _ => Some (qsum l / inject_Z (Z.of_nat (length l)))%Q end.
Definition qmin2 (a b : Q) : Q := if Qle_bool a b then a else b.
Definition qmax2 (a b : Q) : Q := if Qle_bool b a then a else b.
Definition qmin_list (l : list Q) : option Q := match l with [] => None | x :: t => Some (fold_left qmin2 t x) end.
Definition qmax_list (l : list Q) : option Q := match l with [] => None | x :: t => Some (fold_left qmax2 t x) end.

(* penalty arrays may contain +inf (impairment outside the defined range) *)
Inductive xq := Fin (q : Q) | PInf.
Fixpoint fins (l : list xq) : option (list Q) :=
  match l with
  | [] => Some []
  | Fin q :: t => match fins t with Some r => Some (q :: r) | None => None end
  | PInf :: _ => None
  end.

(* ------------------------------------------------------------------ observation of one request *)
Record rxfig := mkRx {
  r_snr : list Q; r_snr01 : list Q; r_osnr : list Q; r_osnr01 : list Q;       (* receiver arrays, dB *)
  r_pdl : option (list xq); r_cd : option (list xq); r_pmd : option (list xq) (* None = impairment not evaluated *)
}.
Record hop := mkHop { h_uid : string; h_trx : bool }.
Record obs := mkObs {
  o_id : string;
  o_block : option string;          (* blocking_reason, None = attribute absent *)
  o_bidir : bool;
  o_tsp : string; o_mode : option string;
  o_N : option (list Z); o_M : option (list Z);
  o_path : list hop;                (* computed (propagated) path *)
  o_fwd : option rxfig;             (* figures of computed_path[-1];          None = empty path *)
  o_rev : option rxfig;             (* figures of reversed_computed_path[-1]; None = empty path *)
  o_power : Q; o_bw : Q
}.

Definition BLOCKING_NOPATH : list string :=
  ["NO_PATH"; "NO_PATH_WITH_CONSTRAINT"; "NO_FEASIBLE_BAUDRATE_WITH_SPACING"; "NO_COMPUTED_SNR"]%string.
Definition mem_s (x : string) (l : list string) : bool := existsb (String.eqb x) l.

(* ------------------------------------------------------------------ metrics *)
Inductive mval := MNum (q : Q) | MStr (s : string).
Definition mval_json (v : mval) : json := match v with MNum q => JNum q | MStr s => JStr s end.
Definition mval_matches (v : mval) (j : json) : bool :=
  match v, j with
  | MNum q, JNum q' => Qeq_bool q' q
  | MStr s, JStr s' => String.eqb s' s
  | _, _ => false
  end.

Definition obind {A B} (o : option A) (f : A -> option B) : option B := match o with Some a => f a | None => None end.
Notation "'let?' x ':=' r 'in' k" := (obind r (fun x => k)) (at level 200, x pattern, right associativity).

(* get_penalty_from_receiver *)
Definition penalty_val (p : option (list xq)) : option mval :=
  match p with
  | None => Some (MStr "not evaluated")
  | Some l =>
      match fins l with
      | Some ql => let? m := qmean ql in Some (MNum (round2q m))
      | None => Some (MStr "Infinity")
      end
  end.

Definition SNR_BW := "SNR-bandwidth"%string.
Definition SNR_01NM := "SNR-0.1nm"%string.
Definition OSNR_BW := "OSNR-bandwidth"%string.
Definition OSNR_01NM := "OSNR-0.1nm"%string.
Definition LOWER_SNR := "lowest_SNR-0.1nm"%string.
Definition UPPER_SNR := "biggest_SNR-0.1nm"%string.
Definition PDL_PEN := "PDL_penalty"%string.
Definition CD_PEN := "CD_penalty"%string.
Definition PMD_PEN := "PMD_penalty"%string.
Definition REF_POWER := "reference_power"%string.
Definition PATH_BW := "path_bandwidth"%string.

(* path_metric(pth, req): the values, in the code's order; None = an array is empty *)
Definition expected_metrics (r : rxfig) (o : obs) : option (list (string * mval)) :=
  let? m1 := qmean (r_snr r) in
  let? m2 := qmean (r_snr01 r) in
  let? m3 := qmean (r_osnr r) in
  let? m4 := qmean (r_osnr01 r) in
  let? lo := qmin_list (r_snr01 r) in
  let? hi := qmax_list (r_snr01 r) in
  let? p1 := penalty_val (r_pdl r) in
  let? p2 := penalty_val (r_cd r) in
  let? p3 := penalty_val (r_pmd r) in
  Some [(SNR_BW, MNum (round2q m1)); (SNR_01NM, MNum (round2q m2));
        (OSNR_BW, MNum (round2q m3)); (OSNR_01NM, MNum (round2q m4));
        (LOWER_SNR, MNum (round2q lo)); (UPPER_SNR, MNum (round2q hi));
        (PDL_PEN, p1); (CD_PEN, p2); (PMD_PEN, p3);
        (REF_POWER, MNum (o_power o)); (PATH_BW, MNum (o_bw o))].

Definition metric_obj (nv : string * mval) : json :=
  JObj [("metric-type"%string, JStr (fst nv)); ("accumulative-value"%string, mval_json (snd nv))].

Definition path_metric (r : option rxfig) (o : obs) : res json :=
  match r with
  | None => Err "IndexError:empty path"
  | Some rx => match expected_metrics rx o with
               | None => Err "ValueError:empty receiver array"
               | Some l => Ok (JArr (map metric_obj l))
               end
  end.

(* ------------------------------------------------------------------ route objects *)
Inductive item :=
| IHop (node link : string)
| ILabel (l : list (Z * Z))
| ITsp (ty : string) (mode : option string).

Definition jint (z : Z) : json := JNum (inject_Z z).
Definition ostr_json (o : option string) : json := match o with Some s => JStr s | None => JNull end.
Definition label_json (p : Z * Z) : json := JObj [("N"%string, jint (fst p)); ("M"%string, jint (snd p))].

Definition item_obj (i : Z) (it : item) : json :=
  JObj [("path-route-object"%string,
         JObj (("index"%string, jint i) ::
               match it with
               | IHop a b => [("num-unnum-hop"%string, JObj [("node-id"%string, JStr a); ("link-tp-id"%string, JStr b)])]
               | ILabel l => [("label-hop"%string, JArr (map label_json l))]
               | ITsp ty m => [("transponder"%string,
                                JObj [("transponder-type"%string, JStr ty); ("transponder-mode"%string, ostr_json m)])]
               end))].

Fixpoint index_from (i : Z) (l : list item) : list json :=
  match l with [] => [] | it :: t => item_obj i it :: index_from (i + 1) t end.

(* what one path element contributes: its hop object, the label object when the request is served,
   the transponder object when the element is a transceiver *)
Definition hop_items (lab : option (list (Z * Z))) (ty : string) (mode : option string) (h : hop) : list item :=
  IHop (h_uid h) (h_uid h) ::
  (match lab with Some l => [ILabel l] | None => [] end) ++
  (if h_trx h then [ITsp ty mode] else []).

Definition expected_items (o : obs) (lab : option (list (Z * Z))) : list item :=
  flat_map (hop_items lab (o_tsp o) (o_mode o)) (o_path o).

(* the two ServiceError guards of detailed_path_json *)
Definition labels_of (o : obs) : res (option (list (Z * Z))) :=
  match o_block o with
  | None => match o_N o, o_M o with
            | Some n, Some m => Ok (Some (combine n m))
            | _, _ => Err "ServiceError:request should have positive non null n and m values"
            end
  | Some _ => match o_N o, o_M o with
              | None, None => Ok None
              | _, _ => Err "ServiceError:request should not have label M and N values at this point"
              end
  end.

Definition detailed_path_json (o : obs) : res (list json) :=
  match o_path o with
  | [] => Ok []
  | _ => let* lab := labels_of o in Ok (index_from 0 (expected_items o lab))
  end.

Definition path_properties (o : obs) : res json :=
  let* pm := path_metric (o_fwd o) o in
  if o_bidir o then
    let* za := path_metric (o_rev o) o in
    let* pro := detailed_path_json o in
    Ok (JObj [("path-metric"%string, pm); ("z-a-path-metric"%string, za); ("path-route-objects"%string, JArr pro)])
  else
    let* pro := detailed_path_json o in
    Ok (JObj [("path-metric"%string, pm); ("path-route-objects"%string, JArr pro)]).

Definition pathresult (o : obs) : res json :=
  match o_block o with
  | Some r =>
      if mem_s r BLOCKING_NOPATH then
        Ok (JObj [("response-id"%string, JStr (o_id o)); ("no-path"%string, JObj [("no-path"%string, JStr r)])])
      else
        let* pp := path_properties o in
        Ok (JObj [("response-id"%string, JStr (o_id o));
                  ("no-path"%string, JObj [("no-path"%string, JStr r); ("path-properties"%string, pp)])])
  | None =>
      let* pp := path_properties o in
      Ok (JObj [("response-id"%string, JStr (o_id o)); ("path-properties"%string, pp)])
  end.

(* ------------------------------------------------------------------ validator *)
(* read_property: value of the first entry of that metric type *)
Fixpoint read_property (pm : list json) (name : string) : option json :=
  match pm with
  | [] => None
  | JObj kv :: t =>
      match jget "metric-type" kv with
      | Some (JStr s) => if String.eqb s name then jget "accumulative-value" kv else read_property t name
      | _ => read_property t name
      end
  | _ :: t => read_property t name
  end.

Definition metric_okb (pm : list json) (nv : string * mval) : bool :=
  match read_property pm (fst nv) with Some j => mval_matches (snd nv) j | None => false end.

Definition metrics_okb (r : option rxfig) (o : obs) (j : option json) : bool :=
  match r, j with
  | Some rx, Some (JArr pm) =>
      match expected_metrics rx o with Some l => forallb (metric_okb pm) l | None => false end
  | _, _ => false
  end.

Fixpoint labels_parse (l : list json) : option (list (Z * Z)) :=
  match l with
  | [] => Some []
  | JObj kv :: t =>
      match jget "N" kv, jget "M" kv with
      | Some jn, Some jm =>
          match as_int jn, as_int jm, labels_parse t with
          | Some n, Some m, Some r => Some ((n, m) :: r)
          | _, _, _ => None
          end
      | _, _ => None
      end
  | _ :: _ => None
  end.

(* one route object: (index, what it states); exactly one of the three kinds *)
Definition classify (j : json) : option (Z * item) :=
  match j with
  | JObj kv =>
      match jget "path-route-object" kv with
      | Some (JObj inner) =>
          match jget "index" inner with
          | Some ji =>
              match as_int ji with
              | Some k =>
                  match jget "num-unnum-hop" inner, jget "label-hop" inner, jget "transponder" inner with
                  | Some (JObj h), None, None =>
                      match jget "node-id" h, jget "link-tp-id" h with
                      | Some (JStr a), Some (JStr b) => Some (k, IHop a b)
                      | _, _ => None
                      end
                  | None, Some (JArr ls), None =>
                      match labels_parse ls with Some l => Some (k, ILabel l) | None => None end
                  | None, None, Some (JObj t) =>
                      match jget "transponder-type" t, jget "transponder-mode" t with
                      | Some (JStr a), Some (JStr m) => Some (k, ITsp a (Some m))
                      | Some (JStr a), Some JNull => Some (k, ITsp a None)
                      | _, _ => None
                      end
                  | _, _, _ => None
                  end
              | None => None
              end
          | None => None
          end
      | _ => None
      end
  | _ => None
  end.

Fixpoint zz_eqb (a b : list (Z * Z)) : bool :=
  match a, b with
  | [], [] => true
  | (x, y) :: ta, (x', y') :: tb => (x =? x') && (y =? y') && zz_eqb ta tb
  | _, _ => false
  end.
Definition ostr_eqb (a b : option string) : bool :=
  match a, b with Some x, Some y => String.eqb x y | None, None => true | _, _ => false end.
Definition item_eqb (a b : item) : bool :=
  match a, b with
  | IHop x y, IHop x' y' => String.eqb x x' && String.eqb y y'
  | ILabel l, ILabel l' => zz_eqb l l'
  | ITsp t m, ITsp t' m' => String.eqb t t' && ostr_eqb m m'
  | _, _ => false
  end.

Fixpoint route_okb (i : Z) (objs : list json) (items : list item) : bool :=
  match objs, items with
  | [], [] => true
  | j :: tj, it :: ti =>
      match classify j with
      | Some (k, it') => (k =? i) && item_eqb it' it && route_okb (i + 1) tj ti
      | None => false
      end
  | _, _ => false
  end.

(* the label list a response must show: Some (zip N M) when served (both lists assigned), nothing when blocked *)
Definition spec_labels (o : obs) : option (option (list (Z * Z))) :=
  match o_block o with
  | None => match o_N o, o_M o with Some n, Some m => Some (Some (combine n m)) | _, _ => None end
  | Some _ => Some None
  end.

Definition pp_okb (o : obs) (pp : json) : bool :=
  match pp with
  | JObj kv =>
      metrics_okb (o_fwd o) o (jget "path-metric" kv) &&
      (if o_bidir o then metrics_okb (o_rev o) o (jget "z-a-path-metric" kv)
       else isNone (jget "z-a-path-metric" kv)) &&
      match spec_labels o, jget "path-route-objects" kv with
      | Some lab, Some (JArr objs) => route_okb 0 objs (expected_items o lab)
      | _, _ => false
      end
  | _ => false
  end.

Definition jstr_is (j : option json) (s : string) : bool :=
  match j with Some (JStr s') => String.eqb s' s | _ => false end.

Definition response_ok (o : obs) (resp : json) : bool :=
  match resp with
  | JObj kv =>
      jstr_is (jget "response-id" kv) (o_id o) &&
      match o_block o with
      | None =>
          isNone (jget "no-path" kv) &&
          match jget "path-properties" kv with Some pp => pp_okb o pp | None => false end
      | Some r =>
          isNone (jget "path-properties" kv) &&
          match jget "no-path" kv with
          | Some (JObj np) =>
              jstr_is (jget "no-path" np) r &&
              if mem_s r BLOCKING_NOPATH then isNone (jget "path-properties" np)
              else match jget "path-properties" np with Some pp => pp_okb o pp | None => false end
          | _ => false
          end
      end
  | _ => false
  end.

(* ------------------------------------------------------------------ exact shape: no extra key, no extra entry *)
(* an object with exactly n members *)
Definition sizeb (n : nat) (j : json) : bool := match j with JObj kv => Nat.eqb (length kv) n | _ => false end.

Definition body_shape (inner : list (string * json)) : bool :=
  match jget "num-unnum-hop" inner, jget "label-hop" inner, jget "transponder" inner with
  | Some h, None, None => sizeb 2 h
  | None, Some (JArr ls), None => forallb (sizeb 2) ls
  | None, None, Some t => sizeb 2 t
  | _, _, _ => false
  end.
Definition route_obj_shape (j : json) : bool :=
  match j with
  | JObj [(k, JObj inner)] => String.eqb k "path-route-object" && Nat.eqb (length inner) 2 && body_shape inner
  | _ => false
  end.
Definition metrics_shape (j : option json) : bool :=
  match j with Some (JArr pm) => Nat.eqb (length pm) 11 && forallb (sizeb 2) pm | _ => false end.
Definition pp_shape (pp : json) : bool :=
  match pp with
  | JObj kv =>
      metrics_shape (jget "path-metric" kv) &&
      match jget "z-a-path-metric" kv with
      | Some za => Nat.eqb (length kv) 3 && metrics_shape (Some za)
      | None => Nat.eqb (length kv) 2
      end &&
      match jget "path-route-objects" kv with Some (JArr objs) => forallb route_obj_shape objs | _ => false end
  | _ => false
  end.
Definition shape_ok (resp : json) : bool :=
  match resp with
  | JObj kv =>
      Nat.eqb (length kv) 2 &&
      match jget "path-properties" kv, jget "no-path" kv with
      | Some pp, None => pp_shape pp
      | None, Some (JObj np) =>
          match jget "path-properties" np with
          | Some pp => Nat.eqb (length np) 2 && pp_shape pp
          | None => Nat.eqb (length np) 1
          end
      | _, _ => false
      end
  | _ => false
  end.
(* the strict validator: what was computed, and nothing else *)
Definition response_exact (o : obs) (resp : json) : bool := response_ok o resp && shape_ok resp.

(* ------------------------------------------------------------------ aggregation *)
Inductive fld := FNone | FNum (q : Q) | FStr (s : string) | FList (l : list string) | FBool (b : bool).
Fixpoint slist_eqb (a b : list string) : bool :=
  match a, b with
  | [], [] => true
  | x :: ta, y :: tb => String.eqb x y && slist_eqb ta tb
  | _, _ => false
  end.
Definition fld_eqb (a b : fld) : bool :=
  match a, b with
  | FNone, FNone => true
  | FNum x, FNum y => Qeq_bool x y
  | FStr x, FStr y => String.eqb x y
  | FList x, FList y => slist_eqb x y
  | FBool x, FBool y => Bool.eqb x y
  | _, _ => false
  end.
Fixpoint key_eqb (a b : list fld) : bool :=
  match a, b with
  | [], [] => true
  | x :: ta, y :: tb => fld_eqb x y && key_eqb ta tb
  | _, _ => false
  end.

(* a request as requests_aggregation sees it.  a_key = the 17 compared fields in the order of compare_reqs
   (source, destination, bidir, tsp, tsp_mode, baud_rate, nodes_list, loose_list, spacing, power, nb_channel, f_min,
   f_max, format, OSNR, roll_off, tx_power);  a_tag = object identity (position in the input list);
   a_members = ghost: tags of the original requests joined into this one, in join order. *)
Record areq := mkA {
  a_tag : nat; a_id : string; a_members : list nat; a_key : list fld; a_mode_set : bool;
  a_bw : Q; a_N : list (option Z); a_M : list (option Z); a_bidir : bool
}.
Definition disjs := list (list string).        (* Disjunction.disjunctions_req of every disjunction *)

Fixpoint remove_first (x : string) (l : list string) : list string :=
  match l with [] => [] | y :: t => if String.eqb x y then t else y :: remove_first x t end.
Definition subset_s (a b : list string) : bool := forallb (fun x => mem_s x b) a.
Definition set_eq_s (a b : list string) : bool := subset_s a b && subset_s b a.
(* set(d.disjunctions_req) - {id}, as a set *)
Definition others (id : string) (d : list string) : list string := filter (fun x => negb (String.eqb id x)) d.
Fixpoint remove_set (s : list string) (l : list (list string)) : option (list (list string)) :=
  match l with
  | [] => None
  | x :: t => if set_eq_s s x then Some t
              else match remove_set s t with Some r => Some (x :: r) | None => None end
  end.
(* sorted(sorted(set) ...) == sorted(sorted(set) ...): the two lists hold the same sets with the same multiplicities *)
Fixpoint same_sets (a b : list (list string)) : bool :=
  match a with
  | [] => match b with [] => true | _ => false end
  | s :: t => match remove_set s b with Some b' => same_sets t b' | None => false end
  end.
Definition same_disj (id1 id2 : string) (disj : disjs) : bool :=
  let d1 := filter (mem_s id1) disj in
  let d2 := filter (mem_s id2) disj in
  match d1, d2 with
  | [], [] => true
  | _ :: _, _ :: _ => same_sets (map (others id1) d1) (map (others id2) d2)
  | _, _ => false
  end.
Definition compare_reqs (r1 r2 : areq) (disj : disjs) : bool :=
  key_eqb (a_key r1) (a_key r2) && same_disj (a_id r1) (a_id r2) disj.

Definition can_absorb (req : areq) (disj : disjs) (this_r : areq) : bool :=
  negb (String.eqb (a_id req) (a_id this_r)) && compare_reqs req this_r disj && a_mode_set this_r.

Definition sep : string := " | ".
Definition merge (this_r req : areq) : areq :=
  mkA (a_tag this_r) (a_id this_r ++ sep ++ a_id req)%string (a_members this_r ++ a_members req) (a_key this_r)
      (a_mode_set this_r) (a_bw this_r + a_bw req)%Q (a_N this_r ++ a_N req) (a_M this_r ++ a_M req) (a_bidir this_r).

Definition update_disj_ids (old new : string) (disj : disjs) : disjs :=
  map (fun d => if mem_s old d then remove_first old d ++ [new] else d) disj.
(* `for d in disjlist.copy(): if x in d: disjlist.remove(d)` *)
Definition drop_containing (x : string) (l : disjs) : disjs := filter (fun d => negb (mem_s x d)) l.

Definition agg_step (st : list areq * disjs) (t : nat) : list areq * disjs :=
  let '(local, disj) := st in
  match find (fun r => Nat.eqb (a_tag r) t) local with
  | None => st
  | Some req =>
      match find (can_absorb req disj) local with
      | None => st
      | Some this_r =>
          let nr := merge this_r req in
          let local' := map (fun r => if Nat.eqb (a_tag r) (a_tag this_r) then nr else r)
                            (filter (fun r => negb (Nat.eqb (a_tag r) t)) local) in
          let disj1 := update_disj_ids (a_id req) (a_id nr) disj in
          let disj2 := drop_containing (a_id this_r) disj1 in
          (local', disj2)
      end
  end.

Definition requests_aggregation (reqs : list areq) (disj : disjs) : list areq * disjs :=
  fold_left agg_step (map a_tag reqs) (reqs, disj).

(* ------------------------------------------------------------------ CSV export (one row) *)
Inductive cell := CEmpty | CStr (s : string) | CNum (q : Q) | CBool (b : bool).
Record mode_rec := mkMode { m_format : string; m_osnr : Q; m_baud : Q; m_bitrate : Q; m_cost : Q }.
Definition eqpt := list (string * list mode_rec).      (* equipment['Transceiver'][type].mode *)

Fixpoint sget {A} (k : string) (kv : list (string * A)) : option A :=
  match kv with [] => None | (k', v) :: t => if String.eqb k k' then Some v else sget k t end.

Definition raw_cell (j : option json) : res cell :=
  match j with
  | None => Ok CEmpty                                  (* read_property -> '' *)
  | Some (JNum q) => Ok (CNum q)
  | Some (JStr s) => Ok (CStr s)
  | Some _ => Err "Unmodelled:metric value"
  end.
Definition round_cell (j : option json) : res cell :=
  match j with
  | Some (JNum q) => Ok (CNum (round2q q))
  | _ => Err "TypeError:round"
  end.

(* _jsontopath_metric; pdbm = watt2dbm(reference power), supplied (transcendental) *)
Definition jsontopath_metric (pm : option json) (pdbm : Q) : res (list cell) :=
  match pm with
  | Some (JArr l) =>
      let* osnr := round_cell (read_property l OSNR_01NM) in
      let* snr := round_cell (read_property l SNR_01NM) in
      let* snrbw := round_cell (read_property l SNR_BW) in
      let* smin := raw_cell (read_property l LOWER_SNR) in
      let* smax := raw_cell (read_property l UPPER_SNR) in
      let* pdl := raw_cell (read_property l PDL_PEN) in
      let* cd := raw_cell (read_property l CD_PEN) in
      let* pmd := raw_cell (read_property l PMD_PEN) in
      match read_property l REF_POWER, read_property l PATH_BW with
      | Some (JNum _), Some (JNum bw) =>
          Ok [osnr; snr; snrbw; smin; smax; pdl; cd; pmd; CNum (round2q pdbm); CNum (round2q (bw / (1000000000 # 1)))]
      | _, _ => Err "TypeError:power or path_bandwidth"
      end
  | _ => Err "KeyError:path-metric"
  end.

(* str() of a Python list of ints / None *)
Definition py_elem (j : json) : res string :=
  match j with
  | JNull => Ok "None"%string
  | _ => match as_int j with Some z => Ok (zs z) | None => Err "Unmodelled:label value" end
  end.
Fixpoint py_elems (l : list json) (key : string) : res (list string) :=
  match l with
  | [] => Ok []
  | JObj kv :: t =>
      match jget key kv with
      | Some v => let* s := py_elem v in let* r := py_elems t key in Ok (s :: r)
      | None => Err "KeyError:N/M"
      end
  | _ :: _ => Err "TypeError:label"
  end.
Definition py_list (l : list string) : string := ("[" ++ join ", " l ++ "]")%string.

(* the inner dict of a route object *)
Definition pro_inner (j : json) : res (list (string * json)) :=
  match j with
  | JObj kv => match jget "path-route-object" kv with Some (JObj inner) => Ok inner | _ => Err "KeyError:path-route-object" end
  | _ => Err "TypeError:route object"
  end.

Fixpoint csv_hops (objs : list json) : res (list string) :=
  match objs with
  | [] => Ok []
  | j :: t =>
      let* inner := pro_inner j in
      let* r := csv_hops t in
      match jget "num-unnum-hop" inner with
      | None => Ok r
      | Some (JObj h) => match jget "node-id" h with Some (JStr s) => Ok (s :: r) | _ => Err "KeyError:node-id" end
      | Some _ => Err "TypeError:num-unnum-hop"
      end
  end.
Fixpoint csv_labels (objs : list json) : res (list string) :=
  match objs with
  | [] => Ok []
  | j :: t =>
      let* inner := pro_inner j in
      let* r := csv_labels t in
      match jget "label-hop" inner with
      | None => Ok r
      | Some (JArr ls) =>
          let* ns := py_elems ls "N" in
          let* ms := py_elems ls "M" in
          Ok ((py_list ns ++ ", " ++ py_list ms)%string :: r)
      | Some _ => Err "TypeError:label-hop"
      end
  end.
(* list(OrderedDict.fromkeys(l)) *)
Fixpoint uniq (seen : list string) (l : list string) : list string :=
  match l with
  | [] => []
  | x :: t => if mem_s x seen then uniq seen t else x :: uniq (x :: seen) t
  end.

(* _get_srce_dest_trx(objs, emitter_index, receiver_index) with receiver_index = -back *)
Definition get_srce_dest_trx (objs : list json) (emit back : nat) : res (string * string * string * option string) :=
  let hop_id (j : json) : res string :=
    let* inner := pro_inner j in
    match jget "num-unnum-hop" inner with
    | Some (JObj h) => match jget "node-id" h with Some (JStr s) => Ok s | _ => Err "KeyError:node-id" end
    | _ => Err "KeyError:num-unnum-hop"
    end in
  match nth_error objs 0, (if (back <=? length objs)%nat then nth_error objs (length objs - back) else None),
        nth_error objs emit with
  | Some j0, Some jr, Some je =>
      let* src := hop_id j0 in
      let* dst := hop_id jr in
      let* inner := pro_inner je in
      match jget "transponder" inner with
      | Some (JObj t) =>
          match jget "transponder-type" t, jget "transponder-mode" t with
          | Some (JStr ty), Some (JStr m) => Ok (src, dst, ty, Some m)
          | Some (JStr ty), Some JNull => Ok (src, dst, ty, None)
          | _, _ => Err "KeyError:transponder-type"
          end
      | _ => Err "KeyError:transponder"
      end
  | _, _, _ => Err "IndexError:route objects"
  end.

Definition PATH_FIELDS : list string :=
  ["path_bandwidth"; "OSNR-0.1nm (average)"; "SNR-0.1nm (average)"; "SNR-bandwidth (average)"; "SNR-0.1nm (min)";
   "SNR-0.1nm (max)"; "PDL_penalty"; "CD_penalty"; "PMD_penalty"; "min required OSNR (inc. margin)";
   "baud rate (Gbaud)"; "input power (dBm)"; "path"; "spectrum (N,M)"; "bit rate"]%string.
Definition REV_FIELDS : list string :=
  ["reversed path OSNR-0.1nm (average)"; "reversed path SNR-0.1nm (average)"; "reversed path SNR-bandwidth (average)";
   "reversed path SNR-0.1nm (min)"; "reversed path SNR-0.1nm (max)"; "reversed path PDL_penalty";
   "reversed path CD_penalty"; "reversed path PMD_penalty"]%string.

Definition giga : Q := 1000000000 # 1.

(* _jsontoparams: (the 15 values of PATH_FIELDS, cost) *)
Definition jsontoparams (pp : list (string * json)) (ty : string) (mode : option string)
           (eqp : eqpt) (margin pdbm : Q) : res (list cell * Q) :=
  match jget "path-route-objects" pp with
  | Some (JArr objs) =>
      let* hops := csv_hops objs in
      let* labs := csv_labels objs in
      match mode with
      | None => Err "TypeError:no mode"
      | Some m =>
          match sget ty eqp with
          | None => Err "KeyError:transceiver type"
          | Some modes =>
              match find (fun r => String.eqb (m_format r) m) modes with
              | None => Err "StopIteration:mode"
              | Some md =>
                  let* ms := jsontopath_metric (jget "path-metric" pp) pdbm in
                  match ms with
                  | [osnr; snr; snrbw; smin; smax; pdl; cd; pmd; power; bw] =>
                      Ok ([bw; osnr; snr; snrbw; smin; smax; pdl; cd; pmd; CNum (m_osnr md + margin)%Q;
                           CNum (round2q (m_baud md / giga)); power; CStr (join " | " hops);
                           CStr (join " | " (uniq [] labs)); CNum (round2q (m_bitrate md / giga))],
                          m_cost md)
                  | _ => Err "unreachable"
                  end
              end
          end
      end
  | _ => Err "KeyError:path-route-objects"
  end.

Definition cell_ge (a b : cell) : res bool :=
  match a, b with
  | CNum x, CNum y => Ok (Qle_bool y x)
  | _, _ => Err "TypeError:>="
  end.

(* one row of jsontocsv: only the non-empty fields *)
Definition csv_row (eqp : eqpt) (margin pdbm : Q) (resp : json) : res (list (string * cell)) :=
  match resp with
  | JObj kv =>
      match jget "response-id" kv with
      | Some (JStr id) =>
          let base := [("response-id"%string, CStr id)] in
          match jget "no-path" kv with
          | Some (JObj np) =>
              match jget "no-path" np with
              | Some (JStr reason) =>
                  if mem_s reason BLOCKING_NOPATH then Ok (base ++ [("Pass?"%string, CStr reason)])
                  else
                    match jget "path-properties" np with
                    | Some (JObj pp) =>
                        match jget "path-route-objects" pp with
                        | Some (JArr objs) =>
                            let* (src, dst, ty, mode) := get_srce_dest_trx objs 1 2 in
                            let* (vals, _) := jsontoparams pp ty mode eqp margin pdbm in
                            let* rev := match jget "z-a-path-metric" pp with
                                        | None => Ok []
                                        | Some za => let* r := jsontopath_metric (Some za) pdbm in
                                                     Ok (combine REV_FIELDS r)
                                        end in
                            Ok (base ++ [("Pass?"%string, CStr reason); ("source"%string, CStr src);
                                         ("destination"%string, CStr dst); ("transponder-type"%string, CStr ty);
                                         ("transponder-mode"%string, match mode with Some m => CStr m | None => CEmpty end)]
                                     ++ combine (tl PATH_FIELDS) (tl vals) ++ rev)
                        | _ => Err "KeyError:path-route-objects"
                        end
                    | _ => Err "KeyError:path-properties"
                    end
              | _ => Err "KeyError:no-path"
              end
          | Some _ => Err "TypeError:no-path"
          | None =>
              match jget "path-properties" kv with
              | Some (JObj pp) =>
                  match jget "path-route-objects" pp with
                  | Some (JArr objs) =>
                      let* (src, dst, ty, mode) := get_srce_dest_trx objs 2 3 in
                      let* (vals, cost) := jsontoparams pp ty mode eqp margin pdbm in
                      match nth_error vals 4, nth_error vals 2, nth_error vals 9, nth_error vals 0, nth_error vals 14 with
                      | Some smin, Some snr, Some minosnr, Some (CNum bw), Some (CNum br) =>
                          let* pass := match smin with CEmpty => cell_ge snr minosnr | _ => cell_ge smin minosnr end in
                          if Qeq_bool br 0 then Err "ZeroDivisionError" else
                          let nb := Qceiling (bw / br) in
                          let* rev := match jget "z-a-path-metric" pp with
                                      | None => Ok []
                                      | Some za => let* r := jsontopath_metric (Some za) pdbm in
                                                   Ok (combine REV_FIELDS r)
                                      end in
                          Ok (base ++ [("Pass?"%string, CBool pass); ("source"%string, CStr src);
                                       ("destination"%string, CStr dst); ("transponder-type"%string, CStr ty);
                                       ("transponder-mode"%string, match mode with Some m => CStr m | None => CEmpty end);
                                       ("nb of tsp pairs"%string, CNum (inject_Z nb));
                                       ("total cost"%string, CNum (inject_Z nb * cost)%Q)]
                                   ++ combine PATH_FIELDS vals ++ rev)
                      | _, _, _, _, _ => Err "TypeError:row values"
                      end
                  | _ => Err "KeyError:path-route-objects"
                  end
              | _ => Err "KeyError:path-properties"
              end
          end
      | _ => Err "KeyError:response-id"
      end
  | _ => Err "TypeError:response"
  end.
