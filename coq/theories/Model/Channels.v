(* Executable model of the channel-set handling of gnpy (property C07):
     gnpy/core/info.py      SpectralInformation.__init__ (argsort + overlap / baud checks), __add__,
                            select_channels, is_in_band, demuxed_spectral_information, muxed_spectral_information
     gnpy/core/utils.py     filter_valid_amp_bands, remove_duplicates, calculate_spacing (default_design_bands=None),
                            find_common_range
     gnpy/topology/request.py   find_elements_common_range, filter_si, the element loop of propagate
     gnpy/core/elements.py  Edfa.__call__ (band filtering), Multiband_amplifier.__call__ (dispatch / re-merge)
   Definitions only; proofs are in Proofs/Channels.v.  Every Python exception is an explicit Err.

   Numbers are exact rationals (Q).  The model never computes a stored value: frequencies, baud rates, slot
   widths and band edges are only compared, so every output record is literally one of the input records.

   A spectral information is the list of its channels in array order.  One channel carries every per-channel
   array of the SpectralInformation object that identifies it (frequency, baud rate, slot width, label, the
   transmitter data) plus `chist`, the list of the amplifier stages that processed it (most recent first): the
   physical per-channel payload (power, ASE, NLI, CD, ...) is not modelled here (C01-C06), only *which*
   amplifier acted on *which* channel. *)
From Coq Require Import QArith.
From Verif Require Import Prelude.
Open Scope Q_scope.

(* ---------- comparisons on Q as booleans ---------- *)
Definition qle (a b : Q) : bool := Qle_bool a b.
Definition qlt (a b : Q) : bool := negb (Qle_bool b a).
Definition qeqb (a b : Q) : bool := Qeq_bool a b.
(* Python max(a, b) / min(a, b): the first argument unless the second is strictly larger / smaller *)
Definition qmax (a b : Q) : Q := if qlt a b then b else a.
Definition qmin (a b : Q) : Q := if qlt b a then b else a.
Definition half (x : Q) : Q := x * (1 # 2).

(* ---------- channels ---------- *)
Record chan := mkC {
  cid : Z;            (* harness identifier of the launched carrier (not an array of gnpy) *)
  cf : Q;             (* frequency *)
  cbaud : Q;          (* baud_rate *)
  cslot : Q;          (* slot_width *)
  clabel : string;    (* label *)
  ctx : list Q;       (* transmitter data: tx_osnr, tx_power, delta_pdb_per_channel, roll_off, ... *)
  chist : list Z      (* uids of the amplifier stages that processed this channel, most recent first *)
}.
Definition si := list chan.

Definition clo (c : chan) : Q := cf c - half (cslot c).   (* lower edge of the slot *)
Definition chi (c : chan) : Q := cf c + half (cslot c).   (* upper edge of the slot *)

(* ---------- numpy argsort (stable on the sizes used; ties are discussed in Proofs/Channels.v) ---------- *)
Fixpoint insert_by {A} (key : A -> Q) (x : A) (l : list A) : list A :=
  match l with
  | [] => [x]
  | y :: t => if qle (key x) (key y) then x :: l else y :: insert_by key x t
  end.
Definition sort_by {A} (key : A -> Q) (l : list A) : list A := fold_right (insert_by key) [] l.

(* ---------- SpectralInformation.__init__  (info.py:57-90) ---------- *)
(* frequency[:-1] + slot_width[:-1] / 2 > frequency[1:] - slot_width[1:] / 2 *)
Definition adj_over (a b : chan) : bool := qlt (clo b) (chi a).
Fixpoint adj_overlap (l : list chan) : bool :=
  match l with
  | a :: (b :: _) as t => adj_over a b || adj_overlap t
  | _ => false
  end.
(* baud_rate > slot_width *)
Definition exceeds (c : chan) : bool := qlt (cslot c) (cbaud c).

Definition E_overlap : string := "SpectrumError:overlap".
Definition E_baud : string := "SpectrumError:baud".
Definition E_sum : string := "SpectrumError:sum".
Definition E_empty : string := "ValueError:liste vide".
Definition E_noband : string := "ValueError:no band".

Definition mk_si (l : list chan) : res si :=
  let s := sort_by cf l in
  if adj_overlap s then Err E_overlap
  else if existsb exceeds s then Err E_baud
  else Ok s.

(* SpectralInformation.__add__ : every SpectrumError of the constructor is re-raised as "cannot be summed" *)
Definition si_add (a b : si) : res si :=
  match mk_si (a ++ b) with
  | Ok s => Ok s
  | Err _ => Err E_sum
  end.

(* ---------- bands ---------- *)
Record band := mkB { bmin : Q; bmax : Q; bsp : option Q }.

(* is_in_band *)
Definition in_band (b : band) (c : chan) : bool := qle (bmin b) (clo c) && qle (chi c) (bmax b).
Definition in_some (bs : list band) (c : chan) : bool := existsb (fun b => in_band b c) bs.

(* select_channels: a new SpectralInformation from the selected entries *)
Definition select (p : chan -> bool) (s : si) : res si := mk_si (filter p s).

(* demuxed_spectral_information: None when no channel is selected *)
Definition demux (s : si) (b : band) : res (option si) :=
  match filter (in_band b) s with
  | [] => Ok None
  | sel => let* r := mk_si sel in Ok (Some r)
  end.

(* muxed_spectral_information: l[0] + mux(l[1:]) *)
Fixpoint mux (l : list si) : res si :=
  match l with
  | [] => Err E_empty
  | [s] => Ok s
  | s :: t => let* r := mux t in si_add s r
  end.

(* the loop of filter_si: demux on every band, keep what is not None *)
Fixpoint demux_all (bs : list band) (s : si) : res (list si) :=
  match bs with
  | [] => Ok []
  | b :: t =>
      let* d := demux s b in
      let* r := demux_all t s in
      Ok (match d with Some x => x :: r | None => r end)
  end.

Definition filter_bands (cr : list band) (s : si) : res si :=
  let* parts := demux_all cr s in
  match parts with
  | [] => Err E_noband
  | _ => mux parts
  end.

(* ---------- find_common_range (utils.py:689-749) ---------- *)
(* a band dictionary as found in params.bands: f_min / f_max / spacing may be missing *)
Record rband := mkRB { rmin : option Q; rmax : option Q; rsp : option Q }.
Definition raw_of (b : band) : rband := mkRB (Some (bmin b)) (Some (bmax b)) (bsp b).

Fixpoint valid_amp (a : list rband) : option (list band) :=
  match a with
  | [] => Some []
  | r :: t =>
      match rmin r, rmax r, valid_amp t with
      | Some lo, Some hi, Some v => Some (mkB lo hi (rsp r) :: v)
      | _, _, _ => None
      end
  end.
(* filter_valid_amp_bands *)
Definition filter_valid (amps : list (list rband)) : list (list band) :=
  flat_map (fun a => match valid_amp a with Some v => [v] | None => [] end) amps.

Definition oq_eqb (a b : option Q) : bool :=
  match a, b with Some x, Some y => qeqb x y | None, None => true | _, _ => false end.
Definition band_eqb (a b : band) : bool :=
  qeqb (bmin a) (bmin b) && qeqb (bmax a) (bmax b) && oq_eqb (bsp a) (bsp b).
Fixpoint list_eqb {A} (e : A -> A -> bool) (a b : list A) : bool :=
  match a, b with
  | [], [] => true
  | x :: ta, y :: tb => e x y && list_eqb e ta tb
  | _, _ => false
  end.
(* remove_duplicates *)
Definition remove_dups (l : list (list band)) : list (list band) :=
  fold_left (fun acc a => if existsb (list_eqb band_eqb a) acc then acc else acc ++ [a]) l [].

(* calculate_spacing with default_design_bands = None (the way request.py calls it) *)
Definition spacing_of (f s : band) (dflt : Q) : Q :=
  match bsp f, bsp s with
  | Some a, Some b => qmax a b
  | Some a, None => a
  | None, Some b => b
  | None, None => dflt
  end.

Definition inter (dflt : Q) (f s : band) : list band :=
  let lo := qmax (bmin f) (bmin s) in
  let hi := qmin (bmax f) (bmax s) in
  if qlt lo hi then [mkB lo hi (Some (spacing_of f s dflt))] else [].

Definition cr_step (dflt : Q) (cr bands : list band) : list band :=
  flat_map (fun f => flat_map (inter dflt f) bands) cr.

(* the common range of already validated amplifiers (Step 2 non-empty case and Step 3) *)
Definition common_of (dflt : Q) (u : list (list band)) : list band :=
  match u with
  | [] => []
  | first :: _ => sort_by bmin (fold_left (cr_step dflt) u first)
  end.

Definition find_common_range (amps : list (list rband)) (dmin dmax : option Q) (dsp : Q) : list band :=
  match remove_dups (map (sort_by bmin) (filter_valid amps)) with
  | [] => match dmin, dmax with
          | Some a, Some b => [mkB a b None]
          | _, _ => []
          end
  | u => common_of dsp u
  end.

(* ---------- path elements ---------- *)
Record amp := mkA { auid : Z; abands : list band }.        (* an Edfa: uid + params.bands *)
Inductive elem :=
| EPass (uid : Z)                                           (* Transceiver, Roadm, Fiber, RamanFiber, Fused *)
| EEdfa (a : amp)
| EMulti (uid : Z) (mbands : list band) (subs : list amp).  (* params.bands and the per-band amplifiers *)

(* find_elements_common_range: [n.params.bands for n in path if isinstance(n, (Edfa, Multiband_amplifier))] *)
Definition elem_bands (e : elem) : list (list band) :=
  match e with
  | EPass _ => []
  | EEdfa a => [abands a]
  | EMulti _ mb _ => [mb]
  end.
Definition path_bands (path : list elem) : list (list band) := flat_map elem_bands path.

Definition path_common_range (path : list elem) (dmin dmax : option Q) (dsp : Q) : list band :=
  find_common_range (map (map raw_of) (path_bands path)) dmin dmax dsp.

(* filter_si *)
Definition filter_si (path : list elem) (dmin dmax : option Q) (dsp : Q) (s : si) : res si :=
  filter_bands (path_common_range path dmin dmax dsp) s.

Definition stamp (u : Z) (c : chan) : chan :=
  mkC (cid c) (cf c) (cbaud c) (cslot c) (clabel c) (ctx c) (u :: chist c).

(* Edfa.__call__: band = next(b for b in self.params.bands); demux; None -> ValueError; propagate *)
Definition edfa_call (a : amp) (s : si) : res si :=
  match abands a with
  | [] => Err "StopIteration:bands"
  | b :: _ =>
      let* d := demux s b in
      match d with
      | None => Err "ValueError:amp band"
      | Some s' => Ok (map (stamp (auid a)) s')
      end
  end.

(* Multiband_amplifier.__call__: for each amp: demux on amp.params.bands[0]; if not None: amp(si) *)
Fixpoint multi_parts (subs : list amp) (s : si) : res (list si) :=
  match subs with
  | [] => Ok []
  | a :: t =>
      match abands a with
      | [] => Err "IndexError:bands"
      | b :: _ =>
          let* d := demux s b in
          match d with
          | None => multi_parts t s
          | Some s' =>
              let* o := edfa_call a s' in
              let* r := multi_parts t s in
              Ok (o :: r)
          end
      end
  end.
Definition multi_call (subs : list amp) (s : si) : res si :=
  let* parts := multi_parts subs s in
  match parts with
  | [] => Err "ValueError:multiband"
  | _ => mux parts
  end.

Definition elem_call (e : elem) (s : si) : res si :=
  match e with
  | EPass _ => Ok s
  | EEdfa a => edfa_call a s
  | EMulti _ _ subs => multi_call subs s
  end.

(* the element loop of propagate; also returns the spectrum seen after every element *)
Fixpoint propagate_path (path : list elem) (s : si) : res si :=
  match path with
  | [] => Ok s
  | e :: t => let* s' := elem_call e s in propagate_path t s'
  end.

Fixpoint propagate_trace (path : list elem) (s : si) : list (res si) :=
  match path with
  | [] => []
  | e :: t =>
      match elem_call e s with
      | Ok s' => Ok s' :: propagate_trace t s'
      | Err m => [Err m]
      end
  end.

(* request.propagate up to the receiver: build, filter once, run the path *)
Definition launch (path : list elem) (dmin dmax : option Q) (dsp : Q) (l : list chan) : res si :=
  let* s0 := mk_si l in
  let* s1 := filter_si path dmin dmax dsp s0 in
  propagate_path path s1.
