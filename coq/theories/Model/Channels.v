(* Executable model of the channel-set handling of gnpy (property C07):
     gnpy/core/info.py      SpectralInformation.__init__ (argsort + overlap / baud checks), __add__,
                            select_channels, is_in_band, demuxed_spectral_information, muxed_spectral_information
     gnpy/core/utils.py     filter_valid_amp_bands, remove_duplicates, calculate_spacing (default_design_bands=None),
                            find_common_range
     gnpy/topology/request.py   find_elements_common_range, filter_si, the element loop of propagate
     gnpy/core/elements.py  Edfa.__call__ (band filtering), Multiband_amplifier.__call__ (dispatch / re-merge)
   Definitions only; proofs are in Proofs/Channels.v.  Every Python exception is an explicit Err.

   Numbers are exact rationals (Q).  The model never computes a stored value: frequencies, baud rates, slot
   widths and band edges are only compared, so every output record is literally one of the input records.

   A spectral information is the list of its channels in array order.  One channel carries every per-channel
   array of the SpectralInformation object that identifies it (frequency, baud rate, slot width, label, the
   transmitter data) plus `chist`, the list of the amplifier stages that processed it (most recent first): the
   physical per-channel payload (power, ASE, NLI, CD, ...) is not modelled here (C01-C06), only *which*
   amplifier acted on *which* channel. *)
From Coq Require Import QArith Qround.
From Verif Require Import Prelude.
Open Scope Q_scope.

(* ---------- comparisons on Q as booleans ---------- *)
Definition qle (a b : Q) : bool := Qle_bool a b.
Definition qlt (a b : Q) : bool := negb (Qle_bool b a).
Definition qeqb (a b : Q) : bool := Qeq_bool a b.
(* Python max(a, b) / min(a, b): the first argument unless the second is strictly larger / smaller *)
Definition qmax (a b : Q) : Q := if qlt a b then b else a.
Definition qmin (a b : Q) : Q := if qlt b a then b else a.
Definition half (x : Q) : Q := x * (1 # 2).

(* ---------- channels ---------- *)
Record chan := mkC {
  cid : Z;            (* harness identifier of the launched carrier (not an array of gnpy) *)
  cf : Q;             (* frequency *)
  cbaud : Q;          (* baud_rate *)
  cslot : Q;          (* slot_width *)
  clabel : string;    (* label *)
  ctx : list Q;       (* transmitter data: tx_osnr, tx_power, delta_pdb_per_channel, roll_off, ... *)
  chist : list Z      (* uids of the amplifier stages that processed this channel, most recent first *)
}.
Definition si := list chan.

Definition clo (c : chan) : Q := cf c - half (cslot c).   (* lower edge of the slot *)
Definition chi (c : chan) : Q := cf c + half (cslot c).   (* upper edge of the slot *)

(* ---------- numpy argsort (stable on the sizes used; ties are discussed in Proofs/Channels.v) ---------- *)
Fixpoint insert_by {A} (key : A -> Q) (x : A) (l : list A) : list A :=
  match l with
  | [] => [x]
  | y :: t => if qle (key x) (key y) then x :: l else y :: insert_by key x t
  end.
Definition sort_by {A} (key : A -> Q) (l : list A) : list A := fold_right (insert_by key) [] l.

(* ---------- SpectralInformation.__init__  (info.py:57-90) ---------- *)
(* frequency[:-1] + slot_width[:-1] / 2 > frequency[1:] - slot_width[1:] / 2 *)
Definition adj_over (a b : chan) : bool := qlt (clo b) (chi a).
Fixpoint adj_overlap (l : list chan) : bool :=
  match l with
  | a :: (b :: _) as t => adj_over a b || adj_overlap t
  | _ => false
  end.
(* baud_rate > slot_width *)
Definition exceeds (c : chan) : bool := qlt (cslot c) (cbaud c).

Definition E_overlap : string := "SpectrumError:overlap".
Definition E_baud : string := "SpectrumError:baud".
Definition E_sum : string := "SpectrumError:sum".
Definition E_empty : string := "ValueError:liste vide".
Definition E_noband : string := "ValueError:no band".

(* the two checks made on the sorted arrays *)
Definition check_si (s : si) : res si :=
  if adj_overlap s then Err E_overlap
  else if existsb exceeds s then Err E_baud
  else Ok s.

Definition mk_si (l : list chan) : res si := check_si (sort_by cf l).

(* SpectralInformation.__add__ : every SpectrumError of the constructor is re-raised as "cannot be summed" *)
Definition si_add (a b : si) : res si :=
  match mk_si (a ++ b) with
  | Ok s => Ok s
  | Err _ => Err E_sum
  end.

(* ---------- bands ---------- *)
Record band := mkB { bmin : Q; bmax : Q; bsp : option Q }.

(* is_in_band *)
Definition in_band (b : band) (c : chan) : bool := qle (bmin b) (clo c) && qle (chi c) (bmax b).
Definition in_some (bs : list band) (c : chan) : bool := existsb (fun b => in_band b c) bs.

(* select_channels: a new SpectralInformation from the selected entries *)
Definition select (p : chan -> bool) (s : si) : res si := mk_si (filter p s).

(* demuxed_spectral_information: None when no channel is selected *)
Definition demux (s : si) (b : band) : res (option si) :=
  match filter (in_band b) s with
  | [] => Ok None
  | sel => let* r := mk_si sel in Ok (Some r)
  end.

(* muxed_spectral_information: l[0] + mux(l[1:]) *)
Fixpoint mux (l : list si) : res si :=
  match l with
  | [] => Err E_empty
  | [s] => Ok s
  | s :: t => let* r := mux t in si_add s r
  end.

(* the loop of filter_si: demux on every band, keep what is not None *)
Fixpoint demux_all (bs : list band) (s : si) : res (list si) :=
  match bs with
  | [] => Ok []
  | b :: t =>
      let* d := demux s b in
      let* r := demux_all t s in
      Ok (match d with Some x => x :: r | None => r end)
  end.

Definition filter_bands (cr : list band) (s : si) : res si :=
  let* parts := demux_all cr s in
  match parts with
  | [] => Err E_noband
  | _ => mux parts
  end.

(* ---------- find_common_range (utils.py:689-749) ---------- *)
(* a band dictionary as found in params.bands: f_min / f_max / spacing may be missing *)
Record rband := mkRB { rmin : option Q; rmax : option Q; rsp : option Q }.
Definition raw_of (b : band) : rband := mkRB (Some (bmin b)) (Some (bmax b)) (bsp b).

Fixpoint valid_amp (a : list rband) : option (list band) :=
  match a with
  | [] => Some []
  | r :: t =>
      match rmin r, rmax r, valid_amp t with
      | Some lo, Some hi, Some v => Some (mkB lo hi (rsp r) :: v)
      | _, _, _ => None
      end
  end.
(* filter_valid_amp_bands *)
Definition filter_valid (amps : list (list rband)) : list (list band) :=
  flat_map (fun a => match valid_amp a with Some v => [v] | None => [] end) amps.

Definition oq_eqb (a b : option Q) : bool :=
  match a, b with Some x, Some y => qeqb x y | None, None => true | _, _ => false end.
Definition band_eqb (a b : band) : bool :=
  qeqb (bmin a) (bmin b) && qeqb (bmax a) (bmax b) && oq_eqb (bsp a) (bsp b).
Fixpoint list_eqb {A} (e : A -> A -> bool) (a b : list A) : bool :=
  match a, b with
  | [], [] => true
  | x :: ta, y :: tb => e x y && list_eqb e ta tb
  | _, _ => false
  end.
(* remove_duplicates *)
Definition remove_dups (l : list (list band)) : list (list band) :=
  fold_left (fun acc a => if existsb (list_eqb band_eqb a) acc then acc else acc ++ [a]) l [].

(* get_spacing_from_band: spacing of the first design band containing the midpoint (which may itself be None) *)
Fixpoint spacing_from_band (ddb : list band) (mid : Q) : option Q :=
  match ddb with
  | [] => None
  | b :: t => if qle (bmin b) mid && qle mid (bmax b) then bsp b else spacing_from_band t mid
  end.

(* default spacing and default_design_bands ([] = None / empty: both are falsy in Python) *)
Definition spdef : Type := (Q * list band)%type.

(* calculate_spacing *)
Definition spacing_of (d : spdef) (f s : band) (lo hi : Q) : Q :=
  match bsp f, bsp s with
  | Some a, Some b => qmax a b
  | Some a, None => a
  | None, Some b => b
  | None, None =>
      match snd d with
      | [] => fst d
      | ddb => match spacing_from_band ddb (half (lo + hi)) with Some x => x | None => fst d end
      end
  end.

Definition inter (d : spdef) (f s : band) : list band :=
  let lo := qmax (bmin f) (bmin s) in
  let hi := qmin (bmax f) (bmax s) in
  if qlt lo hi then [mkB lo hi (Some (spacing_of d f s lo hi))] else [].

Definition cr_step (d : spdef) (cr bands : list band) : list band :=
  flat_map (fun f => flat_map (inter d f) bands) cr.

(* the common range of already validated amplifiers (Step 2 non-empty case and Step 3) *)
Definition common_of (d : spdef) (u : list (list band)) : list band :=
  match u with
  | [] => []
  | first :: _ => sort_by bmin (fold_left (cr_step d) u first)
  end.

(* find_common_range(amp_bands, default_band_f_min, default_band_f_max, default_spacing, default_design_bands) *)
Definition find_common_range_gen (amps : list (list rband)) (dmin dmax : option Q) (dsp : Q) (ddb : list band)
  : list band :=
  match remove_dups (map (sort_by bmin) (filter_valid amps)) with
  | [] => match dmin, dmax with
          | Some a, Some b => [mkB a b None]
          | _, _ => []
          end
  | u => common_of (dsp, ddb) u
  end.

(* the way request.find_elements_common_range calls it: default_design_bands = None *)
Definition find_common_range (amps : list (list rband)) (dmin dmax : option Q) (dsp : Q) : list band :=
  find_common_range_gen amps dmin dmax dsp [].

(* ---------- path elements ---------- *)
Record amp := mkA { auid : Z; abands : list band }.        (* an Edfa: uid + params.bands *)
Inductive elem :=
| EPass (uid : Z)                                           (* Transceiver, Roadm, Fiber, RamanFiber, Fused *)
| EEdfa (a : amp)
| EMulti (uid : Z) (mbands : list band) (subs : list amp).  (* params.bands and the per-band amplifiers *)

(* find_elements_common_range: [n.params.bands for n in path if isinstance(n, (Edfa, Multiband_amplifier))] *)
Definition elem_bands (e : elem) : list (list band) :=
  match e with
  | EPass _ => []
  | EEdfa a => [abands a]
  | EMulti _ mb _ => [mb]
  end.
Definition path_bands (path : list elem) : list (list band) := flat_map elem_bands path.

Definition path_common_range (path : list elem) (dmin dmax : option Q) (dsp : Q) : list band :=
  find_common_range (map (map raw_of) (path_bands path)) dmin dmax dsp.

(* filter_si *)
Definition filter_si (path : list elem) (dmin dmax : option Q) (dsp : Q) (s : si) : res si :=
  filter_bands (path_common_range path dmin dmax dsp) s.

Definition stamp (u : Z) (c : chan) : chan :=
  mkC (cid c) (cf c) (cbaud c) (cslot c) (clabel c) (ctx c) (u :: chist c).

(* Edfa.__call__: band = next(b for b in self.params.bands); demux; None -> ValueError; propagate *)
Definition edfa_call (a : amp) (s : si) : res si :=
  match abands a with
  | [] => Err "StopIteration:bands"
  | b :: _ =>
      let* d := demux s b in
      match d with
      | None => Err "ValueError:amp band"
      | Some s' => Ok (map (stamp (auid a)) s')
      end
  end.

(* Multiband_amplifier.__call__: for each amp: demux on amp.params.bands[0]; if not None: amp(si) *)
Fixpoint multi_parts (subs : list amp) (s : si) : res (list si) :=
  match subs with
  | [] => Ok []
  | a :: t =>
      match abands a with
      | [] => Err "IndexError:bands"
      | b :: _ =>
          let* d := demux s b in
          match d with
          | None => multi_parts t s
          | Some s' =>
              let* o := edfa_call a s' in
              let* r := multi_parts t s in
              Ok (o :: r)
          end
      end
  end.
Definition multi_call (subs : list amp) (s : si) : res si :=
  let* parts := multi_parts subs s in
  match parts with
  | [] => Err "ValueError:multiband"
  | _ => mux parts
  end.

Definition elem_call (e : elem) (s : si) : res si :=
  match e with
  | EPass _ => Ok s
  | EEdfa a => edfa_call a s
  | EMulti _ _ subs => multi_call subs s
  end.

(* the element loop of propagate; also returns the spectrum seen after every element *)
Fixpoint propagate_path (path : list elem) (s : si) : res si :=
  match path with
  | [] => Ok s
  | e :: t => let* s' := elem_call e s in propagate_path t s'
  end.

Fixpoint propagate_trace (path : list elem) (s : si) : list (res si) :=
  match path with
  | [] => []
  | e :: t =>
      match elem_call e s with
      | Ok s' => Ok s' :: propagate_trace t s'
      | Err m => [Err m]
      end
  end.

(* request.propagate up to the receiver: build, filter once, run the path *)
Definition launch (path : list elem) (dmin dmax : option Q) (dsp : Q) (l : list chan) : res si :=
  let* s0 := mk_si l in
  let* s1 := filter_si path dmin dmax dsp s0 in
  propagate_path path s1.

(* ====================================================================================================
   Construction of the launched spectrum
   ==================================================================================================== *)

(* ---------- SpectralInformation.__init__ as written: column-wise ----------
   indices = argsort(frequency); every per-channel array is re-indexed with `indices`; then the two checks.
   (mk_si above is the row-wise view; Proofs/Channels.v shows that both coincide.) *)
Record cols := mkCols {
  q_id : list Z; q_f : list Q; q_baud : list Q; q_slot : list Q; q_label : list string;
  q_osnr : list Q; q_txp : list Q; q_dpdb : list Q; q_ro : list Q      (* tx_osnr, tx_power, delta_pdb_per_channel, roll_off *)
}.
Definition row (cs : cols) (i : nat) : chan :=
  mkC (nth i (q_id cs) 0%Z) (nth i (q_f cs) 0) (nth i (q_baud cs) 0) (nth i (q_slot cs) 0) (nth i (q_label cs) ""%string)
      [nth i (q_osnr cs) 0; nth i (q_txp cs) 0; nth i (q_dpdb cs) 0; nth i (q_ro cs) 0] [].
Definition rows (cs : cols) : list chan := map (row cs) (seq 0 (length (q_f cs))).

Definition argsort (fs : list Q) : list nat := sort_by (fun i => nth i fs 0) (seq 0 (length fs)).
Definition take {A} (d : A) (col : list A) (idx : list nat) : list A := map (fun i => nth i col d) idx.
Definition reindex (cs : cols) (idx : list nat) : cols :=
  mkCols (take 0%Z (q_id cs) idx) (take 0 (q_f cs) idx) (take 0 (q_baud cs) idx) (take 0 (q_slot cs) idx)
         (take ""%string (q_label cs) idx) (take 0 (q_osnr cs) idx) (take 0 (q_txp cs) idx) (take 0 (q_dpdb cs) idx)
         (take 0 (q_ro cs) idx).
Definition mk_si_cols (cs : cols) : res si := check_si (rows (reindex cs (argsort (q_f cs)))).

(* create_arbitrary_spectral_information with list arguments: numpy.full(number_of_channels, x) raises
   "could not broadcast" when a list has another length -> SpectrumError('Dimension mismatch in input fields.') *)
Definition E_dim : string := "SpectrumError:dimension".
Definition cols_wf (cs : cols) : bool :=
  let n := length (q_f cs) in
  Nat.eqb (length (q_id cs)) n && Nat.eqb (length (q_baud cs)) n && Nat.eqb (length (q_slot cs)) n &&
  Nat.eqb (length (q_label cs)) n && Nat.eqb (length (q_osnr cs)) n && Nat.eqb (length (q_txp cs)) n &&
  Nat.eqb (length (q_dpdb cs)) n && Nat.eqb (length (q_ro cs)) n.
Definition create_arbitrary_cols (cs : cols) : res si :=
  if cols_wf cs then mk_si_cols cs else Err E_dim.

(* ---------- carriers_to_spectral_information ----------
   initial_spectrum is a dict frequency -> Carrier; one list per attribute is built from keys() / values() in
   dict order, then create_arbitrary_spectral_information. *)
Record carrier := mkK {
  k_id : Z; k_baud : Q; k_slot : Q; k_label : string; k_osnr : Q; k_txp : Q; k_dpdb : Q; k_ro : Q
}.
Definition cols_of_dict (d : list (Q * carrier)) : cols :=
  mkCols (map (fun kv => k_id (snd kv)) d) (map fst d) (map (fun kv => k_baud (snd kv)) d)
         (map (fun kv => k_slot (snd kv)) d) (map (fun kv => k_label (snd kv)) d) (map (fun kv => k_osnr (snd kv)) d)
         (map (fun kv => k_txp (snd kv)) d) (map (fun kv => k_dpdb (snd kv)) d) (map (fun kv => k_ro (snd kv)) d).
Definition carriers_to_si (d : list (Q * carrier)) : res si := create_arbitrary_cols (cols_of_dict d).
(* the channel a dict entry describes *)
Definition chan_of (kv : Q * carrier) : chan :=
  let k := snd kv in
  mkC (k_id k) (fst kv) (k_baud k) (k_slot k) (k_label k) [k_osnr k; k_txp k; k_dpdb k; k_ro k] [].

(* ---------- create_input_spectral_information (uniform grid) ----------
   number_of_channels = automatic_nch(f_min, f_max, spacing) = int((f_max - f_min) // spacing)
   frequency = [f_min + spacing * i for i in range(1, number_of_channels + 1)], slot_width = spacing *)
Definition E_zero : string := "ZeroDivisionError:float floor division by zero".
Definition automatic_nch (fmin fmax sp : Q) : res Z :=
  if qeqb sp 0 then Err E_zero else Ok (Qfloor ((fmax - fmin) / sp)).

Fixpoint grid_from (mk : Z -> chan) (i : Z) (k : nat) : list chan :=
  match k with
  | O => []
  | S k' => mk i :: grid_from mk (i + 1)%Z k'
  end.
(* channel number i (cid = i): label and transmitter data are the same for all channels *)
Definition grid_chan (fmin sp baud : Q) (label : string) (tx : list Q) (i : Z) : chan :=
  mkC i (fmin + sp * inject_Z i) baud sp label tx [].
Definition grid_chans (fmin sp baud : Q) (label : string) (tx : list Q) (n : Z) : list chan :=
  grid_from (grid_chan fmin sp baud label tx) 1%Z (Z.to_nat n).
(* delta_pdb * ones(number_of_channels): numpy refuses a negative dimension *)
Definition E_negdim : string := "ValueError:negative dimensions are not allowed".
Definition create_input_si (fmin fmax sp baud : Q) (label : string) (tx : list Q) : res si :=
  let* n := automatic_nch fmin fmax sp in
  if (n <? 0)%Z then Err E_negdim else mk_si (grid_chans fmin sp baud label tx n).
