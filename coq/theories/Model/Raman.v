(* C05, Raman on — Num-polymorphic models (NumR: theorems, NumF: executed) of
     RamanSolver.calculate_unidirectional_stimulated_raman_scattering, method 'perturbative', orders 0-4,
     RamanSolver.iterative_algorithm (forward Euler sweep of the co-propagating waves, backward Euler sweep of the
       counter-propagating waves, stopping rule)
   as gnpy/core/science_utils.py computes them.  Definitions only.

   A power profile is a list of COLUMNS: one list (all waves) per grid point.  The grid is given as the code
   receives it: positions z (z[0] = 0) and the merged lumped-loss factors (1 where there is none). *)
From Coq Require Import List ZArith Bool.
From Verif Require Import Prelude Num.
Import ListNotations.

Section Raman.
Context {N : Num}.
Local Open Scope num_scope.
Notation T := (NT N).

Definition neqb (a b : T) : bool := (a <=? b) && (b <=? a).
Definition vmap2 (f : T -> T -> T) (a b : list T) : list T := map (fun ab => f (fst ab) (snd ab)) (combine a b).
Definition vmap3 (f : T -> T -> T -> T) (a b c : list T) : list T :=
  map (fun abc => f (fst abc) (fst (snd abc)) (snd (snd abc))) (combine a (combine b c)).
Definition ndot (r p : list T) : T := nsum (vmap2 nmul r p).
Definition zeros (l : list T) : list T := map (fun _ => nzero) l.
Definition two : T := #2.

(* ------------------------------------------------------------------------------------------------
   perturbative solver.  State of the current segment (between two lumped losses): start position, launch
   powers p0 = power at the start * lumped loss, previous zeta, previous integrands and running trapezoid
   integrals of orders 2, 3, 4. *)
Record pstate := mkPS {
  ps_z0 : T; ps_p0 : list T; ps_zeta : T;
  ps_f2 : list T; ps_f3 : list T; ps_f4 : list T;
  ps_i2 : list T; ps_i3 : list T; ps_i4 : list T }.

Definition seg_start (z0 : T) (p0 : list T) : pstate :=
  mkPS z0 p0 nzero (zeros p0) (zeros p0) (zeros p0) (zeros p0) (zeros p0) (zeros p0).

(* effective lengths  1/alpha * (1 - exp(-alpha zeta)) *)
Definition expz (alpha : list T) (zeta : T) : list T := map (fun a => nexp (- (a * zeta))) alpha.
Definition eff_lengths (alpha : list T) (zeta : T) : list T :=
  vmap2 (fun a e => (none / a) * (none - e)) alpha (expz alpha zeta).
(* crpz[j][k] = cr[j][k] * p0[k] *)
Definition crp (cr : list (list T)) (p0 : list T) : list (list T) := map (fun row => vmap2 nmul row p0) cr.
Definition trapz (i fp f : list T) (dz : T) : list T := vmap3 (fun i0 a b => i0 + (a + b) / two * dz) i fp f.

(* one grid point of the current segment: the power of every wave there and the updated running state *)
Definition pert_point (order : Z) (alpha : list T) (cr : list (list T)) (st : pstate) (z : T) : list T * pstate :=
  let zeta := z - ps_z0 st in
  let dz := zeta - ps_zeta st in
  let e := expz alpha zeta in
  let c := crp cr (ps_p0 st) in
  let g1 := map (fun row => ndot row (eff_lengths alpha zeta)) c in
  let f2 := vmap2 nmul e g1 in
  let i2 := trapz (ps_i2 st) (ps_f2 st) f2 dz in
  let g2 := map (fun row => ndot row i2) c in
  let f3 := vmap2 nmul e (vmap2 (fun b a => b + none / two * (a * a)) g2 g1) in
  let i3 := trapz (ps_i3 st) (ps_f3 st) f3 dz in
  let g3 := map (fun row => ndot row i3) c in
  let f4 := vmap2 nmul e (vmap3 (fun c3 a b => c3 + a * b + none / #6 * (a * a * a)) g3 g1 g2) in
  let i4 := trapz (ps_i4 st) (ps_f4 st) f4 dz in
  let g4 := map (fun row => ndot row i4) c in
  let base := map (fun a => - (a * zeta)) alpha in
  let ex1 := if (1 <=? order)%Z then vmap2 nadd base g1 else base in
  let ex2 := if (2 <=? order)%Z then vmap2 nadd ex1 g2 else ex1 in
  let ex3 := if (3 <=? order)%Z then vmap2 nadd ex2 g3 else ex2 in
  let ex4 := if (4 <=? order)%Z then vmap2 nadd ex3 g4 else ex3 in
  let pw := vmap2 (fun p x => p * nexp x) (ps_p0 st) ex4 in
  (pw, mkPS (ps_z0 st) (ps_p0 st) zeta f2 f3 f4 i2 i3 i4).

(* walk over the grid; a lumped loss different from 1 closes the segment AFTER its point has been written *)
Fixpoint pert_walk (order : Z) (alpha : list T) (cr : list (list T)) (st : pstate) (grid : list (T * T))
  : list (list T) :=
  match grid with
  | [] => []
  | (z, ll) :: t =>
      let '(pw, st') := pert_point order alpha cr st z in
      let st'' := if neqb ll none then st' else seg_start z (map (fun p => p * ll) pw) in
      pw :: pert_walk order alpha cr st'' t
  end.
Definition pert_profile (order : Z) (alpha : list T) (cr : list (list T)) (grid : list (T * T)) (p : list T)
  : list (list T) :=
  pert_walk order alpha cr (seg_start nzero (map (fun x => x * none) p)) grid.

(* ------------------------------------------------------------------------------------------------
   iterative co / counter algorithm.  nco = number of co-propagating waves (they come first in every column). *)
Definition step_col (alpha : list T) (cr : list (list T)) (src : list T) (dz ll : T) : list T :=
  map (fun t => let '(p, (a, row)) := t in p * (none + (- a + ndot row src) * dz) * ll)
      (combine src (combine alpha cr)).

(* dz[k] = z[k+1] - z[k] *)
Definition dzs (z : list T) : list T := vmap2 nsub (tl z) z.

(* forward sweep: column i gets its co part from column i-1 (already updated), with dz[i-1] and lumped[i-1] *)
Fixpoint fwd_from (nco : nat) (alpha : list T) (cr : list (list T)) (prev : list T) (rest : list (list T))
         (dz ll : list T) : list (list T) :=
  match rest, dz, ll with
  | c :: rest', d :: dz', l :: ll' =>
      let c' := firstn nco (step_col alpha cr prev d l) ++ skipn nco c in
      c' :: fwd_from nco alpha cr c' rest' dz' ll'
  | _, _, _ => []
  end.
Definition fwd_sweep (nco : nat) (alpha : list T) (cr : list (list T)) (cols : list (list T)) (dz ll : list T)
  : list (list T) :=
  match cols with
  | [] => []
  | c0 :: rest => c0 :: fwd_from nco alpha cr c0 rest dz ll
  end.

(* backward sweep, written on the reversed arrays: the i-th step (i = 1, 2, ...) starts from column -i and uses
   dz[-i] and lumped[-i]; column -i-1 gets its counter part *)
Fixpoint bwd_from (nco : nat) (alpha : list T) (cr : list (list T)) (prev : list T) (rest : list (list T))
         (rdz rll : list T) : list (list T) :=
  match rest, rdz, rll with
  | c :: rest', d :: rdz', l :: rll' =>
      let c' := firstn nco c ++ skipn nco (step_col alpha cr prev d l) in
      c' :: bwd_from nco alpha cr c' rest' rdz' rll'
  | _, _, _ => []
  end.
Definition bwd_sweep (nco : nat) (alpha : list T) (cr : list (list T)) (cols : list (list T)) (dz ll : list T)
  : list (list T) :=
  match rev cols with
  | [] => []
  | cl :: rest => rev (cl :: bwd_from nco alpha cr cl rest (rev dz) (rev ll))
  end.

Definition sweep (nco : nat) (alpha : list T) (cr : list (list T)) (z ll : list T) (cols : list (list T))
  : list (list T) :=
  bwd_sweep nco alpha cr (fwd_sweep nco alpha cr cols (dzs z) ll) (dzs z) ll.

(* stopping rule *)
Definition nmaxl (l : list T) : T := fold_left nmax l nzero.
Definition residue (prev next : list (list T)) : T :=
  nmaxl (map (fun pn => nmaxl (vmap2 (fun p n => nabs ((n - p) / n)) (fst pn) (snd pn))) (combine prev next)).
(* accuracy of the co-propagating waves: |(dpdz_exp - dpdz_num) / dpdz_exp| at every point but the last *)
Definition accuracy (nco : nat) (alpha : list T) (cr : list (list T)) (dz ll : list T) (cols : list (list T)) : T :=
  nmaxl (map (fun t => let '(c, (cn, (d, l))) := t in
              nmaxl (firstn nco
                (map (fun u => let '(p, (pn, (a, row))) := u in
                        let dnum := (pn - p) / d in
                        let dexp := p * (- a + ndot row c) * l in
                        nabs ((dexp - dnum) / dexp))
                     (combine c (combine cn (combine alpha cr))))))
           (combine cols (combine (tl cols) (combine dz ll)))).

Fixpoint iterate (fuel : nat) (nco : nat) (alpha : list T) (cr : list (list T)) (z ll : list T)
         (prev : list (list T)) (res acc : T) (it : Z) : list (list T) * Z * T * T :=
  match fuel with
  | O => (prev, it, res, acc)
  | S fuel' =>
      if (dec 1 (-6) <? res) && (dec 1 (-3) <? acc) then
        let next := sweep nco alpha cr z ll prev in
        iterate fuel' nco alpha cr z ll next (residue prev next) (accuracy nco alpha cr (dzs z) ll next) (it + 1)
      else (prev, it, res, acc)
  end.
(* iterative_algorithm: residue = accuracy = 1 initially, at most 1000 iterations *)
Definition iterative_algorithm (nco : nat) (alpha : list T) (cr : list (list T)) (z ll : list T)
           (cols : list (list T)) : list (list T) * Z * T * T :=
  iterate 1000 nco alpha cr z ll cols none none 0%Z.
End Raman.
