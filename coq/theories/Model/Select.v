(* C10 — executable model of the automatic amplifier selection, over Q (dB).  Definitions only (no lemmas).

   Modelled code (as it is in /repo now):
     gnpy/core/network.py   select_edfa (72-136), filter_edfa_list_based_on_targets (772-877),
                            get_node_restrictions, Edfa branch (1088-1152), the emptiness test of
                            set_egress_amplifier (1234-1238), the library filter and raman_allowed of
                            set_one_amplifier (1011-1026)
     gnpy/core/utils.py     merge_amplifier_restrictions (315-335) for the 'restrictions' sub-dict of a ROADM

   Conventions.  Gains/losses dB, powers dBm, frequencies Hz, all exact rationals.  The equipment library is the
   list of its entries in dict (= JSON) order.  The noise figure of a candidate at the required gain
   (network.edfa_nf) is an input  nf : amp -> Q  (the NF model is property C04's subject).
   Every place where Python raises is an  Err "Type:detail". *)
From Coq Require Import QArith Qminmax.
From Verif Require Import Prelude.
Open Scope Q_scope.

(* one entry of equipment['Edfa'] : the attributes the selection reads *)
Record amp := mkAmp {
  a_name : string;      (* type_variety (dict key) *)
  a_multi : bool;       (* type_def == 'multi_band' *)
  a_raman : bool;
  a_allowed : bool;     (* allowed_for_design *)
  a_fmin : Q; a_fmax : Q;
  a_gmin : Q;           (* gain_min *)
  a_gmax : Q;           (* gain_flatmax *)
  a_pmax : Q;
  a_voa_auto : bool     (* out_voa_auto (read by the design, C09) *)
}.

Definition qltb (x y : Q) : bool := negb (Qle_bool y x).          (* x < y *)

Fixpoint smem (s : string) (l : list string) : bool :=
  match l with [] => false | x :: t => String.eqb x s || smem s t end.
Definition isnil {A} (l : list A) : bool := match l with [] => true | _ => false end.

(* ------------------------------------------------------------------ filter_edfa_list_based_on_targets *)
(* Edfa_list.power : min(pin + gain_flatmax + target_extended_gain, p_max) - power_target, pin = power_target - gain_target *)
Definition pow_margin (ext gain pt : Q) (a : amp) : Q :=
  Qmin ((pt - gain) + a_gmax a + ext) (a_pmax a) - pt.
(* Edfa_list.gain_min : 3 dB of extended minimum gain for EDFAs, none for Raman *)
Definition gain_margin (gain : Q) (a : amp) : Q :=
  if a_raman a then gain - a_gmin a else gain + 3 - a_gmin a.

Definition edfa_list (lib : list amp) : list amp := filter (fun a => negb (a_raman a)) lib.
Definition raman_list (ra : bool) (lib : list amp) : list amp := if ra then filter a_raman lib else [].
Definition amp_list (ra : bool) (lib : list amp) : list amp := edfa_list lib ++ raman_list ra lib.

(* acceptable_gain_min_list, with its fall-back to all EDFAs and its ConfigurationError *)
Definition acc_gain (ra : bool) (gain : Q) (lib : list amp) : res (list amp) :=
  match filter (fun a => qltb 0 (gain_margin gain a)) (amp_list ra lib) with
  | [] => match edfa_list lib with
          | [] => Err "ConfigurationError:auto_design could not find any amplifier to satisfy min gain requirement"
          | el => Ok el
          end
  | l => Ok l
  end.

(* max(l, key=power).power *)
Definition max_pow (pw : amp -> Q) (h : amp) (t : list amp) : Q := fold_left (fun m a => Qmax m (pw a)) t (pw h).

(* acceptable_power_list, with its fall-back to the amplifiers within 0.3 dB of the best available power *)
Definition acc_power (ext gain pt : Q) (l : list amp) : list amp :=
  let pw := pow_margin ext gain pt in
  match filter (fun a => qltb 0 (pw a)) l with
  | [] => match l with
          | [] => []
          | h :: t => let pm := max_pow pw h t in filter (fun a => qltb (- (3 # 10)) (pw a - pm)) l
          end
  | l' => l'
  end.

(* min(l, key=nf): the first element whose key is minimal *)
Fixpoint first_min (nf : amp -> Q) (best : amp) (l : list amp) : amp :=
  match l with
  | [] => best
  | a :: t => if qltb (nf a) (nf best) then first_min nf a t else first_min nf best t
  end.

(* select_edfa: the chosen entry and the power reduction *)
Definition select_edfa (ra : bool) (gain pt ext : Q) (nf : amp -> Q) (lib : list amp) : res (amp * Q) :=
  let* g := acc_gain ra gain lib in
  match acc_power ext gain pt g with
  | [] => Err "ValueError:min() arg is an empty sequence"
  | h :: t => let s := first_min nf h t in Ok (s, Qmin (pow_margin ext gain pt s) 0)
  end.

(* ------------------------------------------------------------------ get_node_restrictions (Edfa) *)
(* what the selection needs to know about a neighbour of the amplifier *)
Inductive neigh :=
| NRoadm (booster_list preamp_list : list string)     (* restrictions['booster_variety_list'], ['preamp_variety_list'] *)
| NFiber (loss_coefs : list Q)                        (* params.loss_coef, dB/m, one or several frequencies *)
| NOther.

(* merge_amplifier_restrictions on one key of 'restrictions': the element's own value (even if empty) wins over the library's *)
Definition eff_restr (elem : option (list string)) (libl : list string) : list string :=
  match elem with Some l => l | None => libl end.

(* the amplifier node: params.type_variety ("" = to be selected) and its own variety_list ([] = none) *)
Record anode := mkNode { n_variety : string; n_vlist : list string }.

(* the restriction list that applies, by precedence: own list > booster list of a preceding ROADM >
   preamp list of a following ROADM > none (an empty list at one level lets the next level decide) *)
Definition restr_list (nd : anode) (prev next : neigh) : list string :=
  match n_vlist nd with
  | _ :: _ => n_vlist nd
  | [] =>
      match prev with
      | NRoadm (b :: bl) _ => b :: bl
      | _ => match next with
             | NRoadm _ (p :: pl) => p :: pl
             | _ => []
             end
      end
  end.

Definition covers (a : amp) (bmin bmax : Q) : bool := Qle_bool (a_fmin a) bmin && Qle_bool bmax (a_fmax a).

Definition node_restrictions (nd : anode) (prev next : neigh) (bmin bmax : Q) (lib : list amp) : list string :=
  if negb (String.eqb (n_variety nd) "") then [n_variety nd]
  else
    let r := restr_list nd prev next in
    map a_name (filter (fun a => negb (a_multi a) && covers a bmin bmax
                                 && (smem (a_name a) r || (isnil r && a_allowed a))) lib).

(* set_one_amplifier 1011-1016.  max_lineic = max_fiber_lineic_loss_for_raman * 1e-3, the limit in dB/m as the code
   compares it with loss_coef (the unit conversion is made by the harness, with the same float product) *)
Fixpoint all_lt (l : list Q) (x : Q) : bool := match l with [] => true | y :: t => qltb y x && all_lt t x end.
Definition raman_allowed (prev : neigh) (max_lineic : Q) : bool :=
  match prev with NFiber lcs => all_lt lcs max_lineic | _ => false end.

(* set_one_amplifier 1018-1021 *)
Definition restrict_lib (restr : list string) (lib : list amp) : list amp :=
  filter (fun a => negb (a_multi a) && smem (a_name a) restr) lib.

(* auto-design of one amplifier without imposed type_variety:
   set_egress_amplifier 1234-1238 + set_one_amplifier 1011-1026 *)
Definition auto_select (nd : anode) (prev next : neigh) (bmin bmax max_lineic gain pt ext : Q)
                       (nf : amp -> Q) (lib : list amp) : res (amp * Q) :=
  match node_restrictions nd prev next bmin bmax lib with
  | [] => Err "ConfigurationError:no amplifier matching the design bands and the restrictions"
  | r => select_edfa (raman_allowed prev max_lineic) gain pt ext nf (restrict_lib r lib)
  end.

(* ------------------------------------------------------------------ margins whose sign decides (for the tie rule of the harness) *)
Definition qabs (x : Q) : Q := if Qle_bool 0 x then x else - x.
Definition qmin_list (d : Q) (l : list Q) : Q := fold_left Qmin l d.
(* smallest distance to a decision threshold met while selecting among lib: gain margins, power margins,
   distance to the 0.3 dB window *)
Definition select_crit (ra : bool) (gain pt ext : Q) (lib : list amp) : Q :=
  let al := amp_list ra lib in
  let pw := pow_margin ext gain pt in
  let c1 := map (fun a => qabs (gain_margin gain a)) al in
  let c2 := map (fun a => qabs (pw a)) al in
  let c3 := match acc_gain ra gain lib with
            | Ok (h :: t) => let pm := max_pow pw h t in
                             map (fun a => qabs (pw a - pm + (3 # 10))) (h :: t)
            | _ => []
            end in
  qmin_list 1 (c1 ++ c2 ++ c3).

(* ------------------------------------------------------------------ multiband amplifiers *)
(* Modelled code: get_node_restrictions, Multiband_amplifier branch (1129-1145); preselect_multiband_amps (880-953);
   equipment.find_type_varieties / find_type_variety (92-136); the Multiband_amplifier branch of
   set_egress_amplifier (1247-1281: per band restriction filter, set_one_amplifier's library filter 1018-1021).
   A multiband model (type_def 'multi_band') is a named group of single-band entries. *)
Record mgroup := mkG { g_name : string; g_allowed : bool; g_members : list string }.

Fixpoint lookup_amp (n : string) (lib : list amp) : option amp :=
  match lib with [] => None | a :: t => if String.eqb (a_name a) n then Some a else lookup_amp n t end.
Fixpoint lookup_group (n : string) (gs : list mgroup) : option mgroup :=
  match gs with [] => None | g :: t => if String.eqb (g_name g) n then Some g else lookup_group n t end.

Definition covers_name (lib : list amp) (bmin bmax : Q) (t : string) : bool :=
  match lookup_amp t lib with Some a => covers a bmin bmax | None => false end.
Definition covers_any (lib : list amp) (bands : list (Q * Q)) (t : string) : bool :=
  existsb (fun b => covers_name lib (fst b) (snd b) t) bands.

(* get_node_restrictions for a Multiband_amplifier: the multiband models of the applicable restriction list (or, when
   none applies, those allowed for design) all of whose member amplifiers cover one of the design bands *)
Definition multi_restrictions (nd : anode) (prev next : neigh) (bands : list (Q * Q)) (lib : list amp)
                              (groups : list mgroup) : list string :=
  if negb (String.eqb (n_variety nd) "") then [n_variety nd]
  else
    let r := restr_list nd prev next in
    map g_name (filter (fun g => (smem (g_name g) r || (isnil r && g_allowed g))
                                 && forallb (covers_any lib bands) (g_members g)) groups).

(* keys of a dict comprehension: first occurrences, in order *)
Fixpoint dedup_acc (seen l : list string) : list string :=
  match l with [] => [] | x :: t => if smem x seen then dedup_acc seen t else x :: dedup_acc (x :: seen) t end.
Definition dedup (l : list string) : list string := dedup_acc [] l.

Definition members_of (groups : list mgroup) (sel : list string) : list string :=
  flat_map (fun m => match lookup_group m groups with Some g => g_members g | None => [] end) sel.
(* find_type_varieties for one single-band entry: every multiband model of the LIBRARY that lists it *)
Definition groups_of (groups : list mgroup) (t : string) : list string :=
  map g_name (filter (fun g => smem t (g_members g)) groups).

(* edfa_eqpt of one band in preselect_multiband_amps *)
Definition band_cands (lib : list amp) (groups : list mgroup) (sel : list string) (bmin bmax : Q) : list amp :=
  flat_map (fun t => match lookup_amp t lib with
                     | Some a => if covers a bmin bmax then [a] else []
                     | None => []
                     end) (dedup (members_of groups sel)).

(* preselect_multiband_amps: band after band (bmin, bmax, gain target, power target), keep - among the permitted
   multiband models restr0, in their order - those that list an amplifier passing the gain/power filter (Raman always
   allowed here); returns the surviving models *)
Fixpoint preselect (lib : list amp) (groups : list mgroup) (ext : Q) (restr0 sel : list string)
                   (bts : list (Q * Q * Q * Q)) : res (list string) :=
  match bts with
  | [] => Ok sel
  | (bmin, bmax, gain, pt) :: rest =>
      let* acc := acc_gain true gain (band_cands lib groups sel bmin bmax) in
      let chosen := map a_name (acc_power ext gain pt acc) in
      let union := flat_map (groups_of groups) chosen in
      preselect lib groups ext restr0 (filter (fun m => smem m union) restr0) rest
  end.

(* the selection of one band's amplifier once restrictions_edfa is known: the per band filter of
   set_egress_amplifier, then set_one_amplifier's `if restrictions:` (an empty list restricts nothing) *)
Definition band_select (lib : list amp) (redfa : list string) (prev : neigh) (maxl bmin bmax gain pt ext : Q)
                       (nf : amp -> Q) : res (amp * Q) :=
  let r := filter (covers_name lib bmin bmax) redfa in
  let eq := filter (fun a => negb (a_multi a) && (isnil r || smem (a_name a) r)) lib in
  select_edfa (raman_allowed prev maxl) gain pt ext nf eq.

(* restrictions_edfa of a Multiband_amplifier node without imposed type_variety *)
Definition multi_redfa (nd : anode) (prev next : neigh) (lib : list amp) (groups : list mgroup) (ext : Q)
                       (bts : list (Q * Q * Q * Q)) : res (list string * list string) :=
  let mr := multi_restrictions nd prev next (map (fun b => (fst (fst (fst b)), snd (fst (fst b)))) bts) lib groups in
  if negb (String.eqb (n_variety nd) "") then
    match lookup_group (n_variety nd) groups with
    | Some g => Ok (mr, g_members g)
    | None => Err "KeyError:type_variety"
    end
  else
    let* sel := preselect lib groups ext mr mr bts in Ok (mr, members_of groups sel).

(* find_type_variety: the chosen single-band entries must belong to one multiband model of the library *)
Definition common_groups (groups : list mgroup) (chosen : list string) : list string :=
  map g_name (filter (fun g => forallb (fun t => smem t (g_members g)) chosen) groups).

(* smallest margin met by the preselection filters *)
Fixpoint presel_crit (lib : list amp) (groups : list mgroup) (ext : Q) (restr0 sel : list string)
                     (bts : list (Q * Q * Q * Q)) : Q :=
  match bts with
  | [] => 1
  | (bmin, bmax, gain, pt) :: rest =>
      let cands := band_cands lib groups sel bmin bmax in
      Qmin (select_crit true gain pt ext cands)
           (match acc_gain true gain cands with
            | Ok acc => presel_crit lib groups ext restr0
                          (filter (fun m => smem m (flat_map (groups_of groups) (map a_name (acc_power ext gain pt acc))))
                                  restr0) rest
            | Err _ => 1
            end)
  end.

