(* C12 — disjunction: executable definitions only (proofs in Proofs/Disjoint.v).

   Models : isdisjoint (request.py:912-919), the "short list" of step 1 of compute_path_dsjctn (730-731),
            deduplicate_disjunctions (1108-1116, with Python's remove-while-iterating semantics),
            compare_reqs.same_disj + requests_aggregation on ids and groups (985-1052, as repaired).
   Spec   : links = unordered ROADM pairs crossed by a path, disjoint_ok = validator of a set of returned paths,
            exists_disjoint_pair = decision procedure over the complete enumeration of Model/Route.v,
            covered_ok = validator "every declared pair is still declared after aggregation".
   The five pruning steps of compute_path_dsjctn are NOT re-implemented: their output is judged. *)
From Verif Require Import Prelude Model.Route.
Open Scope Z_scope.

(* ------------------------------------------------------------------ isdisjoint *)
Fixpoint pairwise (l : list Z) : list (Z * Z) :=            (* networkx.utils.pairwise *)
  match l with
  | a :: ((b :: _) as t) => (a, b) :: pairwise t
  | _ => []
  end.
Definition pair_eqb (x y : Z * Z) : bool := (fst x =? fst y) && (snd x =? snd y).
Fixpoint mem_pair (x : Z * Z) (l : list (Z * Z)) : bool :=
  match l with [] => false | y :: t => if pair_eqb x y then true else mem_pair x t end.
Fixpoint any_in (e1 e2 : list (Z * Z)) : bool :=
  match e1 with [] => false | e :: t => if mem_pair e e2 then true else any_in t e2 end.
(* "returns 0 if disjoint" *)
Definition isdisjoint (p1 p2 : list Z) : Z := if any_in (pairwise p1) (pairwise p2) then 1 else 0.

(* [e.uid for i, e in enumerate(pth[1:-1]) if isinstance(e, Roadm) | isinstance(pth[i], Roadm)] *)
Fixpoint short_aux (n : net) (prev : Z) (l : list Z) : list Z :=
  match l with
  | [] => []
  | e :: t => (if is_roadm n e || is_roadm n prev then [e] else []) ++ short_aux n e t
  end.
Definition short_list (n : net) (pth : list Z) : list Z :=
  match removelast pth with [] => [] | first :: rest => short_aux n first rest end.

(* ------------------------------------------------------------------ links and the validator *)
Definition norm (ab : Z * Z) : Z * Z := if fst ab <=? snd ab then ab else (snd ab, fst ab).
(* ROADM-to-ROADM links crossed by p; a link and its opposite direction are the same link *)
Definition links (n : net) (p : list Z) : list (Z * Z) := map norm (pairwise (roadms n p)).
Definition share (l1 l2 : list (Z * Z)) : bool := any_in l1 l2.

Fixpoint path_of (paths : list (Z * list Z)) (r : Z) : list Z :=
  match paths with [] => [] | (x, p) :: t => if x =? r then p else path_of t r end.

Fixpoint all_pairs_ok (f : Z -> Z -> bool) (l : list Z) : bool :=
  match l with [] => true | a :: t => forallb (f a) t && all_pairs_ok f t end.
Definition pair_ok (n : net) (paths : list (Z * list Z)) (a b : Z) : bool :=
  (a =? b) || negb (share (links n (path_of paths a)) (links n (path_of paths b))).
(* groups : request ids declared mutually disjoint; paths : request id -> returned path *)
Definition disjoint_ok (n : net) (paths : list (Z * list Z)) (groups : list (list Z)) : bool :=
  forallb (all_pairs_ok (pair_ok n paths)) groups.

(* ------------------------------------------------------------------ existence of a disjoint pair of routes *)
Fixpoint existsb_lazy {A} (f : A -> bool) (l : list A) : bool :=
  match l with [] => false | x :: t => if f x then true else existsb_lazy f t end.
(* candidate routes: simple paths from s to t crossing inc in order, at most cutoff edges (all_simple_paths cutoff) *)
Definition cands (n : net) (s t : Z) (inc : list Z) (cutoff : nat) : list (list Z) :=
  filter (fun p => ispart inc p && (length p <=? S cutoff)%nat) (all_routes (ngraph n) s t).
Definition exists_disjoint_pair (n : net) (s1 t1 : Z) (inc1 : list Z) (s2 t2 : Z) (inc2 : list Z) (cutoff : nat) : bool :=
  let l2 := map (links n) (cands n s2 t2 inc2 cutoff) in
  existsb_lazy (fun p1 => let l1 := links n p1 in existsb_lazy (fun l => negb (share l1 l)) l2)
               (cands n s1 t1 inc1 cutoff).

(* ------------------------------------------------------------------ existence of a disjoint assignment for a whole batch:
   one route per request such that any two requests named together in some group get link-disjoint routes.
   Backtracking over the complete candidate lists (if/then/else so that vm_compute prunes). *)
Definition conflict (groups : list (list Z)) (a b : Z) : bool :=
  negb (a =? b) && existsb (fun grp => memZ a grp && memZ b grp) groups.
Definition item := (Z * list (Z * Z))%type.                       (* request id, links of the route chosen for it *)
Definition compat (groups : list (list Z)) (x y : item) : bool :=
  negb (conflict groups (fst x) (fst y)) || negb (share (snd x) (snd y)).
Fixpoint assign (groups : list (list Z)) (rqs : list (Z * list (list (Z * Z)))) (chosen : list item) : bool :=
  match rqs with
  | [] => true
  | (r, cs) :: rest =>
      existsb_lazy (fun l => if forallb (compat groups (r, l)) chosen then assign groups rest ((r, l) :: chosen) else false) cs
  end.
(* a request of the batch: id, source, destination, include list that must be met *)
Definition breq := (Z * Z * Z * list Z)%type.
Definition b_id (r : breq) : Z := fst (fst (fst r)).
Definition b_src (r : breq) : Z := snd (fst (fst r)).
Definition b_dst (r : breq) : Z := snd (fst r).
Definition b_inc (r : breq) : list Z := snd r.
Definition exists_disjoint_assignment (n : net) (cutoff : nat) (groups : list (list Z)) (rqs : list breq) : bool :=
  assign groups (map (fun r => (b_id r, map (links n) (cands n (b_src r) (b_dst r) (b_inc r) cutoff))) rqs) [].

(* ------------------------------------------------------------------ request ids and groups
   a request id is the list of the original ids it aggregates ("a | b" = a ++ b) *)
Definition rid := list Z.
Record grp := mkG { gid : Z; members : list rid }.

Fixpoint rid_mem (x : rid) (l : list rid) : bool :=
  match l with [] => false | y :: t => if zlist_eqb x y then true else rid_mem x t end.
Definition rid_incl (a b : list rid) : bool := forallb (fun x => rid_mem x b) a.
Definition set_eq (a b : list rid) : bool := rid_incl a b && rid_incl b a.        (* set(a) == set(b) *)

(* ------------------------------------------------------------------ deduplicate_disjunctions
   for elem in local: for dis_elem in local: if same set and different id: local.remove(dis_elem)
   Both loops run over the list being edited: a removal shifts the tail under the running index. *)
Fixpoint dd_inner (elem : grp) (l : list grp) (j : nat) (fuel : nat) : list grp :=
  match fuel with
  | O => l
  | S f =>
      match nth_error l j with
      | None => l
      | Some d =>
          if set_eq (members elem) (members d) && negb (gid elem =? gid d)
          then dd_inner elem (remove_at j l) (S j) f
          else dd_inner elem l (S j) f
      end
  end.
Fixpoint dd_outer (l : list grp) (i : nat) (fuel : nat) : list grp :=
  match fuel with
  | O => l
  | S f =>
      match nth_error l i with
      | None => l
      | Some elem => dd_outer (dd_inner elem l 0 (S (length l))) (S i) f
      end
  end.
Definition deduplicate (l : list grp) : list grp := dd_outer l 0 (S (length l)).

(* ------------------------------------------------------------------ requests_aggregation (ids and groups only)
   sig = everything compare_reqs compares besides the disjunctions (end points, bidir, transponder, lists, ...),
   encoded by the harness as one integer per distinct attribute tuple; mode = tsp_mode is not None *)
Record areq := mkA { a_id : rid; a_sig : Z; a_mode : bool }.

Fixpoint remove_first (x : rid) (l : list rid) : list rid :=           (* list.remove *)
  match l with [] => [] | y :: t => if zlist_eqb x y then t else y :: remove_first x t end.

Definition in_some (r : rid) (gs : list grp) : bool := existsb (fun d => rid_mem r (members d)) gs.

(* compare_reqs.same_disj (fix ae92a5de): both requests are declared in groups of the same shape --
   sorted(sorted(set(d.members) - {r}) for d in groups of r) equal for the two requests,
   i.e. the same multiset of sets of other members *)
Fixpoint rid_remove_all (x : rid) (l : list rid) : list rid :=
  match l with [] => [] | y :: t => if zlist_eqb x y then rid_remove_all x t else y :: rid_remove_all x t end.
Definition shape (r : rid) (gs : list grp) : list (list rid) :=
  map (fun d => rid_remove_all r (members d)) (filter (fun d => rid_mem r (members d)) gs).
Fixpoint take_seteq (a : list rid) (l : list (list rid)) : option (list (list rid)) :=
  match l with
  | [] => None
  | b :: t => if set_eq a b then Some t else match take_seteq a t with Some t' => Some (b :: t') | None => None end
  end.
Fixpoint ms_eq (l1 l2 : list (list rid)) : bool :=
  match l1 with
  | [] => match l2 with [] => true | _ => false end
  | a :: t => match take_seteq a l2 with Some l2' => ms_eq t l2' | None => false end
  end.
Definition same_disj (r1 r2 : rid) (gs : list grp) : bool :=
  match in_some r1 gs, in_some r2 gs with
  | true, true => ms_eq (shape r1 gs) (shape r2 gs)
  | false, false => true
  | _, _ => false
  end.

(* state: current id of every original request (by position), positions still in local_list, groups *)
Record astate := mkS { s_ids : list rid; s_local : list nat; s_groups : list grp }.

Definition id_at (ids : list rid) (i : nat) : rid := nth i ids [].
Fixpoint set_nth {A} (k : nat) (v : A) (l : list A) : list A :=
  match k, l with
  | _, [] => []
  | O, _ :: t => v :: t
  | S k', x :: t => x :: set_nth k' v t
  end.

(* inner loop: first this_r of local_list that can absorb req *)
Fixpoint agg_find (rqs : list areq) (st : astate) (i : nat) (cand : list nat) : option nat :=
  match cand with
  | [] => None
  | j :: t =>
      let ri := id_at (s_ids st) i in
      let rj := id_at (s_ids st) j in
      let ai := nth i rqs (mkA [] 0 false) in
      let aj := nth j rqs (mkA [] 0 false) in
      if negb (zlist_eqb ri rj) && (a_sig ai =? a_sig aj) && same_disj ri rj (s_groups st) && a_mode aj
      then Some j else agg_find rqs st i t
  end.

Definition agg_step (rqs : list areq) (st : astate) (i : nat) : astate :=
  match agg_find rqs st i (s_local st) with
  | None => st
  | Some j =>
      let ri := id_at (s_ids st) i in
      let old := id_at (s_ids st) j in
      let new := old ++ ri in                                        (* ' | '.join((this_r.id, req.id)) *)
      let gs1 := map (fun d => if rid_mem ri (members d)
                               then mkG (gid d) (remove_first ri (members d) ++ [new]) else d) (s_groups st) in
      (* for this_d in disjlist.copy(): if old in this_d: disjlist.remove(this_d)   (fix 1cefb39c) *)
      mkS (set_nth j new (s_ids st)) (filter (fun k => negb (Nat.eqb k i)) (s_local st))
          (filter (fun d => negb (rid_mem old (members d))) gs1)
  end.

Definition aggregate (rqs : list areq) (gs : list grp) : astate :=
  fold_left (agg_step rqs) (seq 0 (length rqs)) (mkS (map a_id rqs) (seq 0 (length rqs)) gs).

(* ids of the requests that are left (local_list), in order *)
Definition final_ids (st : astate) : list rid := map (id_at (s_ids st)) (s_local st).

(* ------------------------------------------------------------------ validator: declared pairs survive aggregation
   rep : original id -> id of the request that now carries it *)
Definition carries (orig : Z) (r : rid) : bool := memZ orig r.
Definition pair_covered (gs : list grp) (a b : Z) : bool :=
  existsb (fun d => existsb (fun x => carries a x &&
                     existsb (fun y => carries b y && negb (zlist_eqb x y)) (members d)) (members d)) gs.
Fixpoint all_pairs_z (f : Z -> Z -> bool) (l : list Z) : bool :=
  match l with [] => true | a :: t => forallb (fun b => (a =? b) || f a b) t && all_pairs_z f t end.
(* declared : original groups over original (atomic) ids *)
Definition covered_ok (declared : list (list Z)) (gs : list grp) : bool :=
  forallb (all_pairs_z (pair_covered gs)) declared.
(* no group refers to an id that no request carries any more *)
Definition no_stale (ids : list rid) (gs : list grp) : bool :=
  forallb (fun d => forallb (fun x => rid_mem x ids) (members d)) gs.

(* ------------------------------------------------------------------ pieces named for the translator tie (Gen/DisjointGen.v) *)
Definition search_cutoff : nat := 80.                     (* all_simple_paths(..., cutoff=80): at most 80 links *)
(* step 2: a candidate pth1 (and its reverse) against an already chosen pth; accepted when 0 *)
Definition step2_conflicts (pth1 pth1_reversed pth : list Z) : Z := isdisjoint pth1 pth + isdisjoint pth1_reversed pth.
(* step 4: the include list is tested against the FULL element path of the candidate *)
Definition step4_ok (nodes_list full_path short_path : list Z) : bool := ispart nodes_list full_path.
Definition step4_strict (strict_list : list bool) : bool := existsb (fun b => b) strict_list.
(* step 5: a group without candidate stops the computation *)
Definition step5 (has_candidates : bool) : res unit := if has_candidates then Ok tt else Err "DisjunctionError".
(* what compare_reqs compares besides the group shapes (= the signature the harness builds) *)
Definition compared_attrs : list string :=
  ["source"; "destination"; "bidir"; "tsp"; "tsp_mode"; "baud_rate"; "nodes_list"; "loose_list"; "spacing"; "power";
   "nb_channel"; "f_min"; "f_max"; "format"; "OSNR"; "roll_off"; "tx_power"]%string.
