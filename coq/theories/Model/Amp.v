(* C04 — model of an amplifier (gnpy/core/elements.py Edfa, Multiband_amplifier; science_utils.estimate_nf_model),
   polymorphic in the number structure `Num` (theorems at NumR, execution at NumF), plus the saturation clamp over Q.

   Transcription of
     Edfa.__call__ / propagate / interpol_params   band filter, input VOA, total input power, saturation clamp,
                                                   NF, gain profile, ASE, gain and output VOA
     Edfa._nf / _calc_nf                           NF models: variable_gain (nf1, nf2, delta_p), fixed_gain, openroadm
                                                   (polynomial), openroadm_preamp, openroadm_booster, advanced_model
                                                   (polynomial in the gain decrease), dual_stage; padding below gain_min
     Edfa.noise_profile                            ase = h * baud_rate * f * 10^(nf/10), referred to the input
     Edfa._gain_profile                            DGT-based profile normalised to the effective gain
     estimate_nf_model                             (nf1, nf2, delta_p) from the datasheet (nf_min, nf_max)
     Multiband_amplifier.__call__                  one Edfa per band, results muxed
   Every place where Python raises is an explicit Err.  Definitions only. *)
From Verif Require Import Prelude Num.
From Coq Require Import List QArith Qminmax.
Import ListNotations.

(* ------------------------------------------------------------------ saturation clamp, exact arithmetic *)
(* interpol_params:  self.effective_gain = min(self.effective_gain, self.params.p_max - self.pin_db)
   g = set gain [dB], pmax = maximum total output power [dBm], pin = TOTAL input power of the spectrum [dBm] *)
Definition eff_gain_q (g pmax pin : Q) : Q := Qmin g (pmax - pin).

Section Amp.
Context {N : Num}.
Local Open Scope num_scope.
Notation T := (NT N).

(* ------------------------------------------------------------------ small numeric helpers *)
Definition nneq0 (x : T) : bool := negb ((x <=? nzero) && (nzero <=? x)).
(* numpy.polyval: coefficients highest degree first *)
Definition polyval (p : list T) (x : T) : T := fold_left (fun acc c => acc * x + c) p nzero.
Definition nlen (l : list T) : T := #(Z.of_nat (length l)).
Definition nmean (l : list T) : T := nsum l / nlen l.
Fixpoint nmaxl (l : list T) (d : T) : T := match l with [] => d | x :: t => nmaxl t (nmax d x) end.
Fixpoint nminl (l : list T) (d : T) : T := match l with [] => d | x :: t => nminl t (nmin d x) end.
Fixpoint map2 {A B C} (f : A -> B -> C) (l : list A) (m : list B) : list C :=
  match l, m with a :: l', b :: m' => f a b :: map2 f l' m' | _, _ => [] end.

(* numpy.linspace(a, b, n) *)
Definition linspace (a b : T) (n : nat) : list T :=
  match n with
  | O => []
  | S O => [a]
  | S m => map (fun i => #(Z.of_nat i) * ((b - a) / #(Z.of_nat m)) + a) (seq 0 n)
  end.
(* numpy.interp(x, xs, ys): piecewise linear, constant outside *)
Fixpoint np_interp_seg (xs ys : list T) (x : T) (ylast : T) : T :=
  match xs, ys with
  | x0 :: xt, y0 :: yt =>
      match xt, yt with
      | x1 :: _, y1 :: _ =>
          if x <=? x1 then (y1 - y0) / (x1 - x0) * (x - x0) + y0 else np_interp_seg xt yt x y1
      | _, _ => y0
      end
  | _, _ => ylast
  end.
Definition np_interp (xs ys : list T) (x : T) : T :=
  match xs, ys with
  | x0 :: _, y0 :: _ => if x <=? x0 then y0 else np_interp_seg xs ys x y0
  | _, _ => nzero
  end.
(* slope of numpy.polyfit(x, y, 1): ordinary least squares *)
Definition ols_slope (xs ys : list T) : T :=
  let xm := nmean xs in
  let ym := nmean ys in
  nsum (map2 (fun x y => (x - xm) * (y - ym)) xs ys) / nsum (map (fun x => (x - xm) * (x - xm)) xs).

(* ------------------------------------------------------------------ noise-figure models *)
Inductive nf_model :=
| NFVariable (nf1 nf2 delta_p : T)      (* Model_vg, type_def variable_gain *)
| NFFixed (nf0 : T)                     (* Model_fg, fixed_gain *)
| NFOpenroadm (coef : list T)           (* Model_openroadm_ila *)
| NFOpenroadmPreamp
| NFOpenroadmBooster
| NFAdvanced (fit : list T).            (* advanced_model: nf_fit_coeff *)

Record stage := mkStage { st_model : nf_model; st_gain_min : T; st_gain_flatmax : T }.
Inductive amp_kind := Single (s : stage) | Dual (pre boost : stage).

(* NF in dB; None stands for float('-inf') (the noiseless OpenROADM booster) *)
Definition oadd (a : option T) (b : T) : option T := match a with Some x => Some (x + b) | None => None end.
Definition odb2lin (a : option T) : T := match a with Some x => db2lin x | None => nzero end.

(* Edfa._nf: returns (nf_avg + pad, pad).  pin_db, nch, slot_width are only used by the OpenROADM models *)
Definition nf_stage (s : stage) (gain_target pin_db nch slot_width : T) : option T * T :=
  let pad := nmax (st_gain_min s - gain_target) nzero in
  let gt := gain_target + pad in
  let dg := nmax (st_gain_flatmax s - gt) nzero in
  let pin50 := pin_db - lin2db nch + lin2db (dec 5 10 / slot_width) in
  let nf_avg :=
    match st_model s with
    | NFVariable nf1 nf2 dp =>
        let g1a := gt - dp - dg in
        Some (lin2db (db2lin nf1 + db2lin nf2 / db2lin g1a))
    | NFFixed nf0 => Some nf0
    | NFOpenroadm coef => Some (pin50 - polyval coef pin50 + #58)
    | NFOpenroadmPreamp => Some (pin50 - nmin ((#4 * pin50 + #275) / #7) #33 + #58)
    | NFOpenroadmBooster => None
    | NFAdvanced fit => Some (polyval fit (- dg))
    end in
  (oadd nf_avg pad, pad).

(* Edfa._calc_nf without the ripple: average NF at the effective gain *)
Definition calc_nf_avg (k : amp_kind) (eff pin_db nch slot_width : T) : option T :=
  match k with
  | Single s => fst (nf_stage s eff pin_db nch slot_width)
  | Dual pre boost =>
      let g1 := st_gain_flatmax pre in
      let g2 := eff - g1 in
      let nf1 := fst (nf_stage pre g1 pin_db nch slot_width) in
      let nf2 := fst (nf_stage boost g2 pin_db nch slot_width) in
      Some (lin2db (odb2lin nf1 + odb2lin (oadd nf2 (- g1))))
  end.

(* NF of a variable-gain amplifier as a function of the gain alone (what the theorems are about) *)
Definition nf_variable (nf1 nf2 dp gain_min gain_flatmax g : T) : T :=
  let pad := nmax (gain_min - g) nzero in
  let gt := g + pad in
  let dg := nmax (gain_flatmax - gt) nzero in
  lin2db (db2lin nf1 + db2lin nf2 / db2lin (gt - dp - dg)) + pad.

(* ------------------------------------------------------------------ estimate_nf_model *)
(* math.isclose(a, b, abs_tol = 0.01) with the default rel_tol = 1e-9 *)
Definition isclose001 (a b : T) : bool :=
  nabs (a - b) <=? nmax (dec 1 (-9) * nmax (nabs a) (nabs b)) (dec 1 (-2)).
Definition calc_nf_at (nf1 nf2 g1a : T) : T := lin2db (db2lin nf1 + db2lin nf2 / db2lin g1a).

Definition estimate_nf_model (gain_min gain_max nf_min nf_max : T) : res (T * T * T) :=
  if nf_min <? - #10 then Err "EquipmentConfigError:nf_min"
  else if nf_max <? - #10 then Err "EquipmentConfigError:nf_max"
  else
    let delta_p := #5 in
    let g1a_min := gain_min - (gain_max - gain_min) - delta_p in
    let g1a_max := gain_max - delta_p in
    let nf2 := lin2db ((db2lin nf_min - db2lin nf_max) / (none / db2lin g1a_max - none / db2lin g1a_min)) in
    let nf1 := lin2db (db2lin nf_min - db2lin nf2 / db2lin g1a_max) in
    if nf1 <? #4 then Err "EquipmentConfigError:first coil"
    else
      let fin (nf2 delta_p g1a_min g1a_max : T) : res (T * T * T) :=
        if negb (isclose001 nf_min (calc_nf_at nf1 nf2 g1a_max)) then Err "EquipmentConfigError:calc_nf_min"
        else if negb (isclose001 nf_max (calc_nf_at nf1 nf2 g1a_min)) then Err "EquipmentConfigError:calc_nf_max"
        else Ok (nf1, nf2, delta_p) in
      if ((nf1 + dec 3 (-1)) <? nf2) && (nf2 <? (nf1 + #2)) then fin nf2 delta_p g1a_min g1a_max
      else
        let nf2c := nmin (nmax nf2 (nf1 + dec 3 (-1))) (nf1 + #2) in           (* numpy.clip *)
        let g1a_max' := lin2db (db2lin nf2c / (db2lin nf_min - db2lin nf1)) in
        let delta_p' := gain_max - g1a_max' in
        let g1a_min' := gain_min - (gain_max - gain_min) - delta_p' in
        if (none <? delta_p') && (delta_p' <? #11) then fin nf2c delta_p' g1a_min' g1a_max'
        else Err "EquipmentConfigError:delta_p".

(* the branch of estimate_nf_model taken when nf1 + 0.3 < nf2 < nf1 + 2 (no clipping): closed form of the solve *)
Definition nf_solve (gain_min gain_max nf_min nf_max : T) : T * T * T :=
  let delta_p := #5 in
  let g1a_min := gain_min - (gain_max - gain_min) - delta_p in
  let g1a_max := gain_max - delta_p in
  let nf2 := lin2db ((db2lin nf_min - db2lin nf_max) / (none / db2lin g1a_max - none / db2lin g1a_min)) in
  let nf1 := lin2db (db2lin nf_min - db2lin nf2 / db2lin g1a_max) in
  (nf1, nf2, delta_p).

(* ------------------------------------------------------------------ dual stage limits (json_io._update_dual_stage) *)
(* the output stage delivers the power; the flat gains add up; a dual stage whose gain_min is below its preamp's is refused *)
Definition dual_p_max (pre_p_max boost_p_max : T) : T := boost_p_max.
Definition dual_gain_flatmax (pre_gain_flatmax boost_gain_flatmax : T) : T := boost_gain_flatmax + pre_gain_flatmax.
Definition dual_rejected (gain_min pre_gain_min : T) : bool := gain_min <? pre_gain_min.

(* ------------------------------------------------------------------ the amplifier *)
Record amp := mkAmp {
  a_kind : amp_kind;
  a_gain_flatmax : T; a_p_max : T; a_f_min : T; a_f_max : T;
  a_dgt : list T; a_gain_ripple : list T; a_nf_ripple : list T;
  (* operational *)
  a_gain_target : T; a_tilt_target : T; a_out_voa : T; a_in_voa : option T }.

(* one channel with its three power components [W] *)
Record ch := mkCh { k_f : T; k_sw : T; k_B : T; k_sig : T; k_ase : T; k_nli : T }.
Definition k_pch (c : ch) : T := k_sig c + k_ase c + k_nli c.
Definition scale_ch (g : T) (c : ch) : ch := mkCh (k_f c) (k_sw c) (k_B c) (k_sig c * g) (k_ase c * g) (k_nli c * g).
Definition add_ase_ch (x : T) (c : ch) : ch := mkCh (k_f c) (k_sw c) (k_B c) (k_sig c) (k_ase c + x) (k_nli c).

(* info.is_in_band *)
Definition in_band (fmin fmax : T) (c : ch) : bool :=
  (fmin <=? k_f c - k_sw c / #2) && (k_f c + k_sw c / #2 <=? fmax).

Definition planck : T := dec 662607015 (-42).

(* saturation clamp on the model's numbers *)
Definition eff_gain (g pmax pin_db : T) : T := nmin g (pmax - pin_db).

(* Edfa._gain_profile (simple_opt = True).  pin: per-channel input power [W]; returns the gain per channel [dB] *)
(* first estimate g1st = gain_ripple + gain_flatmax + dgt * dgts1 *)
Definition g1st_of (a : amp) (freqs dgt ripple : list T) : list T :=
  let dgt_slope := ols_slope freqs dgt in
  let targ_slope := - (a_tilt_target a) / (a_f_max a - a_f_min a) in
  let dgts1 := if nneq0 dgt_slope then targ_slope / dgt_slope else nzero in
  map2 (fun r d => r + a_gain_flatmax a + d * dgts1) ripple dgt.
(* deltax = max(g1st) - min(g1st) *)
Definition deltax_of (g1st : list T) : T :=
  match g1st with [] => nzero | g0 :: _ => nmaxl g1st g0 - nminl g1st g0 end.
(* g1st - voa with voa = lin2db(mean(db2lin(g1st))) - effective_gain: mean linear gain normalised to eff *)
Definition normalise (g1st : list T) (eff : T) : list T :=
  let voa := lin2db (nmean (map db2lin g1st)) - eff in
  map (fun g => g - voa) g1st.

(* average gain [dB] of a per-channel gain vector g on the input powers pin: watt2dbm(sum(pin*db2lin(g))) - pin_db *)
Definition gavg_of (pin g : list T) (pin_db : T) : T :=
  watt2dbm (nsum (map2 (fun p gd => p * db2lin gd) pin g)) - pin_db.
(* base + dgt * x *)
Definition tilt_by (base dgt : list T) (x : T) : list T := map2 (fun b d => b + d * x) base dgt.
(* last step of _gain_profile: DGT scaling dgts3 from the measured average gains at xcent, xlow = xcent - deltax,
   xhigh = xcent + deltax (one secant step towards the effective gain) *)
Definition secant_step (eff xcent gc xlow gl xhigh gh : T) : T :=
  let slope1 := (gl - gc) / (xlow - xcent) in
  let slope2 := (gc - gh) / (xcent - xhigh) in
  if nabs (eff - gc) <=? dec 1 (-11) then xcent
  else if eff <? gc then xcent - (gc - eff) / slope1
  else xcent + (- gc + eff) / slope2.

Definition gain_profile (a : amp) (freqs pin dgt ripple : list T) (pin_db eff : T) : list T :=
  match dgt with
  | [_] => [eff]
  | _ =>
    let g1st := g1st_of a freqs dgt ripple in
    let base := normalise g1st eff in
    let gavg (x : T) := gavg_of pin (tilt_by base dgt x) pin_db in
    let dgts2 := eff - gavg_of pin base pin_db in
    let xcent := dgts2 in
    let deltax := deltax_of g1st in
    if nabs deltax <=? dec 5 (-2) then base
    else
      let xlow := dgts2 - deltax in
      let xhigh := dgts2 + deltax in
      tilt_by base dgt (secant_step eff xcent (gavg xcent) xlow (gavg xlow) xhigh (gavg xhigh))
  end.

Record edfa_obs := mkObs {
  o_pin_db : T; o_eff : T; o_nf : list (option T); o_gprofile : list T; o_ase_in : list T; o_out : list ch }.

(* Edfa.noise_profile, one channel *)
Definition ase_in (c : ch) (nf : option T) : T := planck * k_B c * k_f c * odb2lin nf.

(* what happens to one channel: add_ase(ase) then apply_gain_db(gprofile - out_voa) *)
Definition amp_ch (out_voa : T) (c : ch) (nf : option T) (g : T) : ch :=
  scale_ch (db2lin (g - out_voa)) (add_ase_ch (ase_in c nf) c).

(* Edfa.propagate on the channels already selected for the band *)
(* noise_profile, add_ase, apply_gain_db(gprofile - out_voa) once NF and gain profile are known *)
Definition edfa_finish (a : amp) (chs : list ch) (pin_db eff : T) (nf : list (option T)) (gp : list T) : edfa_obs :=
  mkObs pin_db eff nf gp (map2 ase_in chs nf)
        (map2 (fun cn g => amp_ch (a_out_voa a) (fst cn) (snd cn) g) (combine chs nf) gp).

Definition in_voa_chs (a : amp) (sel : list ch) : list ch :=
  match a_in_voa a with
  | Some v => map (scale_ch (none / db2lin v)) sel          (* apply_attenuation_db(in_voa) *)
  | None => sel
  end.
(* interpol_params, piece by piece, on the channels after the input VOA *)
Definition grid_interp (a : amp) (tbl : list T) (chs : list ch) : list T :=
  map (np_interp (linspace (a_f_min a) (a_f_max a) (length tbl)) tbl) (map k_f chs).
Definition edfa_pin_db (chs : list ch) : T := watt2dbm (nsum (map k_pch chs)).          (* self.pin_db *)
Definition edfa_eff (a : amp) (chs : list ch) : T :=                                    (* self.effective_gain *)
  eff_gain (a_gain_target a) (a_p_max a) (edfa_pin_db chs).
(* channel_freq[1] - channel_freq[0] if nch > 1 else slot_width[0] *)
Definition edfa_slot_width (chs : list ch) : T :=
  match chs with c0 :: c1 :: _ => k_f c1 - k_f c0 | [c0] => k_sw c0 | [] => nzero end.
Definition edfa_nf (a : amp) (chs : list ch) : list (option T) :=                       (* self.nf *)
  let nf_avg := calc_nf_avg (a_kind a) (edfa_eff a chs) (edfa_pin_db chs) (nlen (map k_pch chs)) (edfa_slot_width chs) in
  map (fun r => oadd nf_avg r) (grid_interp a (a_nf_ripple a) chs).
Definition edfa_gp (a : amp) (chs : list ch) : list T :=                                (* self.gprofile *)
  gain_profile a (map k_f chs) (map k_pch chs) (grid_interp a (a_dgt a) chs) (grid_interp a (a_gain_ripple a) chs)
               (edfa_pin_db chs) (edfa_eff a chs).

Definition edfa_propagate (a : amp) (sel : list ch) : res edfa_obs :=
  let chs := in_voa_chs a sel in
  match chs with
  | _ :: _ => Ok (edfa_finish a chs (edfa_pin_db chs) (edfa_eff a chs) (edfa_nf a chs) (edfa_gp a chs))
  | [] => Err "IndexError:slot_width[0]"         (* unreachable from __call__: an empty selection is refused before *)
  end.

(* Edfa.__call__: only the channels whose slot lies inside the amplifier band are propagated (and returned) *)
Definition edfa_call (a : amp) (chans : list ch) : res edfa_obs :=
  match filter (in_band (a_f_min a) (a_f_max a)) chans with
  | [] => Err "ValueError:band"
  | sel => edfa_propagate a sel
  end.

(* Multiband_amplifier.__call__: every band amplifier on its own channels; channels in no band are dropped *)
Fixpoint multiband_call (amps : list amp) (chans : list ch) : res (list edfa_obs) :=
  match amps with
  | [] => Ok []
  | a :: t =>
      match filter (in_band (a_f_min a) (a_f_max a)) chans with
      | [] => multiband_call t chans
      | sel => let* o := edfa_propagate a sel in let* r := multiband_call t chans in Ok (o :: r)
      end
  end.
Definition multiband (amps : list amp) (chans : list ch) : res (list edfa_obs) :=
  let* r := multiband_call amps chans in
  match r with [] => Err "ValueError:band" | _ => Ok r end.
End Amp.
