(* Executable model of the power bookkeeping of gnpy/core/info.py (SpectralInformation: _pch and the
   three ratios; add_nli l.149-154, add_ase l.164-169, apply_attenuation_lin / apply_gain_lin l.281-293,
   the constructor's sort + overlap checks l.61-77, select_channels / demuxed_spectral_information,
   __add__ / muxed_spectral_information), of the op sequences the elements of gnpy/core/elements.py apply
   to it (Roadm, Fused, Fiber, RamanFiber, Edfa, Multiband_amplifier, Transceiver) and of the figures a
   Transceiver reports (_calc_snr, update_snr, utils.snr_sum) in linear units.
   Exact arithmetic over Q.  Definitions only; proofs are in Proofs/SI.v.
   dB-domain calls (apply_attenuation_db d) enter as the linear factor 10^(-d/10) computed by the harness. *)
From Verif Require Import Prelude.
From Coq Require Import QArith Qreduction.
Open Scope Q_scope.

(* one channel: centre frequency, slot width, baud rate, total power, and the three shares of it *)
Record chan := mkC { cf : Q; csw : Q; cbr : Q; pch : Q; rs : Q; ra : Q; rn : Q }.
Definition spectrum := list chan.

(* SpectralInformation.signal / .ase / .nli : powers, derived from total * share *)
Definition sig_pow (c : chan) : Q := rs c * pch c.
Definition ase_pow (c : chan) : Q := ra c * pch c.
Definition nli_pow (c : chan) : Q := rn c * pch c.

(* ---------- the four primitive updates, per channel, exactly as info.py computes them ---------- *)
(* apply_attenuation_lin:  self.pch *= attenuation_lin *)
Definition att (k : Q) (c : chan) : chan := mkC (cf c) (csw c) (cbr c) (pch c * k) (rs c) (ra c) (rn c).
(* apply_gain_lin:  self.pch *= gain_lin *)
Definition gain (g : Q) (c : chan) : chan := mkC (cf c) (csw c) (cbr c) (pch c * g) (rs c) (ra c) (rn c).
(* add_nli: nli_ratio = nli / pch; signal_ratio *= 1 - r; ase_ratio *= 1 - r; nli_ratio = nli_ratio*(1-r) + r *)
Definition add_nli (x : Q) (c : chan) : chan :=
  let r := x / pch c in
  mkC (cf c) (csw c) (cbr c) (pch c) (rs c * (1 - r)) (ra c * (1 - r)) (rn c * (1 - r) + r).
(* add_ase: pch' = pch + ase; signal_ratio *= pch/pch'; nli_ratio *= pch/pch'; ase_ratio = (ase_ratio*pch + ase)/pch' *)
Definition add_ase (x : Q) (c : chan) : chan :=
  let p' := pch c + x in
  mkC (cf c) (csw c) (cbr c) p' (rs c * (pch c / p')) ((ra c * pch c + x) / p') (rn c * (pch c / p')).

Inductive cop := CAtt (k : Q) | CGain (g : Q) | CAse (x : Q) | CNli (x : Q).
Definition cstep (o : cop) (c : chan) : chan :=
  match o with CAtt k => att k c | CGain g => gain g c | CAse x => add_ase x c | CNli x => add_nli x c end.
(* a history of primitive updates on one channel *)
Definition crun (ops : list cop) (c : chan) : chan := fold_left (fun c o => cstep o c) ops c.
(* the channel after each prefix of the history: [c0; c1; ...; c_len] *)
Fixpoint ctrace (ops : list cop) (c : chan) : list chan :=
  match ops with [] => [c] | o :: t => c :: ctrace t (cstep o c) end.

(* side conditions under which the bookkeeping is claimed (WfOps): positive factors, non-negative noise,
   and an NLI increment that does not exceed the channel power (the +10 dBm scope of the property) *)
Definition wf1b (c : chan) (o : cop) : bool :=
  match o with
  | CAtt k => negb (Qle_bool k 0)
  | CGain g => negb (Qle_bool g 0)
  | CAse x => Qle_bool 0 x
  | CNli x => Qle_bool 0 x && Qle_bool x (pch c)
  end.
Fixpoint wfcb (c : chan) (ops : list cop) : bool :=
  match ops with [] => true | o :: t => wf1b c o && wfcb (cstep o c) t end.

(* ---------- quality figures ---------- *)
(* info.py snr_lin, snr_nli, gsnr (Q division is total: x / 0 = 0; the theorems never rely on that) *)
Definition osnr (c : chan) : Q := rs c / ra c.
Definition snr_nli (c : chan) : Q := rs c / rn c.
Definition gsnr (c : chan) : Q := rs c / (ra c + rn c).
(* their inverses (noise-to-signal ratios): finite also when there is no noise yet *)
Definition nsr_ase (c : chan) : Q := ra c / rs c.
Definition nsr_nli (c : chan) : Q := rn c / rs c.
Definition nsr_g (c : chan) : Q := (ra c + rn c) / rs c.

(* cross-multiplied comparison of two ratios num'/den' <= num/den: no special case for den = 0 (= +inf) *)
Definition ratio_le (x' x : Q * Q) : Prop := fst x' * snd x <= fst x * snd x'.
Definition ratio_eq (x' x : Q * Q) : Prop := fst x' * snd x == fst x * snd x'.
Definition ratio_leb (x' x : Q * Q) : bool := Qle_bool (fst x' * snd x) (fst x * snd x').
Definition q_osnr (c : chan) : Q * Q := (rs c, ra c).
Definition q_nli (c : chan) : Q * Q := (rs c, rn c).
Definition q_gsnr (c : chan) : Q * Q := (rs c, ra c + rn c).

(* ---------- Transceiver figures in linear-inverse units ---------- *)
Definition ref_bw : Q := 12500000000.      (* 12.5e9 Hz = 0.1 nm *)
(* utils.snr_sum(snr, bw, snr_added): 1/snr' = 1/snr + (1/snr_added) * bw / 12.5e9 *)
Definition snr_sum_inv (x bw added : Q) : Q := x + added * (bw / ref_bw).
Record figures := mkF { f_osnr : Q; f_nli : Q; f_gsnr : Q; f_osnr01 : Q; f_gsnr01 : Q }.   (* all as 1/ratio *)
(* Transceiver._calc_snr: raw figures; the 0.1 nm ones are  snr_db - lin2db(12.5e9 / baud_rate) *)
Definition calc_snr (c : chan) : figures :=
  mkF (nsr_ase c) (nsr_nli c) (nsr_g c) (nsr_ase c * (ref_bw / cbr c)) (nsr_g c * (ref_bw / cbr c)).
Fixpoint sum_some (l : list (option Q)) : Q :=
  match l with [] => 0 | Some x :: t => x + sum_some t | None :: t => sum_some t end.
(* Transceiver.update_snr: its arguments are 0.1 nm SNRs, given here as 1/linear; None is skipped *)
Definition update_snr (args : list (option Q)) (c : chan) : figures :=
  let t := sum_some args in
  let r := calc_snr c in
  mkF (snr_sum_inv (f_osnr r) (cbr c) t) (f_nli r) (snr_sum_inv (f_gsnr r) (cbr c) t)
      (snr_sum_inv (f_osnr01 r) ref_bw t) (snr_sum_inv (f_gsnr01 r) ref_bw t).

(* ---------- whole spectra ---------- *)
(* SpectralInformation.__init__: argsort by frequency, SpectrumError on overlapping slots / baud > slot *)
Fixpoint insert_f (c : chan) (l : spectrum) : spectrum :=
  match l with
  | [] => [c]
  | d :: t => if Qle_bool (cf c) (cf d) then c :: l else d :: insert_f c t
  end.
Definition sort_f (l : spectrum) : spectrum := fold_right insert_f [] l.
Fixpoint overlapb (l : spectrum) : bool :=
  match l with
  | [] => false
  | c :: t =>
      match t with
      | [] => false
      | d :: _ => negb (Qle_bool (cf c + csw c / 2) (cf d - csw d / 2)) || overlapb t
      end
  end.
Definition exceedb (l : spectrum) : bool := existsb (fun c => negb (Qle_bool (cbr c) (csw c))) l.
Definition mk_si (l : spectrum) : res spectrum :=
  let l' := sort_f l in
  if overlapb l' then Err "SpectrumError:overlap" else
  if exceedb l' then Err "SpectrumError:baud" else Ok l'.

(* is_in_band / demuxed_spectral_information (None is modelled as the empty spectrum) *)
Definition in_band (fmin fmax : Q) (c : chan) : bool :=
  Qle_bool fmin (cf c - csw c / 2) && Qle_bool (cf c + csw c / 2) fmax.
Definition demux (fmin fmax : Q) (sp : spectrum) : spectrum := filter (in_band fmin fmax) sp.
(* self + other *)
Definition si_add (sp other : spectrum) : res spectrum :=
  match mk_si (sp ++ other) with Ok l => Ok l | Err _ => Err "SpectrumError:sum" end.
(* muxed_spectral_information *)
Fixpoint mux (l : list spectrum) : res spectrum :=
  match l with
  | [] => Err "ValueError:empty"
  | [x] => Ok x
  | x :: t => let* r := mux t in si_add x r
  end.

(* vector forms of the primitive updates: one argument per channel (numpy broadcasting of a scalar is
   expanded by the harness); different lengths = numpy's "operands could not be broadcast" *)
Fixpoint map2c (f : Q -> cop) (xs : list Q) (sp : spectrum) : res spectrum :=
  match xs, sp with
  | [], [] => Ok []
  | x :: xt, c :: ct => let* r := map2c f xt ct in Ok (cstep (f x) c :: r)
  | _, _ => Err "ValueError:shape"
  end.

Inductive sop :=
| SAtt (ks : list Q) | SGain (gs : list Q) | SAse (xs : list Q) | SNli (xs : list Q)
| SDemux (fmin fmax : Q) | SAdd (other : spectrum).
Definition sstep (o : sop) (sp : spectrum) : res spectrum :=
  match o with
  | SAtt ks => map2c CAtt ks sp
  | SGain gs => map2c CGain gs sp
  | SAse xs => map2c CAse xs sp
  | SNli xs => map2c CNli xs sp
  | SDemux lo hi => Ok (demux lo hi sp)
  | SAdd other => si_add sp other
  end.
Fixpoint srun (ops : list sop) (sp : spectrum) : res spectrum :=
  match ops with
  | [] => Ok sp
  | o :: t => let* sp' := sstep o sp in srun t sp'
  end.

(* well-formedness of a spectrum-level op against the current spectrum (boolean, also used by the harness) *)
Fixpoint wfvb (f : Q -> cop) (xs : list Q) (sp : spectrum) : bool :=
  match xs, sp with
  | x :: xt, c :: ct => wf1b c (f x) && wfvb f xt ct
  | _, _ => true
  end.
Definition invb (c : chan) : bool :=
  negb (Qle_bool (pch c) 0) && Qle_bool 0 (rs c) && Qle_bool 0 (ra c) && Qle_bool 0 (rn c)
  && Qeq_bool (rs c + ra c + rn c) 1.
Definition swf1b (sp : spectrum) (o : sop) : bool :=
  match o with
  | SAtt ks => wfvb CAtt ks sp
  | SGain gs => wfvb CGain gs sp
  | SAse xs => wfvb CAse xs sp
  | SNli xs => wfvb CNli xs sp
  | SDemux _ _ => true
  | SAdd other => forallb invb other
  end.
Fixpoint swfb (sp : spectrum) (ops : list sop) : bool :=
  match ops with
  | [] => true
  | o :: t => swf1b sp o && match sstep o sp with Ok sp' => swfb sp' t | Err _ => true end
  end.

(* ---------- element programs (gnpy/core/elements.py) ---------- *)
Inductive okind := OAtt | OGain | OAse | ONli | ODemux | OAdd.
Definition kind_of (o : sop) : okind :=
  match o with SAtt _ => OAtt | SGain _ => OGain | SAse _ => OAse | SNli _ => ONli
          | SDemux _ _ => ODemux | SAdd _ => OAdd end.
Definition ckind_of (o : cop) : okind :=
  match o with CAtt _ => OAtt | CGain _ => OGain | CAse _ => OAse | CNli _ => ONli end.
Definition okind_eqb (x y : okind) : bool :=
  match x, y with
  | OAtt, OAtt | OGain, OGain | OAse, OAse | ONli, ONli | ODemux, ODemux | OAdd, OAdd => true
  | _, _ => false
  end.
Fixpoint kinds_eqb (l1 l2 : list okind) : bool :=
  match l1, l2 with
  | [], [] => true
  | x :: t1, y :: t2 => okind_eqb x y && kinds_eqb t1 t2
  | _, _ => false
  end.

Inductive ekind := KTrx | KRoadm | KFused | KFiber | KRaman | KEdfa | KMulti.
(* the primitive-update kinds each element kind may apply to a channel, in order:
   Transceiver: nothing;  Roadm (l.592, 635) and Fused (l.842): attenuations only;
   Fiber.propagate (l.1116-1138): att_in, add_nli, fibre loss, con_out;
   RamanFiber.propagate (l.1216-1243): att_in, add_nli, add_ase, fibre loss (net of Raman gain), con_out;
   Edfa.propagate (l.1677-1684): optional in_voa, add_ase, gain (net of out_voa);
   Multiband_amplifier: each channel goes through the Edfa of its band (the amplifier of a band in which the
   spectrum has no channel is not run at all: its list of updates is empty) *)
Definition prog_kinds_okb (k : ekind) (l : list okind) : bool :=
  match k with
  | KTrx => kinds_eqb l []
  | KRoadm | KFused => forallb (okind_eqb OAtt) l
  | KFiber => kinds_eqb l [OAtt; ONli; OAtt; OAtt]
  | KRaman => kinds_eqb l [OAtt; ONli; OAse; OAtt; OAtt]
  | KEdfa => kinds_eqb l [OAse; OGain] || kinds_eqb l [OAtt; OAse; OGain]
  | KMulti => kinds_eqb l [] || kinds_eqb l [OAse; OGain] || kinds_eqb l [OAtt; OAse; OGain]
  end.
Definition cprog_okb (k : ekind) (ops : list cop) : bool := prog_kinds_okb k (map ckind_of ops).

(* what an element's __call__ does to a whole spectrum:
   PFlat: the updates are applied to the incoming object (Roadm, Fused, Fiber, RamanFiber, Transceiver);
   PEdfa: Edfa.__call__ first demuxes to its band (ValueError when nothing is left), then propagates;
   PMulti: Multiband_amplifier.__call__: per amplifier demux (bands without channels are skipped),
           the amplifier's own __call__, then muxed_spectral_information of the outputs *)
Inductive eprog :=
| PFlat (ops : list sop)
| PEdfa (fmin fmax : Q) (ops : list sop)
| PMulti (amps : list (Q * Q * list sop)).
Definition is_nil {A} (l : list A) : bool := match l with [] => true | _ => false end.
Definition edfa_call (fmin fmax : Q) (ops : list sop) (sp : spectrum) : res spectrum :=
  let sp' := demux fmin fmax sp in
  if is_nil sp' then Err "ValueError:band" else srun ops sp'.
Fixpoint multi_outs (amps : list (Q * Q * list sop)) (sp : spectrum) : res (list spectrum) :=
  match amps with
  | [] => Ok []
  | (lo, hi, ops) :: t =>
      let si := demux lo hi sp in
      if is_nil si then multi_outs t sp
      else let* o := edfa_call lo hi ops si in let* r := multi_outs t sp in Ok (o :: r)
  end.
Definition erun (e : eprog) (sp : spectrum) : res spectrum :=
  match e with
  | PFlat ops => srun ops sp
  | PEdfa lo hi ops => edfa_call lo hi ops sp
  | PMulti amps =>
      let* outs := multi_outs amps sp in
      if is_nil outs then Err "ValueError:band" else mux outs
  end.
Definition sprog_okb (k : ekind) (ops : list sop) : bool := prog_kinds_okb k (map kind_of ops).
Definition eprog_okb (k : ekind) (e : eprog) : bool :=
  match k, e with
  | KEdfa, PEdfa _ _ ops => sprog_okb KEdfa ops
  | KMulti, PMulti amps => forallb (fun x => sprog_okb KMulti (snd x)) amps
  | KEdfa, _ | KMulti, _ => false
  | _, PFlat ops => sprog_okb k ops
  | _, _ => false
  end.

(* ---------- normalised execution (Qred on what an update changed; Proofs/SI.v: equal as rationals) ---------- *)
Definition cnorm (c : chan) : chan :=
  mkC (cf c) (csw c) (cbr c) (Qred (pch c)) (Qred (rs c)) (Qred (ra c)) (Qred (rn c)).
Definition cstep_n (o : cop) (c : chan) : chan :=
  match o with
  | CAtt k => mkC (cf c) (csw c) (cbr c) (Qred (pch c * k)) (rs c) (ra c) (rn c)
  | CGain g => mkC (cf c) (csw c) (cbr c) (Qred (pch c * g)) (rs c) (ra c) (rn c)
  | CNli x => let c' := add_nli x c in mkC (cf c) (csw c) (cbr c) (pch c) (Qred (rs c')) (Qred (ra c')) (Qred (rn c'))
  | CAse x => cnorm (add_ase x c)
  end.
Definition crun_n (ops : list cop) (c : chan) : chan := fold_left (fun c o => cstep_n o c) ops c.
Fixpoint map2c_n (f : Q -> cop) (xs : list Q) (sp : spectrum) : res spectrum :=
  match xs, sp with
  | [], [] => Ok []
  | x :: xt, c :: ct => let* r := map2c_n f xt ct in Ok (cstep_n (f x) c :: r)
  | _, _ => Err "ValueError:shape"
  end.
Definition sstep_n (o : sop) (sp : spectrum) : res spectrum :=
  match o with
  | SAtt ks => map2c_n CAtt ks sp
  | SGain gs => map2c_n CGain gs sp
  | SAse xs => map2c_n CAse xs sp
  | SNli xs => map2c_n CNli xs sp
  | _ => sstep o sp
  end.
Fixpoint srun_n (ops : list sop) (sp : spectrum) : res spectrum :=
  match ops with
  | [] => Ok sp
  | o :: t => let* sp' := sstep_n o sp in srun_n t sp'
  end.

(* ---------- specification vocabulary used by Props/C01.v and Props/C02.v ---------- *)
(* C01 invariant: positive total power, non-negative shares that sum to one *)
Definition Inv (c : chan) : Prop :=
  0 < pch c /\ 0 <= rs c /\ 0 <= ra c /\ 0 <= rn c /\ rs c + ra c + rn c == 1.
Definition Wf1 (c : chan) (o : cop) : Prop :=
  match o with
  | CAtt k => 0 < k
  | CGain g => 0 < g
  | CAse x => 0 <= x
  | CNli x => 0 <= x /\ x <= pch c
  end.
Fixpoint WfOps (c : chan) (ops : list cop) : Prop :=
  match ops with [] => True | o :: t => Wf1 c o /\ WfOps (cstep o c) t end.
(* C02: the three quality figures of c' are not better than those of c *)
Definition quality_le (c' c : chan) : Prop :=
  ratio_le (q_osnr c') (q_osnr c) /\ ratio_le (q_nli c') (q_nli c) /\ ratio_le (q_gsnr c') (q_gsnr c).
Definition same_shares (c' c : chan) : Prop := rs c' = rs c /\ ra c' = ra c /\ rn c' = rn c.
(* only ASE was added: SNR_NLI unchanged, OSNR_ASE and GSNR not better *)
Definition only_ase (c' c : chan) : Prop :=
  ratio_eq (q_nli c') (q_nli c) /\ ratio_le (q_osnr c') (q_osnr c) /\ ratio_le (q_gsnr c') (q_gsnr c).
(* only NLI was added: OSNR_ASE unchanged, SNR_NLI and GSNR not better *)
Definition only_nli (c' c : chan) : Prop :=
  ratio_eq (q_osnr c') (q_osnr c) /\ ratio_le (q_nli c') (q_nli c) /\ ratio_le (q_gsnr c') (q_gsnr c).
(* what the property statement says about one element of each kind *)
Definition elem_claim (k : ekind) (c' c : chan) : Prop :=
  match k with
  | KTrx | KRoadm | KFused => same_shares c' c
  | KEdfa | KMulti => only_ase c' c
  | KFiber => only_nli c' c
  | KRaman => quality_le c' c
  end.
(* a path as seen by one channel: per element its kind and the updates it applied *)
Definition path := list (ekind * list cop).
Definition path_ops (pth : path) : list cop := concat (map snd pth).
Definition after (pth : path) (k : nat) (c : chan) : chan := crun (path_ops (firstn k pth)) c.
(* well-formedness of an element's run on a whole spectrum, mirroring erun *)
Fixpoint multi_wfb (amps : list (Q * Q * list sop)) (sp : spectrum) : bool :=
  match amps with
  | [] => true
  | (lo, hi, ops) :: t => swfb (demux lo hi (demux lo hi sp)) ops && multi_wfb t sp
  end.
Definition ewfb (e : eprog) (sp : spectrum) : bool :=
  match e with
  | PFlat ops => swfb sp ops
  | PEdfa lo hi ops => swfb (demux lo hi sp) ops
  | PMulti amps => multi_wfb amps sp
  end.

(* a path as a sequence of elements acting on the whole spectrum *)
Definition is_vec (o : sop) : bool := match o with SDemux _ _ | SAdd _ => false | _ => true end.
Fixpoint prun (els : list (ekind * eprog)) (sp : spectrum) : res spectrum :=
  match els with
  | [] => Ok sp
  | (_, e) :: t => let* sp' := erun e sp in prun t sp'
  end.
Fixpoint pwfb (els : list (ekind * eprog)) (sp : spectrum) : bool :=
  match els with
  | [] => true
  | (k, e) :: t => eprog_okb k e && ewfb e sp && match erun e sp with Ok sp' => pwfb t sp' | Err _ => true end
  end.

(* c' is dominated by c: the signal share shrank by a factor l in [0,1] and the noise shares shrank by no
   more than that (a transitive order that implies quality_le; Proofs/SI.v) *)
Definition qdom (c' c : chan) : Prop :=
  exists l, 0 <= l /\ l <= 1 /\ rs c' == l * rs c /\ l * ra c <= ra c' /\ l * rn c <= rn c'.

(* equality of channels as rationals (frequency, slot width, baud rate identical) and of results *)
Definition ceq (c c' : chan) : Prop :=
  cf c = cf c' /\ csw c = csw c' /\ cbr c = cbr c' /\
  pch c == pch c' /\ rs c == rs c' /\ ra c == ra c' /\ rn c == rn c'.
Definition res_rel (x y : res spectrum) : Prop :=
  match x, y with
  | Ok a, Ok b => Forall2 ceq a b
  | Err e, Err e' => e = e'
  | _, _ => False
  end.
