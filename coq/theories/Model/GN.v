(* C03 — model of the analytic GN-model NLI of a fibre span, polymorphic in the number structure `Num`.

   Transcription, operation by operation, of
     gnpy/core/science_utils.py  NliSolver.compute_nli (method gn_model_analytic), _gn_analytic, _psi,
                                 effective_length
     gnpy/core/elements.py       Fiber.loss_coef_func / alpha / beta2 / gamma, Fiber.propagate (input attenuation)
     gnpy/core/parameters.py     FiberParams (reference frequency, dispersion, effective area / gamma, contrast,
                                 effective_area_scaling, gamma_scaling, loss_coef)
   Definitions only.  Theorems: Proofs/GN.v (instance NumR).  Execution: instance NumF (Run/C03.v). *)
From Verif Require Import Prelude Num.
From Coq Require Import List.
Import ListNotations.

Section GN.
Context {N : Num}.
Local Open Scope num_scope.
Notation T := (NT N).

(* ------------------------------------------------------------------ the closed form on "physical" channels *)
(* one WDM channel as the NLI solver sees it: centre frequency, baud rate, power at the fibre input, and the
   fibre coefficients evaluated at that channel's frequency *)
Record pch := mkP { p_f : T; p_B : T; p_P : T; p_alpha : T; p_beta2 : T; p_gamma : T }.

Definition spm_weight : T := #16 / #27.                (* SPM_WEIGHT = 16.0 / 27.0 *)
Definition xpm_weight : T := #2 * (#16 / #27).         (* XPM_WEIGHT = 2 * (16.0 / 27.0) *)
Definition weight (self : bool) : T := if self then spm_weight else xpm_weight.

(* NliSolver.effective_length *)
Definition eff_length (alpha len : T) : T := (none - nexp (- alpha * len)) / alpha.

(* NliSolver._psi, entry [cut i, pump j]:  df = f_j - f_i, asymptotic/effective length of the pump column j *)
Definition psi (len : T) (ci cj : pch) : T :=
  let df := p_f cj - p_f ci in
  let la := none / p_alpha cj in
  let leff := eff_length (p_alpha cj) len in
  let b2 := nabs ((p_beta2 ci + p_beta2 cj) / #2) in
  let right := df + p_B cj / #2 in
  let left := df - p_B cj / #2 in
  ((nasinh (npi * npi * la * b2 * p_B ci * right) - nasinh (npi * npi * la * b2 * p_B ci * left)) / #2)
  * (leff * leff / (#2 * npi * b2 * la)).

(* NliSolver._gn_analytic, entry [i, j] of eta (self = (i == j), the identity matrix of the code) *)
Definition eta (len : T) (ci cj : pch) (self : bool) : T :=
  let cut := p_B ci in
  let pump := p_B cj in
  cut * (p_gamma ci * p_gamma ci * weight self * psi len ci cj / (cut * (pump * pump))).

(* compute_nli: nli_matrix[i,j] = cut_power * pump_power ** 2 * eta *)
Definition term (len : T) (ci cj : pch) (self : bool) : T :=
  p_P ci * (p_P cj * p_P cj) * eta len ci cj self.

(* sum over the pumps j (row i of the matrix); j0 = index of the head of l *)
Fixpoint row (len : T) (ci : pch) (i : nat) (l : list pch) (j0 : nat) : T :=
  match l with
  | [] => nzero
  | cj :: t => term len ci cj (Nat.eqb i j0) + row len ci i t (S j0)
  end.
Fixpoint nli_from (len : T) (all l : list pch) (i0 : nat) : list T :=
  match l with
  | [] => []
  | ci :: t => row len ci i0 all 0 :: nli_from len all t (S i0)
  end.
(* NLI power on every channel, in the order of the input *)
Definition nli_all (len : T) (l : list pch) : list T := nli_from len l l 0.

(* ------------------------------------------------------------------ the fibre *)
Inductive ref_spec := RefDefault | RefWavelength (w : T) | RefFrequency (f : T).
Inductive loss_spec := LossScalar (v : T) | LossTable (fs vs : list T).            (* dB/km as in the JSON *)
Inductive disp_spec := DispDefault | DispScalar (d : T) | DispSlope (d s : T) | DispTable (fs vs : list T).
Inductive area_spec := AreaDefault | AreaGiven (a : T) | GammaGiven (g : T).

Record fiber := mkFiber {
  fb_length : T;            (* m *)
  fb_att_in : T; fb_con_in : T;     (* dB, applied before the NLI is generated *)
  fb_ref : ref_spec; fb_loss : loss_spec; fb_disp : disp_spec; fb_area : area_spec }.

Definition c_light : T := #299792458.
Definition n1_core : T := dec 1468 (-3).
Definition core_radius : T := dec 42 (-7).
Definition n2_kerr : T := dec 26 (-21).

Definition ref_wavelength (fb : fiber) : T :=
  match fb_ref fb with RefDefault => dec 155 (-8) | RefWavelength w => w | RefFrequency f => c_light / f end.
Definition ref_frequency (fb : fiber) : T :=
  match fb_ref fb with RefDefault => c_light / dec 155 (-8) | RefWavelength w => c_light / w | RefFrequency f => f end.

Definition effective_area (fb : fiber) : T :=
  match fb_area fb with
  | AreaDefault => dec 83 (-12)
  | AreaGiven a => a
  | GammaGiven g => #2 * npi * n2_kerr / (ref_wavelength fb * g)
  end.
(* FiberParams._contrast *)
Definition contrast (fb : fiber) : T :=
  let x := c_light / (#2 * npi * ref_frequency fb * core_radius * n1_core)
           * nexp (npi * (core_radius * core_radius) / effective_area fb) in
  dec 5 (-1) * (x * x).
Definition effective_area_scaling (fb : fiber) (f : T) : T :=
  let v := #2 * npi * f / c_light * core_radius * n1_core * nsqrt (#2 * contrast fb) in
  let w := core_radius / nsqrt (nln v) in
  npi * (w * w).
Definition gamma_scaling (fb : fiber) (f : T) : T :=
  #2 * npi * n2_kerr * f / (c_light * effective_area_scaling fb f).

(* scipy.interpolate.interp1d(xs, ys)(x), linear, bounds_error: None = ValueError (x outside [x0, xn]) *)
Fixpoint interp_seg (xs ys : list T) (x : T) : option T :=
  match xs, ys with
  | x0 :: xt, y0 :: yt =>
      match xt, yt with
      | x1 :: _, y1 :: _ =>
          if x <=? x1 then Some ((y1 - y0) / (x1 - x0) * (x - x0) + y0) else interp_seg xt yt x
      | _, _ => None
      end
  | _, _ => None
  end.
Definition interp1d (xs ys : list T) (x : T) : option T :=
  match xs with
  | x0 :: _ => if x0 <=? x then interp_seg xs ys x else None
  | [] => None
  end.

(* Fiber.loss_coef_func [dB/m] *)
Definition loss_coef (fb : fiber) (f : T) : res T :=
  match fb_loss fb with
  | LossScalar v => Ok (v * dec 1 (-3))
  | LossTable [_] [v] => Ok (v * dec 1 (-3))          (* loss_coef.size == 1: used as a scalar *)
  | LossTable fs vs =>
      match interp1d fs (map (fun v => v * dec 1 (-3)) vs) f with
      | Some v => Ok v
      | None => Err "SpectrumError:Loss Coefficient"
      end
  end.
(* Fiber.alpha *)
Definition alpha (fb : fiber) (f : T) : res T :=
  let* lc := loss_coef fb f in Ok (lc / (#10 * nlog10 (nexp none))).
(* Fiber.beta2 *)
Definition beta2 (fb : fiber) (f : T) : res T :=
  let* d :=
    match fb_disp fb with
    | DispDefault => Ok (nsq (f / ref_frequency fb) * dec 167 (-7))
    | DispScalar d => Ok (nsq (f / ref_frequency fb) * d)
    | DispSlope d s => Ok (d + s * (c_light / f - c_light / ref_frequency fb))
    | DispTable [f0] [d] => Ok (nsq (f / f0) * d)    (* dispersion.size == 1: scalar referred to f0 *)
    | DispTable fs vs =>
        match interp1d fs vs f with
        | Some v => Ok v
        | None => Err "SpectrumError:Chromatic Dispersion"
        end
    end in
  Ok (- (nsq (c_light / f) * d) / (#2 * npi * c_light)).

(* a channel as supplied in the spectral information *)
Record chan := mkC { c_f : T; c_B : T; c_P : T }.

(* Fiber.propagate: apply_attenuation_db(con_in + att_in) before compute_nli *)
Definition att_in_lin (fb : fiber) : T := none / db2lin (fb_con_in fb + fb_att_in fb).

Definition attach (fb : fiber) (c : chan) : res pch :=
  let* a := alpha fb (c_f c) in
  let* b := beta2 fb (c_f c) in
  Ok (mkP (c_f c) (c_B c) (c_P c * att_in_lin fb) a b (gamma_scaling fb (c_f c))).
Fixpoint attach_all (fb : fiber) (l : list chan) : res (list pch) :=
  match l with
  | [] => Ok []
  | c :: t => let* p := attach fb c in let* pt := attach_all fb t in Ok (p :: pt)
  end.

(* NLI generated in the fibre on every channel of the comb launched into it (powers before the input connector) *)
Definition fiber_nli (fb : fiber) (l : list chan) : res (list T) :=
  let* pl := attach_all fb l in Ok (nli_all (fb_length fb) pl).

(* operations on combs used by the statements *)
Definition scale_chan (k : T) (c : chan) : chan := mkC (c_f c) (c_B c) (k * c_P c).
Definition scale_pch (k : T) (c : pch) : pch :=
  mkP (p_f c) (p_B c) (k * p_P c) (p_alpha c) (p_beta2 c) (p_gamma c).
End GN.
