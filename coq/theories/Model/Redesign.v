(* C17 — designing is repeatable.  Model of
     - to_json rounding of every line element and the reload (gnpy/core/elements.py to_json, json_io.network_from_json),
     - the amplifier settings that design computes or takes over when present (network.py
       compute_gain_power_and_tilt_target 750-769, set_one_amplifier, set_amplifier_voa 625-636, target_power),
       for single-band amplifiers with the Raman flag off (power deviation and tilt estimates are 0),
     - SimParams as explicit state with set_params / to_json and estimate_raman_gain's save / restore.
   Fibre-level design (split, insertion, connector loss, padding) is Model/Chain.v.
   Executable definitions only; lemmas are in Proofs/Redesign.v. *)
From Verif Require Import Prelude Model.Chain.
From Coq Require Import QArith Qround.
Open Scope Z_scope.

(* ---------- Python round(x, n): half to even on the exact value ---------- *)
Definition rhe (x : Q) : Z :=
  let f := Qfloor x in
  let r := (x - inject_Z f)%Q in
  if Qltb r (1 # 2) then f
  else if Qltb (1 # 2) r then f + 1
  else if Z.even f then f else f + 1.
Definition pow10 (n : nat) : Q := inject_Z (10 ^ Z.of_nat n).
Definition round_dec (n : nat) (x : Q) : Q := Qred (inject_Z (rhe (x * pow10 n)) / pow10 n).
(* utils.round2float *)
Definition r2f (x step : Q) : Q :=
  let st := round_dec 1 step in
  if Qle_bool (1 # 100) st then round_dec 1 (inject_Z (rhe (x / st)) * st) else round_dec 2 x.
Definition qmin (a b : Q) : Q := if Qle_bool a b then a else b.
Definition qmax (a b : Q) : Q := if Qle_bool a b then b else a.

(* ---------- amplifier settings ---------- *)
Record scfg := mkS {
  s_pm : bool;                      (* Span.power_mode *)
  s_lo : Q; s_hi : Q; s_step : Q;   (* delta_power_range_db *)
  s_slope : Q; s_ref : Q;           (* power_slope, span_loss_ref *)
  s_margin : Q; s_vstep : Q;        (* voa_margin, voa_step *)
  s_ext : Q                         (* target_extended_gain *)
}.
Record alib := mkLib { b_pmax : Q; b_gfm : Q; b_vauto : bool }.   (* p_max, gain_flatmax, out_voa_auto *)
(* an amplifier as loaded: type_variety ("" = to be selected) and the operational block *)
Record ain := mkIn {
  i_name : string; i_var : string;
  i_gain : option Q; i_dp : option Q; i_tilt : option Q; i_voa : option Q; i_invoa : option Q
}.
(* an amplifier as designed *)
Record aout := mkOut {
  o_name : string; o_var : string;
  o_gain : Q;             (* effective_gain *)
  o_dp : option Q;        (* delta_p: None in gain mode *)
  o_tilt : Q; o_voa : Q; o_invoa : Q
}.
Inductive nxt := NRoadm | NLoss (l : Q).   (* what follows the amplifier: a ROADM, or a span / amplifier with this span_loss *)
Record actx := mkX {
  x_loss : Q;          (* span_loss of the previous node *)
  x_next : nxt;
  x_ptot : Q           (* pref_total_db *)
}.

Definition target_power (s : scfg) (n : nxt) : Q :=
  match n with
  | NRoadm => 0%Q
  | NLoss l => qmin (s_hi s) (qmax (s_lo s) (r2f ((l - s_ref s) * s_slope s) (s_step s)))
  end.
(* `x if x else 0` *)
Definition otru (o : option Q) : Q := match o with Some v => v | None => 0%Q end.

(* one amplifier: D = prev_dp - prev_voa of the walk so far; returns the designed amplifier and the new D.
   lib: equipment['Edfa'] (KeyError if the variety is unknown); sel: the variety select_edfa picks (C10) *)
Definition amp_dp0 (s : scfg) (x : actx) (a : ain) : Q :=
  match i_dp a with None => (target_power s (x_next x) + otru (i_voa a))%Q | Some d => d end.
(* compute_gain_power_and_tilt_target: (gain_target, dp) *)
Definition amp_gd (s : scfg) (D : Q) (x : actx) (a : ain) : Q * Q :=
  let dp0 := amp_dp0 s x a in
  let inv := otru (i_invoa a) in
  match i_gain a with
  | Some g => if s_pm s then ((x_loss x + dp0 - D + inv)%Q, dp0) else (g, (D - x_loss x + g - inv)%Q)
  | None => ((x_loss x + dp0 - D + inv)%Q, dp0)
  end.
Definition amp_var (sel : string -> string) (a : ain) : string :=
  if String.eqb (i_var a) "" then sel (i_name a) else i_var a.
(* power_reduction: select_edfa's for an amplifier without variety, the saturation test otherwise *)
Definition amp_pr (s : scfg) (D : Q) (x : actx) (a : ain) (b : alib) (gd : Q * Q) : Q :=
  let pt := (x_ptot x + snd gd)%Q in
  if String.eqb (i_var a) "" then qmin 0 (qmin (pt - fst gd + b_gfm b + s_ext s) (b_pmax b) - pt)
  else if s_pm s then qmin 0 (b_pmax b - pt)
  else qmin 0 (b_pmax b - (x_ptot x + D - x_loss x + fst gd)).
(* set_amplifier_voa: (out_voa, what is added to delta_p and effective_gain); the rounded head-room minus the
   margin is capped by the head-room itself (gnpy fix 99151283; before it: finding F21) *)
Definition amp_voa (s : scfg) (x : actx) (a : ain) (b : alib) (gd : Q * Q) (pr : Q) : Q * Q :=
  match i_voa a with
  | Some v => (v, 0%Q)
  | None =>
      if s_pm s && b_vauto b then
        let m := qmin (b_pmax b - (x_ptot x + snd gd)) (b_gfm b - (fst gd + pr)) in
        let v := qmax (qmin (r2f m (s_vstep s) - s_margin s) m) 0 in
        (v, v)
      else (0%Q, 0%Q)
  end.
Definition design_amp (s : scfg) (lib : string -> option alib) (sel : string -> string)
  (D : Q) (x : actx) (a : ain) : res (aout * Q) :=
  match lib (amp_var sel a) with
  | None => Err "KeyError:type_variety"
  | Some b =>
      let gd := amp_gd s D x a in
      let pr := amp_pr s D x a b gd in
      let vv := amp_voa s x a b gd pr in
      Ok (mkOut (i_name a) (amp_var sel a) (fst gd + pr + snd vv)%Q
                (if s_pm s then Some (snd gd + pr + snd vv)%Q else None)
                (match i_tilt a with None => 0%Q | Some t => t end) (fst vv) (otru (i_invoa a)),
          (snd gd + pr - otru (i_voa a))%Q)
  end.
Fixpoint design_amps (s : scfg) (lib : string -> option alib) (sel : string -> string)
  (D : Q) (l : list (actx * ain)) : res (list aout) :=
  match l with
  | [] => Ok []
  | (x, a) :: t =>
      let* r := design_amp s lib sel D x a in
      let* rest := design_amps s lib sel (snd r) t in
      Ok (fst r :: rest)
  end.

(* Edfa.to_json followed by network_from_json: gain_target 6 decimals, tilt_target 5 decimals, the rest as is.
   A JSON number is a value, so exported numbers are kept in lowest terms. *)
Definition oqred (o : option Q) : option Q := match o with Some v => Some (Qred v) | None => None end.
Definition export_amp (o : aout) : ain :=
  mkIn (o_name o) (o_var o) (Some (round_dec 6 (o_gain o))) (oqred (o_dp o)) (Some (round_dec 5 (o_tilt o)))
       (Some (Qred (o_voa o))) (Some (Qred (o_invoa o))).

(* ---------- fibres and fused: to_json / reload ---------- *)
(* Fiber.to_json: length [km] and loss_coef [dB/km] rounded to 6 decimals; att_in, con_in, con_out and the
   lumped losses (position, loss) as they are (lumped_losses exported since gnpy fix 562b868b; before: finding F19).
   reload converts back to m and dB/m. *)
Definition qred2 (pl : Q * Q) : Q * Q := (Qred (fst pl), Qred (snd pl)).
Definition export_fib (f : fib) : fib :=
  mkFib (f_name f) (f_raman f)
        (Qred (round_dec 6 (f_len f / inject_Z 1000) * inject_Z 1000))
        (Qred (round_dec 6 (f_lc f * inject_Z 1000) / inject_Z 1000))
        (oqred (f_cin f)) (oqred (f_cout f)) (Qred (f_att f)) (map qred2 (f_lumped f)).
Definition export_el (e : elem) : elem :=
  match e with
  | Fib f => Fib (export_fib f)
  | Fus n l => Fus n (Qred l)
  | Amp a => Amp (mkAmp (a_name a) (a_multi a) false (a_var a) (a_gain a) (a_dp a) (a_voa a))
  end.
Definition export_els (l : list elem) : list elem := map export_el l.

(* Roadm.to_json / reload of the node-level design bands: exported whenever there is at least one (gnpy fix 37844749;
   before, a single band was dropped: finding F8); a ROADM loaded without design_bands gets the SI bands at design *)
Definition export_bands {A} (bands : list A) : option (list A) := match bands with [] => None | _ => Some bands end.
Definition reload_bands {A} (si : list A) (o : option (list A)) : list A :=
  match o with Some b => b | None => si end.

(* one export / reload / redesign round of the fibre side of a line (uids of inserted amplifiers are ordinary
   uids after a reload) *)
Definition redesign_line (c : cfg) (l : line) : res line := design_line c (with_els l (export_els (l_els l))).
Fixpoint rounds (c : cfg) (n : nat) (l : line) : res line :=
  match n with
  | O => Ok l
  | S k => let* l1 := redesign_line c l in rounds c k l1
  end.

(* ---------- from the designed fibres to the amplifier contexts (set_egress_amplifier's walk) ---------- *)
(* design_span_loss cached by add_fiber_padding on the last fibre of a span (r: the span before padding):
   this_span_loss (losses minus first-estimate Raman gains), plus the padding that was added on the first fibre (gnpy fix 13a35c31; before it the whole
   att_in of the first fibre was added: finding F20) *)
Definition run_dsl (c : cfg) (r : list elem) : Q :=
  let sl := span_sl c r in
  if Qltb sl (c_pad c) then
    match r with
    | Fib g :: _ => (sl + (c_pad c - sl))%Q
    | _ => sl
    end
  else sl.
Definition last_plain_fib (r : list elem) : bool :=
  match last r dflt with Fib f => negb (f_raman f) | _ => false end.
Definition raman_gain (rgain : string -> Q) (r : list elem) : Q :=
  qsum (map (fun e => match e with Fib f => if f_raman f then rgain (f_name f) else 0%Q | _ => 0%Q end) r).
(* span_loss(prev_node): cached on a plain last fibre, recomputed otherwise (padded losses minus the Raman gains the
   walk cached when it crossed the span's Raman fibres at the span input power: rgain, an input);
   r: the span before padding, r': after padding *)
Definition loss_as_prev (c : cfg) (rgain : string -> Q) (r r' : list elem) : Q :=
  if last_plain_fib r then run_dsl c r else (run_loss r' - raman_gain rgain r')%Q.
(* span_loss(next_node) inside target_power: next_node is the first element of the span; the design_span_loss cache
   is hit only when the span is that single plain fibre.  Otherwise losses minus Raman gains, and the span's Raman
   fibres have not been visited by the walk yet, so nothing is cached for them: they are estimated without span input
   power (an estimate made that way is not cached - gnpy fix d3e2700d; before it: finding F23).  That estimate is made
   AFTER padding and sees the padded att_in of the fibre, so it is a different input (rgn) than the one padding itself
   used (c_rg). *)
Definition loss_as_next (c : cfg) (rgn : string -> Q) (r r' : list elem) : res Q :=
  match r with
  | [Fib f] => if f_raman f then Ok (run_loss r' - raman_first rgn r')%Q else Ok (run_dsl c r)
  | _ => Ok (run_loss r' - raman_first rgn r')%Q
  end.
Definition is_amp_run (r : list elem) : bool := match r with [Amp _] => true | _ => false end.
(* walk over the spans of a designed line: prev = the span before the current group (None: ROADM / amplifier) *)
Fixpoint amp_items (c : cfg) (rgain rgn : string -> Q) (opsf : string -> ain) (ptot : Q) (dst_roadm : bool)
  (prev : option (list elem * list elem)) (gs : list (list elem * list elem)) : res (list (actx * ain)) :=
  match gs with
  | [] => Ok []
  | (r, r') :: t =>
      match r with
      | [Amp a] =>
          let xl := match prev with Some (p, p') => loss_as_prev c rgain p p' | None => 0%Q end in
          (* target_power(next_node) is only evaluated for an amplifier without operator delta_p *)
          let* nx := (match i_dp (opsf (a_name a)) with
                      | Some _ => Ok NRoadm
                      | None =>
                          match t with
                          | [] => if dst_roadm then Ok NRoadm else Err "AttributeError:target_power of a Transceiver"
                          | (n, n') :: _ => if is_amp_run n then Ok (NLoss 0) else let* l := loss_as_next c rgn n n' in Ok (NLoss l)
                          end
                      end) in
          let* rest := amp_items c rgain rgn opsf ptot dst_roadm None t in
          Ok ((mkX xl nx ptot, opsf (a_name a)) :: rest)
      | _ => amp_items c rgain rgn opsf ptot dst_roadm (Some (r, r')) t
      end
  end.
(* the amplifier settings of a whole line whose fibres are designed (els: after add_missing + add_connector_loss,
   before padding) *)
Definition design_line_amps (c : cfg) (s : scfg) (lib : string -> option alib) (sel : string -> string)
  (rgain rgn : string -> Q) (opsf : string -> ain) (D0 ptot : Q) (dst_roadm : bool) (els : list elem) : res (list aout) :=
  let pre := runs els in
  let* post := mapM (pad_run c) pre in
  let* items := amp_items c rgain rgn opsf ptot dst_roadm None (combine pre post) in
  design_amps s lib sel D0 items.

(* ---------- the complete design of a line and its export / reload ---------- *)
Fixpoint ops_lookup (k : string) (l : list ain) (d : ain) : ain :=
  match l with [] => d | a :: t => if String.eqb k (i_name a) then a else ops_lookup k t d end.
(* operational blocks of a loaded line: an amplifier without entry is one inserted by auto-design (tilt_target 0) *)
Definition ops_of (l : list ain) (k : string) : ain := ops_lookup k l (mkIn k "" None None (Some 0%Q) None None).
(* fibre side (add_missing, connector losses, padding) and amplifier settings of one line *)
Definition design_full (c : cfg) (s : scfg) (lib : string -> option alib) (sel : string -> string)
  (rgain rgn : string -> Q) (opsf : string -> ain) (D0 ptot : Q) (l : line) : res (line * list aout) :=
  let* l1 := add_missing c l in
  let els := conn c (l_els l1) in
  let* p := pad_chain c els in
  let* outs := design_line_amps c s lib sel rgain rgn opsf D0 ptot (match l_dk l with Roadm => true | Trx => false end) els in
  Ok (with_els l1 p, outs).
(* network_to_json restricted to the line: its elements and the operational blocks of its amplifiers *)
Definition export_full (r : line * list aout) : list elem * list ain :=
  (export_els (l_els (fst r)), map export_amp (snd r)).
(* network_from_json of that export *)
Definition reload_full (l : line) (j : list elem * list ain) : line := with_els l (fst j).

(* ---------- SimParams ---------- *)
Inductive jv := JB (b : bool) | JS (s : string) | JZ (z : Z) | JQ (q : Q) | JZL (l : list Z) | JNone.
Definition kw := list (string * jv).
Fixpoint kget (k : string) (d : kw) : option jv :=
  match d with
  | [] => None
  | (k', v) :: t => if String.eqb k k' then Some v else kget k t
  end.
Record raman_p := mkRaman { r_flag : jv; r_method : jv; r_order : jv; r_result_res : jv; r_solver_res : jv }.
Record nli_p := mkNli { n_method : string; n_disp : jv; n_phase : jv; n_channels : jv; n_nch : jv }.
Record simp := mkSim { sp_nli : nli_p; sp_raman : raman_p }.

Definition lower_ascii (c : ascii) : ascii :=
  let n := nat_of_ascii c in
  if (Nat.leb 65 n && Nat.leb n 90)%bool then ascii_of_nat (n + 32) else c.
Fixpoint lower (s : string) : string :=
  match s with EmptyString => EmptyString | String c t => String (lower_ascii c) (lower t) end.

Definition known_keys (ks : list string) (d : kw) : bool := forallb (fun kv => existsb (String.eqb (fst kv)) ks) d.
Definition dflt_of (k : string) (d : kw) (v : jv) : jv := match kget k d with Some x => x | None => v end.
(* RamanParams(kwargs d) *)
Definition raman_of (d : kw) : res raman_p :=
  if known_keys ["flag"; "method"; "order"; "result_spatial_resolution"; "solver_spatial_resolution"]%string d then
    Ok (mkRaman (dflt_of "flag" d (JB false)) (dflt_of "method" d (JS "perturbative")) (dflt_of "order" d (JZ 2))
                (dflt_of "result_spatial_resolution" d (JQ (inject_Z 10000)))
                (dflt_of "solver_spatial_resolution" d (JQ (inject_Z 10000))))
  else Err "TypeError:unexpected keyword argument".
(* NLIParams(kwargs d): method.lower() *)
Definition nli_of (d : kw) : res nli_p :=
  if known_keys ["method"; "dispersion_tolerance"; "phase_shift_tolerance"; "computed_channels";
                 "computed_number_of_channels"]%string d then
    match dflt_of "method" d (JS "gn_model_analytic") with
    | JS m => Ok (mkNli (lower m) (dflt_of "dispersion_tolerance" d (JZ 4)) (dflt_of "phase_shift_tolerance" d (JQ (1 # 10)))
                        (dflt_of "computed_channels" d JNone) (dflt_of "computed_number_of_channels" d JNone))
    | _ => Err "AttributeError:lower"
    end
  else Err "TypeError:unexpected keyword argument".
Definition raman_json (p : raman_p) : kw :=
  [("flag", r_flag p); ("method", r_method p); ("order", r_order p);
   ("result_spatial_resolution", r_result_res p); ("solver_spatial_resolution", r_solver_res p)]%string.
Definition nli_json (p : nli_p) : kw :=
  [("method", JS (n_method p)); ("dispersion_tolerance", n_disp p); ("phase_shift_tolerance", n_phase p);
   ("computed_channels", n_channels p); ("computed_number_of_channels", n_nch p)]%string.
(* SimParams.set_params(sim_params): both entries are rebuilt, a missing one from {} *)
Definition set_params (nli raman : option kw) : res simp :=
  let* n := nli_of (match nli with Some d => d | None => [] end) in
  let* r := raman_of (match raman with Some d => d | None => [] end) in
  Ok (mkSim n r).
(* estimate_raman_gain around the Raman solver call: returns the state seen by the solver and the state left behind *)
Definition estimate_raman_gain_params (st : simp) : res (simp * simp) :=
  let save_raman := raman_json (sp_raman st) in
  let save_nli := nli_json (sp_nli st) in
  let* during := set_params None (Some [("flag", JB true); ("result_spatial_resolution", JQ (inject_Z 50000));
                                       ("solver_spatial_resolution", JZ 100)]%string) in
  let* after := set_params (Some save_nli) (Some save_raman) in
  Ok (during, after).
