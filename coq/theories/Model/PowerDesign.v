(* C09 — executable model of the power design of one OMS, over Q in dB.  Definitions only (no lemmas).

   Modelled code (as it is in /repo now):
     gnpy/core/utils.py     round2float (178-214)
     gnpy/core/network.py   target_power (139-182), prev_/next_node_generator (188-253), span_loss (330-370, the Raman gain estimates of
                            RamanFibers are inputs), find_first_node (561-578), set_amplifier_voa (601-636),
                            compute_gain_power_and_tilt_target (701-769), set_one_amplifier (956-1085),
                            set_egress_amplifier (1155-1286: Edfa nodes, one design band, SRS deviation = 0),
                            add_connector_loss (1947-1980), add_fiber_padding (1983-2022)
     docs/json.rst          655-690 (delta_power_range_db), 706-729 (padding, EOL)

   Conventions.  Losses/gains/offsets dB, powers dBm, exact rationals.  An OMS is the list of its elements from the
   node after the ingress ROADM/Transceiver to the node before the egress ROADM/Transceiver.  Values the code obtains
   from a transcendental function of parameters (pref_ch_db, pref_total_db = pref_ch_db + 10 log10(nb_channels),
   the ROADM egress target of a PSD/PSW policy, loss_coef x length) enter as inputs.  The amplifier selection is
   Model/Select.v; the noise figures of the candidates of each node are inputs.
   Every place where Python raises is an  Err "Type:detail". *)
From Coq Require Import QArith Qminmax Qround.
From Verif Require Import Prelude Model.Select.
Open Scope Q_scope.

(* ------------------------------------------------------------------ rounding *)
(* Python round(): to nearest, ties to even, on the exact value *)
Definition rhe (q : Q) : Z :=
  let f := Qfloor q in
  match Qcompare (q - inject_Z f) (1 # 2) with
  | Lt => f
  | Gt => (f + 1)%Z
  | Eq => if Z.even f then f else (f + 1)%Z
  end.
Definition pow10 (n : nat) : Q := inject_Z (10 ^ Z.of_nat n).
(* round(q, n) *)
Definition round_nd (q : Q) (n : nat) : Q := inject_Z (rhe (q * pow10 n)) / pow10 n.

(* utils.round2float *)
Definition r2f_step (step : Q) : Q := round_nd step 1.
Definition round2float (x step : Q) : Q :=
  let s := r2f_step step in
  if Qle_bool (1 # 100) s then round_nd (round_nd (x / s) 0 * s) 1 else round_nd x 2.
(* the quantity whose distance to a half-integer decides the rounding (for the tie rule of the harness) *)
Definition r2f_arg (x step : Q) : Q :=
  let s := r2f_step step in if Qle_bool (1 # 100) s then x / s else x * 100.
Definition tie_dist (q : Q) : Q := qabs (q - inject_Z (Qfloor q) - (1 # 2)).

(* ------------------------------------------------------------------ configuration: equipment['Span']['default'] *)
Record span_cfg := mkSpan {
  c_power_mode : bool;
  c_dpr : list Q;            (* delta_power_range_db *)
  c_ref : Q;                 (* span_loss_ref *)
  c_slope : Q;               (* power_slope *)
  c_voa_margin : Q; c_voa_step : Q;
  c_ext : Q;                 (* target_extended_gain *)
  c_maxl : Q;                (* max_fiber_lineic_loss_for_raman * 1e-3: dB/m, the unit of loss_coef *)
  c_padding : Q; c_eol : Q; c_con_in : Q; c_con_out : Q }.

(* ------------------------------------------------------------------ elements of an OMS *)
(* a fibre as loaded: loss_coef x length + lumped losses, connectors (None = not given), att_in, loss coefficient(s) *)
(* rf_raman: for a RamanFiber, the two values estimate_raman_gain yields during one design (INPUTS of the model, the
   Raman solver is not modelled): the estimate at the reference power, rounded to 0.01 dB, returned while no span input
   power is known (padding, power target of the amplifier in front of the span), and the estimate at the designed span
   input power, cached as estimated_gain when the walk reaches the fibre and used by the amplifier behind the span *)
Record rfiber := mkRF { rf_lin : Q; rf_cin : option Q; rf_cout : option Q; rf_att : Q; rf_lc : list Q;
                        rf_raman : option (Q * Q) }.
(* a fibre after add_connector_loss; f_dsl = design_span_loss attribute if set *)
Record fiber := mkF { f_lin : Q; f_cin : Q; f_cout : Q; f_att : Q; f_lc : list Q; f_dsl : option Q;
                      f_raman : option (Q * Q) }.
(* an amplifier node: selection data, operational settings (None = null / not given), NF of each candidate at this node *)
Record ampn := mkAN {
  an_node : anode;
  an_gain : option Q;        (* operational.gain_target *)
  an_dp : option Q;          (* operational.delta_p *)
  an_ovoa : option Q;        (* operational.out_voa *)
  an_ivoa : option Q;        (* operational.in_voa *)
  an_nfs : list (string * Q) }.

Inductive relem := RFib (f : rfiber) | RFus (l : Q) | RAmp (a : ampn).
Inductive elem := Fib (f : fiber) | Fus (l : Q) | Amp (a : ampn).

Definition floss (f : fiber) : Q := f_lin f + f_cin f + f_cout f + f_att f.     (* Fiber.loss *)
Definition eloss (e : elem) : Q := match e with Fib f => floss f | Fus l => l | Amp _ => 0 end.
Definition qsum (l : list Q) : Q := fold_right Qplus 0 l.
Definition is_fus (e : elem) : bool := match e with Fus _ => true | _ => false end.
Definition is_ff (e : elem) : bool := match e with Fus _ | Fib _ => true | Amp _ => false end.
Definition set_att (f : fiber) (a : Q) : fiber := mkF (f_lin f) (f_cin f) (f_cout f) a (f_lc f) (f_dsl f) (f_raman f).
Definition set_dsl (f : fiber) (d : Q) : fiber := mkF (f_lin f) (f_cin f) (f_cout f) (f_att f) (f_lc f) (Some d) (f_raman f).
(* estimate_raman_gain of an element: 0 unless it is a RamanFiber; cached = the walk has reached the fibre *)
Definition rgain (cached : bool) (e : elem) : Q :=
  match e with
  | Fib f => match f_raman f with Some (gref, gcached) => if cached then gcached else gref | None => 0 end
  | _ => 0
  end.
Definition is_raman (f : fiber) : bool := match f_raman f with Some _ => true | None => false end.

(* ------------------------------------------------------------------ add_connector_loss *)
Definition is_rfus (e : relem) : bool := match e with RFus _ => true | _ => false end.
Definition odef (o : option Q) (d : Q) : Q := match o with Some v => v | None => d end.
Fixpoint conn (c : span_cfg) (l : list relem) : list elem :=
  match l with
  | [] => []
  | RFib f :: t =>
      let eol := match t with RFus _ :: _ => 0 | _ => c_eol c end in     (* no EOL when the next node is a Fused *)
      Fib (mkF (rf_lin f) (odef (rf_cin f) (c_con_in c)) (odef (rf_cout f) (c_con_out c) + eol) (rf_att f) (rf_lc f) None (rf_raman f))
      :: conn c t
  | RFus x :: t => Fus x :: conn c t
  | RAmp a :: t => Amp a :: conn c t
  end.

(* ------------------------------------------------------------------ prev_/next_node_generator, span_loss *)
(* the generators step from node to its neighbour p only across a Fused: (Fused, Fiber|Fused) or (Fiber|Fused, Fused) *)
Definition link_ok (p n : elem) : bool := (is_fus p && is_ff n) || (is_ff p && is_fus n).
(* `side` = the elements on one side of `node`, nearest first; an empty side means the neighbour is the
   ROADM/Transceiver/amplifier bounding the segment, across which no generator steps *)
Fixpoint walk_gen (side : list elem) (node : elem) : list elem :=
  match side with
  | [] => []
  | p :: r => if link_ok p node then p :: walk_gen r p else []
  end.
Definition live_loss (cached : bool) (before : list elem) (node : elem) (after : list elem) : Q :=
  ((if is_ff node then eloss node else 0)
   + qsum (map eloss (walk_gen before node)) + qsum (map eloss (walk_gen after node)))
  - (rgain cached node
     + qsum (map (rgain cached) (walk_gen before node)) + qsum (map (rgain cached) (walk_gen after node))).
Definition span_loss (cached : bool) (before : list elem) (node : elem) (after : list elem) : Q :=
  match node with
  | Fib f => match f_dsl f with Some d => d | None => live_loss cached before node after end
  | _ => live_loss cached before node after
  end.

(* ------------------------------------------------------------------ add_fiber_padding *)
(* find_first_node + the update of its att_in: adds d to the att_in of the first node of the span of `node` if that
   node is a fibre; returns the updated upstream side, the updated node and the new att_in (None: not a fibre) *)
Fixpoint bump (before : list elem) (node : elem) (d : Q) : list elem * elem * option Q :=
  let here := match node with
              | Fib f => (before, Fib (set_att f (f_att f + d)), Some (f_att f + d))
              | _ => (before, node, None)
              end in
  match before with
  | [] => here
  | p :: r => if link_ok p node
              then let '(r', p', o) := bump r p d in (p' :: r', node, o)
              else here
  end.

(* a span is padded when its loss is below the configured padding, by the difference *)
Definition pad_needed (c : span_cfg) (sl : Q) : bool := qltb sl (c_padding c).
Definition pad_incr (c : span_cfg) (sl : Q) : Q := c_padding c - sl.

(* the loop of add_fiber_padding over the fibres of the OMS, in order.  seg = the elements already visited since the
   last amplifier (or the ingress), nearest first; done = everything before, nearest first.  span_loss and
   find_first_node only need seg: no generator steps across an amplifier.  The result is the whole OMS, last element
   first. *)
Fixpoint padr (c : span_cfg) (done seg : list elem) (after : list elem) : list elem :=
  match after with
  | [] => seg ++ done
  | Amp a :: t => padr c (Amp a :: seg ++ done) [] t
  | Fus x :: t => padr c done (Fus x :: seg) t
  | Fib f :: t =>
      match t with
      | Fus _ :: _ => padr c done (Fib f :: seg) t                 (* next node is a Fused: skipped *)
      | _ =>
          if is_raman f then padr c done (Fib f :: seg) t           (* a RamanFiber is never padded *)
          else
          let sl := span_loss false seg (Fib f) t in
          let f1 := set_dsl f sl in
          if pad_needed c sl then
            match bump seg (Fib f1) (pad_incr c sl) with
            | (seg', Fib f2, Some _) => padr c done (Fib (set_dsl f2 (sl + pad_incr c sl)) :: seg') t
            | (seg', e2, _) => padr c done (e2 :: seg') t           (* the span starts with a Fused: no padding *)
            end
          else padr c done (Fib f1 :: seg) t
      end
  end.

(* add_missing_fiber_attributes *)
Definition prep (c : span_cfg) (l : list relem) : list elem := rev (padr c [] [] (conn c l)).

(* ------------------------------------------------------------------ target_power *)
Definition nth_q (l : list Q) (n : nat) : option Q := nth_error l n.
(* the slope rule: round2float((loss - ref) * slope, step) clamped to [lo, hi] *)
Definition dp_rule (c : span_cfg) (loss : Q) : res Q :=
  match nth_q (c_dpr c) 0, nth_q (c_dpr c) 1, nth_q (c_dpr c) 2 with
  | Some lo, Some hi, Some step =>
      Ok (Qmin hi (Qmax lo (round2float ((loss - c_ref c) * c_slope c) step)))
  | _, _, _ => Err "ConfigurationError:invalid delta_power_range_db definition"
  end.
Definition dp_rule_arg (c : span_cfg) (loss : Q) : Q :=
  match nth_q (c_dpr c) 2 with Some step => r2f_arg ((loss - c_ref c) * c_slope c) step | None => 0 end.

Inductive endk := EndRoadm (preamp_list : list string) | EndTrx.
(* span loss seen from the next node (the node after the amplifier): its upstream neighbour is the amplifier *)
Definition next_loss (rest : list elem) : Q :=
  match rest with [] => 0 | n :: t => span_loss false [] n t end.
Definition target_power (c : span_cfg) (rest : list elem) (e : endk) : res Q :=
  match rest, e with
  | [], EndRoadm _ => Ok 0
  | _, _ => dp_rule c (next_loss rest)
  end.

(* ------------------------------------------------------------------ one amplifier *)
(* the designed operating point of one amplifier + the quantities needed by the tie rule *)
Record damp := mkD {
  d_variety : string;
  d_gain : Q;                (* effective_gain *)
  d_delta_p : option Q;      (* delta_p *)
  d_dp : Q;                  (* _delta_p *)
  d_ovoa : Q; d_ivoa : Q;    (* out_voa, in_voa *)
  d_node_loss : Q;
  d_crit : Q                 (* smallest distance to a rounding tie / decision threshold met *)
}.

Definition ozero (o : option Q) : Q := match o with Some v => v | None => 0 end.   (* x if x else 0 *)

Fixpoint find_amp (n : string) (lib : list amp) : option amp :=
  match lib with [] => None | a :: t => if String.eqb (a_name a) n then Some a else find_amp n t end.
Fixpoint nf_lookup (l : list (string * Q)) (n : string) : Q :=
  match l with [] => 0 | (k, v) :: t => if String.eqb k n then v else nf_lookup t n end.

(* compute_gain_power_and_tilt_target: (gain_target, power_target, dp, voa); tp = target_power(next_node) *)
Definition targets (c : span_cfg) (pref_total prev_dp prev_voa node_loss : Q) (tp : res Q) (a : ampn)
  : res (Q * Q * Q * Q) :=
  let voa := ozero (an_ovoa a) in
  let in_voa := ozero (an_ivoa a) in
  let* dp := match an_dp a with None => (let* t := tp in Ok (t + voa)) | Some d => Ok d end in
  match an_gain a, c_power_mode c with
  | Some g, false =>
      let dp' := prev_dp - node_loss - prev_voa + g - in_voa in
      Ok (g, pref_total + dp', dp', voa)
  | _, _ =>
      Ok (node_loss + dp - prev_dp + prev_voa + in_voa, pref_total + dp, dp, voa)
  end.

(* set_amplifier_voa: the automatic output VOA (0 when not applicable) and the argument of its rounding *)
Definition auto_voa_raw (pmax gmax power_target gain : Q) : Q := Qmin (pmax - power_target) (gmax - gain).
Definition auto_voa (c : span_cfg) (pmax gmax power_target gain : Q) : Q :=
  let raw := auto_voa_raw pmax gmax power_target gain in
  Qmax (Qmin (round2float raw (c_voa_step c) - c_voa_margin c) raw) 0.     (* capped at the head-room *)

(* the automatic choice of the amplifier model: (gain target, power target) -> chosen entry, power reduction, and the
   smallest margin met while choosing *)
Definition selector := Q -> Q -> res (amp * Q * Q).

(* set_one_amplifier, imposed type_variety: the reduction that keeps the total output power within p_max (in gain mode
   the output power follows from the gain target) *)
Definition imposed_red (power_mode : bool) (pmax pref_total prev_dp prev_voa node_loss g0 dp0 : Q) : Q :=
  if power_mode then Qmin 0 (pmax - (pref_total + dp0))
  else Qmin 0 (pmax - (pref_total + prev_dp - node_loss - prev_voa + g0)).

(* set_one_amplifier; returns the designed point and the (dp, voa) handed to the next amplifier *)
Definition set_one_gen (c : span_cfg) (lib : list amp) (pref_total prev_dp prev_voa node_loss : Q)
                       (tp : res Q) (tp_arg : Q) (sel : selector) (a : ampn) : res (damp * Q * Q) :=
  let* (g0, pt, dp0, voa) := targets c pref_total prev_dp prev_voa node_loss tp a in
  let nd := an_node a in
  let* (params, red, crit_sel) :=
    if String.eqb (n_variety nd) "" then sel g0 pt
    else
      match find_amp (n_variety nd) lib with
      | None => Err "KeyError:type_variety"
      | Some p =>
          Ok (p, imposed_red (c_power_mode c) (a_pmax p) pref_total prev_dp prev_voa node_loss g0 dp0, 1)
      end in
  let dp := dp0 + red in
  let g := g0 + red in
  let auto := match an_ovoa a with None => c_power_mode c && a_voa_auto params | Some _ => false end in
  let v := if auto then auto_voa c (a_pmax params) (a_gmax params) pt g else 0 in
  let out_voa := match an_ovoa a with Some x => x | None => v end in
  let crit_tp := match an_dp a with None => tie_dist tp_arg | Some _ => 1 end in
  let crit_voa := if auto then tie_dist (r2f_arg (auto_voa_raw (a_pmax params) (a_gmax params) pt g) (c_voa_step c)) else 1 in
  Ok (mkD (a_name params) (g + v)
          (if c_power_mode c then Some (dp + v) else None)
          (if c_power_mode c then dp + v else dp)
          out_voa (ozero (an_ivoa a)) node_loss
          (Qmin crit_sel (Qmin crit_tp crit_voa)),
      dp, voa).

(* the choice for a single-band Edfa node: get_node_restrictions + select_edfa *)
Definition edfa_selector (c : span_cfg) (lib : list amp) (bmin bmax : Q) (prev next : neigh) (a : ampn) : selector :=
  fun g0 pt =>
    let nd := an_node a in
    let nf := fun x => nf_lookup (an_nfs a) (a_name x) in
    let* (s, red) := auto_select nd prev next bmin bmax (c_maxl c) g0 pt (c_ext c) nf lib in
    Ok (s, red, select_crit (raman_allowed prev (c_maxl c)) g0 pt (c_ext c)
                  (restrict_lib (node_restrictions nd prev next bmin bmax lib) lib)).

Definition set_one (c : span_cfg) (lib : list amp) (bmin bmax pref_total prev_dp prev_voa node_loss : Q)
                   (tp : res Q) (tp_arg : Q) (prev next : neigh) (a : ampn) : res (damp * Q * Q) :=
  set_one_gen c lib pref_total prev_dp prev_voa node_loss tp tp_arg (edfa_selector c lib bmin bmax prev next a) a.

(* ------------------------------------------------------------------ set_egress_amplifier along the OMS *)
Definition neigh_of (e : elem) : neigh := match e with Fib f => NFiber (f_lc f) | _ => NOther end.
(* span_loss(prev_node): prev_node = last passive element before the amplifier, seg = the passive elements since the
   previous amplifier (or the ingress), nearest first; [] = the previous node is an amplifier / ROADM / Transceiver *)
Definition node_loss_of (seg : list elem) : Q :=
  match seg with [] => 0 | p :: r => span_loss true r p [] end.

Fixpoint design_from (c : span_cfg) (lib : list amp) (bmin bmax pref_total : Q) (e : endk)
                     (prevn : neigh) (seg : list elem) (prev_dp prev_voa : Q) (after : list elem)
  : res (list damp) :=
  match after with
  | [] => Ok []
  | Amp a :: rest =>
      let next := match rest with
                  | [] => match e with EndRoadm pl => NRoadm [] pl | EndTrx => NOther end
                  | n :: _ => neigh_of n
                  end in
      let tp_arg := match rest, e with [], EndRoadm _ => 0 | _, _ => dp_rule_arg c (next_loss rest) end in
      let* (d, dp, voa) := set_one c lib bmin bmax pref_total prev_dp prev_voa (node_loss_of seg)
                                    (target_power c rest e) tp_arg prevn next a in
      let* ds := design_from c lib bmin bmax pref_total e NOther [] dp voa rest in
      Ok (d :: ds)
  | x :: rest => design_from c lib bmin bmax pref_total e (neigh_of x) (x :: seg) prev_dp prev_voa rest
  end.

(* the ingress of the OMS: a ROADM (with its booster restriction list) or a Transceiver; p0 = the power it
   launches for the reference channel (per-degree target / tx power), dBm *)
Inductive startk := StartRoadm (booster_list : list string) | StartTrx.
Definition start_neigh (s : startk) : neigh := match s with StartRoadm b => NRoadm b [] | StartTrx => NOther end.

Definition design (c : span_cfg) (lib : list amp) (bmin bmax pref_ch pref_total p0 : Q) (s : startk) (e : endk)
                  (chain : list elem) : res (list damp) :=
  design_from c lib bmin bmax pref_total e (start_neigh s) [] (p0 - pref_ch) 0 chain.

(* ------------------------------------------------------------------ the reference channel walking the designed line *)
(* power of the reference channel after each amplifier, before its output VOA, when the line is fed with p
   (a RamanFiber gives the gain estimated at its designed input power) *)
Fixpoint walk (p : Q) (chain : list elem) (ds : list damp) : list Q :=
  match chain with
  | [] => []
  | Amp _ :: rest =>
      match ds with
      | [] => []
      | d :: ds' => let q := p - d_ivoa d + d_gain d in q :: walk (q - d_ovoa d) rest ds'
      end
  | x :: rest => walk (p - (eloss x - rgain true x)) rest ds
  end.


(* ------------------------------------------------------------------ multiband OMS *)
(* Modelled code: the Multiband_amplifier branch of set_egress_amplifier (1247-1281): one amplifier per design band,
   prev_dp / prev_voa / pref_total_db per band, the same set_one_amplifier per band (SRS deviation and tilt 0: Raman
   flag off), the multiband models restricting each band's choice (Model/Select.v: multi_redfa, band_select), and
   find_type_variety on the band choices.  Passive elements are common to the bands. *)
Record bandinfo := mkBI { bi_min : Q; bi_max : Q; bi_pref_total : Q }.
(* an element of a multiband OMS: a passive element (Fib / Fus) or a Multiband_amplifier node with its per band
   amplifiers (settings, imposed variety, NF of the candidates), in the order of the design bands *)
Inductive melem := MFib (f : fiber) | MFus (l : Q) | MA (nd : anode) (amps : list ampn).

Definition dummy_ampn : ampn := mkAN (mkNode "" []) None None None None [].
Definition dummy_damp : damp := mkD "" 0 None 0 0 0 0 1.
Definition to_elem (m : melem) : elem :=
  match m with MFib f => Fib f | MFus l => Fus l | MA _ _ => Amp dummy_ampn end.

(* the choice of one band's amplifier among restrictions_edfa *)
Definition band_selector (c : span_cfg) (lib : list amp) (redfa : list string) (pc : Q) (prev : neigh) (b : bandinfo)
                         (a : ampn) : selector :=
  fun g0 pt =>
    let nf := fun x => nf_lookup (an_nfs a) (a_name x) in
    let* (s, red) := band_select lib redfa prev (c_maxl c) (bi_min b) (bi_max b) g0 pt (c_ext c) nf in
    let r := filter (covers_name lib (bi_min b) (bi_max b)) redfa in
    Ok (s, red, Qmin pc (select_crit (raman_allowed prev (c_maxl c)) g0 pt (c_ext c)
                           (filter (fun x => negb (a_multi x) && (isnil r || smem (a_name x) r)) lib))).

(* the per band targets handed to preselect_multiband_amps *)
Fixpoint mb_targets (c : span_cfg) (nl : Q) (tp : res Q) (bis : list bandinfo) (st : list (Q * Q))
                    (amps : list ampn) : res (list (Q * Q * Q * Q)) :=
  match bis, st, amps with
  | b :: bs, (pdp, pvoa) :: ss, a :: rest =>
      let* (g0, pt, _, _) := targets c (bi_pref_total b) pdp pvoa nl tp a in
      let* r := mb_targets c nl tp bs ss rest in
      Ok ((bi_min b, bi_max b, g0, pt) :: r)
  | [], [], [] => Ok []
  | _, _, _ => Err "ValueError:number of bands"
  end.

(* set_one_amplifier band after band *)
Fixpoint mb_set (c : span_cfg) (lib : list amp) (nl : Q) (tp : res Q) (tp_arg : Q) (redfa : list string) (pc : Q) (prev : neigh)
                (bis : list bandinfo) (st : list (Q * Q)) (amps : list ampn) : res (list (damp * Q * Q)) :=
  match bis, st, amps with
  | b :: bs, (pdp, pvoa) :: ss, a :: rest =>
      let* r := set_one_gen c lib (bi_pref_total b) pdp pvoa nl tp tp_arg (band_selector c lib redfa pc prev b a) a in
      let* rs := mb_set c lib nl tp tp_arg redfa pc prev bs ss rest in
      Ok (r :: rs)
  | [], [], [] => Ok []
  | _, _, _ => Err "ValueError:number of bands"
  end.

Definition mb_node (c : span_cfg) (lib : list amp) (groups : list mgroup) (nl : Q) (tp : res Q) (tp_arg : Q)
                   (prev next : neigh) (nd : anode) (bis : list bandinfo) (st : list (Q * Q)) (amps : list ampn)
  : res (list (damp * Q * Q)) :=
  let* bts := if String.eqb (n_variety nd) "" then mb_targets c nl tp bis st amps else Ok [] in
  let* (mr, redfa) := multi_redfa nd prev next lib groups (c_ext c) bts in
  (* pc: smallest margin met by the preselection (for the tie rule of the harness) *)
  let pc := if String.eqb (n_variety nd) "" then presel_crit lib groups (c_ext c) mr mr bts else 1 in
  let* rs := mb_set c lib nl tp tp_arg redfa pc prev bis st amps in
  match common_groups groups (map (fun r => d_variety (fst (fst r))) rs) with
  | [] => Err "ConfigurationError:amps do not belong to the same amp type"
  | _ => Ok rs
  end.

Fixpoint design_mb_from (c : span_cfg) (lib : list amp) (groups : list mgroup) (bis : list bandinfo) (e : endk)
                        (prevn : neigh) (seg : list elem) (st : list (Q * Q)) (after : list melem)
  : res (list (list damp)) :=
  match after with
  | [] => Ok []
  | MA nd amps :: rest =>
      let rest_e := map to_elem rest in
      let next := match rest_e with
                  | [] => match e with EndRoadm pl => NRoadm [] pl | EndTrx => NOther end
                  | n :: _ => neigh_of n
                  end in
      let tp_arg := match rest_e, e with [], EndRoadm _ => 0 | _, _ => dp_rule_arg c (next_loss rest_e) end in
      let* rs := mb_node c lib groups (node_loss_of seg) (target_power c rest_e e) tp_arg prevn next nd bis st amps in
      let* dss := design_mb_from c lib groups bis e NOther [] (map (fun r => (snd (fst r), snd r)) rs) rest in
      Ok (map (fun r => fst (fst r)) rs :: dss)
  | x :: rest => design_mb_from c lib groups bis e (neigh_of (to_elem x)) (to_elem x :: seg) st rest
  end.

Definition design_mb (c : span_cfg) (lib : list amp) (groups : list mgroup) (bis : list bandinfo) (pref_ch p0 : Q)
                     (s : startk) (e : endk) (chain : list melem) : res (list (list damp)) :=
  design_mb_from c lib groups bis e (start_neigh s) [] (map (fun _ => (p0 - pref_ch, 0)) bis) chain.

(* band k of a multiband OMS seen as a single-band line *)
Definition proj_band (k : nat) (chain : list melem) : list elem :=
  map (fun m => match m with MA _ amps => Amp (nth k amps dummy_ampn) | _ => to_elem m end) chain.
Definition proj_ds (k : nat) (dss : list (list damp)) : list damp := map (fun ds => nth k ds dummy_damp) dss.

(* a multiband OMS as loaded, and its preparation (connectors, EOL, padding act on the passive elements only) *)
Inductive rmelem := RMFib (f : rfiber) | RMFus (l : Q) | RMA (nd : anode) (amps : list ampn).
Definition to_relem (m : rmelem) : relem :=
  match m with RMFib f => RFib f | RMFus l => RFus l | RMA _ _ => RAmp dummy_ampn end.
Definition mprep (c : span_cfg) (raw : list rmelem) : list melem :=
  map (fun p => match fst p, snd p with
                | RMA nd amps, _ => MA nd amps
                | _, Fib f => MFib f
                | _, Fus l => MFus l
                | _, Amp _ => MFus 0
                end) (combine raw (prep c (map to_relem raw))).
