(* C16 — executable model of a batch of requests evaluated on one designed network.
   Anchors (gnpy):
     tools/worker_utils.py   planning l.142-187: routes for all requests, then propagation of every request, then the
                             spectrum assignment fold
     topology/request.py     compute_path_with_disjunction l.1132-1240: `total_path = deepcopy(pathlist[i])` (l.1159) and
                             `rev_p = deepcopy(reversed_path)` (l.1212) — each request propagates on a private copy
     core/elements.py        Edfa.interpol_params l.1441-1446: an amplifier keeps the gain it was clamped to
   The network is the designed state of every element (uid -> elem, Model/Verdict.v section 5: an Edfa carries its
   current effective gain).  A request comes with its route (computed beforehand from the topology, which no propagation
   touches) and the list of loads it propagates on ITS copy of the path, one after the other (one for a fixed mode, one per
   (baud rate, offset) for the mode loop — the copy is shared inside the request, and the loop writes the designed gains
   back before every propagation: Model/Verdict.restore, fix 6c7139d6).
   Definitions only; proofs are in Proofs/Batch.v. *)
From Coq Require Import QArith.
From Verif Require Import Prelude Model.Verdict.
Open Scope Z_scope.

Definition uid := Z.
Definition network := list (uid * elem).

Fixpoint lookup (n : network) (u : uid) : option elem :=
  match n with
  | [] => None
  | (v, e) :: t => if v =? u then Some e else lookup t u
  end.
(* deepcopy(pathlist[i]): the elements of the route, in their current state *)
Fixpoint get_path (n : network) (r : list uid) : option path :=
  match r with
  | [] => Some []
  | u :: t =>
      match lookup n u, get_path n t with
      | Some e, Some p => Some (e :: p)
      | _, _ => None
      end
  end.
Fixpoint set_elem (n : network) (u : uid) (e : elem) : network :=
  match n with
  | [] => []
  | (v, x) :: t => if v =? u then (v, e) :: t else (v, x) :: set_elem t u e
  end.
(* what propagating on the network's own objects would do: the route's elements end in the propagated state *)
Fixpoint put_path (n : network) (r : list uid) (p : path) : network :=
  match r, p with
  | u :: r', e :: p' => put_path (set_elem n u e) r' p'
  | _, _ => n
  end.

Record request := mkReq {
  q_id : Z;
  q_route : list uid;
  q_loads : list load;          (* the propagations made on the request's copy, in order *)
  q_thr : Q                     (* required signal-to-noise ratio (linear) *)
}.

(* successive propagations on the same path objects, the designed gains `d` being written back before each one: the path
   after the last one and the received spectra *)
Fixpoint run_loads (d p : path) (ls : list load) : path * list spectrum :=
  match ls with
  | [] => (p, [])
  | l :: t =>
      let (p', sp) := run_load (restore d p) l in
      let (p'', r) := run_loads d p' t in
      (p'', sp :: r)
  end.

(* verdict on the last received spectrum: every channel has signal >= thr * noise *)
Definition chan_ok (thr : Q) (c : chp) : bool := Qle_bool (thr * nse c) (sig c).
Definition feasible (thr : Q) (figs : list spectrum) : bool :=
  match List.last (map Some figs) None with
  | Some sp => forallb (chan_ok thr) sp
  | None => false
  end.

(* what is reported for a request, spectrum assignment aside *)
Record result := mkRes {
  r_id : Z;
  r_route : list uid;
  r_figs : list spectrum;       (* receiver figures of every propagation *)
  r_ok : bool;                  (* feasibility verdict *)
  r_path : option path          (* the propagated copy (ResultElement keeps it); None = no path *)
}.

Definition evaluate (n : network) (rq : request) : result * path :=
  match get_path n (q_route rq) with
  | None => (mkRes (q_id rq) [] [] false None, [])
  | Some p =>
      let (p', figs) := run_loads p p (q_loads rq) in
      (mkRes (q_id rq) (q_route rq) figs (feasible (q_thr rq) figs) (Some p'), p')
  end.

(* planning(): every request is evaluated on a copy of the designed elements; the spectrum assignment is a fold over
   the requests with its own state (`assign` is arbitrary: whatever it does only shows in the A component) *)
Fixpoint planning {SS A : Type} (assign : SS -> request -> bool -> SS * A) (n : network) (ss : SS)
         (rqs : list request) : network * SS * list (result * A) :=
  match rqs with
  | [] => (n, ss, [])
  | rq :: t =>
      let (res, _) := evaluate n rq in                     (* the copy is dropped: n is passed on unchanged *)
      let (ss', a) := assign ss rq (r_ok res) in
      let '(n', ss'', rest) := planning assign n ss' t in
      (n', ss'', (res, a) :: rest)
  end.

(* the same pipeline WITHOUT the per-request copy: the propagated elements are the network's *)
Fixpoint planning_nocopy {SS A : Type} (assign : SS -> request -> bool -> SS * A) (n : network) (ss : SS)
         (rqs : list request) : network * SS * list (result * A) :=
  match rqs with
  | [] => (n, ss, [])
  | rq :: t =>
      let (res, p') := evaluate n rq in
      let (ss', a) := assign ss rq (r_ok res) in
      let '(n', ss'', rest) := planning_nocopy assign (put_path n (r_route res) p') ss' t in
      (n', ss'', (res, a) :: rest)
  end.

(* a simple spectrum fold for examples: feasible requests get the next free slot *)
Definition next_slot (ss : Z) (rq : request) (ok : bool) : Z * option Z :=
  if ok then (ss + 1, Some ss) else (ss, None).

(* ====================================================================================================
   Validator for observed behaviour: what the harness saw of gnpy's planning() on one designed network —
   every request alone, the whole batch, permutations of the batch — is judged here.
   A signature is the non-spectrum part of a result: route (element numbers), mode index (-1 = none), blocking reason
   code (spectrum reasons are mapped to "none" by the harness), figures quantised to 1e-6 dB.
   ==================================================================================================== *)
Record sgn := mkSig { s_route : list Z; s_mode : Z; s_reason : Z; s_figs : list Z }.
Record run_obs := mkRun { o_before : Z; o_after : Z; o_results : list (Z * sgn) }.   (* network digests, (request id, signature) *)
Record batch_obs := mkObs { b_net : Z; b_alone : list (Z * sgn); b_runs : list run_obs }.

Fixpoint zlist_eqb (a b : list Z) : bool :=
  match a, b with [], [] => true | x :: a', y :: b' => (x =? y) && zlist_eqb a' b' | _, _ => false end.
(* quantised figures may differ by one unit (a value sitting on a quantisation boundary) *)
Fixpoint figs_close (a b : list Z) : bool :=
  match a, b with
  | [], [] => true
  | x :: a', y :: b' => (Z.abs (x - y) <=? 1) && figs_close a' b'
  | _, _ => false
  end.
Definition sgn_close (a b : sgn) : bool :=
  zlist_eqb (s_route a) (s_route b) && (s_mode a =? s_mode b) && (s_reason a =? s_reason b) &&
  figs_close (s_figs a) (s_figs b).
Fixpoint alone_of (l : list (Z * sgn)) (id : Z) : option sgn :=
  match l with [] => None | (i, s) :: t => if i =? id then Some s else alone_of t id end.
Definition run_ok (o : batch_obs) (r : run_obs) : bool :=
  (o_before r =? b_net o) && (o_after r =? b_net o) &&
  forallb (fun x => match alone_of (b_alone o) (fst x) with Some s0 => sgn_close (snd x) s0 | None => false end)
          (o_results r).
Definition obs_ok (o : batch_obs) : bool := forallb (run_ok o) (b_runs o).

(* ====================================================================================================
   The spectrum fold of planning() instantiated with the C14 model (Model/Spectrum.v, referred to by qualified names):
   pth_assign_spectrum serves the requests in order on the OMS bitmaps; a request that is already blocked is skipped.
   `sreq` says how a request and its verdict become a spectrum request (bandwidth, spacing, bit rate, N/M slots, OMS ids of
   path + reverse path; pre_blocked = the request carries a blocking reason).  An exception stops planning(): the error is
   carried along.
   ==================================================================================================== *)
From Verif Require Model.Spectrum.
Definition sstate := res Spectrum.state.
Definition spectrum_assign (pol : Spectrum.policy) (sreq : request -> bool -> Spectrum.request)
  : sstate -> request -> bool -> sstate * res Spectrum.outcome :=
  fun ss rq ok =>
    match ss with
    | Err e => (Err e, Err e)
    | Ok st =>
        match Spectrum.pth_assign_one pol st (sreq rq ok) with
        | Ok (st', o) => (Ok st', Ok o)
        | Err e => (Err e, Err e)
        end
    end.
(* the spectrum requests of a batch, in order *)
Definition sreqs_of (sreq : request -> bool -> Spectrum.request) (n : network) (rqs : list request) : list Spectrum.request :=
  map (fun rq => sreq rq (r_ok (fst (evaluate n rq)))) rqs.

(* ====================================================================================================
   Variants selected by what the SOURCE does (translator tie, Gen/BatchGen.v): the pipeline with / without the per-request
   copies, the request-internal propagations with / without the restore of the designed gains, and the constants the tie
   compares with the source.
   ==================================================================================================== *)
Definition planning_src {SS A : Type} (copy_forward copy_reverse : bool) (assign : SS -> request -> bool -> SS * A)
           (n : network) (ss : SS) (rqs : list request) : network * SS * list (result * A) :=
  if copy_forward && copy_reverse then planning assign n ss rqs else planning_nocopy assign n ss rqs.
(* successive propagations on the same objects WITHOUT writing the designed gains back *)
Fixpoint run_loads_shared (p : path) (ls : list load) : path * list spectrum :=
  match ls with
  | [] => (p, [])
  | l :: t =>
      let (p', sp) := run_load p l in
      let (p'', r) := run_loads_shared p' t in
      (p'', sp :: r)
  end.
Definition run_loads_src (restores : bool) (d p : path) (ls : list load) : path * list spectrum :=
  if restores then run_loads d p ls else run_loads_shared p ls.
(* compare_reqs: two requests are one service (aggregated) only if they agree on all of these (and on the shape of their
   synchronization vectors); a near-twin differs in exactly one of them *)
Definition aggregation_fields : list string :=
  ["source"; "destination"; "bidir"; "tsp"; "tsp_mode"; "baud_rate"; "nodes_list"; "loose_list"; "spacing"; "power";
   "nb_channel"; "f_min"; "f_max"; "format"; "OSNR"; "roll_off"; "tx_power"]%string.
(* worker_utils.planning: all routes first, then every propagation, then the spectrum fold *)
Definition pipeline_steps : list string :=
  ["build_oms_list"; "requests_from_json"; "correct_json_route_list"; "requests_aggregation"; "compute_path_dsjctn";
   "compute_path_with_disjunction"; "pth_assign_spectrum"]%string.
