(* Num — one record of arithmetic + transcendental operations, two instances.

   Models whose property involves a transcendental function (C03: asinh/exp, C04: 10^x / log10) are written
   ONCE as Gallina terms polymorphic in `N : Num` and instantiated twice:
     NumR : Coq reals (Rplus, exp, ln, arcsinh, PI ...)  — the instance the theorems are about;
     NumF : IEEE binary64 (PrimFloat primitives + the Gallina fexp/fln/fasinh/fpow10/flog10 below)
            — the instance that is *executed* by vm_compute in the correspondence runs.
   That NumF approximates NumR is NOT proved (trusted base; the harness compares with tolerance 1e-7 whereas the
   functions below are good to ~1e-15 relative on the ranges used: see the self-test of harness/c03.py).
   Only PrimFloat / Uint63 primitives are used (no Floats axioms). Definitions only, no lemmas. *)
From Coq Require Import ZArith Reals Rpower List.
From Coq Require PrimFloat Uint63.
Import ListNotations.

Record Num := mkNum {
  NT : Type;
  nzero : NT; none : NT;
  nadd : NT -> NT -> NT; nsub : NT -> NT -> NT; nmul : NT -> NT -> NT; ndiv : NT -> NT -> NT;
  nopp : NT -> NT; nabs : NT -> NT; nsqrt : NT -> NT;
  nexp : NT -> NT; nln : NT -> NT; nasinh : NT -> NT;
  npow10 : NT -> NT; nlog10 : NT -> NT;
  npi : NT;
  nleb : NT -> NT -> bool; nltb : NT -> NT -> bool;
  nofZ : Z -> NT
}.
Arguments nzero {n}. Arguments none {n}. Arguments nadd {n}. Arguments nsub {n}. Arguments nmul {n}.
Arguments ndiv {n}. Arguments nopp {n}. Arguments nabs {n}. Arguments nsqrt {n}. Arguments nexp {n}.
Arguments nln {n}. Arguments nasinh {n}. Arguments npow10 {n}. Arguments nlog10 {n}. Arguments npi {n}.
Arguments nleb {n}. Arguments nltb {n}. Arguments nofZ {n}.

Declare Scope num_scope.
Delimit Scope num_scope with num.
Notation "x + y" := (nadd x y) : num_scope.
Notation "x - y" := (nsub x y) : num_scope.
Notation "x * y" := (nmul x y) : num_scope.
Notation "x / y" := (ndiv x y) : num_scope.
Notation "- x" := (nopp x) : num_scope.
Notation "x <=? y" := (nleb x y) : num_scope.
Notation "x <? y" := (nltb x y) : num_scope.
Notation "'#' z" := (nofZ z%Z) (at level 1, format "'#' z") : num_scope.

(* ------------------------------------------------------------------ instance over the reals *)
Definition Rleb (a b : R) : bool := if Rle_dec a b then true else false.
Definition Rltb (a b : R) : bool := if Rlt_dec a b then true else false.
Definition Rpow10 (x : R) : R := exp (x * ln 10).
Definition Rlog10 (x : R) : R := (ln x / ln 10)%R.

Definition NumR : Num := {|
  NT := R; nzero := 0%R; none := 1%R;
  nadd := Rplus; nsub := Rminus; nmul := Rmult; ndiv := Rdiv; nopp := Ropp; nabs := Rabs; nsqrt := sqrt;
  nexp := exp; nln := ln; nasinh := arcsinh; npow10 := Rpow10; nlog10 := Rlog10; npi := PI;
  nleb := Rleb; nltb := Rltb; nofZ := IZR |}.

(* ------------------------------------------------------------------ instance over binary64 *)
Module F.
Import PrimFloat Uint63.
Local Open Scope float_scope.

Fixpoint pos2f (p : positive) : float :=
  match p with xH => 1 | xO q => 2 * pos2f q | xI q => 2 * pos2f q + 1 end.
Definition z2f (z : Z) : float :=
  match z with Z0 => 0 | Zpos p => pos2f p | Zneg p => - pos2f p end.

Fixpoint horner (cs : list float) (r : float) : float :=
  match cs with [] => 0 | c :: t => c + r * horner t r end.

Definition ln2_hi := 0x1.62e42fee00000p-1.
Definition ln2_lo := 0x1.a39ef35793c76p-33.
Definition inv_ln2 := 0x1.71547652b82fep+0.
Definition ln10_hi := 0x1.26bb1bb800000p+1.
Definition ln10_lo := 0x1.aaa8ac16ea56dp-30.
Definition ln10 := 0x1.26bb1bbb55516p+1.
Definition sqrt_half := 0x1.6a09e667f3bcdp-1.
Definition fpi := 0x1.921fb54442d18p+1.
Definition big := 0x1.8p+52.       (* adding and subtracting rounds to the nearest integer *)
Definition fshift := 2101.         (* PrimFloat.shift as a float *)

(* integer value (as a Uint63) of a non-negative integer-valued float < 2^53 *)
Definition f2int (n : float) : int :=
  let (m, e) := frshiftexp n in
  Uint63.lsr (normfr_mantissa m) (Uint63.sub 2154%uint63 e).     (* 53 - (e - 2101) *)

Definition exp_coefs : list float :=
  [0x1.0000000000000p+0; 0x1.0000000000000p+0; 0x1.0000000000000p-1; 0x1.5555555555555p-3;
   0x1.5555555555555p-5; 0x1.1111111111111p-7; 0x1.6c16c16c16c17p-10; 0x1.a01a01a01a01ap-13;
   0x1.a01a01a01a01ap-16; 0x1.71de3a556c734p-19; 0x1.27e4fb7789f5cp-22; 0x1.ae64567f544e4p-26;
   0x1.1eed8eff8d898p-29; 0x1.6124613a86d09p-33; 0x1.93974a8c07c9dp-37].

(* exp(x) = 2^k * exp(r),  k = round(x/ln2),  r = x - k ln2 in [-0.35, 0.35] (Cody-Waite), Taylor degree 14 *)
Definition fexp_split (xh xl : float) : float :=
  let x := xh + xl in
  if negb (x =? x) then x
  else if 0x1.62e42fefa39efp+9 <? x then infinity
  else if x <? -745 then 0
  else
    let kf := (x * inv_ln2 + big) - big in
    let r := ((xh - kf * ln2_hi) - kf * ln2_lo) + xl in
    ldshiftexp (horner exp_coefs r) (f2int (kf + fshift)).
Definition fexp (x : float) : float := fexp_split x 0.

(* 2 atanh(s) = 2 s (1 + s^2/3 + s^4/5 + ...), 12 terms: exact to 1e-18 for |s| <= 0.1716 *)
Definition atanh_coefs : list float :=
  [0x1.0000000000000p+0; 0x1.5555555555555p-2; 0x1.999999999999ap-3; 0x1.2492492492492p-3;
   0x1.c71c71c71c71cp-4; 0x1.745d1745d1746p-4; 0x1.3b13b13b13b14p-4; 0x1.1111111111111p-4;
   0x1.e1e1e1e1e1e1ep-5; 0x1.af286bca1af28p-5; 0x1.8618618618618p-5; 0x1.642c8590b2164p-5].
Definition two_atanh (s : float) : float := 2 * s * horner atanh_coefs (s * s).

(* ln x = E ln2 + ln m,  m in [sqrt(1/2), sqrt 2),  ln m = 2 atanh((m-1)/(m+1)) *)
Definition fln (x : float) : float :=
  if negb (x =? x) then x
  else if x <? 0 then nan
  else if x =? 0 then neg_infinity
  else if x =? infinity then infinity
  else
    let (m0, e) := frshiftexp x in
    let ef0 := of_uint63 e - fshift in
    let small := m0 <? sqrt_half in
    let m := if small then 2 * m0 else m0 in
    let ef := if small then ef0 - 1 else ef0 in
    ef * ln2_hi + (two_atanh ((m - 1) / (m + 1)) + ef * ln2_lo).

(* log1p(u) = 2 atanh(u / (2 + u))   (used for 0 <= u <= 0.29) *)
Definition flog1p_small (u : float) : float := two_atanh (u / (2 + u)).

Definition fasinh (x : float) : float :=
  let a := abs x in
  let r :=
    if negb (a =? a) then a
    else if a <? 0.25 then flog1p_small (a + a * a / (1 + PrimFloat.sqrt (1 + a * a)))
    else if a <? 0x1p+28 then fln (a + PrimFloat.sqrt (a * a + 1))
    else fln a + ln2_hi + ln2_lo in
  if x <? 0 then - r else r.

Definition fpow10 (x : float) : float := fexp_split (x * ln10_hi) (x * ln10_lo).
Definition flog10 (x : float) : float := fln x / ln10.

(* decomposition used to print a float exactly:  x = (-1)^s * m * 2^e,  m : integer < 2^53 *)
Definition fdecomp (x : float) : bool * Z * Z :=
  let (m, e) := frshiftexp (abs x) in
  (x <? 0, Uint63.to_Z (normfr_mantissa m), (Uint63.to_Z e - 2101 - 53)%Z).
End F.

Definition NumF : Num := {|
  NT := PrimFloat.float; nzero := PrimFloat.zero; none := PrimFloat.one;
  nadd := PrimFloat.add; nsub := PrimFloat.sub; nmul := PrimFloat.mul; ndiv := PrimFloat.div;
  nopp := PrimFloat.opp; nabs := PrimFloat.abs; nsqrt := PrimFloat.sqrt;
  nexp := F.fexp; nln := F.fln; nasinh := F.fasinh; npow10 := F.fpow10; nlog10 := F.flog10; npi := F.fpi;
  nleb := PrimFloat.leb; nltb := PrimFloat.ltb; nofZ := F.z2f |}.

(* ------------------------------------------------------------------ derived, instance-independent helpers *)
Section Derived.
Context {N : Num}.
Local Open Scope num_scope.

Definition nsq (x : NT N) : NT N := x * x.
Definition nmax (a b : NT N) : NT N := if a <=? b then b else a.
Definition nmin (a b : NT N) : NT N := if a <=? b then a else b.
Definition nsum (l : list (NT N)) : NT N := fold_right nadd nzero l.
(* gnpy.core.utils *)
Definition db2lin (x : NT N) : NT N := npow10 (x / #10).
Definition lin2db (x : NT N) : NT N := #10 * nlog10 x.
Definition watt2dbm (x : NT N) : NT N := lin2db (x * #1000).
(* m * 10^e as written in the source (decimal literal) *)
Definition dec (m e : Z) : NT N :=
  if (0 <=? e)%Z then #m * #(10 ^ e) else #m / #(10 ^ (- e)).
End Derived.

(* reduce the projections of NumR to the operations of R (used at the start of every proof) *)
Ltac numR := cbn [NumR NT nzero none nadd nsub nmul ndiv nopp nabs nsqrt nexp nln nasinh npow10 nlog10 npi nleb nltb nofZ] in *.
