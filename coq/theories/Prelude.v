(* Shared definitions: text rendering of results for the correspondence bridge,
   Python list semantics (slices, indexing with negative wrap, list.index). No proofs here. *)
From Coq Require Export ZArith String Bool Ascii List.
From Coq Require Import DecimalString Decimal.
Export ListNotations.
Open Scope Z_scope.

(* ---------- rendering ---------- *)
Definition zs (z : Z) : string := NilZero.string_of_int (Z.to_int z).
Definition nl : string := String (ascii_of_nat 10) EmptyString.
Fixpoint join (sep : string) (l : list string) : string :=
  match l with
  | [] => EmptyString
  | [x] => x
  | x :: t => append x (append sep (join sep t))
  end.
Definition lines (l : list string) : string := join nl l.
Definition bs (b : bool) : string := if b then "T"%string else "F"%string.
Definition zlist_s (l : list Z) : string := append "[" (append (join "," (map zs l)) "]").
Definition ozs (o : option Z) : string := match o with Some z => zs z | None => "N"%string end.
Definition ozlist_s (l : list (option Z)) : string := append "[" (append (join "," (map ozs l)) "]").

(* ---------- Python list semantics ---------- *)
(* a[lo:hi] with Python's clipping of negative / out-of-range bounds *)
Definition clip (len i : Z) : Z := if i <? 0 then Z.max 0 (len + i) else Z.min i len.
Definition pyslice {A} (l : list A) (lo hi : Z) : list A :=
  let len := Z.of_nat (length l) in
  let a := clip len lo in
  let b := clip len hi in
  if b <=? a then [] else firstn (Z.to_nat (b - a)) (skipn (Z.to_nat a) l).

(* a[i] : negative indices wrap once, anything else out of range is IndexError (None) *)
Definition pyidx {A} (l : list A) (i : Z) : option A :=
  let len := Z.of_nat (length l) in
  let j := if i <? 0 then len + i else i in
  if (j <? 0) || (len <=? j) then None else nth_error l (Z.to_nat j).

(* list.index(x) on integers: position of first occurrence, None = ValueError *)
Fixpoint zindex_from (l : list Z) (x : Z) (k : Z) : option Z :=
  match l with
  | [] => None
  | y :: t => if y =? x then Some k else zindex_from t x (k + 1)
  end.
Definition zindex (l : list Z) (x : Z) : option Z := zindex_from l x 0.

(* a[lo:hi] = vals, for 0 <= lo <= hi <= len and |vals| = hi - lo (the only way the code uses it) *)
Definition set_range {A} (l : list A) (lo hi : Z) (v : A) : list A :=
  firstn (Z.to_nat lo) l ++ repeat v (Z.to_nat (hi - lo)) ++ skipn (Z.to_nat hi) l.

(* range(a, b) *)
Definition zrange (a b : Z) : list Z := map (fun k => a + Z.of_nat k) (seq 0 (Z.to_nat (b - a))).

(* error-carrying results: every place where Python raises is explicit *)
Inductive res (A : Type) := Ok (a : A) | Err (e : string).
Arguments Ok {A} a.
Arguments Err {A} e.
Definition bind {A B} (r : res A) (f : A -> res B) : res B :=
  match r with Ok a => f a | Err e => Err e end.
Notation "'let*' x ':=' r 'in' k" := (bind r (fun x => k)) (at level 200, x pattern, right associativity).
