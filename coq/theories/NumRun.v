(* Execution-side helpers for the NumF instance: exact text rendering of binary64 values for the correspondence
   bridge ("m:e" meaning m * 2^e with m a signed integer; "nan", "inf", "-inf"). Definitions only. *)
From Verif Require Import Prelude Num.
From Coq Require PrimFloat.

Definition fstr (x : PrimFloat.float) : string :=
  if negb (PrimFloat.eqb x x) then "nan"%string
  else if PrimFloat.eqb x PrimFloat.infinity then "inf"%string
  else if PrimFloat.eqb x PrimFloat.neg_infinity then "-inf"%string
  else
    let '(s, m, e) := F.fdecomp x in
    append (if s then "-" else "")%string (append (zs m) (append ":" (zs e))).
Definition flist_s (l : list PrimFloat.float) : string := join "," (map fstr l).
