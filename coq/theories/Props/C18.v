(* C18 — Input documents mean the same thing in legacy and YANG form.
   Property theorems only; proofs in Proofs/Yang.v, model in Model/Yang.v, precision table in the generated
   Model/YangPrecision.v (regenerated from gnpy/yang/precision_dict.py by every run of the check).

   Vocabulary
     json                  JNull | JBool | JNum m d (= m / 10^d; d = 0: Python int, d >= 1: Python float identified
                           with the decimal repr() prints) | JStr | JArr | JObj (ordered association list)
     prec k                declared fraction digits of key k (PRECISION_DICT), None when the key is unknown
     legacy_nulls_ok d     no list of d is the singleton [null]
     yang_nulls_ok y       null occurs in y only as the single element of a list, never as [[null]]
     wf_float m d          d >= 1 and no superfluous trailing zero (what repr() prints)
     quant fd m d          the float obtained from JNum m d by ONE conversion to text with fd fraction digits and
                           back: correctly rounded, ties to even (format(x, '.{fd}f')), except that for fd >= 17
                           and a repr without exponent the digits of repr are TRUNCATED (PrettyFloat.__repr__)
     doc_ok c d            numbers of d sit in leaves with a declared precision and fit it (an int in a 0-digit
                           leaf, a float with at most f digits in an f-digit leaf, 1 <= f <= 18); strings only in
                           string-typed (-1) or undeclared leaves.  c = declared digits of the enclosing key.
     doc_loose c d         same without the bound on the number of digits
     quant_doc c d         d with every number of a decimal leaf replaced by its quant *)
From Verif Require Import Prelude Model.YangPrecision Model.Yang Proofs.Yang.
From Coq Require Import Lia.
Open Scope Z_scope.

(* ================= None <-> [None] ================= *)
Theorem C18_empty_to_none_none_to_empty : forall j,
  legacy_nulls_ok j = true -> empty_to_none (none_to_empty j) = j.
Proof. exact e2n_n2e. Qed.
Print Assumptions C18_empty_to_none_none_to_empty.

Theorem C18_none_to_empty_empty_to_none : forall y,
  yang_nulls_ok y = true -> none_to_empty (empty_to_none y) = y.
Proof. exact n2e_e2n. Qed.
Print Assumptions C18_none_to_empty_empty_to_none.

Example ex_nulls :
  let d := JObj [("con_in"%string, JNull); ("l"%string, JArr [JNull; JNum 15 1]); ("o"%string, JObj [("city"%string, JNull)])] in
  legacy_nulls_ok d = true /\ yang_nulls_ok (none_to_empty d) = true /\ none_to_empty d <> d.
Proof. vm_compute. repeat split; discriminate. Qed.

(* ================= decimal formatting and parsing (fmt_parse) ================= *)
(* str(PrettyFloat(x, fd)) then float(): the result is quant fd x, for every int or float x *)
Theorem C18_fmt_parse : forall fd m d, (1 <= fd <= 18)%nat ->
  exists s, pretty (Z.of_nat fd) m d = Ok s /\ py_float (string_of_list_ascii s) = Ok (quant fd m d).
Proof. exact pretty_parse. Qed.
Print Assumptions C18_fmt_parse.

(* a float with at most the declared digits survives unchanged *)
Theorem C18_fmt_parse_exact : forall fd m d, wf_float m d -> (d <= fd)%nat -> quant fd m d = JNum m d.
Proof. exact quant_exact. Qed.
Print Assumptions C18_fmt_parse_exact.

(* more digits are rounded once: the result is a float with at most fd digits, which a second conversion keeps *)
Theorem C18_fmt_parse_rounded_once : forall fd m d m' d', (1 <= fd)%nat -> quant fd m d = JNum m' d' ->
  wf_float m' d' /\ (d' <= fd)%nat /\ quant fd m' d' = JNum m' d'.
Proof.
  intros fd m d m' d' Hf H. destruct (quant_is_wf _ _ _ _ _ Hf H) as [W L].
  repeat split; try assumption; try apply W. exact (quant_idempotent _ _ _ _ _ Hf H).
Qed.
Print Assumptions C18_fmt_parse_rounded_once.

(* the rounding mode of the '.{fd}f' branch: nearest, at most half a unit of the last kept digit away *)
Theorem C18_round_nearest : forall a d fd, 0 <= a -> (fd < d)%nat ->
  2 * Z.abs (round_he a d fd * pow10 (d - fd) - a) <= pow10 (d - fd).
Proof. exact round_he_nearest. Qed.
Print Assumptions C18_round_nearest.

Example ex_fmt :
  (* 80.5 with 6 digits -> "80.5" -> 80.5 ; -12.34567 with 2 digits -> "-12.35" -> -12.35 ; 0.125 -> tie to even 0.12 ;
     1.265e-15 with 18 digits ; 17 digits of 0.12345678901234568 at 17 digits: truncated, not rounded *)
  pretty 6 805 1 = Ok (list_ascii_of_string "80.5") /\ quant 6 805 1 = JNum 805 1 /\ wf_float 805 1 /\
  pretty 2 (-1234567) 5 = Ok (list_ascii_of_string "-12.35") /\ quant 2 (-1234567) 5 = JNum (-1235) 2 /\
  quant 2 125 3 = JNum 12 2 /\
  pretty 18 1265 18 = Ok (list_ascii_of_string "0.000000000000001265") /\
  quant 17 12345678901234568999 20 = JNum 12345678901234568 17.
Proof. vm_compute. repeat split; try lia. Qed.

(* ================= convert_dict / convert_back on whole documents ================= *)
Theorem C18_convert_back_convert_dict : forall x, doc_ok None x = true ->
  exists y, convert_dict x = Ok y /\ convert_back y = Ok x.
Proof. exact cback_cdict_exact. Qed.
Print Assumptions C18_convert_back_convert_dict.

Theorem C18_convert_rounds_once : forall x, doc_loose None x = true ->
  exists y x', convert_dict x = Ok y /\ convert_back y = Ok x' /\ x' = quant_doc None x /\ doc_ok None x' = true /\
               exists y', convert_dict x' = Ok y' /\ convert_back y' = Ok x'.
Proof. exact cback_cdict_rounds_once. Qed.
Print Assumptions C18_convert_rounds_once.

(* the generic layer of yang_to_legacy o legacy_to_yang: none_to_empty, convert_dict | empty_to_none, convert_back *)
Theorem C18_generic_roundtrip : forall d c, legacy_nulls_ok d = true -> doc_ok c d = true ->
  exists y, convert_dict_fd (dflt c) (none_to_empty d) = Ok y /\ convert_back_fd c (empty_to_none y) = Ok d.
Proof. exact generic_roundtrip. Qed.
Print Assumptions C18_generic_roundtrip.

Definition ex_doc : json :=
  JObj [("uid"%string, JStr "Edfa1"); ("operational"%string,
        JObj [("gain_target"%string, JNum 205 1); ("delta_p"%string, JNull); ("out_voa"%string, JNum 0 1)]);
        ("pmd_coef"%string, JNum 1265 18); ("N"%string, JNum (-12) 0);
        ("nf_ripple"%string, JArr [JNum 4372876328262819 16; JNum 5 1])].
Example ex_doc_ok : doc_ok None ex_doc = true /\ legacy_nulls_ok ex_doc = true /\
  convert_dict ex_doc = Ok (JObj [("uid"%string, JStr "Edfa1"); ("operational"%string,
        JObj [("gain_target"%string, JStr "20.5"); ("delta_p"%string, JNull); ("out_voa"%string, JStr "0.0")]);
        ("pmd_coef"%string, JStr "0.000000000000001265"); ("N"%string, JNum (-12) 0);
        ("nf_ripple"%string, JArr [JStr "0.4372876328262819"; JStr "0.5"])]).
Proof. vm_compute. repeat split. Qed.
Example ex_doc_loose :
  let x := JObj [("gain_target"%string, JNum 2214571827636001 14); ("loss"%string, JNum 3 0)] in
  doc_loose None x = true /\ doc_ok None x = false /\
  quant_doc None x = JObj [("gain_target"%string, JNum 22145718 6); ("loss"%string, JNum 30 1)].
Proof. vm_compute. repeat split. Qed.

(* ================= structural converter pairs (on the object they rewrite) ================= *)
(* per-degree power targets of a ROADM: params = others ++ [pch targets] ++ [psd targets] ++ [psw targets],
   each group optional, non-empty, with distinct degrees *)
Theorem C18_degree_roundtrip : forall others o1 o2 o3,
  jget E1 others = None -> jget E2 others = None -> jget E3 others = None -> jget K_pdt others = None ->
  items_ok o1 -> items_ok o2 -> items_ok o3 ->
  let p := others ++ blk E1 o1 ++ blk E2 o2 ++ blk E3 o3 in
  exists p', degree_params p = Ok p' /\ back_degree_params p' = Ok p.
Proof. exact degree_roundtrip. Qed.
Print Assumptions C18_degree_roundtrip.

Example ex_degree :
  let others := [("target_pch_out_db"%string, JNum (-20) 0)] in
  let o1 := Some [("east edfa in A to B"%string, JNum (-185) 1); ("east edfa in A to C"%string, JNum (-19) 0)] in
  let o2 := Some [("east edfa in A to D"%string, JNum 312 6)] in
  jget E1 others = None /\ jget E2 others = None /\ jget E3 others = None /\ jget K_pdt others = None /\
  items_ok o1 /\ items_ok o2 /\ items_ok None /\
  degree_params (others ++ blk E1 o1 ++ blk E2 o2 ++ blk E3 None) =
    Ok (others ++ [(K_pdt, JArr [JObj [(K_degree, JStr "east edfa in A to B"); (E1, JNum (-185) 1)];
                                 JObj [(K_degree, JStr "east edfa in A to C"); (E1, JNum (-19) 0)];
                                 JObj [(K_degree, JStr "east edfa in A to D"); (E2, JNum 312 6)]])]).
Proof.
  cbn zeta. repeat split; try reflexivity; try discriminate.
  - repeat constructor; cbn; intuition discriminate.
  - repeat constructor; cbn; intuition discriminate.
Qed.

Theorem C18_design_band_roundtrip : forall others items,
  jget K_pddb others = None -> jget K_pddbt others = None -> items <> [] -> NoDup (keys items) ->
  let p := others ++ [(K_pddb, JObj items)] in
  exists p', design_band_params p = Ok p' /\ back_design_band_params p' = Ok p.
Proof. exact design_band_roundtrip. Qed.
Print Assumptions C18_design_band_roundtrip.

Theorem C18_loss_coef_roundtrip : forall others fl vl,
  jget K_loss others = None -> jget K_losspf others = None -> length fl = length vl -> vl <> [] ->
  let p := others ++ [(K_loss, JObj [("frequency"%string, JArr fl); ("value"%string, JArr vl)])] in
  exists p', loss_params p = Ok p' /\ back_loss_params p' = Ok p.
Proof. exact loss_coef_roundtrip. Qed.
Print Assumptions C18_loss_coef_roundtrip.

Theorem C18_raman_coef_roundtrip : forall others rf gl fl,
  jget K_raman others = None -> length fl = length gl -> fl <> [] ->
  let p := others ++ [(K_raman, JObj [("reference_frequency"%string, rf); ("g0"%string, JArr gl);
                                      ("frequency_offset"%string, JArr fl)])] in
  exists p', raman_params p = Ok p' /\ back_raman_params p' = Ok p.
Proof. exact raman_coef_roundtrip. Qed.
Print Assumptions C18_raman_coef_roundtrip.

Theorem C18_nf_coef_roundtrip : forall key others c0 ct,
  jget key others = None -> is_dict c0 = false ->
  let e := others ++ [(key, JArr (c0 :: ct))] in
  exists e', nf_forth key e = Ok e' /\ nf_back key e' = Ok e.
Proof. exact nf_coef_roundtrip. Qed.
Print Assumptions C18_nf_coef_roundtrip.

(* Span / SI power ranges: every Span entry and every SI entry of a library (range as the last key of the entry) *)
Theorem C18_range_roundtrip : forall doc spans sis,
  jget "Span" doc = Some (JArr spans) -> jget "SI" doc = Some (JArr sis) ->
  Forall (range_entry_ok "delta_power_range_db" "delta_power_range_dict_db") spans ->
  Forall (range_entry_ok "power_range_db" "power_range_dict_db") sis ->
  exists doc', convert_delta_power_range doc = Ok doc' /\ convert_back_delta_power_range doc' = Ok doc.
Proof. exact range_roundtrip. Qed.
Print Assumptions C18_range_roundtrip.

Example ex_range :
  let si tv := JObj ([("type_variety"%string, JStr tv); ("power_dbm"%string, JNum 0 0)] ++
                     [("power_range_db"%string, JArr [JNum 0 0; JNum 0 0; JNum 1 0])]) in
  let doc := [("Span"%string, JArr []); ("SI"%string, JArr [si "default"%string; si "lband"%string])] in
  Forall (range_entry_ok "power_range_db" "power_range_dict_db") [si "default"%string; si "lband"%string] /\
  exists doc', convert_delta_power_range doc = Ok doc' /\ convert_back_delta_power_range doc' = Ok doc.
Proof.
  cbn zeta. split.
  - repeat constructor; eexists _, _, _, _; repeat split; reflexivity.
  - eexists. split; vm_compute; reflexivity.
Qed.

(* RamanFiber raman_efficiency: the pair is not a round trip and breaks idempotence (finding F16) *)
Theorem C18_raman_efficiency_refuted :
  exists doc doc' doc'', convert_raman_efficiency doc = Ok doc' /\ convert_back_raman_efficiency doc' = Ok doc''
                         /\ doc'' <> doc /\ convert_raman_efficiency doc'' <> Ok doc'.
Proof. exact raman_efficiency_refuted. Qed.
Print Assumptions C18_raman_efficiency_refuted.

Example ex_struct :
  (exists p', design_band_params [("target_pch_out_db"%string, JNum (-20) 0);
       (K_pddb, JObj [("deg1"%string, JArr [JObj [("f_min"%string, JNum 1913 1)]])])] = Ok p') /\
  (exists p', loss_params [("length"%string, JNum 80 0);
       (K_loss, JObj [("frequency"%string, JArr [JNum 186 0; JNum 196 0]); ("value"%string, JArr [JNum 21 2; JNum 2 1])])] = Ok p') /\
  nf_forth "nf_coef" [("type_variety"%string, JStr "a"); ("nf_coef"%string, JArr [JNum 1 1; JNum 2 1])]
    = Ok [("type_variety"%string, JStr "a"); ("nf_coef"%string, JArr [JObj [("coef_order"%string, JNum 0 0); ("nf_coef"%string, JNum 1 1)];
                                                              JObj [("coef_order"%string, JNum 1 0); ("nf_coef"%string, JNum 2 1)]])].
Proof. repeat split; try (eexists; vm_compute; reflexivity). Qed.

(* ================= whole documents through the dispatch ================= *)
Theorem C18_y2l_l2y_sim_params : forall o,
  is_sim_params o = true -> legacy_nulls_ok (JObj o) = true -> doc_ok (prec SIM_PARAMS_NMSP) (JObj o) = true ->
  exists y, legacy_to_yang (JObj o) = Ok y /\ yang_to_legacy y = Ok (JObj o).
Proof. exact y2l_l2y_sim_params. Qed.
Print Assumptions C18_y2l_l2y_sim_params.

Theorem C18_y2l_l2y_spectrum : forall v,
  legacy_nulls_ok v = true -> doc_ok (prec SPECTRUM_NMSP) v = true ->
  let d := JObj [("spectrum"%string, v)] in
  exists y, legacy_to_yang d = Ok y /\ yang_to_legacy y = Ok d.
Proof. exact y2l_l2y_spectrum. Qed.
Print Assumptions C18_y2l_l2y_spectrum.

(* services: route objects with their index first, frequency slots non-empty (what the loaders and the YANG
   schema expect); is_services is stated on the document after none_to_empty, where the converters run *)
Theorem C18_y2l_l2y_services : forall o,
  is_services (map (fun kv => (fst kv, none_to_empty (snd kv))) o) = true ->
  legacy_nulls_ok (JObj o) = true -> doc_ok (prec SERV_NMSP) (JObj o) = true ->
  exists y, legacy_to_yang (JObj o) = Ok y /\ yang_to_legacy y = Ok (JObj o).
Proof. exact y2l_l2y_services. Qed.
Print Assumptions C18_y2l_l2y_services.

Definition ex_service : obj :=
  [("path-request"%string, JArr [JObj [
      ("request-id"%string, JStr "0"); ("source"%string, JStr "trx A"); ("destination"%string, JStr "trx B");
      ("bidirectional"%string, JBool false);
      ("path-constraints"%string, JObj [("te-bandwidth"%string, JObj [
          ("technology"%string, JStr "flexi-grid"); ("trx_type"%string, JStr "Voyager"); ("trx_mode"%string, JNull);
          ("effective-freq-slot"%string, JArr [JObj [("N"%string, JNull); ("M"%string, JNum 8 0)]]);
          ("spacing"%string, JNum 500000000000 1); ("max-nb-of-channel"%string, JNull);
          ("output-power"%string, JNum 125893 8); ("path_bandwidth"%string, JNum 1000000000000 1)])]);
      ("explicit-route-objects"%string, JObj [("route-object-include-exclude"%string, JArr [
          JObj [("index"%string, JNum 0 0); ("explicit-route-usage"%string, JStr "route-include-ero");
                ("num-unnum-hop"%string, JObj [("node-id"%string, JStr "roadm C"); ("hop-type"%string, JStr "LOOSE")])]])])]])].
Example ex_service_ok :
  is_services (map (fun kv => (fst kv, none_to_empty (snd kv))) ex_service) = true /\
  legacy_nulls_ok (JObj ex_service) = true /\ doc_ok (prec SERV_NMSP) (JObj ex_service) = true.
Proof. vm_compute. repeat split. Qed.

(* l2y (y2l (l2y d)) = l2y d and the dual, wherever the round trip holds *)
Theorem C18_l2y_idempotent : forall d,
  (exists y, legacy_to_yang d = Ok y /\ yang_to_legacy y = Ok d) ->
  exists y l, legacy_to_yang d = Ok y /\ yang_to_legacy y = Ok l /\ legacy_to_yang l = Ok y /\
              (exists y', legacy_to_yang l = Ok y' /\ yang_to_legacy y' = Ok l).
Proof. exact idempotent_of_roundtrip. Qed.
Print Assumptions C18_l2y_idempotent.

Definition ex_sim : obj :=
  [("raman_params"%string, JObj [("flag"%string, JBool true); ("result_spatial_resolution"%string, JNum 100000 1);
                                 ("solver_spatial_resolution"%string, JNum 505 1)]);
   ("nli_params"%string, JObj [("method"%string, JStr "ggn_spectrally_separated"); ("dispersion_tolerance"%string, JNum 10 1);
                               ("computed_channels"%string, JArr [JNum 1 0; JNum 18 0; JNum 37 0])])].
Example ex_sim_ok :
  is_sim_params ex_sim = true /\ legacy_nulls_ok (JObj ex_sim) = true /\ doc_ok (prec SIM_PARAMS_NMSP) (JObj ex_sim) = true.
Proof. vm_compute. repeat split. Qed.
Definition ex_spectrum : json :=
  JArr [JObj [("f_min"%string, JNum 1914000000000000 1); ("f_max"%string, JNum 1931000000000000 1);
              ("baud_rate"%string, JNum 320000000000 1); ("slot_width"%string, JNum 500000000000 1);
              ("roll_off"%string, JNum 15 2); ("tx_osnr"%string, JNum 400 1); ("label"%string, JStr "mode_1")]].
Example ex_spectrum_ok : legacy_nulls_ok ex_spectrum = true /\ doc_ok (prec SPECTRUM_NMSP) ex_spectrum = true.
Proof. vm_compute. repeat split. Qed.


(* ================= whole documents: equipment libraries and topologies (composition) ================= *)
(* Vocabulary (Proofs/Yang.v):
     nmap o                 o with none_to_empty applied to every value
     ET f h e               entry e: f e = Ok e1, f (n2e e) = Ok (n2e e1), h e1 = Ok e   (forward step commutes with
                            none_to_empty and is undone by the back step)
     KV key f h top         the value of key (when present) is a list of entries satisfying ET f h
     eqpt_canonical top     unique keys; an equipment document for the dispatch; RamanFiber entries without the legacy
                            raman_efficiency block (F16 is open); Span / SI entries with their range list as last key;
                            amplifier entries with nf_coef (if any) as last key; Roadm entries with a type_variety;
                            no "gnpy-eqpt-config:" prefix in strings
     ETS e                  topology element on which the structural chain commutes with none_to_empty and is undone
     PT ty p p1             the same for the params object of an element of type ty                              *)
Theorem C18_y2l_l2y_equipment : forall top t2, eqpt_canonical top ->
  chain eqpt_forth top = Ok t2 ->
  legacy_nulls_ok (JObj t2) = true -> doc_ok (prec EQPT_NMSP) (JObj t2) = true ->
  exists y, legacy_to_yang (JObj top) = Ok y /\ yang_to_legacy y = Ok (JObj top).
Proof. exact y2l_l2y_equipment. Qed.
Print Assumptions C18_y2l_l2y_equipment.

(* the entry shapes eqpt_canonical asks for *)
Theorem C18_ET_range : forall lk dk e, String.eqb lk dk = false -> range_entry_ok lk dk e ->
  ET (wrapf (range_entry lk dk)) (back_range_entry lk dk) e.
Proof. exact ET_range. Qed.
Print Assumptions C18_ET_range.
Theorem C18_ET_edfa : forall e, edfa_entry_ok e -> ET (wrapf (nf_forth "nf_coef")) (wrapf (nf_back "nf_coef")) e.
Proof. exact ET_edfa. Qed.
Print Assumptions C18_ET_edfa.
Theorem C18_ET_raman_plain : forall eo, jget K_raman_eff eo = None ->
  ET (wrapf raman_eff_entry) (wrapf back_raman_eff_entry) (JObj eo).
Proof. exact ET_raman_plain. Qed.
Print Assumptions C18_ET_raman_plain.

(* topology: t2 is the structurally converted document (the chain without remove_null_region_city, which never
   fires after none_to_empty) *)
Theorem C18_y2l_l2y_topology : forall top t2 es,
  jget K_elements top = Some (JArr es) -> Forall ETS es ->
  chain topo_struct top = Ok t2 ->
  legacy_nulls_ok (JObj t2) = true -> doc_ok (prec TOPO_NMSP) (JObj t2) = true ->
  remove_ns "gnpy-network-topology:" (JObj t2) = JObj t2 ->
  exists y, legacy_to_yang (JObj top) = Ok y /\ yang_to_legacy y = Ok (JObj top).
Proof. exact y2l_l2y_topology. Qed.
Print Assumptions C18_y2l_l2y_topology.

(* which elements satisfy ETS: any element without params ... *)
Theorem C18_ETS_no_params : forall eo ty,
  jget K_type eo = Some (JStr ty) -> jget K_params eo = None -> op_ok eo -> md_ok eo -> ETS (JObj eo).
Proof. exact ETS_no_params. Qed.
Print Assumptions C18_ETS_no_params.
(* ... and any element whose params object satisfies PT *)
Theorem C18_ETS_of_params : forall eo ty p p1,
  has_tp eo ty p -> op_ok eo -> md_ok eo -> PT ty p p1 -> ETS (JObj eo).
Proof. exact ETS_of_params. Qed.
Print Assumptions C18_ETS_of_params.
(* params of an element that is neither a ROADM nor a Transceiver: anything, then the optional per-frequency loss block, then the optional Raman block *)
Theorem C18_PT_fiber : forall ty o ol orr, is_band ty = false -> fiber_params_ok o ol orr ->
  PT ty (o ++ lblk ol ++ rblk orr) (o ++ lout ol ++ rout orr).
Proof. exact PT_fiber. Qed.
Print Assumptions C18_PT_fiber.
(* params of a ROADM: anything, then the per-degree power targets (pch, psd, psw: each optional), then the optional
   per-degree design bands *)
Theorem C18_PT_roadm : forall ty o o1 o2 o3 ob, is_roadm ty = true -> roadm_params_ok o o1 o2 o3 ob ->
  PT ty (o ++ dblocks o1 o2 o3 ++ bblk ob) (o ++ dout o1 o2 o3 ++ bout ob).
Proof. exact PT_roadm. Qed.
Print Assumptions C18_PT_roadm.

(* params of a Transceiver (F17 fixed): anything, then the optional per-degree design bands *)
Theorem C18_PT_trx : forall o ob, trx_params_ok o ob -> PT K_trx (o ++ bblk ob) (o ++ bout ob).
Proof. exact PT_trx. Qed.
Print Assumptions C18_PT_trx.

(* non-vacuity: a library with two amplifiers (one openroadm with nf_coef), two SI entries, ... *)
Definition ex_edfa1 : obj := [("type_variety"%string, JStr "std_medium_gain"); ("type_def"%string, JStr "variable_gain");
   ("gain_flatmax"%string, JNum (260) 1); ("gain_min"%string, JNum (150) 1); ("p_max"%string, JNum (230) 1);
   ("nf_min"%string, JNum (60) 1); ("nf_max"%string, JNum (100) 1); ("out_voa_auto"%string, JBool false); ("allowed_for_design"%string, JBool true)].
Definition ex_edfa2_others : obj := [("type_variety"%string, JStr "openroadm_ila"); ("type_def"%string, JStr "openroadm");
   ("gain_flatmax"%string, JNum (270) 1); ("gain_min"%string, JNum (0) 1); ("p_max"%string, JNum (220) 1); ("allowed_for_design"%string, JBool false)].
Definition ex_edfa2 : obj := ex_edfa2_others ++ [("nf_coef"%string, JArr [JNum (-8104) 7; JNum (-6221) 5; JNum (-5889) 4; JNum 3762 2])].
Definition ex_span_others : obj := [("power_mode"%string, JBool true); ("max_length"%string, JNum (1500) 1); ("length_units"%string, JStr "km");
   ("max_loss"%string, JNum (280) 1); ("padding"%string, JNum (100) 1); ("EOL"%string, JNum (0) 1); ("con_in"%string, JNum (0) 1); ("con_out"%string, JNum (0) 1)].
Definition ex_span : obj := ex_span_others ++ [(LKS, JArr [JNum (-20) 1; JNum (30) 1; JNum 5 1])].
Definition ex_si_others (tv : string) : obj := [("type_variety"%string, JStr tv); ("f_min"%string, JNum 1913000000000000 1); ("f_max"%string, JNum 1951000000000000 1);
   ("baud_rate"%string, JNum 320000000000 1); ("spacing"%string, JNum 500000000000 1); ("power_dbm"%string, JNum (0) 1); ("roll_off"%string, JNum 15 2);
   ("tx_osnr"%string, JNum (400) 1); ("sys_margins"%string, JNum (20) 1)].
Definition ex_si (tv : string) : obj := ex_si_others tv ++ [(LKI, JArr [JNum (0) 1; JNum (0) 1; JNum (10) 1])].
Definition ex_eqpt : obj :=
  [("Edfa"%string, JArr [JObj ex_edfa1; JObj ex_edfa2]);
   ("Fiber"%string, JArr [JObj [("type_variety"%string, JStr "SSMF"); ("dispersion"%string, JNum 167 7); ("effective_area"%string, JNum 83 12); ("pmd_coef"%string, JNum 1265 18)]]);
   ("Span"%string, JArr [JObj ex_span]);
   ("Roadm"%string, JArr [JObj [("type_variety"%string, JStr "default"); ("target_pch_out_db"%string, JNum (-200) 1); ("add_drop_osnr"%string, JNum (380) 1);
                               ("restrictions"%string, JObj [("preamp_variety_list"%string, JArr []); ("booster_variety_list"%string, JArr [])])]]);
   ("SI"%string, JArr [JObj (ex_si "default"); JObj (ex_si "lband")]);
   ("Transceiver"%string, JArr [JObj [("type_variety"%string, JStr "vendorA_trx-type1"); ("frequency"%string, JObj [("min"%string, JNum 1913500000000000 1); ("max"%string, JNum 1961000000000000 1)]);
      ("mode"%string, JArr [JObj [("format"%string, JStr "mode 1"); ("baud_rate"%string, JNum 320000000000 1); ("OSNR"%string, JNum (110) 1); ("bit_rate"%string, JNum 1000000000000 1);
                                  ("roll_off"%string, JNull); ("tx_osnr"%string, JNum (400) 1); ("min_spacing"%string, JNum 375000000000 1); ("cost"%string, JNum (10) 1)]])]])].

Lemma ex_eqpt_canonical : eqpt_canonical ex_eqpt.
Proof.
  constructor.
  - repeat constructor; cbn; intuition discriminate.
  - split; reflexivity.
  - reflexivity.
  - exact I.
  - unfold KV. cbn [jget ex_eqpt String.eqb Ascii.eqb Bool.eqb]. eexists; split; [reflexivity|].
    repeat constructor. apply ET_range; [reflexivity|]. exists ex_span_others, (JNum (-20) 1), (JNum 30 1), (JNum 5 1). repeat split.
  - unfold KV. cbn [jget ex_eqpt String.eqb Ascii.eqb Bool.eqb]. eexists; split; [reflexivity|].
    repeat constructor; (apply ET_range; [reflexivity|]);
      [exists (ex_si_others "default"), (JNum 0 1), (JNum 0 1), (JNum 10 1)|exists (ex_si_others "lband"), (JNum 0 1), (JNum 0 1), (JNum 10 1)]; repeat split.
  - unfold KV. cbn [jget ex_eqpt String.eqb Ascii.eqb Bool.eqb]. eexists; split; [reflexivity|].
    repeat constructor; apply ET_edfa.
    + exists ex_edfa1. split; [reflexivity|]. now left.
    + exists ex_edfa2. split; [reflexivity|]. right. exists ex_edfa2_others, (-8104), 7%nat, [JNum (-6221) 5; JNum (-5889) 4; JNum 3762 2]. split; reflexivity.
  - unfold roadm_entries_ok. cbn [jget ex_eqpt K_roadm String.eqb Ascii.eqb Bool.eqb]. eexists; split; [reflexivity|].
    repeat constructor. eexists; split; reflexivity.
  - reflexivity.
Qed.
Example ex_eqpt_roundtrip : exists y, legacy_to_yang (JObj ex_eqpt) = Ok y /\ yang_to_legacy y = Ok (JObj ex_eqpt).
Proof.
  destruct (chain eqpt_forth ex_eqpt) as [t2|] eqn:E; [|vm_compute in E; discriminate].
  apply (y2l_l2y_equipment ex_eqpt t2 ex_eqpt_canonical E); vm_compute in E; injection E as <-; vm_compute; reflexivity.
Qed.

(* non-vacuity: a topology with two transceivers (one with per-degree design bands), a ROADM with pch and psd per-degree targets and per-degree design bands
   (city null), an amplifier with null settings, a fibre with per-frequency loss, lumped loss and Raman coefficients,
   a Raman fibre with a pump *)
Definition ex_md (city : json) : json :=
  JObj [("location"%string, JObj [("city"%string, city); ("region"%string, JStr ""); ("latitude"%string, JNum 485 1); ("longitude"%string, JNum (-35) 1)])].
Definition ex_trx : obj := [("uid"%string, JStr "trx A"); ("type"%string, JStr "Transceiver"); ("metadata"%string, ex_md (JStr "A"))].
Definition ex_band : json := JArr [JObj [("f_min"%string, JNum 1913000000000000 1); ("f_max"%string, JNum 1961000000000000 1); ("spacing"%string, JNum 500000000000 1)]].
Definition ex_trx2_o : obj := [("design_bands"%string, JArr [])].
Definition ex_trx2 : obj := [("uid"%string, JStr "trx B"); ("type"%string, JStr "Transceiver");
   ("params"%string, JObj (ex_trx2_o ++ bblk (Some [("roadm A"%string, ex_band)])))].
Definition ex_roadm_o : obj := [("target_pch_out_db"%string, JNum (-200) 1);
   ("restrictions"%string, JObj [("preamp_variety_list"%string, JArr []); ("booster_variety_list"%string, JArr [JStr "std_medium_gain"])])].
Definition ex_o1 : option obj := Some [("east edfa in A to B"%string, JNum (-185) 1); ("east edfa in A to C"%string, JNum (-1925) 2)].
Definition ex_o2 : option obj := Some [("east edfa in A to D"%string, JNum 312 6)].
Definition ex_ob : option obj := Some [("east edfa in A to B"%string, ex_band)].
Definition ex_roadm_p : obj := ex_roadm_o ++ dblocks ex_o1 ex_o2 None ++ bblk ex_ob.
Definition ex_roadm : obj := [("uid"%string, JStr "roadm A"); ("type"%string, JStr "Roadm"); ("params"%string, JObj ex_roadm_p); ("metadata"%string, ex_md JNull)].
Definition ex_fiber_o : obj := [("length"%string, JNum 805 1); ("length_units"%string, JStr "km"); ("att_in"%string, JNum 0 1); ("con_in"%string, JNull); ("con_out"%string, JNum 5 1);
   ("lumped_losses"%string, JArr [JObj [("position"%string, JNum 205 1); ("loss"%string, JNum 15 1)]])].
Definition ex_ol : option (list json * list json) := Some ([JNum 1860000000000000 1; JNum 1960000000000000 1], [JNum 21 2; JNum 2 1]).
Definition ex_or : option (json * list json * list json) :=
  Some (JNum 2061846341127920 1, [JNum 0 1; JNum 12 5; JNum 34 5], [JNum 0 1; JNum 50000000000000 1; JNum 130000000000000 1]).
Definition ex_fiber_p : obj := ex_fiber_o ++ lblk ex_ol ++ rblk ex_or.
Definition ex_fiber : obj := [("uid"%string, JStr "fiber AB"); ("type"%string, JStr "Fiber"); ("type_variety"%string, JStr "SSMF"); ("params"%string, JObj ex_fiber_p)].
Definition ex_fiber2_o : obj := [("length"%string, JNum 20 1); ("loss_coef"%string, JNum 2 1); ("length_units"%string, JStr "km")].
Definition ex_fiber2 : obj := [("uid"%string, JStr "fiber BA"); ("type"%string, JStr "RamanFiber"); ("type_variety"%string, JStr "SSMF");
   ("operational"%string, JObj [("temperature"%string, JNum 2830 1); ("raman_pumps"%string, JArr [JObj [("frequency"%string, JNum 2050000000000000 1); ("power"%string, JNum 224403 6);
                                                                                                   ("propagation_direction"%string, JStr "counterprop")]])]);
   ("params"%string, JObj (ex_fiber2_o ++ lblk None ++ rblk None))].
Definition ex_edfa : obj := [("uid"%string, JStr "east edfa in A to B"); ("type"%string, JStr "Edfa"); ("type_variety"%string, JStr "std_medium_gain");
   ("operational"%string, JObj [("gain_target"%string, JNum 205 1); ("delta_p"%string, JNull); ("tilt_target"%string, JNum 0 1); ("out_voa"%string, JNull)])].
Definition ex_els : list json := [JObj ex_trx; JObj ex_trx2; JObj ex_roadm; JObj ex_edfa; JObj ex_fiber; JObj ex_fiber2].
Definition ex_topo : obj := [("network_name"%string, JStr "example"); ("elements"%string, JArr ex_els);
   ("connections"%string, JArr [JObj [("from_node"%string, JStr "trx A"); ("to_node"%string, JStr "roadm A")]])].

Lemma ex_topo_ets : Forall ETS ex_els.
Proof.
  repeat constructor.
  - apply (ETS_no_params ex_trx "Transceiver" eq_refl eq_refl).
    + split; [exact I|discriminate].
    + exact I.
  - apply (ETS_of_params ex_trx2 K_trx (ex_trx2_o ++ bblk (Some [("roadm A"%string, ex_band)])) (ex_trx2_o ++ bout (Some [("roadm A"%string, ex_band)]))).
    + split; reflexivity.
    + split; [exact I|discriminate].
    + exact I.
    + apply PT_trx. constructor; try reflexivity; try exact I; try (intros lc; discriminate).
      split; [discriminate|]. repeat constructor; cbn; intuition discriminate.
  - apply (ETS_of_params ex_roadm "Roadm" ex_roadm_p (ex_roadm_o ++ dout ex_o1 ex_o2 None ++ bout ex_ob)).
    + split; reflexivity.
    + split; [exact I|discriminate].
    + exact I.
    + apply PT_roadm; [reflexivity|]. constructor; try reflexivity; try exact I; try (intros lc; discriminate).
      * split; [discriminate|]. repeat constructor; cbn; intuition discriminate.
      * split; [discriminate|]. repeat constructor; cbn; intuition discriminate.
      * split; [discriminate|]. repeat constructor; cbn; intuition discriminate.
  - apply (ETS_no_params ex_edfa "Edfa" eq_refl eq_refl).
    + split; [exact I|]. intros v Hv. cbn in Hv. injection Hv as <-. discriminate.
    + exact I.
  - apply (ETS_of_params ex_fiber "Fiber" ex_fiber_p (ex_fiber_o ++ lout ex_ol ++ rout ex_or)).
    + split; reflexivity.
    + split; [exact I|discriminate].
    + exact I.
    + apply PT_fiber; [reflexivity|]. constructor; try reflexivity.
      * cbn. repeat split; discriminate.
      * cbn. repeat split; discriminate.
  - apply (ETS_of_params ex_fiber2 "RamanFiber" (ex_fiber2_o ++ lblk None ++ rblk None) (ex_fiber2_o ++ lout None ++ rout None)).
    + split; reflexivity.
    + split; [reflexivity|]. intros v Hv. cbn in Hv. injection Hv as <-. discriminate.
    + exact I.
    + apply PT_fiber; [reflexivity|]. constructor; try reflexivity; try exact I. intros lc; discriminate.
Qed.
Example ex_topo_roundtrip : exists y, legacy_to_yang (JObj ex_topo) = Ok y /\ yang_to_legacy y = Ok (JObj ex_topo).
Proof.
  destruct (chain topo_struct ex_topo) as [t2|] eqn:E; [|vm_compute in E; discriminate].
  apply (y2l_l2y_topology ex_topo t2 ex_els eq_refl ex_topo_ets E); vm_compute in E; injection E as <-; vm_compute; reflexivity.
Qed.

(* ================= aliases (other_name) ================= *)
(* Edfa branch: every declared name maps to the entry without its alias list, reporting that name, all other
   fields equal to the declared entry *)
Theorem C18_alias_spec_edfa : forall e names l,
  jhas "other_name" e = true -> alias_names e = Ok names -> expand_edfa e = Ok l ->
  forall n, In n names ->
    lookup_last n l = Some (alias_entry e n)
    /\ jget "type_variety" (alias_entry e n) = Some (JStr n)
    /\ jget "other_name" (alias_entry e n) = None
    /\ (forall k, String.eqb k "type_variety" = false -> String.eqb k "other_name" = false ->
                  jget k (alias_entry e n) = jget k e).
Proof. exact alias_spec_edfa. Qed.
Print Assumptions C18_alias_spec_edfa.

Example ex_alias_edfa :
  let e := [("type_variety"%string, JStr "std_medium_gain"); ("other_name"%string, JArr [JStr "a"; JStr "b"]);
            ("gain_flatmax"%string, JNum 26 0)] in
  jhas "other_name" e = true /\ alias_names e = Ok ["a"; "b"; "std_medium_gain"]%string.
Proof. vm_compute. repeat split. Qed.

(* Transceiver branch (F5 fixed): the same entries as the Edfa branch, hence the same specification *)
Theorem C18_alias_spec_transceiver : forall e names l,
  jhas "other_name" e = true -> alias_names e = Ok names -> expand_trx e = Ok l ->
  forall n, In n names ->
    lookup_last n l = Some (alias_entry e n)
    /\ jget "type_variety" (alias_entry e n) = Some (JStr n)
    /\ jget "other_name" (alias_entry e n) = None
    /\ (forall k, String.eqb k "type_variety" = false -> String.eqb k "other_name" = false ->
                  jget k (alias_entry e n) = jget k e).
Proof. exact alias_spec_trx. Qed.
Print Assumptions C18_alias_spec_transceiver.

Example ex_alias_trx :
  let e := [("type_variety"%string, JStr "Voyager"); ("other_name"%string, JArr [JStr "aliasA"; JStr "aliasB"]);
            ("frequency"%string, JObj [("min"%string, JNum 1913500000000000 1)])] in
  jhas "other_name" e = true /\ alias_names e = Ok ["aliasA"; "aliasB"; "Voyager"]%string /\
  exists l, expand_trx e = Ok l /\
            map (fun n => option_map (jget "type_variety") (lookup_last n l)) ["aliasA"; "aliasB"; "Voyager"]%string
            = [Some (Some (JStr "aliasA")); Some (Some (JStr "aliasB")); Some (Some (JStr "Voyager"))].
Proof. cbn zeta. repeat split. eexists. split; vm_compute; reflexivity. Qed.

(* mode-level aliases of a transceiver (Transceiver.__init__): every declared mode is kept without its alias list and
   every alias names a mode equal to it except that `format` = the alias *)
Theorem C18_mode_alias_spec : forall ms l, expand_modes ms = Ok l ->
  forall m names, In m ms -> mode_alias_names m = Ok names ->
    In (jdel "other_name" m) l /\
    forall n, In n names ->
      let m' := jset "format" (JStr n) (jdel "other_name" m) in
      In m' l /\ jget "format" m' = Some (JStr n) /\ jget "other_name" m' = None /\
      (forall k, String.eqb k "format" = false -> String.eqb k "other_name" = false -> jget k m' = jget k m).
Proof. exact mode_alias_spec. Qed.
Print Assumptions C18_mode_alias_spec.

Example ex_mode_alias :
  let m1 := [("format"%string, JStr "mode 1"); ("baud_rate"%string, JNum 320000000000 1); ("penalties"%string, JObj []);
             ("equalization_offset_db"%string, JNum 0 0); ("other_name"%string, JArr [JStr "m1 bis"; JStr "m1 ter"])] in
  let m2 := [("format"%string, JStr "mode 2"); ("penalties"%string, JObj []); ("equalization_offset_db"%string, JNum 0 0)] in
  mode_alias_names m1 = Ok ["m1 bis"; "m1 ter"]%string /\
  option_map (map (jget "format")) (match expand_modes [m1; m2] with Ok l => Some l | Err _ => None end)
    = Some [Some (JStr "mode 1"); Some (JStr "mode 2"); Some (JStr "m1 bis"); Some (JStr "m1 ter")].
Proof. vm_compute. split; reflexivity. Qed.

(* ================= translator tie: the converter sources are the model (Gen/YangGen.v is regenerated from
   gnpy/tools/yang_convert_utils.py, convert_legacy_yang.py and json_io.py by every run) ================= *)
From Verif Require Import Gen.YangGen Proofs.YangGen.

Theorem C18_source_convert_degree : forall doc, g_convert_degree doc = convert_degree doc.
Proof. exact gen_convert_degree. Qed.
Print Assumptions C18_source_convert_degree.
Theorem C18_source_convert_back_degree : forall doc, g_convert_back_degree doc = convert_back_degree doc.
Proof. exact gen_convert_back_degree. Qed.
Print Assumptions C18_source_convert_back_degree.
Theorem C18_source_convert_design_band : forall doc, g_convert_design_band doc = convert_design_band doc.
Proof. exact gen_convert_design_band. Qed.
Print Assumptions C18_source_convert_design_band.
Theorem C18_source_convert_back_design_band : forall doc, g_convert_back_design_band doc = convert_back_design_band doc.
Proof. exact gen_convert_back_design_band. Qed.
Print Assumptions C18_source_convert_back_design_band.
Theorem C18_source_convert_loss_coeff_list : forall doc, g_convert_loss_coeff_list doc = convert_loss_coeff_list doc.
Proof. exact gen_convert_loss_coeff_list. Qed.
Print Assumptions C18_source_convert_loss_coeff_list.
Theorem C18_source_convert_back_loss_coeff_list : forall doc, g_convert_back_loss_coeff_list doc = convert_back_loss_coeff_list doc.
Proof. exact gen_convert_back_loss_coeff_list. Qed.
Print Assumptions C18_source_convert_back_loss_coeff_list.
Theorem C18_source_convert_raman_coef : forall doc, g_convert_raman_coef doc = convert_raman_coef doc.
Proof. exact gen_convert_raman_coef. Qed.
Print Assumptions C18_source_convert_raman_coef.
Theorem C18_source_convert_back_raman_coef : forall doc, g_convert_back_raman_coef doc = convert_back_raman_coef doc.
Proof. exact gen_convert_back_raman_coef. Qed.
Print Assumptions C18_source_convert_back_raman_coef.
Theorem C18_source_convert_nf_coef : forall doc, g_convert_nf_coef doc = convert_nf_coef doc.
Proof. exact gen_convert_nf_coef. Qed.
Print Assumptions C18_source_convert_nf_coef.
Theorem C18_source_convert_back_nf_coef : forall doc, g_convert_back_nf_coef doc = convert_back_nf_coef doc.
Proof. exact gen_convert_back_nf_coef. Qed.
Print Assumptions C18_source_convert_back_nf_coef.
Theorem C18_source_convert_nf_fit_coef : forall doc, g_convert_nf_fit_coef doc = convert_nf_fit_coef doc.
Proof. exact gen_convert_nf_fit_coef. Qed.
Print Assumptions C18_source_convert_nf_fit_coef.
Theorem C18_source_convert_back_nf_fit_coef : forall doc, g_convert_back_nf_fit_coef doc = convert_back_nf_fit_coef doc.
Proof. exact gen_convert_back_nf_fit_coef. Qed.
Print Assumptions C18_source_convert_back_nf_fit_coef.
Theorem C18_source_convert_delta_power_range : forall doc, g_convert_delta_power_range doc = convert_delta_power_range doc.
Proof. exact gen_convert_delta_power_range. Qed.
Print Assumptions C18_source_convert_delta_power_range.
Theorem C18_source_convert_back_delta_power_range : forall doc,
  g_convert_back_delta_power_range doc = convert_back_delta_power_range doc.
Proof. exact gen_convert_back_delta_power_range. Qed.
Print Assumptions C18_source_convert_back_delta_power_range.
(* the dispatchers: every branch test and the order of the calls in every branch (remove_namespace_context first) *)
Theorem C18_source_legacy_to_yang : forall doc, g_legacy_to_yang doc = legacy_to_yang doc.
Proof. exact gen_legacy_to_yang. Qed.
Print Assumptions C18_source_legacy_to_yang.
Theorem C18_source_yang_to_legacy : forall doc, g_yang_to_legacy doc = yang_to_legacy doc.
Proof. exact gen_yang_to_legacy. Qed.
Print Assumptions C18_source_yang_to_legacy.
(* the other_name loops *)
Theorem C18_source_expand_edfa : forall e, g_expand_edfa e = expand_edfa e.
Proof. exact gen_expand_edfa. Qed.
Print Assumptions C18_source_expand_edfa.
Theorem C18_source_expand_trx : forall e, g_expand_trx e = expand_trx e.
Proof. exact gen_expand_trx. Qed.
Print Assumptions C18_source_expand_trx.
Theorem C18_source_expand_modes : forall ms, g_expand_modes ms = expand_modes ms.
Proof. exact gen_expand_modes. Qed.
Print Assumptions C18_source_expand_modes.
(* the API container: the caller's payload and extra items are copied before the in-place conversion; the six core sections *)
Theorem C18_source_api_section :
  g_api_payload_copied = true /\ g_api_item_copied = true /\
  g_api_core_keys = [TOPO_NMSP; SERV_NMSP; EQPT_NMSP; SIM_PARAMS_NMSP; EDFA_CONFIG_NMSP; RESP_NMSP].
Proof. exact gen_api_section. Qed.
Print Assumptions C18_source_api_section.
