(* C18 — Input documents mean the same thing in legacy and YANG form.
   Property theorems only; proofs in Proofs/Yang.v, model in Model/Yang.v (precision table: generated
   Model/YangPrecision.v). *)
From Verif Require Import Prelude Model.YangPrecision Model.Yang Proofs.Yang.
Open Scope Z_scope.

(* None <-> [None] : the two directions cancel on well-formed documents *)
Theorem C18_empty_to_none_none_to_empty : forall j,
  legacy_nulls_ok j = true -> empty_to_none (none_to_empty j) = j.
Proof. exact e2n_n2e. Qed.
Print Assumptions C18_empty_to_none_none_to_empty.

Theorem C18_none_to_empty_empty_to_none : forall y,
  yang_nulls_ok y = true -> none_to_empty (empty_to_none y) = y.
Proof. exact n2e_e2n. Qed.
Print Assumptions C18_none_to_empty_empty_to_none.

(* aliases: Edfa branch *)
Theorem C18_alias_spec_edfa : forall e names l,
  jhas "other_name" e = true -> alias_names e = Ok names -> expand_edfa e = Ok l ->
  forall n, In n names ->
    lookup_last n l = Some (alias_entry e n)
    /\ jget "type_variety" (alias_entry e n) = Some (JStr n)
    /\ jget "other_name" (alias_entry e n) = None
    /\ (forall k, String.eqb k "type_variety" = false -> String.eqb k "other_name" = false ->
                  jget k (alias_entry e n) = jget k e).
Proof. exact alias_spec_edfa. Qed.
Print Assumptions C18_alias_spec_edfa.

(* aliases: Transceiver branch, as the code is (F5) *)
Theorem C18_alias_transceiver_refuted :
  exists e names l n e',
    jhas "other_name" e = true /\ alias_names e = Ok names /\ expand_trx e = Ok l /\ In n names /\
    lookup_last n l = Some e' /\ jget "type_variety" e' <> Some (JStr n).
Proof. exact alias_transceiver_refuted. Qed.
Print Assumptions C18_alias_transceiver_refuted.
