(* C03 — Fibre NLI equals the GN-model closed form and obeys its scaling laws.
   Property theorems only; proofs in Proofs/GN.v, model in Model/GN.v (one Gallina term, here at the instance NumR =
   Coq reals; the same term at NumF = binary64 is what the correspondence run executes against gnpy).

   Vocabulary
     pch                  a channel as the solver sees it: f, baud rate B, power P, and the fibre's alpha, beta2, gamma at f
     term len ci cj self  P_i * P_j^2 * eta_ij   (entry [i,j] of nli_matrix in compute_nli, self <-> i = j)
     nli_all len l        NliSolver.compute_nli: per-channel NLI, in the order of l
     nli_of len c l       index-free form: NLI on channel c in the presence of the comb l (XPM from all, SPM correction on c)
     fiber / chan / fiber_nli   the span (length, loss, dispersion, area, reference, input losses) and the launched comb;
                          fiber_nli fb l = per-channel NLI, or Err SpectrumError when a per-frequency table does not cover l
     good c               0 < B and 0 < alpha ;  goodP c = good c and 0 <= P
   No assumption anywhere on the sign of the dispersion, on channel spacing/overlap, or on the fibre length. *)
From Coq Require Import Reals Lra List Permutation.
From Verif Require Import Prelude Num Model.GN Proofs.GN Gen.GNGen Proofs.GNGen.
Import ListNotations.
Open Scope R_scope.

(* the implemented matrix entry is the published closed form (arXiv:1209.0394 eq. 120-123): SPM weight 16/27 on the
   channel itself, XPM weight 32/27 for every other pump, asinh kernel, effective length of the pump *)
Theorem C03_closed_form : forall (len : R) (ci cj : pchR), p_B ci <> 0 ->
  termR len ci cj true = closed_term len ci cj (16 / 27) /\
  termR len ci cj false = closed_term len ci cj (32 / 27).
Proof. exact weights. Qed.
Print Assumptions C03_closed_form.

Theorem C03_per_channel : forall (len : R) l, nli_allR len l = map (fun c => nli_of len c l) l.
Proof. exact nli_all_spec. Qed.
Print Assumptions C03_per_channel.

Theorem C03_psi_nonneg : forall (len : R) (ci cj : pchR),
  0 <= p_B ci -> 0 <= p_B cj -> 0 < p_alpha cj -> 0 <= psiR len ci cj.
Proof. exact psi_nonneg. Qed.
Print Assumptions C03_psi_nonneg.

Theorem C03_nonneg : forall (len : R) l, Forall goodP l -> Forall (fun x : R => 0 <= x) (nli_allR len l).
Proof. exact nli_nonneg. Qed.
Print Assumptions C03_nonneg.

Theorem C03_nonneg_fiber : forall (fb : fiberR) l pl v,
  attach_all fb l = Ok pl -> Forall goodP pl -> fiber_nli fb l = Ok v -> Forall (fun x : R => 0 <= x) v.
Proof. exact fiber_nli_nonneg. Qed.
Print Assumptions C03_nonneg_fiber.

(* cube law, for every real factor k, at the level of the fibre (launched powers, before the input connector) *)
Theorem C03_cubic : forall (fb : fiberR) (k : R) l v,
  fiber_nli fb l = Ok v -> fiber_nli fb (map (scale_chanR k) l) = Ok (map (Rmult (k * k * k)) v).
Proof. exact fiber_nli_cubic. Qed.
Print Assumptions C03_cubic.

Theorem C03_cubic_core : forall (len k : R) l,
  nli_allR len (map (scale_pchR k) l) = map (Rmult (k * k * k)) (nli_allR len l).
Proof. exact nli_cubic. Qed.
Print Assumptions C03_cubic_core.

(* raising any subset of the launched powers never lowers the NLI of any channel *)
Theorem C03_mono_power : forall (fb : fiberR) l l' pl v,
  attach_all fb l = Ok pl -> Forall good pl -> Forall2 chan_raised l l' -> fiber_nli fb l = Ok v ->
  exists v', fiber_nli fb l' = Ok v' /\ Forall2 Rle v v'.
Proof. exact fiber_nli_mono_power. Qed.
Print Assumptions C03_mono_power.

Theorem C03_mono_power_core : forall (len : R) l l',
  Forall good l -> Forall2 raised l l' -> Forall2 Rle (nli_allR len l) (nli_allR len l').
Proof. exact nli_mono_power. Qed.
Print Assumptions C03_mono_power_core.

(* adding a channel: every channel already present gains exactly the XPM term of the new one, which is >= 0 *)
Theorem C03_add_channel : forall (len : R) l c,
  nli_allR len (l ++ [c]) =
  map (fun ci => nli_of len ci l + termR len ci c false) l ++ [nli_of len c (l ++ [c])].
Proof. exact nli_add_channel. Qed.
Print Assumptions C03_add_channel.

Theorem C03_add_channel_le : forall (fb : fiberR) l c pl pc v,
  attach_all fb l = Ok pl -> attach fb c = Ok pc -> Forall goodP pl -> good pc ->
  fiber_nli fb l = Ok v ->
  exists v', fiber_nli fb (l ++ [c]) = Ok v' /\ Forall2 Rle v (firstn (length v) v').
Proof. exact fiber_nli_add_channel. Qed.
Print Assumptions C03_add_channel_le.

(* order independence: the NLI on a channel depends on the comb as a multiset ... *)
Theorem C03_perm_channel : forall (len : R) c l l', Permutation l l' -> nli_of len c l = nli_of len c l'.
Proof. exact nli_of_perm. Qed.
Print Assumptions C03_perm_channel.

(* ... so supplying the comb in another order yields the same (channel, NLI) pairs *)
Theorem C03_perm : forall (fb : fiberR) l l' v, Permutation l l' -> fiber_nli fb l = Ok v ->
  exists v', fiber_nli fb l' = Ok v' /\ Permutation (combine l v) (combine l' v').
Proof. exact fiber_nli_perm. Qed.
Print Assumptions C03_perm.

(* ---- second tie (translator): the fragments below are re-translated from /repo's source on every run
        (harness/pygen_c03.py -> Gen/GNGen.v) and proved equal to the hand-written model, for every number structure N ---- *)
(* entry [cut i, pump j] of nli_matrix: compute_nli, _gn_analytic (weights, eta), _psi (kernel, which index is cut and
   which is pump), effective and asymptotic length of the pump *)
Theorem C03_source_matrix_entry : forall (N : Num) (len : NT N) (ci cj : @pch N) b,
  term len ci cj b =
  g_term ci cj (g_eta ci cj b (g_psi ci cj (g_asymptotic_length (p_alpha cj)) (g_effective_length (p_alpha cj) len))).
Proof. exact @gen_entry. Qed.
Print Assumptions C03_source_matrix_entry.
Theorem C03_source_weight : forall (N : Num) b, @g_weight N b = weight b.
Proof. exact @gen_weight. Qed.
Print Assumptions C03_source_weight.
Theorem C03_source_psi : forall (N : Num) (len : NT N) (ci cj : @pch N),
  psi len ci cj = g_psi ci cj (g_asymptotic_length (p_alpha cj)) (g_effective_length (p_alpha cj) len).
Proof. exact @gen_psi. Qed.
Print Assumptions C03_source_psi.
(* Fiber.alpha / loss scaling, Fiber.beta2 (no slope, slope, one-row table), reference wavelength and frequency *)
Theorem C03_source_alpha : forall (N : Num) (fb : @fiber N) f, alpha fb f = (let* lc := loss_coef fb f in Ok (g_alpha lc)).
Proof. exact @gen_alpha. Qed.
Print Assumptions C03_source_alpha.
Theorem C03_source_loss_scalar : forall (N : Num) (fb : @fiber N) v f, fb_loss fb = LossScalar v -> loss_coef fb f = Ok (g_loss_scale v).
Proof. exact @gen_loss_scalar. Qed.
Print Assumptions C03_source_loss_scalar.
Theorem C03_source_beta2 : forall (N : Num) (fb : @fiber N) f,
  match fb_disp fb with
  | DispDefault => beta2 fb f = Ok (g_beta2 f (g_disp_noslope f (ref_frequency fb) g_default_dispersion))
  | DispScalar d => beta2 fb f = Ok (g_beta2 f (g_disp_noslope f (ref_frequency fb) d))
  | DispSlope d s => beta2 fb f = Ok (g_beta2 f (g_disp_slope f (ref_frequency fb) d s))
  | DispTable [f0] [d] => beta2 fb f = Ok (g_beta2 f (g_disp_noslope f f0 d))
  | DispTable _ _ => True
  end.
Proof. exact @gen_beta2. Qed.
Print Assumptions C03_source_beta2.
Theorem C03_source_ref : forall (N : Num) (fb : @fiber N),
  match fb_ref fb with
  | RefDefault => ref_wavelength fb = g_default_ref_wavelength /\ ref_frequency fb = g_default_ref_frequency
  | RefWavelength w => ref_wavelength fb = w /\ ref_frequency fb = g_ref_frequency_of_wavelength w
  | RefFrequency f => ref_frequency fb = f /\ ref_wavelength fb = g_ref_wavelength_of_frequency f
  end.
Proof. exact @gen_ref. Qed.
Print Assumptions C03_source_ref.
(* effective area / gamma defaulting, contrast, frequency scaling of effective area and gamma *)
Theorem C03_source_area : forall (N : Num) (fb : @fiber N),
  effective_area fb = match fb_area fb with
                      | AreaDefault => g_default_area
                      | AreaGiven a => a
                      | GammaGiven g => g_area_from_gamma (ref_wavelength fb) g
                      end.
Proof. exact @gen_area. Qed.
Print Assumptions C03_source_area.
Theorem C03_source_gamma : forall (N : Num) (fb : @fiber N) f,
  contrast fb = g_contrast (ref_frequency fb) (effective_area fb) /\
  effective_area_scaling fb f = g_effective_area_scaling (contrast fb) f /\
  gamma_scaling fb f = g_gamma_scaling (effective_area_scaling fb f) f.
Proof. exact @gen_gamma. Qed.
Print Assumptions C03_source_gamma.
(* Fiber.propagate / RamanFiber.propagate: con_in + att_in applied (apply_attenuation_db) before the NLI is computed *)
Theorem C03_source_att_in : forall (N : Num) (fb : @fiber N), att_in_lin fb = g_att_lin (g_att_in_db (fb_con_in fb) (fb_att_in fb)).
Proof. exact @gen_att_in. Qed.
Print Assumptions C03_source_att_in.

(* ---- non-vacuity: a concrete 80 km span and a 3-channel mixed comb satisfy every hypothesis used above *)
Definition ex_fb : fiberR :=
  @mkFiber NumR 80000 0 (1 / 2) (@RefDefault NumR) (@LossScalar NumR (2 / 10)) (@DispScalar NumR (167 / 10000000)) (@AreaDefault NumR).
Definition ex_l : list chanR :=
  [@mkC NumR 193000000000000 32000000000 (1 / 1000); @mkC NumR 193100000000000 64000000000 (2 / 1000);
   @mkC NumR 193200000000000 32000000000 (1 / 2000)].

Lemma ex_alpha_pos : 0 < 2 / 10 * (1 / 1000) / (10 * Rlog10 (exp 1)).
Proof.
  unfold Rlog10. rewrite ln_exp.
  assert (H : 0 < ln 10). { rewrite <- ln_1. apply ln_increasing; lra. }
  apply Rdiv_lt_0_compat; [lra|]. apply Rmult_lt_0_compat; [lra|]. apply Rdiv_lt_0_compat; lra.
Qed.

Example ex_hyps : exists pl, attach_all ex_fb ex_l = Ok pl /\ Forall goodP pl /\
                             exists v, fiber_nli ex_fb ex_l = Ok v /\ length v = 3%nat.
Proof.
  eexists. split; [reflexivity|]. split.
  - assert (Hatt := att_in_lin_pos ex_fb). assert (Ha := ex_alpha_pos).
    repeat constructor; unfold good; cbn [p_B p_alpha p_P c_f c_B c_P]; try exact Ha;
      try (unfold dec; cbn [Z.leb Z.compare Z.opp Z.pow Z.pow_pos Pos.iter Z.mul Pos.mul]; numR; lra);
      try (numR; apply Rmult_le_pos; lra).
  - eexists. split; [reflexivity|]. reflexivity.
Qed.
