(* C01 - Per-channel power always splits exactly into signal + ASE + NLI.
   Statements only; every proof is one `exact` of a lemma of Proofs/SI.v.
   Model: Model/SI.v (chan = total power pch + shares rs, ra, rn; updates att / gain / add_ase / add_nli
   exactly as gnpy/core/info.py computes them; demux / mux; element programs; Transceiver figures). *)
From Verif Require Import Prelude Model.SI.
From Verif Require Proofs.SI.
From Verif Require Import Gen.SIGen.
From Verif Require Proofs.SIGen.
From Coq Require Import QArith Permutation.
Open Scope Q_scope.

(* ---- the invariant is preserved by each primitive update ---- *)
Theorem C01_att_inv : forall k c, Inv c -> 0 < k -> Inv (att k c).
Proof. exact Proofs.SI.att_inv. Qed.
Print Assumptions C01_att_inv.
Theorem C01_gain_inv : forall g c, Inv c -> 0 < g -> Inv (gain g c).
Proof. exact Proofs.SI.gain_inv. Qed.
Print Assumptions C01_gain_inv.
Theorem C01_add_ase_inv : forall x c, Inv c -> 0 <= x -> Inv (add_ase x c).
Proof. exact Proofs.SI.add_ase_inv. Qed.
Print Assumptions C01_add_ase_inv.
(* the hypothesis x <= pch is the property's scope (launch powers up to +10 dBm) *)
Theorem C01_add_nli_inv : forall x c, Inv c -> 0 <= x -> x <= pch c -> Inv (add_nli x c).
Proof. exact Proofs.SI.add_nli_inv. Qed.
Print Assumptions C01_add_nli_inv.

(* ---- ... hence by every history of updates (any length, any order) ---- *)
Theorem C01_run_inv : forall ops c, Inv c -> WfOps c ops -> Inv (crun ops c).
Proof. exact Proofs.SI.run_inv. Qed.
Print Assumptions C01_run_inv.
Theorem C01_trace_inv : forall ops c, Inv c -> WfOps c ops -> Forall Inv (ctrace ops c).
Proof. exact Proofs.SI.trace_inv. Qed.
Print Assumptions C01_trace_inv.

(* the statement of the property at every point of every history:
   signal + ASE + NLI power = total power, and each share lies in [0,1] *)
Theorem C01_power_split : forall ops c, Inv c -> WfOps c ops ->
  let c' := crun ops c in
  sig_pow c' + ase_pow c' + nli_pow c' == pch c' /\
  (0 <= rs c' /\ rs c' <= 1) /\ (0 <= ra c' /\ ra c' <= 1) /\ (0 <= rn c' /\ rn c' <= 1).
Proof. exact Proofs.SI.run_power_split. Qed.
Print Assumptions C01_power_split.

(* ---- exact accounting: nothing is created or lost ---- *)
Theorem C01_add_ase_accounting : forall x c, 0 < pch c -> 0 <= x ->
  pch (add_ase x c) == pch c + x /\
  sig_pow (add_ase x c) == sig_pow c /\
  nli_pow (add_ase x c) == nli_pow c /\
  ase_pow (add_ase x c) == ase_pow c + x.
Proof. exact Proofs.SI.add_ase_accounting. Qed.
Print Assumptions C01_add_ase_accounting.
Theorem C01_add_nli_accounting : forall x c, 0 < pch c ->
  pch (add_nli x c) = pch c /\
  sig_pow (add_nli x c) == sig_pow c - rs c * x /\
  ase_pow (add_nli x c) == ase_pow c - ra c * x /\
  nli_pow (add_nli x c) == nli_pow c + (1 - rn c) * x.
Proof. exact Proofs.SI.add_nli_accounting. Qed.
Print Assumptions C01_add_nli_accounting.
Theorem C01_add_nli_transfer : forall x c, Inv c ->
  nli_pow (add_nli x c) - nli_pow c == (sig_pow c - sig_pow (add_nli x c)) + (ase_pow c - ase_pow (add_nli x c)).
Proof. exact Proofs.SI.add_nli_transfer. Qed.
Print Assumptions C01_add_nli_transfer.
Theorem C01_att_accounting : forall k c,
  pch (att k c) == k * pch c /\ sig_pow (att k c) == k * sig_pow c /\
  ase_pow (att k c) == k * ase_pow c /\ nli_pow (att k c) == k * nli_pow c /\
  rs (att k c) = rs c /\ ra (att k c) = ra c /\ rn (att k c) = rn c.
Proof. exact Proofs.SI.att_accounting. Qed.
Print Assumptions C01_att_accounting.
Theorem C01_gain_accounting : forall g c,
  pch (gain g c) == g * pch c /\ sig_pow (gain g c) == g * sig_pow c /\
  ase_pow (gain g c) == g * ase_pow c /\ nli_pow (gain g c) == g * nli_pow c /\
  rs (gain g c) = rs c /\ ra (gain g c) = ra c /\ rn (gain g c) = rn c.
Proof. exact Proofs.SI.gain_accounting. Qed.
Print Assumptions C01_gain_accounting.

(* ---- band split / merge keep exactly the same channel records ---- *)
Theorem C01_demux_keep : forall lo hi sp c, In c (demux lo hi sp) <-> In c sp /\ in_band lo hi c = true.
Proof. exact Proofs.SI.demux_keep. Qed.
Print Assumptions C01_demux_keep.
Theorem C01_mux_perm : forall l r, mux l = Ok r -> Permutation r (concat l).
Proof. exact Proofs.SI.mux_perm. Qed.
Print Assumptions C01_mux_perm.
Theorem C01_demux_mux_keep : forall bands sp r,
  mux (map (fun b => demux (fst b) (snd b) sp) bands) = Ok r ->
  Permutation r (concat (map (fun b => filter (in_band (fst b) (snd b)) sp) bands)) /\
  (forall c, In c r -> In c sp).
Proof. exact Proofs.SI.demux_mux_keep. Qed.
Print Assumptions C01_demux_mux_keep.

(* ---- whole spectra: every history of info.py operations, every element, every path ---- *)
Theorem C01_srun_inv : forall ops sp r, Forall Inv sp -> swfb sp ops = true -> srun ops sp = Ok r -> Forall Inv r.
Proof. exact Proofs.SI.srun_inv. Qed.
Print Assumptions C01_srun_inv.
Theorem C01_erun_inv : forall k e sp r,
  Forall Inv sp -> eprog_okb k e = true -> ewfb e sp = true -> erun e sp = Ok r -> Forall Inv r.
Proof. exact Proofs.SI.erun_inv. Qed.
Print Assumptions C01_erun_inv.
Theorem C01_path : forall els sp r, Forall Inv sp -> pwfb els sp = true -> prun els sp = Ok r ->
  Forall (fun c => sig_pow c + ase_pow c + nli_pow c == pch c /\
                   (0 <= rs c /\ rs c <= 1) /\ (0 <= ra c /\ ra c <= 1) /\ (0 <= rn c /\ rn c <= 1) /\
                   (0 < rs c -> / gsnr c == / osnr c + / snr_nli c)) r.
Proof. exact Proofs.SI.prun_power_split. Qed.
Print Assumptions C01_path.

(* ---- the reported figures: 1/GSNR = 1/OSNR_ASE + 1/SNR_NLI ---- *)
Theorem C01_gsnr_identity : forall c, 0 < rs c -> / gsnr c == / osnr c + / snr_nli c.
Proof. exact Proofs.SI.gsnr_identity. Qed.
Print Assumptions C01_gsnr_identity.
Theorem C01_nsr_identity : forall c, 0 < rs c -> (ra c + rn c) / rs c == ra c / rs c + rn c / rs c.
Proof. exact Proofs.SI.nsr_identity. Qed.
Print Assumptions C01_nsr_identity.
(* it survives Transceiver.update_snr (tx OSNR, ROADM add/drop OSNR added to GSNR and OSNR alike),
   for the signal-bandwidth and the 0.1 nm figures *)
Theorem C01_update_snr_identity : forall args c, 0 < rs c ->
  let r := update_snr args c in
  f_gsnr r == f_osnr r + f_nli r /\ f_gsnr01 r == f_osnr01 r + f_nli r * (ref_bw / cbr c).
Proof. exact Proofs.SI.update_snr_identity. Qed.
Print Assumptions C01_update_snr_identity.
Theorem C01_update_snr_01nm : forall args c, 0 < cbr c ->
  let r := update_snr args c in
  f_osnr01 r == f_osnr r * (ref_bw / cbr c) /\ f_gsnr01 r == f_gsnr r * (ref_bw / cbr c).
Proof. exact Proofs.SI.update_snr_01nm. Qed.
Print Assumptions C01_update_snr_01nm.

(* ---- the boolean side conditions evaluated by the correspondence run mean what they should,
        and the normalised execution used there computes the same rationals ---- *)
Theorem C01_wfcb_iff : forall ops c, wfcb c ops = true <-> WfOps c ops.
Proof. exact Proofs.SI.wfcb_iff. Qed.
Print Assumptions C01_wfcb_iff.
Theorem C01_invb_iff : forall c, invb c = true <-> Inv c.
Proof. exact Proofs.SI.invb_iff. Qed.
Print Assumptions C01_invb_iff.
Theorem C01_srun_n_correct : forall ops sp, res_rel (srun_n ops sp) (srun ops sp).
Proof. exact Proofs.SI.srun_n_correct. Qed.
Print Assumptions C01_srun_n_correct.

(* ---- second tie (translator): the definitions g_* are re-translated from gnpy/core/info.py of /repo on every run
        (harness/pygen_c01.py -> Gen/SIGen.v); they are the model the theorems above are about, and so the
        invariant holds of the translated source itself ---- *)
Theorem C01_source_add_nli : forall x c, g_add_nli x c = add_nli x c.
Proof. exact Proofs.SIGen.gen_add_nli. Qed.
Print Assumptions C01_source_add_nli.
Theorem C01_source_add_ase : forall x c, g_add_ase x c = add_ase x c.
Proof. exact Proofs.SIGen.gen_add_ase. Qed.
Print Assumptions C01_source_add_ase.
Theorem C01_source_apply_attenuation_lin : forall k c, g_apply_attenuation_lin k c = att k c.
Proof. exact Proofs.SIGen.gen_apply_attenuation_lin. Qed.
Print Assumptions C01_source_apply_attenuation_lin.
Theorem C01_source_apply_gain_lin : forall g c, g_apply_gain_lin g c = gain g c.
Proof. exact Proofs.SIGen.gen_apply_gain_lin. Qed.
Print Assumptions C01_source_apply_gain_lin.
Theorem C01_source_apply_attenuation_db : forall db2lin d c, g_apply_attenuation_db db2lin d c = att (1 / db2lin d) c.
Proof. exact Proofs.SIGen.gen_apply_attenuation_db. Qed.
Print Assumptions C01_source_apply_attenuation_db.
Theorem C01_source_apply_gain_db : forall db2lin d c, g_apply_gain_db db2lin d c = gain (db2lin d) c.
Proof. exact Proofs.SIGen.gen_apply_gain_db. Qed.
Print Assumptions C01_source_apply_gain_db.
Theorem C01_source_signal : forall c, g_signal c = sig_pow c.
Proof. exact Proofs.SIGen.gen_signal. Qed.
Print Assumptions C01_source_signal.
Theorem C01_source_ase : forall c, g_ase c = ase_pow c.
Proof. exact Proofs.SIGen.gen_ase. Qed.
Print Assumptions C01_source_ase.
Theorem C01_source_nli : forall c, g_nli c = nli_pow c.
Proof. exact Proofs.SIGen.gen_nli. Qed.
Print Assumptions C01_source_nli.
Theorem C01_source_is_in_band : forall lo hi c, g_is_in_band lo hi c = in_band lo hi c.
Proof. exact Proofs.SIGen.gen_is_in_band. Qed.
Print Assumptions C01_source_is_in_band.
Theorem C01_source_overlap : forall l, overlapb l =
  match l with c :: ((d :: _) as t) => g_overlap c d || overlapb t | _ => false end.
Proof. exact Proofs.SIGen.gen_overlap. Qed.
Print Assumptions C01_source_overlap.
Theorem C01_source_exceed : forall l, exceedb l = existsb g_exceed l.
Proof. exact Proofs.SIGen.gen_exceed. Qed.
Print Assumptions C01_source_exceed.

(* ---- non-vacuity ---- *)
Definition ex_c : chan := mkC 193000000000000 50000000000 32000000000 (1#1000) 1 0 0.
Definition ex_d : chan := mkC 193100000000000 75000000000 64000000000 (2#1000) (9#10) (1#20) (1#20).
Definition ex_ops : list cop := [CAtt (1#2); CNli (1#100000); CAse (1#1000000); CGain 100; CNli (1#100)].
Example C01_ex_history : Inv ex_c /\ WfOps ex_c ex_ops /\ 0 < rn (crun ex_ops ex_c) /\ 0 < ra (crun ex_ops ex_c).
Proof.
  split; [apply Proofs.SI.invb_iff; vm_compute; reflexivity|].
  split; [apply Proofs.SI.wfcb_iff; vm_compute; reflexivity|]. split; vm_compute; reflexivity.
Qed.
Definition ex_fiber : eprog := PFlat [SAtt [9#10; 9#10]; SNli [1#100000; 1#50000]; SAtt [1#50; 1#40]; SAtt [9#10; 9#10]].
Definition ex_edfa : eprog := PEdfa 191000000000000 196000000000000 [SAse [1#10000000; 1#10000000]; SGain [60; 50]].
Definition ex_path : list (ekind * eprog) := [(KTrx, PFlat []); (KRoadm, PFlat [SAtt [1#100; 1#100]; SAtt [1#2; 1#3]]);
                                              (KEdfa, ex_edfa); (KFiber, ex_fiber); (KEdfa, ex_edfa)].
Example C01_ex_path : Forall Inv [ex_c; ex_d] /\ pwfb ex_path [ex_c; ex_d] = true /\
                      exists r, prun ex_path [ex_c; ex_d] = Ok r /\ length r = 2%nat.
Proof.
  split; [repeat constructor; apply Proofs.SI.invb_iff; vm_compute; reflexivity|].
  split; [vm_compute; reflexivity|]. eexists. split; [vm_compute; reflexivity|reflexivity].
Qed.
