(* C15 — every designed network yields a consistent OMS partition and spectrum map.
   Property theorems about the model Verif.Model.Oms (statements in full; proofs in Proofs/Oms.v). *)
From Coq Require Import QArith Lia.
From Verif Require Import Prelude Model.Spectrum Model.Oms Proofs.Oms Gen.OmsGen Proofs.OmsGen.
Local Open Scope Z_scope.

(* ---------------------------------------------------------------- slot <-> frequency *)
(* over exact rationals, any non-zero grid, any n *)
Theorem n_freq_roundtrip : forall (n : Z) (grid : Q),
  ~ (grid == 0)%Q -> frequency_to_n (nvalue_to_frequency n grid) grid = n.
Proof. exact Proofs.Oms.n_freq_roundtrip. Qed.
Print Assumptions n_freq_roundtrip.

(* IEEE doubles (PrimFloat), FINITE statement: the 8001 slot numbers -4000..4000 on the 6.25 GHz grid *)
Theorem n_freq_roundtrip_float : forall n : Z, -4000 <= n <= 4000 ->
  F.frequency_to_n (F.nvalue_to_frequency n (F.of_Z 6250000000)) (F.of_Z 6250000000) = n.
Proof. exact Proofs.Oms.n_freq_roundtrip_float. Qed.
Print Assumptions n_freq_roundtrip_float.

Theorem slots_roundtrip : forall n m : Z,
  slots_to_m (fst (mvalue_to_slots n m)) (snd (mvalue_to_slots n m)) = (n, m).
Proof. exact Proofs.Oms.slots_roundtrip. Qed.
Print Assumptions slots_roundtrip.

(* the other direction needs an even number of slots: stopn = startn + 2m - 1 *)
Theorem slots_roundtrip_inv : forall a m : Z,
  let b := a + 2 * m - 1 in
  mvalue_to_slots (fst (slots_to_m a b)) (snd (slots_to_m a b)) = (a, b).
Proof. exact Proofs.Oms.slots_roundtrip_inv. Qed.
Print Assumptions slots_roundtrip_inv.

(* ---------------------------------------------------------------- create_oms_bitmap *)
(* for ALL sorted, non-overlapping common bands inside [f_min, f_max] (create_oms_bitmap as repaired by 5d131b9c; no
   slot-level separation needed): the map has exactly one cell per slot of n_min..n_max, and cell n is FREE iff n
   lies in the slot range [n(f_min_i), n(f_max_i)] of some band - so a slot that the facing edges of two bands
   share is FREE once *)
Theorem bitmap_len : forall (grid f_min f_max : Q) (common : list band),
  (0 < grid)%Q -> sorted_in f_min f_max common ->
  exists c, create_oms_bitmap common f_min f_max grid = Ok c /\
            Z.of_nat (length c) = frequency_to_n f_max grid - frequency_to_n f_min grid + 1 /\
            forall n, frequency_to_n f_min grid <= n <= frequency_to_n f_max grid ->
                      znth c (n - frequency_to_n f_min grid) =
                      Some (if in_slots (map (band_slots grid) common) n then SF else SU).
Proof. exact Proofs.Oms.bitmap_len. Qed.
Print Assumptions bitmap_len.

(* the former counter-example (two bands 2 GHz apart inside slot 20, corpus/C15/k02): 51 cells for slots 0..50,
   slot 20 FREE once *)
Example bitmap_shared_slot :
  let common := [((193162500000000 # 1), (193226000000000 # 1)); ((193228000000000 # 1), (193350000000000 # 1))] in
  sorted_in f_ref (193412500000000 # 1) common /\
  map (band_slots default_grid) common = [(10, 20); (20, 40)] /\
  create_oms_bitmap common f_ref (193412500000000 # 1) default_grid = Ok (rep SU 10 ++ rep SF 31 ++ rep SU 10).
Proof. cbv zeta. split; [cbn; repeat split; discriminate|]. split; vm_compute; reflexivity. Qed.

(* grid-aligned band edges: FREE <-> the slot's nominal frequency lies inside a band, UNUSABLE otherwise *)
Theorem bitmap_marks : forall (grid f_min f_max : Q) (common : list band),
  (0 < grid)%Q -> sorted_in f_min f_max common ->
  Forall (fun b => on_grid grid (fst b) /\ on_grid grid (snd b)) common ->
  exists c, create_oms_bitmap common f_min f_max grid = Ok c /\
            Z.of_nat (length c) = frequency_to_n f_max grid - frequency_to_n f_min grid + 1 /\
            forall n, frequency_to_n f_min grid <= n <= frequency_to_n f_max grid ->
                      znth c (n - frequency_to_n f_min grid) = Some (if in_bands grid common n then SF else SU).
Proof. exact Proofs.Oms.bitmap_marks. Qed.
Print Assumptions bitmap_marks.

Example bitmap_marks_nonvacuous :
  exists grid f_min f_max common,
    (0 < grid)%Q /\ sorted_in f_min f_max common /\
    Forall (fun b => on_grid grid (fst b) /\ on_grid grid (snd b)) common /\ length common = 2%nat /\
    create_oms_bitmap common f_min f_max grid = Ok (rep SU 8 ++ rep SF 5 ++ rep SU 3 ++ rep SF 9 ++ rep SU 2).
Proof.
  exists default_grid, (nvalue_to_frequency (-10) default_grid), (nvalue_to_frequency 16 default_grid),
         [(nvalue_to_frequency (-2) default_grid, nvalue_to_frequency 2 default_grid);
          (nvalue_to_frequency 6 default_grid, nvalue_to_frequency 14 default_grid)].
  split; [reflexivity|]. split; [cbn; repeat split; discriminate|]. split.
  - repeat constructor; cbn [fst snd]; eexists; reflexivity.
  - split; [reflexivity|vm_compute; reflexivity].
Qed.

(* ---------------------------------------------------------------- Bitmap / align_grids *)
Theorem mk_bitmap_ok : forall f_min f_max grid gbd : Q,
  (0 < grid)%Q -> (f_min <= f_max)%Q ->
  exists b, mk_bitmap f_min f_max grid gbd None = Ok b /\ bwf b /\ n_min b <= n_max b.
Proof. exact Proofs.Oms.mk_bitmap_ok. Qed.
Print Assumptions mk_bitmap_ok.

(* for ALL non-empty lists of well-formed maps (contiguous index, one cell per index) of arbitrary extents:
   every map ends up on the common extent (min n_min, max n_max), its index is range(min, max+1) hence without
   repetition, every old cell is found at the same slot number, every new cell is OCCUPIED, guard indices untouched *)
Theorem align_spec : forall l : list bitmap,
  l <> [] -> Forall bwf l ->
  exists l', align_grids l = Ok l' /\ Forall2 (aligned (ext_min l) (ext_max l)) l l' /\
             (forall b, In b l -> ext_min l <= n_min b /\ n_max b <= ext_max l) /\
             (exists b, In b l /\ n_min b = ext_min l) /\ (exists b, In b l /\ n_max b = ext_max l).
Proof. exact Proofs.Oms.align_spec. Qed.
Print Assumptions align_spec.

Example align_spec_nonvacuous :
  let l := [mkB (-3) 2 1 (-2) 4 (zrange (-3) 3) [SF; SO; SF; SF; SU; SU];
            mkB 0 7 4 3 4 (zrange 0 8) (rep SF 8);
            mkB (-5) (-1) (-1) (-5) 4 (zrange (-5) 0) [SU; SF; SO; SO; SF]] in
  Forall bwf l /\ ext_min l = -5 /\ ext_max l = 7 /\
  option_map (map cells) (match align_grids l with Ok x => Some x | Err _ => None end) =
  Some [[SO; SO; SF; SO; SF; SF; SU; SU; SO; SO; SO; SO; SO];
        [SO; SO; SO; SO; SO; SF; SF; SF; SF; SF; SF; SF; SF];
        [SU; SF; SO; SO; SF; SO; SO; SO; SO; SO; SO; SO; SO]].
Proof.
  cbv zeta. split; [|vm_compute; auto].
  repeat constructor; vm_compute; congruence.
Qed.

(* the well-formedness premise cannot be dropped: a degenerate map (n_max < n_min - 1) breaks the index *)
Theorem align_needs_wf :
  exists l l', align_grids l = Ok l' /\ Forall (fun b => idx b = zrange (n_min b) (n_max b + 1)) l /\
               ~ Forall (fun b => NoDup (idx b) /\ idx b = zrange (n_min b) (n_max b + 1)) l'.
Proof. exact Proofs.Oms.align_needs_wf. Qed.
Print Assumptions align_needs_wf.

(* all maps built for one network (same f_min, f_max) cover the same slots n_min..n_max, once each *)
Theorem same_extent : forall (f_min f_max : Q) (commons : list (list band)) (l : list bitmap),
  oms_maps f_min f_max commons = Ok l ->
  length l = length commons /\
  Forall (fun b => n_min b = frequency_to_n f_min default_grid /\ n_max b = frequency_to_n f_max default_grid /\
                   idx b = zrange (n_min b) (n_max b + 1) /\ NoDup (idx b) /\
                   length (cells b) = length (idx b)) l.
Proof. exact Proofs.Oms.same_extent. Qed.
Print Assumptions same_extent.

(* ---------------------------------------------------------------- the common band(s) of the amplifiers *)
(* find_common_range, pointwise: a frequency inside a returned band lies inside a band of every amplifier; a
   frequency strictly inside a band of every amplifier lies strictly inside a returned band (edges that two
   amplifiers merely share are dropped by the strict test f_min < f_max of the code) *)
Theorem find_common_range_sound : forall (amps : list (list band)) (si : band) (f : Q),
  amps <> [] -> inb f (find_common_range amps si) -> forall amp, In amp amps -> inb f amp.
Proof. exact Proofs.Oms.find_common_range_sound. Qed.
Print Assumptions find_common_range_sound.

Theorem find_common_range_complete : forall (amps : list (list band)) (si : band) (f : Q),
  amps <> [] -> (forall amp, In amp amps -> sinb f amp) -> sinb f (find_common_range amps si).
Proof. exact Proofs.Oms.find_common_range_complete. Qed.
Print Assumptions find_common_range_complete.

(* on an OMS with amplifiers whose common band edges are on the grid, for a map as build_oms_list_ok delivers it:
   every cell is FREE or UNUSABLE; FREE implies that the slot's nominal frequency lies in a band of every
   amplifier of the OMS; a slot whose frequency lies strictly inside a band of every amplifier is FREE *)
Theorem free_iff_common : forall (g : graph) (si : band) (fmin fmax : Q) (l : line) (b : bitmap) (n : Z),
  map_ok g si fmin fmax l b ->
  oms_amps g (line_path l) <> [] ->
  Forall (fun c => on_grid default_grid (fst c) /\ on_grid default_grid (snd c)) (elements_common_range g (line_path l) si) ->
  frequency_to_n fmin default_grid <= n <= frequency_to_n fmax default_grid ->
  let f := nvalue_to_frequency n default_grid in
  (cell_at b n = Some SF \/ cell_at b n = Some SU) /\
  (cell_at b n = Some SF -> forall amp, In amp (oms_amps g (line_path l)) -> inb f amp) /\
  ((forall amp, In amp (oms_amps g (line_path l)) -> sinb f amp) -> cell_at b n = Some SF).
Proof. exact Proofs.Oms.free_iff_common. Qed.
Print Assumptions free_iff_common.

(* ---------------------------------------------------------------- OMS partition *)
Theorem chain_wf_b_sound : forall (g : graph) (d : list line), chain_wf_b g d = true -> chain_wf g d.
Proof. exact Proofs.Oms.chain_wf_b_sound. Qed.
Print Assumptions chain_wf_b_sound.

(* chain-structured graph (disjoint ROADM-to-ROADM lines d covering every line element): the OMS list is exactly
   the lines in visiting order; every line element occurs exactly once among the OMS interiors; every OMS runs
   from a ROADM to the next ROADM over non-ROADM, non-transceiver elements along edges of the graph *)
Theorem oms_partition : forall (g : graph) (d : list line),
  chain_wf g d ->
  exists L, build_oms_els g = Ok L /\ L = map line_path d /\
    (forall n, In n g -> is_line_node n = true -> count_occ Z.eq_dec (flat_map interior L) (uid n) = 1%nat) /\
    Forall (fun el => exists a els b, el = a :: els ++ [b] /\
                      is_kind g KRoadm a = true /\ is_kind g KRoadm b = true /\
                      Forall (fun u => is_kind g KRoadm u = false /\ is_kind g KTrx u = false) els /\
                      path g el) L.
Proof. exact Proofs.Oms.oms_partition. Qed.
Print Assumptions oms_partition.

(* OMS i (A -> B) is paired with the FIRST OMS running B -> A, with nothing iff there is none; without parallel
   lines (no two OMS with the same ordered ends) the pairing is symmetric *)
Theorem reversed_pairing : forall d : list line,
  exists rv, reversed_oms (map line_path d) = Ok rv /\ length rv = length d /\
    (forall i a b, nth_error (pair_ends d) i = Some (a, b) ->
       exists r, nth_error rv i = Some r /\
       match r with
       | Some j => 0 <= j /\ nth_error (pair_ends d) (Z.to_nat j) = Some (b, a) /\
                   forall k, (k < Z.to_nat j)%nat -> nth_error (pair_ends d) k <> Some (b, a)
       | None => ~ In (b, a) (pair_ends d)
       end) /\
    (NoDup (pair_ends d) ->
     forall i j, nth_error rv i = Some (Some (Z.of_nat j)) -> nth_error rv j = Some (Some (Z.of_nat i))).
Proof. exact Proofs.Oms.reversed_pairing. Qed.
Print Assumptions reversed_pairing.

(* ---------------------------------------------------------------- the whole build_oms_list *)
(* chain-structured network with at least one line, some amplifier band, and on every line a common range that is
   sorted, non-overlapping and inside the network range: build_oms_list succeeds, returns the lines as
   OMS, pairs them as reversed_pairing says, and every map covers n(f_min)..n(f_max) once, FREE exactly on the
   slots of the line's common band(s) and UNUSABLE elsewhere *)
Theorem build_oms_list_ok : forall (g : graph) (si : band) (d : list line) (fmin fmax : Q),
  chain_wf g d -> d <> [] -> find_network_freq_range g = Ok (fmin, fmax) ->
  Forall (fun l => common_ok g si fmin fmax (line_path l)) d ->
  exists r rv, build_oms_list g si = Ok r /\
    map el_ids r = map line_path d /\
    reversed_oms (map line_path d) = Ok rv /\ map rev_id r = rv /\
    Forall2 (map_ok g si fmin fmax) d (map smap r).
Proof. exact Proofs.Oms.build_oms_list_ok. Qed.
Print Assumptions build_oms_list_ok.

(* its hypotheses are decidable; the check evaluates net_hyps_b on every designed network it explores *)
Theorem net_hyps_b_sound : forall (g : graph) (si : band) (d : list line),
  net_hyps_b g si d = true ->
  exists fmin fmax, chain_wf g d /\ d <> [] /\ find_network_freq_range g = Ok (fmin, fmax) /\
                    Forall (fun l => common_ok g si fmin fmax (line_path l)) d.
Proof. exact Proofs.Oms.net_hyps_b_sound. Qed.
Print Assumptions net_hyps_b_sound.

(* two ROADMs, C-band line 0 -> 1, C+L line 1 -> 0 with a narrower pre-amplifier: three different layouts *)
Example build_oms_list_nonvacuous :
  let c := ((191300000000000 # 1), (196100000000000 # 1)) in
  let l := ((186000000000000 # 1), (190000000000000 # 1)) in
  let cn := ((192000000000000 # 1), (195000000000000 # 1)) in
  let g := [mkN 0 KRoadm [10; 2] []; mkN 1 KRoadm [4; 11] []; mkN 10 KTrx [0] []; mkN 11 KTrx [1] [];
            mkN 2 KAmp [3] [c]; mkN 3 KOther [1] [];
            mkN 4 KAmp [5] [c; l]; mkN 5 KOther [6] []; mkN 6 KAmp [0] [l; cn]] in
  let d := [mkL 0 [2; 3] 1; mkL 1 [4; 5; 6] 0] in
  net_hyps_b g (c) d = true /\
  match build_oms_list g c with
  | Ok r => map el_ids r = [[0; 2; 3; 1]; [1; 4; 5; 6; 0]] /\ map rev_id r = [Some 1; Some 0] /\
            map (fun o => (n_min (smap o), n_max (smap o))) r = [(-1136, 480); (-1136, 480)]
  | Err _ => False
  end.
Proof. cbv zeta. split; vm_compute; auto. Qed.

(* "the OMS list can be built" is FALSE of the faithful model when the amplifiers of one OMS share no band
   (C-band booster, L-band pre-amplifier on one line): create_oms_bitmap indexes an empty common range *)
Theorem build_empty_common_refuted :
  exists g si d, chain_wf g d /\ build_oms_list g si = Err "IndexError:common_range".
Proof. exact Proofs.Oms.build_empty_common_refuted. Qed.
Print Assumptions build_empty_common_refuted.

(* a transceiver placed directly on a line: the faithful model puts one element into two OMS (as the code does) *)
Theorem partition_trx_on_line_refuted :
  exists g L u, NoDup (map uid g) /\ build_oms_els g = Ok L /\
                count_occ Z.eq_dec (flat_map interior L) u = 2%nat.
Proof. exact Proofs.Oms.partition_trx_on_line_refuted. Qed.
Print Assumptions partition_trx_on_line_refuted.

(* an amplifier-less OMS takes the SI band; if that exceeds the range of all amplifiers, Bitmap raises SpectrumError *)
Theorem build_si_outside_refuted :
  exists g si d, chain_wf g d /\ build_oms_list g si = Err "SpectrumError:bitmap_len".
Proof. exact Proofs.Oms.build_si_outside_refuted. Qed.
Print Assumptions build_si_outside_refuted.

(* ---------------------------------------------------------------- further non-vacuity examples *)
(* off-grid band edges 1 GHz inside their slots *)
Example bitmap_len_nonvacuous :
  let common := [((193101000000000 # 1), (193124000000000 # 1)); ((193151000000000 # 1), (193199000000000 # 1))] in
  (0 < default_grid)%Q /\ sorted_in f_ref (193300000000000 # 1) common /\
  create_oms_bitmap common f_ref (193300000000000 # 1) default_grid = Ok (rep SF 4 ++ rep SU 4 ++ rep SF 8 ++ rep SU 17).
Proof. cbv zeta. split; [reflexivity|]. split; [cbn; repeat split; discriminate|vm_compute; reflexivity]. Qed.

Example same_extent_nonvacuous :
  exists l, oms_maps (186000000000000 # 1) (196100000000000 # 1)
              [[((191300000000000 # 1), (196100000000000 # 1))];
               [((186000000000000 # 1), (190000000000000 # 1)); ((192000000000000 # 1), (195000000000000 # 1))]] = Ok l /\
            length l = 2%nat.
Proof. eexists. split; [vm_compute; reflexivity|reflexivity]. Qed.

(* four lines 0->1, 1->0, 0->2 (no way back), 1->0 again (parallel): first match, None, and the loss of symmetry *)
Example reversed_pairing_nonvacuous :
  reversed_oms (map line_path [mkL 0 [10] 1; mkL 1 [11] 0; mkL 0 [12; 13] 2; mkL 1 [] 0]) =
  Ok [Some 1; Some 0; None; Some 0] /\
  NoDup (pair_ends [mkL 0 [10] 1; mkL 1 [11] 0; mkL 0 [12; 13] 2]).
Proof. split; [vm_compute; reflexivity|]. apply NoDup_cons; [cbn; intuition congruence|]. apply NoDup_cons; [cbn; intuition congruence|]. apply NoDup_cons; [cbn; tauto|constructor]. Qed.

Example oms_partition_nonvacuous :
  let g := [mkN 0 KRoadm [10; 2] []; mkN 1 KRoadm [4; 11] []; mkN 10 KTrx [0] []; mkN 11 KTrx [1] [];
            mkN 2 KAmp [3] []; mkN 3 KOther [1] []; mkN 4 KAmp [5] []; mkN 5 KOther [6] []; mkN 6 KAmp [0] []] in
  chain_wf g [mkL 0 [2; 3] 1; mkL 1 [4; 5; 6] 0].
Proof. apply Proofs.Oms.chain_wf_b_sound. vm_compute. reflexivity. Qed.

(* ================================================================ extensions *)
(* ---------------------------------------------------------------- 1. the common range is sorted, from the amplifiers *)
(* dj: two bands do not overlap (they may touch); pdisj: pairwise, by position.  Every amplifier's own bands
   pairwise non-overlapping and inside [f_min, f_max], outcome non-empty  =>  the returned common range is sorted,
   non-overlapping and inside [f_min, f_max] (the hypothesis bitmap_len needs) *)
Theorem find_common_range_sorted : forall (amps : list (list band)) (si : band) (f_min f_max : Q),
  amps <> [] ->
  (forall amp, In amp amps -> pdisj amp) ->
  (forall amp b, In amp amps -> In b amp -> (f_min <= fst b)%Q /\ (snd b <= f_max)%Q) ->
  find_common_range amps si <> [] ->
  sorted_in f_min f_max (find_common_range amps si).
Proof. exact Proofs.Oms.find_common_range_sorted. Qed.
Print Assumptions find_common_range_sorted.

Example find_common_range_sorted_nonvacuous :
  let amps := [[((191000000000000 # 1), (195000000000000 # 1)); ((186000000000000 # 1), (190000000000000 # 1))];
               [((185000000000000 # 1), (189000000000000 # 1)); ((192000000000000 # 1), (196000000000000 # 1))];
               [((186000000000000 # 1), (193000000000000 # 1))]] in
  (forall amp, In amp amps -> pdisj amp) /\
  find_common_range amps (f_ref, f_ref) =
    [((186000000000000 # 1), (189000000000000 # 1)); ((192000000000000 # 1), (193000000000000 # 1))].
Proof.
  cbv zeta. split; [|vm_compute; reflexivity].
  intros amp [<-|[<-|[<-|[]]]]; apply Proofs.Oms.pdisj_b_sound; vm_compute; reflexivity.
Qed.

(* at the level of one OMS of a network: amplifier bands pairwise non-overlapping (amps_ok) and the network range
   of find_network_freq_range give common_ok; what has to be excluded is exactly what two open findings are about
   (no common band; amplifier-less OMS whose SI band leaves the network range) *)
Theorem common_ok_from_bands : forall (g : graph) (si : band) (fmin fmax : Q) (els : list Z),
  find_network_freq_range g = Ok (fmin, fmax) -> amps_ok g ->
  elements_common_range g els si <> [] ->
  (oms_amp_bands g els = [] -> (fmin <= fst si)%Q /\ (fst si <= snd si)%Q /\ (snd si <= fmax)%Q) ->
  common_ok g si fmin fmax els.
Proof. exact Proofs.Oms.common_ok_from_bands. Qed.
Print Assumptions common_ok_from_bands.

(* build_oms_list_ok with hypotheses on the INPUT (amplifier bands), not on the outcome of find_common_range *)
Theorem build_oms_list_ok_bands : forall (g : graph) (si : band) (d : list line) (fmin fmax : Q),
  chain_wf g d -> d <> [] -> find_network_freq_range g = Ok (fmin, fmax) -> amps_ok g ->
  Forall (line_bands_ok g si fmin fmax) d ->
  exists r rv, build_oms_list g si = Ok r /\
    map el_ids r = map line_path d /\
    reversed_oms (map line_path d) = Ok rv /\ map rev_id r = rv /\
    Forall2 (map_ok g si fmin fmax) d (map smap r).
Proof. exact Proofs.Oms.build_oms_list_ok_bands. Qed.
Print Assumptions build_oms_list_ok_bands.

(* ---------------------------------------------------------------- 2. local graph conditions *)
(* local_wf_b g: distinct uids; every transceiver has successors, all ROADMs (none sits on a line); every line
   element has exactly one successor, a line element or a ROADM; no line element is the target of two edges; the
   walk from every ROADM into every non-transceiver successor reaches a ROADM; every line element is met by such a
   walk.  These imply the line decomposition (chain_wf) with the lines read off the walks *)
Theorem local_wf_sound : forall g : graph,
  local_wf_b g = true -> exists d, lines_of g = Ok d /\ chain_wf g d.
Proof. exact Proofs.Oms.local_wf_sound. Qed.
Print Assumptions local_wf_sound.

Theorem oms_partition_local : forall g : graph,
  local_wf_b g = true ->
  exists d L, lines_of g = Ok d /\ build_oms_els g = Ok L /\ L = map line_path d /\
    (forall n, In n g -> is_line_node n = true -> count_occ Z.eq_dec (flat_map interior L) (uid n) = 1%nat) /\
    Forall (fun el => exists a els b, el = a :: els ++ [b] /\
                      is_kind g KRoadm a = true /\ is_kind g KRoadm b = true /\
                      Forall (fun u => is_kind g KRoadm u = false /\ is_kind g KTrx u = false) els /\
                      path g el) L.
Proof. exact Proofs.Oms.oms_partition_local. Qed.
Print Assumptions oms_partition_local.

(* the whole build_oms_list from local graph conditions + amplifier bands (net_local_hyps_b: local_wf_b, amps_ok_b, at
   least one line, some amplifier band, and on every line: a common band exists / the SI band of an amplifier-less
   line stays inside the network range).  No line decomposition and no property of find_common_range's outcome is
   assumed.  The check evaluates net_local_hyps_b on every network it explores *)
Theorem build_oms_list_local : forall (g : graph) (si : band),
  net_local_hyps_b g si = true ->
  exists d fmin fmax r rv,
    lines_of g = Ok d /\ chain_wf g d /\ find_network_freq_range g = Ok (fmin, fmax) /\
    build_oms_list g si = Ok r /\
    map el_ids r = map line_path d /\
    reversed_oms (map line_path d) = Ok rv /\ map rev_id r = rv /\
    Forall2 (map_ok g si fmin fmax) d (map smap r).
Proof. exact Proofs.Oms.build_oms_list_local. Qed.
Print Assumptions build_oms_list_local.

Example build_oms_list_local_nonvacuous :
  let c := ((191300000000000 # 1), (196100000000000 # 1)) in
  let l := ((186000000000000 # 1), (190000000000000 # 1)) in
  let cn := ((192000000000000 # 1), (195000000000000 # 1)) in
  let g := [mkN 0 KRoadm [10; 2] []; mkN 1 KRoadm [4; 11] []; mkN 10 KTrx [0] []; mkN 11 KTrx [1] [];
            mkN 2 KAmp [3] [c]; mkN 3 KOther [1] [];
            mkN 4 KAmp [5] [c; l]; mkN 5 KOther [6] []; mkN 6 KAmp [0] [l; cn]] in
  net_local_hyps_b g c = true /\ lines_of g = Ok [mkL 0 [2; 3] 1; mkL 1 [4; 5; 6] 0].
Proof. cbv zeta. split; vm_compute; reflexivity. Qed.

(* an isolated ring of line elements satisfies every other condition: "met from a ROADM" cannot be dropped *)
Example local_wf_needs_reachability :
  let g := [mkN 0 KRoadm [2] []; mkN 1 KRoadm [] []; mkN 2 KOther [1] []; mkN 7 KOther [8] []; mkN 8 KOther [7] []] in
  local_wf_b g = false /\ build_oms_els g = Ok [[0; 2; 1]].
Proof. cbv zeta. split; vm_compute; reflexivity. Qed.

(* ---------------------------------------------------------------- 3. spacing and remove_duplicates *)
(* find_common_range_sp: the dictionaries carry their 'spacing' entry (absent / None / value) and remove_duplicates
   compares them entirely.  With amplifiers whose own bands do not overlap it returns exactly the (f_min, f_max) list
   of the spacing-free model: no key that remove_duplicates looks at can influence the spectrum map *)
Theorem spacing_irrelevant : forall (amps : list (list sband)) (si : band),
  (forall amp, In amp amps -> pdisj (map sb_band amp)) ->
  find_common_range_sp amps si = find_common_range (map (map sb_band) amps) si.
Proof. exact Proofs.Oms.spacing_irrelevant. Qed.
Print Assumptions spacing_irrelevant.

(* the same two amplifiers twice, differing in spacing only: remove_duplicates keeps them, the result is unchanged *)
Example spacing_irrelevant_nonvacuous :
  let b1 := ((191000000000000 # 1), (195000000000000 # 1)) in
  let b2 := ((186000000000000 # 1), (190000000000000 # 1)) in
  let amps := [[(b1, Some (Some (50000000000 # 1))); (b2, None)]; [(b1, Some (Some (75000000000 # 1))); (b2, Some None)];
               [(((192000000000000 # 1), (196000000000000 # 1)), None)]] in
  length (dedupe_sp (map sort_sbands amps) []) = 3%nat /\
  length (dedupe (map sort_bands (map (map sb_band) amps)) []) = 2%nat /\
  find_common_range_sp amps (f_ref, f_ref) = [((192000000000000 # 1), (195000000000000 # 1))].
Proof. cbv zeta. repeat split; vm_compute; reflexivity. Qed.

(* ================================================================ second tie (translator) *)
(* the primitives below are re-translated from /repo's gnpy/topology/spectrum_assignment.py on every run
   (harness/pygen_c15.py -> Gen/OmsGen.v) and proved equal to the hand-written model; same_res: same outcome, error
   details aside *)
Theorem C15_source_frequency_to_n : forall f g : Q, g_frequency_to_n f g = frequency_to_n f g.
Proof. exact gen_frequency_to_n. Qed.
Print Assumptions C15_source_frequency_to_n.
Theorem C15_source_nvalue_to_frequency : forall (n : Z) (g : Q), g_nvalue_to_frequency n g = nvalue_to_frequency n g.
Proof. exact gen_nvalue_to_frequency. Qed.
Print Assumptions C15_source_nvalue_to_frequency.
Theorem C15_source_Bitmap_init : forall (f_min f_max grid gbd : Q) (ex : option (list slot)),
  Qeq_bool grid 0 = false -> same_res (g_Bitmap_init f_min f_max grid gbd ex) (mk_bitmap f_min f_max grid gbd ex).
Proof. exact gen_Bitmap_init. Qed.
Print Assumptions C15_source_Bitmap_init.
Theorem C15_source_insert_left : forall (b : bitmap) (nw : list slot), same_res (g_insert_left b nw) (insert_left b nw).
Proof. exact gen_insert_left. Qed.
Print Assumptions C15_source_insert_left.
Theorem C15_source_insert_right : forall (b : bitmap) (nw : list slot), same_res (g_insert_right b nw) (insert_right b nw).
Proof. exact gen_insert_right. Qed.
Print Assumptions C15_source_insert_right.
Theorem C15_source_create_oms_bitmap : forall (common : list band) (f_min f_max grid : Q),
  Qeq_bool grid 0 = false ->
  same_res (g_create_oms_bitmap common f_min f_max grid) (create_oms_bitmap common f_min f_max grid).
Proof. exact gen_create_oms_bitmap. Qed.
Print Assumptions C15_source_create_oms_bitmap.
Theorem C15_source_align_grids : forall l : list bitmap, same_res (g_align_grids l) (align_grids l).
Proof. exact gen_align_grids. Qed.
Print Assumptions C15_source_align_grids.
Theorem C15_source_find_network_freq_range : forall g : graph,
  same_res (g_find_network_freq_range (all_amp_bands g)) (find_network_freq_range g).
Proof. exact gen_find_network_freq_range. Qed.
Print Assumptions C15_source_find_network_freq_range.

(* one step of the walk of build_oms_list (its filter translated; add_element and the unconditional
   `nd_out.oms_id = oms_id; nd_out.oms = oms` around it template-matched) *)
Theorem C15_source_walk_step : forall (g : graph) (f : nat) (x y : Z) (n : node),
  lookup g y = Some n -> kind_eqb (kind n) KRoadm = false ->
  same_res (walk g (S f) x y)
           (let* nx := g_walk_next x y (succs n) in let* r := walk g f y nx in Ok (y :: r)).
Proof. exact gen_walk_step. Qed.
Print Assumptions C15_source_walk_step.

(* the translated definitions compute: the regression of the touching-bands case through the generated code *)
Example C15_source_nonvacuous :
  g_create_oms_bitmap [((193162500000000 # 1), (193226000000000 # 1)); ((193228000000000 # 1), (193350000000000 # 1))]
                      f_ref (193412500000000 # 1) default_grid = Ok (rep SU 10 ++ rep SF 31 ++ rep SU 10) /\
  g_frequency_to_n (191300000000000 # 1) default_grid = -288.
Proof. split; vm_compute; reflexivity. Qed.
