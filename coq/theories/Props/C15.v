(* C15 — property theorems (placeholder until Proofs/Oms.v lands) *)
From Verif Require Import Prelude Model.Spectrum Model.Oms.
