(* C09 — Designed gains close the power budget and follow the documented power rule.
   Property theorems only; the proofs are in Proofs/PowerDesign.v, the model in Model/PowerDesign.v (+ Model/Select.v).

   Vocabulary
     raw                      an OMS as loaded: fibres (loss_coef x length, connectors or None, att_in), fused, amplifier nodes
     prep c raw               the same after add_connector_loss (defaults, EOL) and add_fiber_padding (att_in, cached
                              design_span_loss)
     design ... chain = Ok ds the designed operating points of the amplifiers of the OMS, in order
     walk p0 chain ds         power of the reference channel after each amplifier (before its output VOA) when the OMS is
                              fed with p0 and every element applies its loss / gain / VOA
     set_one ...              set_one_amplifier for one node, given what the previous amplifier handed over
                              (prev_dp, prev_voa), the design loss of the preceding span nl and target_power(next node) tp;
                              returns the designed point d and the (dp, voa) handed to the next amplifier
     targets ...              compute_gain_power_and_tilt_target: (gain_target, power_target, dp, voa) before any reduction
     d_dp d                   the amplifier's _delta_p;  d_delta_p d  its delta_p (None in gain mode)
     budget_wf [] chain       at every amplifier, the span loss the design reads (cached design_span_loss or the sum the
                              generators reach) is the loss really crossed since the previous amplifier
     raw_ok raw               no fibre directly followed by a fibre (add_inline_amplifier separates them) and every
                              RamanFiber is the last element of its span
     a RamanFiber carries two INPUTS: its gain estimate at the reference power and at the designed span input power *)
From Coq Require Import QArith Qminmax Lia.
From Verif Require Import Prelude Model.Select Model.PowerDesign Proofs.Select Proofs.PowerDesign
  Gen.PowerDesignGen Proofs.PowerDesignGen.
Open Scope Q_scope.

(* ---- rounding to the step: round2float returns k * s for the integer k nearest to x / s, s = round(step, 1) *)
Theorem C09_round2float_grid : forall x step,
  1 # 100 <= r2f_step step ->
  exists k : Z, round2float x step == inject_Z k * r2f_step step /\
                inject_Z k - (1 # 2) <= x / r2f_step step /\ x / r2f_step step <= inject_Z k + (1 # 2).
Proof. exact round2float_grid. Qed.
Print Assumptions C09_round2float_grid.

(* ---- budget: along ANY chain, the reference channel leaves amplifier k at reference power + its offset *)
Theorem C09_budget_closed : forall c lib bmin bmax pref_ch pref_total p0 s e chain ds,
  budget_wf [] chain ->
  design c lib bmin bmax pref_ch pref_total p0 s e chain = Ok ds ->
  Forall2 (fun q d => q == pref_ch + d_dp d) (walk p0 chain ds) ds.
Proof. exact budget_closed. Qed.
Print Assumptions C09_budget_closed.

(* the same from the OMS as loaded (connectors, EOL and padding applied by the model) *)
Theorem C09_budget_closed_raw : forall c lib bmin bmax pref_ch pref_total p0 s e raw ds,
  raw_ok raw ->
  design c lib bmin bmax pref_ch pref_total p0 s e (prep c raw) = Ok ds ->
  Forall2 (fun q d => q == pref_ch + d_dp d) (walk p0 (prep c raw) ds) ds.
Proof. exact budget_closed_raw. Qed.
Print Assumptions C09_budget_closed_raw.

(* per amplifier: the gain is the loss since the previous amplifier plus the change of target, VOAs included *)
Theorem C09_gain_is_loss_plus_change : forall c lib bmin bmax pref_total prev_dp prev_voa nl tp tp_arg prev next a d dp voa,
  set_one c lib bmin bmax pref_total prev_dp prev_voa nl tp tp_arg prev next a = Ok (d, dp, voa) ->
  d_gain d - d_ivoa d == nl + d_dp d - prev_dp + prev_voa /\ d_dp d - d_ovoa d == dp - voa.
Proof. exact set_one_budget_edfa. Qed.
Print Assumptions C09_gain_is_loss_plus_change.

(* ---- the power rule *)
(* target_power: 0 before a ROADM, otherwise the slope rule on the next span's loss, rounded to the step and clamped *)
Theorem C09_dp_rule : forall c rest e t,
  target_power c rest e = Ok t ->
  match rest, e with
  | [], EndRoadm _ => t = 0
  | _, _ => exists lo hi step tl, c_dpr c = lo :: hi :: step :: tl /\
            t = Qmin hi (Qmax lo (round2float ((next_loss rest - c_ref c) * c_slope c) step))
  end.
Proof. exact target_power_rule. Qed.
Print Assumptions C09_dp_rule.

Theorem C09_dp_rule_range : forall c rest e t lo hi step tl,
  target_power c rest e = Ok t -> c_dpr c = lo :: hi :: step :: tl -> lo <= hi ->
  match rest, e with [], EndRoadm _ => t = 0 | _, _ => lo <= t /\ t <= hi end.
Proof. exact target_power_range. Qed.
Print Assumptions C09_dp_rule_range.

(* no operator offset (and, in gain mode, no operator gain): offset = rule + operator VOA, gain follows *)
Theorem C09_dp_rule_applies : forall c pref_total prev_dp prev_voa nl tp a g0 pt dp0 voa,
  targets c pref_total prev_dp prev_voa nl tp a = Ok (g0, pt, dp0, voa) ->
  an_dp a = None -> (c_power_mode c = true \/ an_gain a = None) ->
  exists t, tp = Ok t /\ dp0 = t + ozero (an_ovoa a) /\ g0 == nl + dp0 - prev_dp + prev_voa + ozero (an_ivoa a).
Proof. exact offset_rule. Qed.
Print Assumptions C09_dp_rule_applies.

(* ---- saturation: the reduction is never positive, brings the design within the limits, and is zero when they hold *)
Theorem C09_dp_saturation : forall c lib bmin bmax pref_total prev_dp prev_voa nl tp tp_arg prev next a d dp voa g0 pt dp0 voa0,
  targets c pref_total prev_dp prev_voa nl tp a = Ok (g0, pt, dp0, voa0) ->
  set_one c lib bmin bmax pref_total prev_dp prev_voa nl tp tp_arg prev next a = Ok (d, dp, voa) ->
  exists params, In params lib /\ a_name params = d_variety d /\
    dp <= dp0 /\
    (if String.eqb (n_variety (an_node a)) ""
     then pref_total + dp <= a_pmax params /\ g0 + (dp - dp0) <= a_gmax params + c_ext c /\
          (pref_total + dp0 <= a_pmax params -> g0 <= a_gmax params + c_ext c -> dp == dp0)
     else if c_power_mode c
     then pref_total + dp <= a_pmax params /\ (pref_total + dp0 <= a_pmax params -> dp == dp0)
     else pref_total + dp + ozero (an_ivoa a) <= a_pmax params /\
          (pref_total + dp0 + ozero (an_ivoa a) <= a_pmax params -> dp == dp0)).
Proof. exact dp_saturation_edfa. Qed.
Print Assumptions C09_dp_saturation.

(* total design power never exceeds the amplifier's maximum output, automatic VOA included (it is capped at the
   head-room).  Gain mode: the test of an imposed variety is made before the input VOA, hence in_voa >= 0 *)
Theorem C09_design_within_pmax : forall c lib bmin bmax pref_ch pref_total p0 s e chain ds,
  (c_power_mode c = true \/
   Forall (fun x => match x with Amp a => 0 <= ozero (an_ivoa a) | _ => True end) chain) ->
  design c lib bmin bmax pref_ch pref_total p0 s e chain = Ok ds ->
  Forall (fun d => exists params, In params lib /\ a_name params = d_variety d /\
                                  pref_total + d_dp d <= a_pmax params) ds.
Proof. exact design_within_pmax. Qed.
Print Assumptions C09_design_within_pmax.

(* ---- operator settings are kept unless they saturate *)
Theorem C09_user_offset_kept : forall c lib bmin bmax pref_total prev_dp prev_voa nl tp tp_arg prev next a d dp voa u,
  c_power_mode c = true -> an_dp a = Some u ->
  set_one c lib bmin bmax pref_total prev_dp prev_voa nl tp tp_arg prev next a = Ok (d, dp, voa) ->
  exists params, In params lib /\ a_name params = d_variety d /\ dp <= u /\
    (if String.eqb (n_variety (an_node a)) ""
     then exists g0, g0 == nl + u - prev_dp + prev_voa + ozero (an_ivoa a) /\
                     (pref_total + u <= a_pmax params -> g0 <= a_gmax params + c_ext c -> dp == u)
     else pref_total + u <= a_pmax params -> dp == u) /\
    d_delta_p d = Some (d_dp d) /\ d_dp d - d_ovoa d == dp - voa.
Proof. exact user_offset_kept_edfa. Qed.
Print Assumptions C09_user_offset_kept.

Theorem C09_user_gain_kept : forall c lib bmin bmax pref_total prev_dp prev_voa nl tp tp_arg prev next a d dp voa g,
  c_power_mode c = false -> an_gain a = Some g ->
  set_one c lib bmin bmax pref_total prev_dp prev_voa nl tp tp_arg prev next a = Ok (d, dp, voa) ->
  exists params, In params lib /\ a_name params = d_variety d /\ d_gain d <= g /\
    d_delta_p d = None /\
    let pout := pref_total + prev_dp - nl - prev_voa + g in
    (if String.eqb (n_variety (an_node a)) ""
     then pout - ozero (an_ivoa a) <= a_pmax params -> g <= a_gmax params + c_ext c -> d_gain d == g
     else pout <= a_pmax params -> d_gain d == g).
Proof. exact user_gain_kept_edfa. Qed.
Print Assumptions C09_user_gain_kept.

(* the test of the imposed-variety gain-mode branch is made before the input VOA: an operator gain can be reduced
   although the amplifier output would stay below p_max (finding F-gain-mode-in-voa) *)
Theorem C09_gain_mode_in_voa_refuted :
  exists c lib bmin bmax pref_total prev_dp prev_voa nl tp tp_arg prev next a d dp voa p g iv,
    c_power_mode c = false /\ an_gain a = Some g /\ an_ivoa a = Some iv /\
    set_one c lib bmin bmax pref_total prev_dp prev_voa nl tp tp_arg prev next a = Ok (d, dp, voa) /\
    find_amp (d_variety d) lib = Some p /\
    pref_total + prev_dp - nl - prev_voa - iv + g <= a_pmax p /\ d_gain d < g.
Proof. exact gain_mode_in_voa_refuted. Qed.
Print Assumptions C09_gain_mode_in_voa_refuted.

(* ---- output VOA *)
Theorem C09_voa_rule : forall c lib bmin bmax pref_total prev_dp prev_voa nl tp tp_arg prev next a d dp voa g0 pt dp0 voa0,
  targets c pref_total prev_dp prev_voa nl tp a = Ok (g0, pt, dp0, voa0) ->
  set_one c lib bmin bmax pref_total prev_dp prev_voa nl tp tp_arg prev next a = Ok (d, dp, voa) ->
  exists params red, In params lib /\ a_name params = d_variety d /\ dp = dp0 + red /\
    (match an_ovoa a with
     | Some x => d_ovoa d = x /\ voa = ozero (Some x) /\ d_gain d == g0 + red /\ d_dp d == dp
     | None =>
         voa = 0 /\
         (if c_power_mode c && a_voa_auto params
          then (let raw := Qmin (a_pmax params - pt) (a_gmax params - (g0 + red)) in
                d_ovoa d = Qmax (Qmin (round2float raw (c_voa_step c) - c_voa_margin c) raw) 0) /\
               d_gain d == g0 + red + d_ovoa d /\ d_dp d == dp + d_ovoa d
          else d_ovoa d = 0 /\ d_gain d == g0 + red /\ d_dp d == dp)
     end).
Proof. exact voa_rule_edfa. Qed.
Print Assumptions C09_voa_rule.

(* ---- the preparation (connectors, EOL, padding - operator att_in included) yields consistent span losses *)
Theorem C09_prep_budget_wf : forall c raw, raw_ok raw -> budget_wf [] (prep c raw).
Proof. exact prep_budget_wf. Qed.
Print Assumptions C09_prep_budget_wf.

(* ---- non-vacuity: a three-span OMS with a short (padded) span, a fused splice, an auto-selected in-line amplifier, an
   operator offset and an automatic VOA *)
Definition ex_cfg : span_cfg := mkSpan true [-2; 3; 1 # 2] 20 (3 # 10) 1 (1 # 2) (5 # 2) (1 # 4000) 10 (1 # 2) (1 # 2) (1 # 2).
Definition ex_lib : list amp :=
  [mkAmp "low" false false true 191275 196125 8 16 21 false; mkAmp "med" false false true 191275 196125 15 25 21 true].
Definition ex_nfs : list (string * Q) := [("low"%string, 7); ("med"%string, 6)].
Definition ex_raw : list relem :=
  [RAmp (mkAN (mkNode "" []) None None None None ex_nfs);
   RFib (mkRF 16 None None 0 [2 # 10000] None);
   RAmp (mkAN (mkNode "med" []) None (Some 1) None None []);
   RFib (mkRF 4 None (Some (1 # 4)) 0 [2 # 10000] None); RFus 1; RFib (mkRF 2 None None 0 [2 # 10000] None);
   RAmp (mkAN (mkNode "" []) None None (Some (1 # 2)) None ex_nfs);
   RFib (mkRF 22 None None 0 [2 # 10000] None);
   RAmp (mkAN (mkNode "" []) None None None None ex_nfs)].

Example ex_raw_ok : raw_ok ex_raw.
Proof. split; cbn; intuition auto. Qed.

Example ex_design :
  match design ex_cfg ex_lib 191300 196100 0 (16 # 1) (-20) (StartRoadm []) (EndRoadm []) (prep ex_cfg ex_raw) with
  | Ok ds => map d_variety ds = ["med"; "med"; "low"; "med"]%string /\
             walk_okb 0 (-20) (prep ex_cfg ex_raw) ds = true /\ length ds = 4%nat
  | Err _ => False
  end.
Proof. vm_compute. repeat split. Qed.

(* regressions of the two repaired defects, on the model: an operator att_in 2 dB on a padded span (4 dB of fibre,
   connectors 0.5 + 0.5, padding 10) and an automatic VOA with margin 0 / step 0.5 and 0.3 dB of head-room *)
Example ex_att_in_padded :
  let c := w_cfg true 1 in
  let raw := [RAmp (w_amp None None None None); RFib (mkRF 4 (Some (1 # 2)) (Some (1 # 2)) 2 [2 # 10000] None);
              RAmp (w_amp None None None None)] in
  match design c w_lib 191300 196100 0 10 (-20) (StartRoadm []) (EndRoadm []) (prep c raw) with
  | Ok ds => walk_okb 0 (-20) (prep c raw) ds = true /\ length ds = 2%nat
  | Err _ => False
  end.
Proof. vm_compute. split; reflexivity. Qed.

Example ex_voa_capped :
  match set_one (w_cfg true 0) w_lib 191300 196100 16 0 0 20 (Ok 0) 0 NOther NOther (w_amp None (Some 0) None None) with
  | Ok (d, _, _) => Qeq_bool (d_ovoa d) (3 # 10) = true /\ Qle_bool (16 + d_dp d) (163 # 10) = true
  | Err _ => False
  end.
Proof. vm_compute. split; reflexivity. Qed.

(* a Raman span (RamanFiber: 16 dB of fibre + 0.5 + 0.5 connectors + EOL 1.5, estimated gain 9.77 dB at the reference
   power and 9.8949 dB at the designed input power): never padded, the booster's offset follows loss - 9.77, the
   preamp's gain is loss - 9.8949 + change of target, and the budget closes with the designed estimate *)
Definition ex_raman_raw : list relem :=
  [RAmp (w_amp None None None None);
   RFib (mkRF 16 (Some (1 # 2)) (Some (1 # 2)) 0 [2 # 10000] (Some (977 # 100, 98949 # 10000)));
   RAmp (w_amp None None None None)].
Definition ex_raman_cfg : span_cfg :=
  mkSpan true [-2; 3; 1 # 2] 20 (3 # 10) 1 (1 # 2) (5 # 2) (1 # 4000) 12 (3 # 2) 0 0.

Example ex_raman_ok : raw_ok ex_raman_raw.
Proof. split; cbn; intuition auto. Qed.

Example ex_raman :
  match design ex_raman_cfg w_lib 191300 196100 0 10 (-20) (StartRoadm []) (EndRoadm []) (prep ex_raman_cfg ex_raman_raw) with
  | Ok [b; p] => Qeq_bool (d_node_loss p) (18 + (1 # 2) - (98949 # 10000)) = true /\
                 walk_okb 0 (-20) (prep ex_raman_cfg ex_raman_raw) [b; p] = true
  | _ => False
  end.
Proof. vm_compute. repeat split. Qed.

(* ---- any sound selector: the per amplifier clauses do not depend on how the model is chosen (single-band Edfa:
   get_node_restrictions + select_edfa; band of a Multiband_amplifier: preselection + select_edfa) *)
Theorem C09_amp_budget_any_selector : forall c lib pref_total prev_dp prev_voa nl tp tp_arg sel a d dp voa,
  set_one_gen c lib pref_total prev_dp prev_voa nl tp tp_arg sel a = Ok (d, dp, voa) ->
  d_gain d - d_ivoa d == nl + d_dp d - prev_dp + prev_voa /\ d_dp d - d_ovoa d == dp - voa.
Proof. exact set_one_budget. Qed.
Print Assumptions C09_amp_budget_any_selector.

Theorem C09_total_power_any_selector : forall c lib pref_total prev_dp prev_voa nl tp tp_arg sel a d dp voa,
  sel_sound lib (c_ext c) sel ->
  (c_power_mode c = true \/ 0 <= ozero (an_ivoa a)) ->
  set_one_gen c lib pref_total prev_dp prev_voa nl tp tp_arg sel a = Ok (d, dp, voa) ->
  exists params, In params lib /\ a_name params = d_variety d /\ pref_total + d_dp d <= a_pmax params.
Proof. exact total_power_within_pmax. Qed.
Print Assumptions C09_total_power_any_selector.

(* ---- multiband OMS: in EVERY band the reference channel of the band leaves each Multiband_amplifier (before the
   band's output VOA) at reference power + the band amplifier's offset.  proj_band k = band k seen as a single line *)
Theorem C09_budget_closed_mb : forall c lib groups bis pref_ch p0 s e chain dss k,
  (k < length bis)%nat ->
  budget_wf [] (proj_band k chain) ->
  design_mb c lib groups bis pref_ch p0 s e chain = Ok dss ->
  Forall2 (fun q d => q == pref_ch + d_dp d) (walk p0 (proj_band k chain) (proj_ds k dss)) (proj_ds k dss).
Proof. exact budget_closed_mb. Qed.
Print Assumptions C09_budget_closed_mb.

(* ... and the band's total design power stays within the chosen entry's p_max *)
Theorem C09_mb_within_pmax : forall c lib groups nl tp tp_arg prev next nd bis st amps rs k,
  c_power_mode c = true -> (k < length bis)%nat ->
  mb_node c lib groups nl tp tp_arg prev next nd bis st amps = Ok rs ->
  let d := fst (fst (nth k rs (dummy_damp, 0, 0))) in
  exists params, In params lib /\ a_name params = d_variety d /\
                 bi_pref_total (nth k bis (mkBI 0 0 0)) + d_dp d <= a_pmax params.
Proof. exact mb_node_within_pmax. Qed.
Print Assumptions C09_mb_within_pmax.

(* non-vacuity: a two-band line booster - 17 dB span - preamp, auto-designed within the model mA = [c_ok, l0];
   different channel counts per band (pref_total 10 / 13 dBm) *)
Definition ex_mb_raw : list rmelem :=
  [RMA (mkNode "" []) [dummy_ampn; dummy_ampn];
   RMFib (mkRF 16 (Some (1 # 2)) (Some (1 # 2)) 0 [2 # 10000] None);
   RMA (mkNode "" []) [dummy_ampn; mkAN (mkNode "" []) None (Some 1) (Some (1 # 2)) None []]].
Definition ex_mb_bis : list bandinfo := [mkBI 187000 190000 10; mkBI 191300 196000 13].

Example ex_mb :
  let ch := mprep ex_raman_cfg ex_mb_raw in
  match design_mb ex_raman_cfg w_mlib w_groups ex_mb_bis 0 (-20) (StartRoadm []) (EndRoadm []) ch with
  | Ok dss => map (map d_variety) dss = [["l0"; "c_ok"]; ["l0"; "c_ok"]]%string /\
              walk_okb 0 (-20) (proj_band 0 ch) (proj_ds 0 dss) = true /\
              walk_okb 0 (-20) (proj_band 1 ch) (proj_ds 1 dss) = true /\
              budget_wf [] (proj_band 1 ch)
  | Err _ => False
  end.
Proof. vm_compute. repeat split; try discriminate. Qed.

(* ---- translator tie: the definitions translated from gnpy/core/utils.py and gnpy/core/network.py on every run
   (harness/pygen_c09.py -> Gen/PowerDesignGen.v) agree with the hand-written model.  req4: both fail with the same
   error, or give (gain target, power target, dp, voa) equal as rationals (the source adds the zero SRS deviation). ---- *)
Theorem C09_source_round2float : forall x step, g_round2float x step = round2float x step.
Proof. exact gen_round2float. Qed.
Print Assumptions C09_source_round2float.

Theorem C09_source_target_power : forall c loss lo hi step,
  nth_q (c_dpr c) 0 = Some lo -> nth_q (c_dpr c) 1 = Some hi -> nth_q (c_dpr c) 2 = Some step ->
  dp_rule c loss = Ok (g_dp_rule c loss lo hi step).
Proof. exact gen_dp_rule. Qed.
Print Assumptions C09_source_target_power.

Theorem C09_source_span_loss : forall cached before node after,
  live_loss cached before node after
  = g_span_ret ((if is_ff node then eloss node else 0) + qsum (map eloss (walk_gen before node))
                + qsum (map eloss (walk_gen after node)))
               (rgain cached node + qsum (map (rgain cached) (walk_gen before node))
                + qsum (map (rgain cached) (walk_gen after node))).
Proof. exact gen_span_loss. Qed.
Print Assumptions C09_source_span_loss.

Theorem C09_source_padding_needed : forall c sl, g_pad_needed (c_padding c) sl = pad_needed c sl.
Proof. exact gen_pad_needed. Qed.
Print Assumptions C09_source_padding_needed.

Theorem C09_source_padding_recorded : forall c sl, g_pad_dsl_incr (c_padding c) sl = pad_incr c sl.
Proof. exact gen_pad_incr. Qed.
Print Assumptions C09_source_padding_recorded.

Theorem C09_source_padding_att_in : forall c f sl seg node att',
  bump [] (Fib f) (pad_incr c sl) = (seg, node, Some att') -> att' == g_pad_att (f_att f) (c_padding c) sl.
Proof. exact gen_pad_att. Qed.
Print Assumptions C09_source_padding_att_in.

Theorem C09_source_targets : forall c pref_total prev_dp prev_voa nl tp a,
  req4 (g_targets c pref_total prev_dp prev_voa nl tp a) (targets c pref_total prev_dp prev_voa nl tp a).
Proof. exact gen_targets. Qed.
Print Assumptions C09_source_targets.

Theorem C09_source_saturation : forall (pm : bool) pmax pref_total prev_dp prev_voa nl g0 dp0,
  (if pm then g_red_power_mode pmax pref_total dp0
   else g_red_gain_mode pmax pref_total prev_dp nl prev_voa g0)
  = imposed_red pm pmax pref_total prev_dp prev_voa nl g0 dp0.
Proof. exact gen_imposed_red. Qed.
Print Assumptions C09_source_saturation.

Theorem C09_source_auto_voa : forall c pmax gmax pt gain, g_auto_voa c pmax gmax pt gain = auto_voa c pmax gmax pt gain.
Proof. exact gen_auto_voa. Qed.
Print Assumptions C09_source_auto_voa.

Theorem C09_source_start : forall c lib bmin bmax pref_ch pref_total p0 s e chain,
  design c lib bmin bmax pref_ch pref_total p0 s e chain
  = design_from c lib bmin bmax pref_total e (start_neigh s) [] (g_start_dp p0 pref_ch) 0 chain.
Proof. exact gen_start. Qed.
Print Assumptions C09_source_start.

Theorem C09_source_start_mb : forall c lib groups bis pref_ch p0 s e chain,
  design_mb c lib groups bis pref_ch p0 s e chain
  = design_mb_from c lib groups bis e (start_neigh s) [] (map (fun _ => (g_start_dp p0 pref_ch, 0)) bis) chain.
Proof. exact gen_start_mb. Qed.
Print Assumptions C09_source_start_mb.

Theorem C09_source_pref_total : forall pref_ch nch_db, g_pref_total pref_ch nch_db = pref_ch + nch_db.
Proof. exact gen_pref_total. Qed.
Print Assumptions C09_source_pref_total.

Theorem C09_source_walk_matched : g_walk_matched = true.
Proof. exact gen_walk_matched. Qed.
Print Assumptions C09_source_walk_matched.

Theorem C09_source_generators : forall p n, g_prev_link p n = link_ok p n /\ g_next_link p n = link_ok p n.
Proof. exact gen_link. Qed.
Print Assumptions C09_source_generators.
