(* C11 — every computed route is a real, loop-free, constraint-respecting shortest path.
   Specification predicates (Proofs/Route.v):
     is_walk g p      p is non-empty and follows existing directed links of g
     visits inc p     the include list inc is crossed in order by p
     Route g s t inc p  :=  is_walk g p /\ NoDup p /\ hd_error p = Some s /\ last p t = t /\ visits inc p
     optimal g s t inc p  :=  Route g s t inc p /\ forall q, Route g s t inc q -> weight g p <= weight g q
   An explicit answer is the only route of its request, hence optimal, under the chain / coverage hypotheses of
   c11_covered_route_unique (also available as the executable certificate explicit_forced, evaluated on every
   explicit answer of a run).  Not proved: that those hypotheses hold of every network gnpy can build.
   Weights are integers (centimetres; gnpy's 0.01 non-fibre hop = 1). *)
From Verif Require Import Prelude Model.Route Proofs.Route Gen.RouteGen Proofs.RouteGen.
Open Scope Z_scope.

(* the reference enumeration is sound and complete: it lists exactly the loop-free walks from s to t *)
Theorem c11_enumeration_complete :
  forall g s t p, In p (all_routes g s t) <-> Route g s t [] p.
Proof. exact all_routes_spec. Qed.
Print Assumptions c11_enumeration_complete.

(* model of request.py ispart: on a loop-free path it decides "crossed in order" *)
Theorem c11_ispart_spec :
  forall a b, NoDup b -> (ispart a b = true <-> visits a b).
Proof. exact ispart_spec. Qed.
Print Assumptions c11_ispart_spec.

(* the validator that judges gnpy's returned paths reflects the specification *)
Theorem c11_route_ok_reflects :
  forall g s t inc p, route_ok g s t inc p = true <-> Route g s t inc p.
Proof. exact route_ok_spec. Qed.
Print Assumptions c11_route_ok_reflects.

(* the reference result: optimal among ALL routes meeting the effective constraints; NO_PATH iff no route;
   NO_PATH_WITH_CONSTRAINT iff routes exist, none meets the list and a STRICT hop is present; nothing else *)
Theorem c11_model_route_spec :
  forall g s t inc strict,
  let r := model_route g s t inc strict in
  (forall p, r = RPath p ->
     ((exists q, Route g s t inc q) /\ optimal g s t inc p) \/
     ((~ exists q, Route g s t inc q) /\ strict = false /\ optimal g s t [] p)) /\
  (r = RBlock "NO_PATH" <-> ~ exists q, Route g s t [] q) /\
  (r = RBlock "NO_PATH_WITH_CONSTRAINT" <->
     (exists q, Route g s t [] q) /\ (~ exists q, Route g s t inc q) /\ strict = true) /\
  ((exists p, r = RPath p) \/ r = RBlock "NO_PATH" \/ r = RBlock "NO_PATH_WITH_CONSTRAINT").
Proof. exact model_route_spec. Qed.
Print Assumptions c11_model_route_spec.

(* only LOOSE hops that cannot be met are dropped: the unconstrained optimum is returned *)
Theorem c11_loose_fallback :
  forall g s t inc,
  (exists q, Route g s t [] q) -> (~ exists q, Route g s t inc q) ->
  exists p, model_route g s t inc false = RPath p /\ optimal g s t [] p.
Proof. exact loose_fallback. Qed.
Print Assumptions c11_loose_fallback.

(* explicit_path (as repaired by fix bd5aee7e): what an explicit answer guarantees -- it is a route of the request:
   real links, loop-free, from source to destination, the WHOLE include list crossed in order *)
Theorem c11_explicit_path_route :
  forall n inc s t p, explicit_path n inc s t = Some p -> Route (ngraph n) s t inc p.
Proof. exact explicit_path_route. Qed.
Print Assumptions c11_explicit_path_route.

(* faithful model of compute_constrained_path, no guard: the answer is an explicit route of the request, or (exactly
   when explicit_path declines) the reference search characterised by c11_model_route_spec *)
Theorem c11_model_ccp_spec :
  forall n s t nodes_list strict_list,
  last nodes_list (t + 1) = t ->
  exists r, model_ccp n s t nodes_list strict_list = Ok r /\
    match r with
    | CExplicit p => Route (ngraph n) s t (removelast nodes_list) p
    | CSearch o => explicit_path n (removelast nodes_list) s t = None /\
                   o = model_route (ngraph n) s t (removelast nodes_list)
                                   (existsb (fun b => b) (removelast strict_list))
    end.
Proof. exact model_ccp_spec. Qed.
Print Assumptions c11_model_ccp_spec.

(* OPTIMALITY OF AN EXPLICIT ANSWER.  No hypothesis about parallel lines is needed; what is needed is the chain
   structure along p (chain_hyp: every line element of p has exactly one successor and one predecessor, the source
   transceiver one successor, the destination one predecessor, two successive ROADMs of p are separated by a line
   element) and that the list names an element of every line section (OMS) of p (covered: every line element of p sits
   in a run of successive line elements of p containing a listed element).  Then p is the ONLY route of the request. *)
Theorem c11_covered_route_unique :
  forall n s t inc p,
  Route (ngraph n) s t inc p -> chain_hyp n s t p -> covered n inc p ->
  forall q, Route (ngraph n) s t inc q -> q = p.
Proof. exact covered_route_unique. Qed.
Print Assumptions c11_covered_route_unique.

Theorem c11_explicit_path_optimal :
  forall n inc s t p,
  explicit_path n inc s t = Some p -> chain_hyp n s t p -> covered n inc p ->
  optimal (ngraph n) s t inc p.
Proof. exact explicit_path_optimal. Qed.
Print Assumptions c11_explicit_path_optimal.

(* the same as an executable certificate, evaluated on every explicit answer of a run: membership in any route of the
   request is propagated from the anchors (s, t, the listed elements) along only-successor / only-predecessor edges *)
Theorem c11_explicit_forced_unique :
  forall n inc s t p,
  explicit_forced n inc s t p = true -> hd_error p = Some s -> last p t = t ->
  forall q, Route (ngraph n) s t inc q -> q = p.
Proof. exact explicit_forced_unique. Qed.
Print Assumptions c11_explicit_forced_unique.

Theorem c11_explicit_forced_optimal :
  forall n inc s t p,
  explicit_path n inc s t = Some p -> explicit_forced n inc s t p = true -> optimal (ngraph n) s t inc p.
Proof. exact explicit_forced_optimal. Qed.
Print Assumptions c11_explicit_forced_optimal.

(* every path it returns is a route: for the include list, or (LOOSE fall-back) without it *)
Theorem c11_model_ccp_path_is_route :
  forall n s t nodes_list strict_list r p,
  last nodes_list (t + 1) = t ->
  model_ccp n s t nodes_list strict_list = Ok r ->
  (r = CExplicit p \/ r = CSearch (RPath p)) ->
  Route (ngraph n) s t (removelast nodes_list) p \/ Route (ngraph n) s t [] p.
Proof. exact model_ccp_path_is_route. Qed.
Print Assumptions c11_model_ccp_path_is_route.

(* dual-potential certificate: feasible potentials tight along p  =>  p is a shortest s-t walk (large meshes) *)
Theorem c11_potential_cert :
  forall g pi s t p,
  potential_ok g pi s t p = true ->
  forall q, is_walk g q -> hd_error q = Some s -> last q t = t -> weight g p <= weight g q.
Proof. exact potential_cert. Qed.
Print Assumptions c11_potential_cert.

(* the same with an include list: one feasible potential per leg s -> inc_1 -> ... -> t whose distances add up to
   the weight of p  =>  no walk crossing inc in order is shorter (include lists on large meshes) *)
Theorem c11_seg_cert :
  forall g pis s t inc p,
  seg_cert_ok g pis s t inc p = true ->
  forall q, is_walk g q -> hd_error q = Some s -> last q t = t -> visits inc q -> weight g p <= weight g q.
Proof. exact seg_cert. Qed.
Print Assumptions c11_seg_cert.

(* model of find_reversed_path: when every crossed OMS has a reversed OMS joining the same two sites the other way
   round (rev_wf, evaluated on every observed path), the reverse path visits the same sites in reverse *)
Theorem c11_reversed_sites :
  forall n pth, rev_wf n pth = true ->
  exists rp, find_reversed_path n pth = Ok rp /\ roadms n rp = rev (roadms n pth).
Proof. exact reversed_sites. Qed.
Print Assumptions c11_reversed_sites.

(* model of the route-list clean-up (correct_json_route_list, one request): what survives only names ROADMs and
   line elements of the topology and comes from the user's list (a STRICT unknown name / transceiver raises instead) *)
Theorem c11_clean_route_valid :
  forall n s t nodes_list strict_list out_n out_s,
  length nodes_list = length strict_list ->
  clean_route n s t nodes_list strict_list = Ok (out_n, out_s) ->
  (forall y, In y out_n -> is_roadm n y = true \/ is_line n y = true) /\ incl out_n nodes_list.
Proof. exact clean_route_valid. Qed.
Print Assumptions c11_clean_route_valid.

(* ---------- translator tie: the decision code of /repo, re-translated on every run (Gen/RouteGen.v, generated by
   harness/pygen_c11.py), IS the model the theorems above are about ---------- *)
(* compute_constrained_path: guard, list handed to explicit_path / ispart, filter of the search, LOOSE fall-back test,
   the two blocking reasons (same_result: equal results, or both an error) *)
Theorem C11_source_compute_constrained_path :
  forall n s t nodes_list strict_list,
  same_result (g_ccp n s t nodes_list strict_list) (model_ccp n s t nodes_list strict_list).
Proof. exact gen_ccp. Qed.
Print Assumptions C11_source_compute_constrained_path.

Theorem C11_source_search_is_model_route :
  forall g s t inc strict,
  search_by g s t (ispart inc) (negb strict) "NO_PATH" "NO_PATH_WITH_CONSTRAINT" = model_route g s t inc strict.
Proof. exact search_by_model_route. Qed.
Print Assumptions C11_source_search_is_model_route.

Theorem C11_source_ispart : forall a b, g_ispart_from 0 a b = ispart a b.
Proof. exact gen_ispart. Qed.
Print Assumptions C11_source_ispart.

Theorem C11_source_explicit_path_check :
  forall n node_list t path, path <> [] ->
  g_explicit_reject n node_list t path = negb (explicit_check n node_list t path).
Proof. exact gen_explicit_reject. Qed.
Print Assumptions C11_source_explicit_path_check.

(* find_reversed_path collects the OMS of exactly the line elements (every class that is neither Transceiver nor Roadm) *)
Theorem C11_source_find_reversed_path_filter :
  forall n el, kind_of n el <> None -> g_rev_keeps n el = is_line n el.
Proof. intros n el H. rewrite gen_rev_keeps. apply rev_keeps_line. exact H. Qed.
Print Assumptions C11_source_find_reversed_path_filter.

(* network_from_json: an edge leaving a Fiber (isinstance: every subclass) weighs the span length, any other 1 cm *)
Theorem C11_source_edge_weight : forall is_fibre length_cm, g_edge_weight is_fibre length_cm = edge_weight is_fibre length_cm.
Proof. exact gen_edge_weight. Qed.
Print Assumptions C11_source_edge_weight.

(* members of a synchronisation vector (compute_path_dsjctn step 4): same include test, on the full path *)
Theorem C11_source_vector_member_include_test :
  forall nl full short strict_list,
  g_vector_include_ok nl full short = ispart nl full /\ g_vector_strict strict_list = existsb (fun b => b) strict_list.
Proof. exact gen_vector_include. Qed.
Print Assumptions C11_source_vector_member_include_test.

(* route-list clean-up: positions popped for the own source listed first / destination listed last; twins of the
   aggregation agree on ORDERED include lists.  Also matched literally by the translator (no definition): the pop of an
   unusable LOOSE hop, requests_from_json's `sorted(..., key=lambda x: x['index'])`, BaseParams.update_attr's deep copy
   of list / dict defaults *)
Theorem C11_source_route_list_cleanup : g_clean_pops = clean_pops.
Proof. exact gen_clean_pops. Qed.
Print Assumptions C11_source_route_list_cleanup.

Theorem C11_source_twin_attributes : g_twin_attrs = twin_attrs.
Proof. exact gen_twin_attrs. Qed.
Print Assumptions C11_source_twin_attributes.

(* ---------- non-vacuity ---------- *)
(* square 1-2-4 / 1-3-4 with a chord: two routes, includes select the longer one, a STRICT impossible list blocks *)
Definition ex_g : graph := [(1, [(2, 5); (3, 1)]); (2, [(4, 5)]); (3, [(4, 1); (2, 1)]); (4, [])].
Example c11_ex_enumeration : all_routes ex_g 1 4 = [[1; 2; 4]; [1; 3; 4]; [1; 3; 2; 4]].
Proof. vm_compute. reflexivity. Qed.
Example c11_ex_model :
  model_route ex_g 1 4 [] false = RPath [1; 3; 4] /\
  model_route ex_g 1 4 [2] true = RPath [1; 3; 2; 4] /\
  model_route ex_g 1 4 [2; 3] true = RBlock "NO_PATH_WITH_CONSTRAINT" /\
  model_route ex_g 1 4 [2; 3] false = RPath [1; 3; 4] /\
  model_route ex_g 4 1 [] false = RBlock "NO_PATH".
Proof. vm_compute. repeat split. Qed.
Example c11_ex_route_ok :
  route_ok ex_g 1 4 [3; 2] [1; 3; 2; 4] = true /\ route_ok ex_g 1 4 [2; 3] [1; 3; 2; 4] = false /\
  route_ok ex_g 1 4 [] [1; 4] = false /\ route_ok ex_g 1 4 [] [1; 3; 2; 3; 4] = false.
Proof. vm_compute. repeat split. Qed.
Example c11_ex_potential : potential_ok ex_g [0; 0; 2; 1; 2] 1 4 [1; 3; 4] = true.
Proof. vm_compute. reflexivity. Qed.
Example c11_ex_reversed :
  rev_wf f11_net [0; 1; 6; 3; 2] = true /\ find_reversed_path f11_net [0; 1; 6; 3; 2] = Ok [2; 3; 7; 1; 0].
Proof. vm_compute. split; reflexivity. Qed.
Example c11_ex_ccp_search :
  model_ccp f11_net 0 4 [3; 4] [false; true] = Ok (CSearch (RPath [0; 1; 8; 5; 4])).
Proof. vm_compute. reflexivity. Qed.
Example c11_ex_clean :
  clean_route f11_net 0 4 [0; 3; -1; 8; 2; 4] [true; true; false; false; false; true] = Ok ([3; 8], [true; false]) /\
  clean_route f11_net 0 4 [3; -1] [false; true] = Err "ServiceError:strict constraint can not be applied".
Proof. vm_compute. split; reflexivity. Qed.
Example c11_ex_ccp_explicit :
  (* F11 regression: the looping list A->B, B->A, A->C is not returned as a path, the STRICT request is blocked *)
  model_ccp f11_net 0 4 [6; 7; 8; 4] [true; true; true; true] = Ok (CSearch (RBlock "NO_PATH_WITH_CONSTRAINT")) /\
  (* F11b regression: STRICT roadm B off the only A->C path blocks, LOOSE falls back *)
  model_ccp f11_net 0 4 [3; 8; 4] [true; true; true] = Ok (CSearch (RBlock "NO_PATH_WITH_CONSTRAINT")) /\
  model_ccp f11_net 0 4 [3; 8; 4] [false; false; true] = Ok (CSearch (RPath [0; 1; 8; 5; 4])) /\
  model_ccp f11_net 0 4 [8; 4] [true; true] = Ok (CExplicit [0; 1; 8; 5; 4]).
Proof. vm_compute. repeat split. Qed.
Example c11_ex_seg_cert : seg_cert_ok ex_g [[0; 0; 2; 1; 2]; [0; 9; 0; 9; 5]] 1 4 [2] [1; 3; 2; 4] = true.
Proof. vm_compute. reflexivity. Qed.
Example c11_ex_forced : explicit_forced f11_net [8] 0 4 [0; 1; 8; 5; 4] = true /\
                        explicit_forced f11_net [] 0 4 [0; 1; 8; 5; 4] = false.
Proof. vm_compute. split; reflexivity. Qed.
Example c11_ex_chain_hyp : chain_hyp f11_net 0 4 [0; 1; 8; 5; 4].
Proof.
  unfold chain_hyp. split; [|split; [exists 1; reflexivity|split; [exists 5; reflexivity|split; [reflexivity|split; [reflexivity|]]]]].
  - intros x Hx Hl. destruct Hx as [<-|[<-|[<-|[<-|[<-|[]]]]]]; try (vm_compute in Hl; discriminate).
    split; [exists 5|exists 1]; reflexivity.
  - intros l1 u v l2 E. destruct l1 as [|a [|b [|c [|d l1]]]]; cbn in E; injection E; intros; subst.
    + right; right; left; reflexivity.
    + right; left; reflexivity.
    + left; reflexivity.
    + right; right; right; reflexivity.
    + destruct l1 as [|? [|? ?]]; cbn in *; congruence.
Qed.
Example c11_ex_covered : covered f11_net [8] [0; 1; 8; 5; 4].
Proof.
  intros x Hx Hl. destruct Hx as [<-|[<-|[<-|[<-|[<-|[]]]]]]; try (vm_compute in Hl; discriminate).
  exists [0; 1], [8], [5; 4], 8. repeat split; try (left; reflexivity). repeat constructor.
Qed.
