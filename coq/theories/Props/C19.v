(* C19 — The reported response states exactly what was computed for each request.
   Property theorems only; models in Model/Response.v, proofs in Proofs/Response.v, ResponseAgg.v, ResponseCsv.v.

   Vocabulary
     obs                   what was computed for one request: id, blocking reason (option), bidir flag, selected
                           transponder type / mode, assigned N / M lists, computed path (uid, is-transceiver), the
                           receiver arrays of the forward and of the reverse propagation (exact rationals), reference
                           power and path bandwidth.
     Spec o resp           (Proofs/Response.v) the declarative statement of the property for one response document:
                           response-id = id; served: path-properties at top level and no 'no-path'; blocked: 'no-path'
                           with the reason, and the candidate path-properties exactly when the reason is not one of
                           BLOCKING_NOPATH; path-properties = PPSpec: 'path-metric' states the forward receiver,
                           'z-a-path-metric' the reverse receiver and is present iff bidir; the n-th route object has
                           index n and states the n-th item of `expected_items` (per path element: hop object; label
                           object zip(N,M) iff served; transponder object (selected type, mode) iff transceiver).
     response_ok           the executable validator run by the check on every real response.
     pathresult            the model of ResultElement.json (compared with the real output by the check).
     round2 / round2q      round(x, 2) on the exact value, half to even.
     joined_ok, fresh      (Proofs/ResponseAgg.v) what an aggregated request must be w.r.t. the original requests.
     csv_row               the model of one jsontocsv row. *)
From Verif Require Import Prelude Model.Response.
From Verif Require Import Proofs.Response Proofs.ResponseAgg Proofs.ResponseCsv.
From Verif Require Import Proofs.ResponseExact Proofs.ResponseDisj Proofs.ResponseDisj2.
From Verif Require Import Gen.ResponseGen Proofs.ResponseGen.
From Coq Require Import QArith Qabs Qround Permutation.
Open Scope Z_scope.

(* ---------------------------------------------------------------- the validator decides the specification *)
Theorem C19_validator : forall o resp, response_ok o resp = true <-> Spec o resp.
Proof. exact response_ok_spec. Qed.
Print Assumptions C19_validator.

(* whatever the model of ResultElement.json returns meets the specification (receiver figures exist only for a
   non-empty path); where Python raises the model returns Err and nothing is reported *)
Theorem C19_model_meets_spec : forall o r,
  (o_path o = [] -> o_fwd o = None) -> pathresult o = Ok r -> Spec o r.
Proof. exact pathresult_spec. Qed.
Print Assumptions C19_model_meets_spec.

(* ---------------------------------------------------------------- exact shape: what was computed and nothing else *)
(* response_exact (the validator the check runs on every real response) = Spec and Shape, where Shape says: the
   response object has 2 members, 'no-path' has 1 (no path) or 2, path-properties has 2 (3 with 'z-a-path-metric'),
   a metric list has 11 entries of 2 members, a route object is { 'path-route-object': { 'index', <one kind> } } whose
   body (hop / each label / transponder) has 2 members *)
Theorem C19_exact : forall o resp, response_exact o resp = true <-> Spec o resp /\ Shape resp.
Proof. exact response_exact_spec. Qed.
Print Assumptions C19_exact.

Theorem C19_model_exact : forall o r,
  (o_path o = [] -> o_fwd o = None) -> pathresult o = Ok r -> response_exact o r = true.
Proof. exact pathresult_exact. Qed.
Print Assumptions C19_model_exact.

(* consequently the keys are exactly the expected ones ... *)
Theorem C19_exact_keys : forall o resp, Spec o resp -> Shape resp ->
  exists kv, resp = JObj kv /\
    Permutation ["response-id"; match o_block o with None => "path-properties" | Some _ => "no-path" end]%string (map fst kv) /\
    (reports_path o = true ->
     exists ppkv, response_pp resp = Some (JObj ppkv) /\
       Permutation (if o_bidir o then ["path-metric"; "z-a-path-metric"; "path-route-objects"]
                    else ["path-metric"; "path-route-objects"])%string (map fst ppkv)).
Proof. exact exact_keys. Qed.
Print Assumptions C19_exact_keys.

(* ... and a metric list has one entry per metric of the code's list and no other *)
Theorem C19_exact_metric_entries : forall r o j,
  MetricsSpec r o j -> MetricsShape j ->
  exists pm, j = Some (JArr pm) /\ Permutation METRIC_NAMES (metric_types pm).
Proof. exact exact_metric_entries. Qed.
Print Assumptions C19_exact_metric_entries.

(* ---------------------------------------------------------------- what Spec tells the reader of a response *)
(* route: per element of the computed path its hop, its labels when served, its transponder when it is a
   transceiver, in this order, indexed 0,1,2,... and nothing else *)
Theorem C19_route : forall o resp, Spec o resp -> reports_path o = true ->
  exists lab, spec_labels o = Some lab /\ stated (route_objects resp) = expected_items o lab /\
              map classify (route_objects resp) =
              map (fun p => Some p) (combine (map Z.of_nat (seq 0 (length (route_objects resp)))) (expected_items o lab)).
Proof. exact Spec_route. Qed.
Print Assumptions C19_route.

Theorem C19_hop_by_hop : forall o resp, Spec o resp -> reports_path o = true ->
  hops_of (stated (route_objects resp)) = map h_uid (o_path o).
Proof. exact Spec_hops. Qed.
Print Assumptions C19_hop_by_hop.

(* a blocked request carries its reason and no label object; no top-level path-properties *)
Theorem C19_blocked : forall o resp r, Spec o resp -> o_block o = Some r ->
  labels_in (stated (route_objects resp)) = [] /\
  exists kv np, resp = JObj kv /\ jget "no-path" kv = Some (JObj np) /\ jget "no-path" np = Some (JStr r) /\
                jget "path-properties" kv = None.
Proof. exact Spec_blocked. Qed.
Print Assumptions C19_blocked.

(* a served request shows after every hop the assigned labels zip(N, M); its transponder objects show the selected
   type and mode *)
Theorem C19_served : forall o resp, Spec o resp -> o_block o = None ->
  exists n m, o_N o = Some n /\ o_M o = Some m /\
    labels_in (stated (route_objects resp)) = repeat (combine n m) (length (o_path o)) /\
    tsps_in (stated (route_objects resp)) = repeat (o_tsp o, o_mode o) (length (filter h_trx (o_path o))).
Proof. exact Spec_served. Qed.
Print Assumptions C19_served.

(* metrics: 'path-metric' = forward receiver, 'z-a-path-metric' = reverse receiver, present iff bidirectional *)
Theorem C19_metrics : forall o resp, Spec o resp -> reports_path o = true ->
  (exists rx l, o_fwd o = Some rx /\ expected_metrics rx o = Some l /\
     forall name v, In (name, v) l ->
       exists jv, read_property (metric_list "path-metric" resp) name = Some jv /\ mval_rel v jv) /\
  (if o_bidir o then
     exists rv l, o_rev o = Some rv /\ expected_metrics rv o = Some l /\
       forall name v, In (name, v) l ->
         exists jv, read_property (metric_list "z-a-path-metric" resp) name = Some jv /\ mval_rel v jv
   else pp_field "z-a-path-metric" resp = None).
Proof. exact Spec_metrics. Qed.
Print Assumptions C19_metrics.

(* ... whose values are round2 of the exact mean / minimum / maximum of the receiver arrays *)
Theorem C19_metric_values : forall rx o l, expected_metrics rx o = Some l ->
  exists m1 m2 m3 m4 lo hi p1 p2 p3,
    qmean (r_snr rx) = Some m1 /\ qmean (r_snr01 rx) = Some m2 /\ qmean (r_osnr rx) = Some m3 /\
    qmean (r_osnr01 rx) = Some m4 /\ qmin_list (r_snr01 rx) = Some lo /\ qmax_list (r_snr01 rx) = Some hi /\
    penalty_val (r_pdl rx) = Some p1 /\ penalty_val (r_cd rx) = Some p2 /\ penalty_val (r_pmd rx) = Some p3 /\
    l = [(SNR_BW, MNum (round2q m1)); (SNR_01NM, MNum (round2q m2)); (OSNR_BW, MNum (round2q m3));
         (OSNR_01NM, MNum (round2q m4)); (LOWER_SNR, MNum (round2q lo)); (UPPER_SNR, MNum (round2q hi));
         (PDL_PEN, p1); (CD_PEN, p2); (PMD_PEN, p3); (REF_POWER, MNum (o_power o)); (PATH_BW, MNum (o_bw o))].
Proof. exact expected_metrics_values. Qed.
Print Assumptions C19_metric_values.

Theorem C19_mean : forall l m, qmean l = Some m ->
  l <> [] /\ (m * inject_Z (Z.of_nat (length l)) == qsum_plain l)%Q.
Proof. exact qmean_spec. Qed.
Print Assumptions C19_mean.
Theorem C19_min : forall l m, qmin_list l = Some m -> In m l /\ forall y, In y l -> (m <= y)%Q.
Proof. exact qmin_list_spec. Qed.
Print Assumptions C19_min.
Theorem C19_max : forall l m, qmax_list l = Some m -> In m l /\ forall y, In y l -> (y <= m)%Q.
Proof. exact qmax_list_spec. Qed.
Print Assumptions C19_max.

(* rounding lemma: within half a hundredth, ties to the even hundredth; only the value matters; idempotent *)
Theorem C19_round2 : forall q,
  (Qabs (q - round2q q) <= 1 # 200)%Q /\
  ((Qabs (q - round2q q) == 1 # 200)%Q -> Z.even (round2 q) = true).
Proof. exact round2_spec. Qed.
Print Assumptions C19_round2.
Theorem C19_round2_value : forall q q', (q == q')%Q -> (round2q q == round2q q')%Q.
Proof. exact round2q_compat. Qed.
Print Assumptions C19_round2_value.
Theorem C19_round2_idem : forall q, (round2q (round2q q) == round2q q)%Q.
Proof. exact round2q_idem. Qed.
Print Assumptions C19_round2_idem.

(* ---------------------------------------------------------------- aggregation *)
(* every original request is a member of exactly one reported request; a reported request carries the joined id
   (absorbing request first), the summed bandwidth, the concatenated N and M lists; its members agree on all
   compared fields and it absorbed something only if its mode is fixed; total bandwidth is preserved *)
Theorem C19_aggregation : forall reqs disj out disj',
  fresh reqs -> requests_aggregation reqs disj = (out, disj') ->
  Permutation (flat_map a_members out) (map a_tag reqs) /\
  Forall (joined_ok reqs) out /\
  (qsum_plain (map a_bw out) == qsum_plain (map a_bw reqs))%Q.
Proof. exact aggregation_spec. Qed.
Print Assumptions C19_aggregation.

Theorem C19_aggregation_once : forall reqs disj out disj',
  fresh reqs -> requests_aggregation reqs disj = (out, disj') ->
  NoDup (flat_map a_members out) /\ forall r, In r reqs -> In (a_tag r) (flat_map a_members out).
Proof. exact aggregation_once. Qed.
Print Assumptions C19_aggregation_once.

(* `bidir` is one of the compared fields: a reported request has the direction flag of every member *)
Theorem C19_aggregation_bidir : forall reqs disj out disj',
  fresh reqs -> Forall key_has_bidir reqs -> requests_aggregation reqs disj = (out, disj') ->
  forall r t, In r out -> In t (a_members r) -> bidir_of reqs t = a_bidir r.
Proof. exact aggregation_bidir. Qed.
Print Assumptions C19_aggregation_bidir.

(* ---------------------------------------------------------------- aggregation and the synchronisation groups *)
(* the group comparison of compare_reqs decides "same shape": neither request is in a group, or both are and their
   partner sets agree group by group (equal multisets of sets) *)
Theorem C19_same_sets : forall a b, same_sets a b = true <-> SameSets a b.
Proof. exact same_sets_spec. Qed.
Print Assumptions C19_same_sets.
Theorem C19_same_disj : forall id1 id2 disj, same_disj id1 id2 disj = true <-> SameShape id1 id2 disj.
Proof. exact same_disj_spec. Qed.
Print Assumptions C19_same_disj.

(* a request is only ever absorbed by a different, fixed-mode request with equal compared fields and groups of the same
   shape: a request in groups of another shape is never absorbed *)
Theorem C19_absorbed_same_shape : forall req disj this_r, can_absorb req disj this_r = true ->
  a_id req <> a_id this_r /\ key_eqb (a_key req) (a_key this_r) = true /\ a_mode_set this_r = true /\
  SameShape (a_id req) (a_id this_r) disj.
Proof. exact absorbed_same_shape. Qed.
Print Assumptions C19_absorbed_same_shape.
Theorem C19_step_same_shape : forall local disj t local' disj', agg_step (local, disj) t = (local', disj') ->
  disj' = disj \/
  exists req this_r, by_tag local t = Some req /\ In this_r local /\
    SameShape (a_id req) (a_id this_r) disj /\
    disj' = groups_after (a_id req) (a_id this_r) (a_id (merge this_r req)) disj.
Proof. exact step_same_shape. Qed.
Print Assumptions C19_step_same_shape.

(* the groups after absorbing the request named a into the request named b under the joined id n *)
Theorem C19_groups_after : forall a b n disj,
  let G' := groups_after a b n disj in
  Forall (fun d' => ~ In b d') G' /\
  G' = filter (fun d' => negb (mem_s b d')) (map (rename a n) disj) /\
  (forall d', In d' G' -> exists d, In d disj /\ d' = rename a n d) /\
  (length G' <= length disj)%nat /\
  (forall d, In d disj -> In a d ->
     In n (rename a n d) /\ (NoDup d -> n <> a -> ~ In a (rename a n d)) /\
     (~ In b (rename a n d) -> In (rename a n d) G')) /\
  (forall d, In d disj -> ~ In a d -> ~ In b d -> In d G').
Proof. exact groups_after_spec. Qed.
Print Assumptions C19_groups_after.

(* the constraints of a removed group live on: it has a twin that named the absorbed request with the same partners,
   and the renamed twin survives, naming the joined request together with exactly those partners *)
Theorem C19_constraints_live_on : forall req disj this_r,
  can_absorb req disj this_r = true ->
  let a := a_id req in let b := a_id this_r in let n := a_id (merge this_r req) in
  forall g, In g disj -> In b g ->
  exists g1, In g1 disj /\ In a g1 /\ ~ In b g1 /\
    set_equiv (others a g1) (others b g) /\
    In (rename a n g1) (groups_after a b n disj) /\
    (forall x, x <> a -> (In x (rename a n g1) <-> x = n \/ (In x g /\ x <> b))).
Proof. exact absorbed_constraints_live_on. Qed.
Print Assumptions C19_constraints_live_on.

(* the whole run invents no group: every remaining group is an input group after some renamings (same length) *)
Theorem C19_aggregation_groups : forall reqs disj out disj',
  requests_aggregation reqs disj = (out, disj') ->
  (length disj' <= length disj)%nat /\ forall d', In d' disj' -> exists d, In d disj /\ derived d d'.
Proof. exact aggregation_groups. Qed.
Print Assumptions C19_aggregation_groups.
Theorem C19_derived_length : forall d d', derived d d' -> length d' = length d.
Proof. exact derived_length. Qed.
Print Assumptions C19_derived_length.

(* with distinct '|'-free ids and groups that name existing requests at most once each: reported ids stay distinct and
   no group names a request that no longer exists (cf. c12_aggregate_preserves / no_stale for the C12 model) *)
Theorem C19_aggregation_no_stale : forall reqs disj out disj',
  fresh reqs -> NoDup (map a_id reqs) -> barfree reqs ->
  Forall (fun d => NoDup d) disj -> (forall d x, In d disj -> In x d -> In x (map a_id reqs)) ->
  requests_aggregation reqs disj = (out, disj') ->
  NoDup (map a_id out) /\
  Forall (fun d => NoDup d) disj' /\
  (forall d x, In d disj' -> In x d -> In x (map a_id out)).
Proof. exact aggregation_no_stale. Qed.
Print Assumptions C19_aggregation_no_stale.

(* ---------------------------------------------------------------- CSV export *)
Theorem C19_csv_served : forall o resp eqp margin pdbm row,
  Spec o resp -> o_block o = None -> ends_trx o ->
  csv_row eqp margin pdbm resp = Ok row ->
  exists n m src mid dst rx lo mname md,
    o_N o = Some n /\ o_M o = Some m /\ o_path o = src :: mid ++ [dst] /\
    o_fwd o = Some rx /\ qmin_list (r_snr01 rx) = Some lo /\
    o_mode o = Some mname /\ mode_lookup eqp (o_tsp o) mname = Some md /\
    sget "response-id" row = Some (CStr (o_id o)) /\
    sget "source" row = Some (CStr (h_uid src)) /\
    sget "destination" row = Some (CStr (h_uid dst)) /\
    sget "transponder-type" row = Some (CStr (o_tsp o)) /\
    sget "transponder-mode" row = Some (CStr mname) /\
    sget "path" row = Some (CStr (join " | " (map h_uid (o_path o)))) /\
    sget "spectrum (N,M)" row = Some (CStr (label_str (combine n m))) /\
    sget "min required OSNR (inc. margin)" row = Some (CNum (m_osnr md + margin)%Q) /\
    sget "Pass?" row = Some (CBool (Qle_bool (m_osnr md + margin)%Q (round2q lo))) /\
    (exists c, sget "SNR-0.1nm (min)" row = Some (CNum c) /\ (c == round2q lo)%Q) /\
    (exists c, sget "path_bandwidth" row = Some (CNum c) /\ (c == round2q (o_bw o / giga))%Q) /\
    (if o_bidir o then
       exists rv lo' c, o_rev o = Some rv /\ qmin_list (r_snr01 rv) = Some lo' /\
                        sget "reversed path SNR-0.1nm (min)" row = Some (CNum c) /\ (c == round2q lo')%Q
     else sget "reversed path SNR-0.1nm (min)" row = None).
Proof. exact csv_consistent_served. Qed.
Print Assumptions C19_csv_served.

Theorem C19_csv_blocked : forall o resp eqp margin pdbm row r,
  Spec o resp -> o_block o = Some r ->
  csv_row eqp margin pdbm resp = Ok row ->
  sget "response-id" row = Some (CStr (o_id o)) /\
  sget "Pass?" row = Some (CStr r) /\
  sget "path_bandwidth" row = None /\ sget "nb of tsp pairs" row = None /\
  if mem_s r BLOCKING_NOPATH then
    row = [("response-id"%string, CStr (o_id o)); ("Pass?"%string, CStr r)]
  else
    ends_trx o ->
    exists src mid dst mname,
      o_path o = src :: mid ++ [dst] /\ o_mode o = Some mname /\
      sget "source" row = Some (CStr (h_uid src)) /\
      sget "destination" row = Some (CStr (h_uid dst)) /\
      sget "transponder-type" row = Some (CStr (o_tsp o)) /\
      sget "transponder-mode" row = Some (CStr mname) /\
      sget "path" row = Some (CStr (join " | " (map h_uid (o_path o)))) /\
      sget "spectrum (N,M)" row = Some (CStr "") /\
      (if o_bidir o then exists c, sget "reversed path SNR-0.1nm (min)" row = Some (CNum c)
       else sget "reversed path SNR-0.1nm (min)" row = None).
Proof. exact csv_consistent_blocked. Qed.
Print Assumptions C19_csv_blocked.

(* every numeric cell: `prints row col pm name f v` = column col shows f(entry `name` of the metric list pm), and
   that entry states the value v.  Forward columns print 'path-metric' (forward receiver), the "reversed path"
   columns print 'z-a-path-metric' (reverse receiver) and are empty unless the request is bidirectional; averages are
   rounded again (round_of), min / max / penalties are printed raw (raw_of) *)
Theorem C19_csv_cells_served : forall o resp eqp margin pdbm row,
  Spec o resp -> o_block o = None -> ends_trx o ->
  csv_row eqp margin pdbm resp = Ok row ->
  exists rx mname md m1 m2 m4 lo hi p1 p2 p3,
    o_fwd o = Some rx /\ o_mode o = Some mname /\ mode_lookup eqp (o_tsp o) mname = Some md /\
    receiver_figures rx m1 m2 m4 lo hi p1 p2 p3 /\
    metric_columns "" row (metric_list "path-metric" resp) m1 m2 m4 lo hi p1 p2 p3 /\
    sget "baud rate (Gbaud)" row = Some (CNum (round2q (m_baud md / giga))) /\
    sget "bit rate" row = Some (CNum (round2q (m_bitrate md / giga))) /\
    sget "input power (dBm)" row = Some (CNum (round2q pdbm)) /\
    (let nb := Qceiling (round2q (o_bw o / giga) / round2q (m_bitrate md / giga)) in
     sget "nb of tsp pairs" row = Some (CNum (inject_Z nb)) /\
     sget "total cost" row = Some (CNum (inject_Z nb * m_cost md)%Q)) /\
    (if o_bidir o then
       exists rv n1 n2 n4 lo' hi' r1 r2 r3,
         o_rev o = Some rv /\ receiver_figures rv n1 n2 n4 lo' hi' r1 r2 r3 /\
         metric_columns "reversed path " row (metric_list "z-a-path-metric" resp) n1 n2 n4 lo' hi' r1 r2 r3
     else Forall (fun col => sget col row = None) REV_FIELDS).
Proof. exact csv_cells_served. Qed.
Print Assumptions C19_csv_cells_served.

Theorem C19_csv_cells_blocked : forall o resp eqp margin pdbm row r,
  Spec o resp -> o_block o = Some r -> mem_s r BLOCKING_NOPATH = false ->
  csv_row eqp margin pdbm resp = Ok row ->
  exists rx m1 m2 m4 lo hi p1 p2 p3,
    o_fwd o = Some rx /\ receiver_figures rx m1 m2 m4 lo hi p1 p2 p3 /\
    metric_columns "" row (metric_list "path-metric" resp) m1 m2 m4 lo hi p1 p2 p3 /\
    sget "input power (dBm)" row = Some (CNum (round2q pdbm)) /\
    sget "total cost" row = None /\
    (if o_bidir o then
       exists rv n1 n2 n4 lo' hi' r1 r2 r3,
         o_rev o = Some rv /\ receiver_figures rv n1 n2 n4 lo' hi' r1 r2 r3 /\
         metric_columns "reversed path " row (metric_list "z-a-path-metric" resp) n1 n2 n4 lo' hi' r1 r2 r3
     else Forall (fun col => sget col row = None) REV_FIELDS).
Proof. exact csv_cells_blocked. Qed.
Print Assumptions C19_csv_cells_blocked.

(* a printed average is the twice-rounded value of the response entry, i.e. round2 of the exact mean *)
Theorem C19_csv_rounded_value : forall row col pm name x,
  prints row col pm name round_of (MNum (round2q x)) ->
  exists c, sget col row = Some (CNum c) /\ (c == round2q x)%Q.
Proof. exact prints_round_value. Qed.
Print Assumptions C19_csv_rounded_value.

(* the export never raises on a response that meets Spec (path between two transceivers, mode in the library) *)
Theorem C19_csv_defined : forall o resp eqp margin pdbm,
  Spec o resp ->
  (reports_path o = true ->
     ends_trx o /\
     exists mname md, o_mode o = Some mname /\ mode_lookup eqp (o_tsp o) mname = Some md /\
                      (o_block o = None -> ~ (round2q (m_bitrate md / giga) == 0)%Q)) ->
  exists row, csv_row eqp margin pdbm resp = Ok row.
Proof. exact csv_defined. Qed.
Print Assumptions C19_csv_defined.

(* ---------------------------------------------------------------- translator tie: the source says what the model says *)
(* Gen/ResponseGen.v is regenerated from /repo's source on every run (harness/pygen_c19.py); each g_ definition is the
   translation of the named source fragment *)
Theorem C19_source_pathresult : forall o, g_pathresult o = pathresult o.
Proof. exact gen_pathresult. Qed.
Print Assumptions C19_source_pathresult.
Theorem C19_source_path_properties : forall o, g_path_properties o = path_properties o.
Proof. exact gen_path_properties. Qed.
Print Assumptions C19_source_path_properties.
Theorem C19_source_metrics : forall r o, g_expected_metrics r o = expected_metrics r o.
Proof. exact gen_expected_metrics. Qed.
Print Assumptions C19_source_metrics.
Theorem C19_source_penalty : forall p, g_penalty_val p = penalty_val p.
Proof. exact gen_penalty_val. Qed.
Print Assumptions C19_source_penalty.
Theorem C19_source_route_objects : forall o, g_detailed_path_json o = detailed_path_json o.
Proof. exact gen_detailed_path_json. Qed.
Print Assumptions C19_source_route_objects.
Theorem C19_source_blocking_classes :
  g_BLOCKING_NOPATH = BLOCKING_NOPATH /\ g_BLOCKING_NOMODE = BLOCKING_NOMODE /\ g_BLOCKING_NOSPECTRUM = BLOCKING_NOSPECTRUM.
Proof. exact gen_blocking. Qed.
Print Assumptions C19_source_blocking_classes.
(* jsontocsv: which blocked responses carry path properties; the pass flag (margin-inclusive: >=); the positions *)
Theorem C19_source_csv_reports_path : forall reason, g_csv_reports_path reason = negb (mem_s reason BLOCKING_NOPATH).
Proof. exact gen_csv_reports_path. Qed.
Print Assumptions C19_source_csv_reports_path.
Theorem C19_source_csv_pass : forall smin snr minosnr,
  g_csv_pass smin snr minosnr = match smin with CEmpty => cell_ge snr minosnr | _ => cell_ge smin minosnr end.
Proof. exact gen_csv_pass. Qed.
Print Assumptions C19_source_csv_pass.
Theorem C19_source_csv_positions : g_csv_positions = ((1, 2), (2, 3))%nat.
Proof. exact gen_csv_positions. Qed.
Print Assumptions C19_source_csv_positions.
Theorem C19_source_csv_columns : forall l pdbm cells,
  jsontopath_metric (Some (JArr l)) pdbm = Ok cells ->
  Forall2 (fun c nf => fmt_cell (snd nf) pdbm (read_property l (fst nf)) = Ok c) cells g_jsontopath_cols.
Proof. exact jsontopath_metric_cols. Qed.
Print Assumptions C19_source_csv_columns.
Theorem C19_source_csv_values :
  g_jsontoparams_values = JSONTOPARAMS_VALUES /\ g_csv_separators = (" | ", " | ")%string /\
  length g_jsontoparams_values = length PATH_FIELDS.
Proof. exact gen_jsontoparams_values. Qed.
Print Assumptions C19_source_csv_values.
(* aggregation: the compared fields (bidir among them), the absorb condition, what the absorbing request becomes *)
Theorem C19_source_compare_fields :
  g_compare_fields = KEY_FIELD_NAMES /\ nth_error g_compare_fields 2 = Some "bidir"%string.
Proof. exact gen_compare_fields. Qed.
Print Assumptions C19_source_compare_fields.
Theorem C19_source_can_absorb : forall req disj this_r, g_can_absorb req disj this_r = can_absorb req disj this_r.
Proof. exact gen_can_absorb. Qed.
Print Assumptions C19_source_can_absorb.
Theorem C19_source_merge : forall this_r req, g_merge this_r req = merge this_r req.
Proof. exact gen_merge. Qed.
Print Assumptions C19_source_merge.
(* planning: ids checked, route lists harmonised and groups de-duplicated before aggregation; routing, propagation and
   spectrum assignment after it *)
Theorem C19_source_planning_steps : g_planning_steps = PLANNING_STEPS.
Proof. exact gen_planning_steps. Qed.
Print Assumptions C19_source_planning_steps.
Theorem C19_source_planning_order :
  before "check_request_path_ids" "requests_aggregation" g_planning_steps = true /\
  before "correct_json_route_list" "requests_aggregation" g_planning_steps = true /\
  before "deduplicate_disjunctions" "requests_aggregation" g_planning_steps = true /\
  before "requests_aggregation" "compute_path_dsjctn" g_planning_steps = true /\
  before "compute_path_dsjctn" "compute_path_with_disjunction" g_planning_steps = true /\
  before "compute_path_with_disjunction" "pth_assign_spectrum" g_planning_steps = true.
Proof. exact planning_order. Qed.
Print Assumptions C19_source_planning_order.

(* ---------------------------------------------------------------- non-vacuity *)
Definition ex_rx (d : Q) : rxfig :=
  mkRx [20 + d; 21 + d; (43 # 2) + d]%Q [(2412345 # 100000) + d; (25 # 1) + d; (2551 # 100) + d]%Q
       [(22 # 1) + d; (23 # 1) + d]%Q [26 + d; (2705 # 100) + d]%Q
       (Some [Fin (1 # 4); Fin (1 # 2)]) (Some [Fin (1 # 10); PInf]) None.
Definition ex_path : list hop :=
  [mkHop "trx A" true; mkHop "roadm A" false; mkHop "fiber AB" false; mkHop "roadm B" false; mkHop "trx B" true].
(* served, bidirectional, two slots *)
Definition ex_served : obs :=
  mkObs "7 | 3" None true "Voyager" (Some "mode 1"%string) (Some [0; 20]) (Some [4; 8]) ex_path
        (Some (ex_rx 0)) (Some (ex_rx (3 # 1))) (1 # 1000) (300000000000 # 1).
(* blocked with a candidate path *)
Definition ex_blocked : obs :=
  mkObs "5" (Some "NO_SPECTRUM"%string) false "Voyager" (Some "mode 1"%string) None None ex_path
        (Some (ex_rx 0)) None (1 # 1000) (100000000000 # 1).
(* no path at all *)
Definition ex_nopath : obs :=
  mkObs "6" (Some "NO_PATH"%string) true "Voyager" (Some "mode 1"%string) None None [] None None (1 # 1000) (100000000000 # 1).
Definition ex_eqp : eqpt := [("Voyager"%string, [mkMode "mode 1" 12 (32000000000 # 1) (100000000000 # 1) 1])].

(* helpers that keep the (large) documents inside vm_compute *)
Definition on_ok {A} (x : res A) (f : A -> bool) : bool := match x with Ok a => f a | Err _ => false end.
Definition cell_is (row : list (string * cell)) (k : string) (c : cell) : bool :=
  match sget k row, c with
  | Some (CNum x), CNum y => Qeq_bool x y
  | Some (CStr x), CStr y => String.eqb x y
  | Some (CBool x), CBool y => Bool.eqb x y
  | Some CEmpty, CEmpty => true
  | _, _ => false
  end.

Example ex_model_defined :
  on_ok (pathresult ex_served) (response_ok ex_served) = true /\
  on_ok (pathresult ex_blocked) (response_ok ex_blocked) = true /\
  on_ok (pathresult ex_nopath) (response_ok ex_nopath) = true.
Proof. repeat split; vm_compute; reflexivity. Qed.

Example ex_hypotheses : ends_trx ex_served /\ reports_path ex_served = true /\ reports_path ex_nopath = false /\
  (o_path ex_served = [] -> o_fwd ex_served = None).
Proof.
  split; [exists (mkHop "trx A" true), [mkHop "roadm A" false; mkHop "fiber AB" false; mkHop "roadm B" false],
                 (mkHop "trx B" true); repeat split|].
  repeat split. discriminate.
Qed.

(* the validator rejects a response that reports the forward figures as reverse figures, and one with labels on a
   blocked request *)
Example ex_rejects :
  on_ok (pathresult ex_served)
        (response_ok (mkObs "7 | 3" None true "Voyager" (Some "mode 1"%string) (Some [0; 20]) (Some [4; 8]) ex_path
                            (Some (ex_rx 0)) (Some (ex_rx (1 # 1))) (1 # 1000) (300000000000 # 1))) = false /\
  on_ok (pathresult ex_served)
        (response_ok (mkObs "7 | 3" (Some "NO_SPECTRUM"%string) true "Voyager" (Some "mode 1"%string) None None ex_path
                            (Some (ex_rx 0)) (Some (ex_rx (3 # 1))) (1 # 1000) (300000000000 # 1))) = false.
Proof. split; vm_compute; reflexivity. Qed.

(* CSV of the served example: pass flag true (24.12 >= 12 + 2), of a variant with margin 13: false *)
Example ex_csv :
  on_ok (pathresult ex_served) (fun r => on_ok (csv_row ex_eqp 2 0 r) (fun row =>
     cell_is row "Pass?" (CBool true) && cell_is row "spectrum (N,M)" (CStr "[0, 20], [4, 8]"))) = true /\
  on_ok (pathresult ex_served) (fun r => on_ok (csv_row ex_eqp 13 0 r) (fun row =>
     cell_is row "Pass?" (CBool false))) = true.
Proof. split; vm_compute; reflexivity. Qed.

(* aggregation: requests 0 and 2 are identical (fixed mode) and are joined into "2 | 0"; request 1 has no mode *)
Definition ex_k (mode : fld) : list fld := [FStr "trx A"; FStr "trx B"; FBool false; FStr "Voyager"; mode; FNum (50 # 1)].
Definition ex_reqs : list areq :=
  [mkA 0 "0" [0%nat] (ex_k (FStr "mode 1")) true (100 # 1) [Some 0] [Some 4] false;
   mkA 1 "1" [1%nat] (ex_k FNone) false (200 # 1) [None] [None] false;
   mkA 2 "2" [2%nat] (ex_k (FStr "mode 1")) true (300 # 1) [Some 16] [Some 4] false].
Example ex_aggregation : fresh ex_reqs /\ Forall key_has_bidir ex_reqs /\
  exists d, requests_aggregation ex_reqs [["1"; "9"]%string] =
    ([mkA 1 "1" [1%nat] (ex_k FNone) false (200 # 1) [None] [None] false;
      mkA 2 "2 | 0" [2%nat; 0%nat] (ex_k (FStr "mode 1")) true ((300 # 1) + (100 # 1)) [Some 16; Some 0] [Some 4; Some 4] false], d).
Proof.
  split; [split; [repeat constructor; cbn; intuition discriminate|repeat constructor]|].
  split; [repeat constructor|].
  eexists. vm_compute. reflexivity.
Qed.

(* exact shape: the model's documents pass the strict validator; one extra key or one extra metric entry is refused *)
Definition add_key (j : json) : json := match j with JObj kv => JObj (kv ++ [("x"%string, JNull)]) | _ => j end.
Example ex_exact :
  on_ok (pathresult ex_served) (fun r => response_exact ex_served r && response_ok ex_served (add_key r) &&
                                         negb (response_exact ex_served (add_key r))) = true /\
  on_ok (pathresult ex_blocked) (response_exact ex_blocked) = true /\
  on_ok (pathresult ex_nopath) (response_exact ex_nopath) = true.
Proof. repeat split; vm_compute; reflexivity. Qed.

(* CSV cells of the served example: transponder pairs ceil(300 / 100) = 3, cost 3, reversed min SNR = 27.12 *)
Example ex_csv_cells :
  on_ok (pathresult ex_served) (fun r => on_ok (csv_row ex_eqp 2 0 r) (fun row =>
     cell_is row "nb of tsp pairs" (CNum (3 # 1)) && cell_is row "total cost" (CNum (3 # 1)) &&
     cell_is row "SNR-0.1nm (min)" (CNum (2412 # 100)) &&
     cell_is row "reversed path SNR-0.1nm (min)" (CNum (2712 # 100)) &&
     cell_is row "CD_penalty" (CStr "Infinity") && cell_is row "PMD_penalty" (CStr "not evaluated"))) = true.
Proof. vm_compute. reflexivity. Qed.

(* groups: twins r0, r1 (fixed mode) each disjoint from r2 and from r3: r1 absorbs r0, the groups of r0 are renamed,
   the groups that named r1 are removed; with a group of another shape ([r1; r4]) nothing is aggregated *)
Definition ex_t (tag : nat) (id : string) (mode : fld) (ms : bool) : areq :=
  mkA tag id [tag] (ex_k mode) ms (100 # 1) [None] [None] false.
Definition ex_greqs : list areq :=
  [ex_t 0 "r0" (FStr "mode 1") true; ex_t 1 "r1" (FStr "mode 1") true; ex_t 2 "r2" FNone false;
   ex_t 3 "r3" FNone false; ex_t 4 "r4" FNone false].
Definition ex_groups : disjs := [["r0"; "r2"]; ["r0"; "r3"]; ["r1"; "r2"]; ["r1"; "r3"]]%string.
Example ex_groups_run :
  (exists out, requests_aggregation ex_greqs ex_groups = (out, [["r2"; "r1 | r0"]; ["r3"; "r1 | r0"]]%string) /\
               map a_id out = ["r1 | r0"; "r2"; "r3"; "r4"]%string) /\
  same_disj "r0" "r1" ex_groups = true /\
  same_disj "r0" "r1" (ex_groups ++ [["r1"; "r4"]]%string) = false /\
  (exists out, requests_aggregation ex_greqs (ex_groups ++ [["r1"; "r4"]]%string) = (out, ex_groups ++ [["r1"; "r4"]]%string) /\
               map a_id out = ["r0"; "r1"; "r2"; "r3"; "r4"]%string).
Proof. repeat split; try (eexists; split); vm_compute; reflexivity. Qed.

(* the hypotheses of C19_aggregation_no_stale are satisfiable on that run *)
Example ex_no_stale_hyps :
  fresh ex_greqs /\ NoDup (map a_id ex_greqs) /\ barfree ex_greqs /\ Forall (fun d => NoDup d) ex_groups /\
  (forall d x, In d ex_groups -> In x d -> In x (map a_id ex_greqs)).
Proof.
  split; [split; [repeat constructor; cbn; intuition discriminate|repeat constructor]|].
  split; [repeat constructor; cbn; intuition discriminate|].
  split; [repeat constructor|].
  split; [repeat constructor; cbn; intuition discriminate|].
  intros d x Hd Hx. cbn in Hd. cbn.
  repeat (destruct Hd as [<-|Hd]; [cbn in Hx; intuition|]). destruct Hd.
Qed.
