(* C19 — placeholder while the proofs are being written *)
From Verif Require Import Prelude Model.Response.
Theorem C19_placeholder : True. Proof. exact I. Qed.
Print Assumptions C19_placeholder.
