(* C04 — Amplifier applies its set gain, the quantum-limited ASE, and never exceeds p_max.
   Property theorems only; proofs in Proofs/Amp.v, model in Model/Amp.v (Num-polymorphic: theorems at NumR = Coq
   reals and over Q for the clamp; the same Gallina terms at NumF = binary64 are executed against gnpy).

   Vocabulary
     eff_gain_q g pmax pin        min(g, pmax - pin): effective gain from set gain g [dB], maximum total output power
                                  pmax [dBm] and TOTAL input power of the spectrum pin [dBm]   (over Q, exact)
     eff_gain                     the same clamp as it sits inside the executable model (here at NumR)
     nf_variable nf1 nf2 dp gmin gmax g   Edfa._nf for type_def variable_gain: NF [dB] at gain g, padding included
     estimate_nf_model            science_utils.estimate_nf_model: (nf1, nf2, delta_p) from the datasheet
     nf_solve                     its 2x2 solve (the values before the optional clipping of nf2)
     amp_ch out_voa c nf g        what Edfa.propagate does to channel c given its NF and gain: add_ase, apply_gain_db
     edfa_propagate / edfa_call   Edfa.propagate / Edfa.__call__ ; in_voa_chs = channels after the input VOA
     gain_profile, g1st_of, deltax_of, normalise     Edfa._gain_profile and its intermediate quantities
   Fixed-gain, OpenROADM, polynomial (advanced_model) and dual-stage NF are formula definitions in the model, tied to
   gnpy by the correspondence run only; no theorem is claimed about them. *)
From Coq Require Import Reals QArith List Psatz.
From Verif Require Import Prelude Num Model.Amp Proofs.Amp Gen.AmpGen Proofs.AmpGen.
Import ListNotations.

(* ---- saturation clamp (exact, over Q) *)
Theorem C04_clamp_le_set : forall g pmax pin : Q, (eff_gain_q g pmax pin <= g)%Q.
Proof. exact clamp_le_set. Qed.
Print Assumptions C04_clamp_le_set.

Theorem C04_clamp_pmax : forall g pmax pin : Q, (pin + eff_gain_q g pmax pin <= pmax)%Q.
Proof. exact clamp_pmax. Qed.
Print Assumptions C04_clamp_pmax.

(* reduced only as far as needed: whenever the gain is reduced the total output sits exactly at p_max ... *)
Theorem C04_clamp_minimal : forall g pmax pin : Q,
  (eff_gain_q g pmax pin < g)%Q -> (pin + eff_gain_q g pmax pin == pmax)%Q.
Proof. exact clamp_minimal. Qed.
Print Assumptions C04_clamp_minimal.

(* ... and it is the greatest admissible gain; not reduced at all when the set gain already fits *)
Theorem C04_clamp_greatest : forall g pmax pin x : Q,
  (x <= g)%Q -> (pin + x <= pmax)%Q -> (x <= eff_gain_q g pmax pin)%Q.
Proof. exact clamp_greatest. Qed.
Print Assumptions C04_clamp_greatest.

Theorem C04_clamp_unsaturated : forall g pmax pin : Q, (pin + g <= pmax)%Q -> (eff_gain_q g pmax pin == g)%Q.
Proof. exact clamp_unsaturated. Qed.
Print Assumptions C04_clamp_unsaturated.

Open Scope R_scope.

(* the clamp inside the executable amplifier model: effective gain of Edfa.propagate is eff_gain of the set gain, p_max
   and the total input power after the input VOA; and eff_gain obeys the same three laws over R *)
Theorem C04_clamp_in_model : forall (a : ampR) sel o,
  edfa_propagate a sel = Ok o ->
  o_eff o = @eff_gain NumR (a_gain_target a) (a_p_max a) (o_pin_db o) /\
  o_pin_db o = @watt2dbm NumR (@nsum NumR (map k_pch (in_voa_chs a sel))) /\
  o_eff o <= a_gain_target a /\ o_pin_db o + o_eff o <= a_p_max a /\
  (o_eff o < a_gain_target a -> o_pin_db o + o_eff o = a_p_max a).
Proof. exact clamp_in_model. Qed.
Print Assumptions C04_clamp_in_model.

(* ---- NF of min/max-NF ("variable_gain") amplifiers *)
(* every datasheet accepted by estimate_nf_model (clipped branch or not) is reproduced within the 0.01 dB of the
   code's own acceptance test: NF(gain_flatmax) ~ nf_min, NF(gain_min) ~ nf_max *)
Theorem C04_nf_datasheet : forall gmin gmax nfmin nfmax nf1 nf2 dp : R,
  gmin <= gmax ->
  estimateR gmin gmax nfmin nfmax = Ok (nf1, nf2, dp) ->
  iscloseR nfmin (nf_variableR nf1 nf2 dp gmin gmax gmax) = true /\
  iscloseR nfmax (nf_variableR nf1 nf2 dp gmin gmax gmin) = true.
Proof. exact estimate_reproduces_datasheet. Qed.
Print Assumptions C04_nf_datasheet.

(* when nf2 is not clipped, exactly: nf_min at maximum flat gain, nf_max at minimum gain *)
Theorem C04_nf_at_flatmax_and_gmin : forall gmin gmax nfmin nfmax nf1 nf2 dp : R,
  gmin < gmax -> nfmin < nfmax ->
  estimateR gmin gmax nfmin nfmax = Ok (nf1, nf2, dp) ->
  nf1 + 3 / 10 < nf2 < nf1 + 2 ->
  (let '(a, b, _) := nf_solveR gmin gmax nfmin nfmax in a + 3 / 10 < b < a + 2) ->
  nf_variableR nf1 nf2 dp gmin gmax gmax = nfmin /\ nf_variableR nf1 nf2 dp gmin gmax gmin = nfmax.
Proof. exact estimate_unclipped_exact. Qed.
Print Assumptions C04_nf_at_flatmax_and_gmin.

Theorem C04_nf_antitone : forall nf1 nf2 dp gmin gmax g g' : R, gmin <= g -> g <= g' ->
  nf_variableR nf1 nf2 dp gmin gmax g' <= nf_variableR nf1 nf2 dp gmin gmax g.
Proof. exact nf_antitone. Qed.
Print Assumptions C04_nf_antitone.

Theorem C04_nf_pad : forall nf1 nf2 dp gmin gmax g : R, g < gmin ->
  nf_variableR nf1 nf2 dp gmin gmax g = nf_variableR nf1 nf2 dp gmin gmax gmin + (gmin - g).
Proof. exact nf_pad. Qed.
Print Assumptions C04_nf_pad.

(* ---- ASE and gain accounting, per channel *)
Theorem C04_ase_out : forall (ov : R) (c : chR) nf (g : R),
  k_ase (amp_chR ov c nf g) = db2linR (g - ov) * (k_ase c + planckR * k_B c * k_f c * odb2linR nf).
Proof. exact edfa_ase_out. Qed.
Print Assumptions C04_ase_out.

Theorem C04_ase_quantum_limited : forall (c : chR) (nf : R),
  @ase_in NumR c (Some nf) = planckR * k_B c * k_f c * Rpow10 (nf / 10).
Proof. exact ase_in_formula. Qed.
Print Assumptions C04_ase_quantum_limited.

Theorem C04_signal_gain : forall (ov : R) (c : chR) nf (g : R),
  k_sig (amp_chR ov c nf g) = db2linR (g - ov) * k_sig c /\ k_nli (amp_chR ov c nf g) = db2linR (g - ov) * k_nli c /\
  k_f (amp_chR ov c nf g) = k_f c /\ k_B (amp_chR ov c nf g) = k_B c /\ k_sw (amp_chR ov c nf g) = k_sw c.
Proof. exact edfa_signal_gain. Qed.
Print Assumptions C04_signal_gain.

(* every channel handed to Edfa.propagate leaves it as amp_ch of (itself after the input VOA, its NF, its gain) *)
Theorem C04_propagate_channels : forall (a : ampR) sel o,
  edfa_propagate a sel = Ok o ->
  o_out o = map2 (fun cn g => amp_chR (a_out_voa a) (fst cn) (snd cn) g) (combine (in_voa_chs a sel) (o_nf o)) (o_gprofile o)
  /\ o_ase_in o = map2 (@ase_in NumR) (in_voa_chs a sel) (o_nf o)
  /\ length (o_nf o) = length sel /\ length (o_gprofile o) = length sel /\ length (o_out o) = length sel
  /\ map k_f (o_out o) = map k_f sel
  /\ o_eff o = @eff_gain NumR (a_gain_target a) (a_p_max a) (o_pin_db o)
  /\ o_pin_db o = @watt2dbm NumR (@nsum NumR (map k_pch (in_voa_chs a sel))).
Proof. exact edfa_propagate_channels. Qed.
Print Assumptions C04_propagate_channels.

(* ---- out-of-band channels are not amplified *)
Theorem C04_band : forall (a : ampR) chans o,
  edfa_call a chans = Ok o -> map k_f (o_out o) = map k_f (filter (in_band (a_f_min a) (a_f_max a)) chans).
Proof. exact edfa_band. Qed.
Print Assumptions C04_band.

(* ---- flat gain profile: the mean linear gain of the returned profile is the effective gain *)
Theorem C04_flat_profile_mean : forall (a : ampR) freqs pin dgt ripple (pin_db eff : R),
  (1 <= length dgt)%nat -> length ripple = length dgt ->
  Rabs (@deltax_of NumR (g1st_of a freqs dgt ripple)) <= 5 / 100 ->
  @nmean NumR (map db2linR (gain_profile a freqs pin dgt ripple pin_db eff)) = db2linR eff.
Proof. exact flat_profile_mean. Qed.
Print Assumptions C04_flat_profile_mean.

(* ---- the DGT (tilt / ripple) branch of _gain_profile: one secant step towards the effective gain *)
(* the returned DGT scaling is the point where the affine interpolant of the measured average gain through the centre
   probe and the low (eff below the centre) or high (eff above) probe takes the value eff *)
Theorem C04_secant_consistent : forall eff xc gc xl gl xh gh : R,
  let x3 := secant_stepR eff xc gc xl gl xh gh in
  (Rabs (eff - gc) <= 1 / 100000000000 -> x3 = xc) /\
  (1 / 100000000000 < Rabs (eff - gc) -> eff < gc -> gl <> gc -> xl <> xc ->
     gc + (gl - gc) / (xl - xc) * (x3 - xc) = eff) /\
  (1 / 100000000000 < Rabs (eff - gc) -> gc <= eff -> gc <> gh -> xc <> xh ->
     gc + (gc - gh) / (xc - xh) * (x3 - xc) = eff).
Proof. exact secant_consistent. Qed.
Print Assumptions C04_secant_consistent.

Theorem C04_gain_profile_dgt_branch : forall (a : ampR) freqs pin dgt ripple (pin_db eff : R),
  (2 <= length dgt)%nat ->
  5 / 100 < Rabs (@deltax_of NumR (g1st_of a freqs dgt ripple)) ->
  let g1st := g1st_of a freqs dgt ripple in
  let base := @normalise NumR g1st eff in
  let gavg := fun x : R => @gavg_of NumR pin (@tilt_by NumR base dgt x) pin_db in
  let xc := eff - @gavg_of NumR pin base pin_db in
  let dx := @deltax_of NumR g1st in
  gain_profile a freqs pin dgt ripple pin_db eff =
  @tilt_by NumR base dgt (secant_stepR eff xc (gavg xc) (xc - dx) (gavg (xc - dx)) (xc + dx) (gavg (xc + dx))).
Proof. exact gain_profile_dgt_branch. Qed.
Print Assumptions C04_gain_profile_dgt_branch.

(* ---- the other NF models: what the code computes, and the evident facts *)
Theorem C04_nf_fixed : forall (nf0 gmin gmax g pin nch sw : R),
  fst (nf_stageR (@mkStage NumR (@NFFixed NumR nf0) gmin gmax) g pin nch sw) = Some (nf0 + Rmax (gmin - g) 0).
Proof. exact nf_fixed. Qed.
Print Assumptions C04_nf_fixed.

Theorem C04_nf_fixed_const : forall (nf0 gmin gmax g pin nch sw : R), gmin <= g ->
  fst (nf_stageR (@mkStage NumR (@NFFixed NumR nf0) gmin gmax) g pin nch sw) = Some nf0.
Proof. exact nf_fixed_const. Qed.
Print Assumptions C04_nf_fixed_const.

Theorem C04_nf_openroadm : forall (coef : list R) (gmin gmax g pin nch sw : R),
  fst (nf_stageR (@mkStage NumR (@NFOpenroadm NumR coef) gmin gmax) g pin nch sw) =
  Some (pin50 pin nch sw - polyvalR coef (pin50 pin nch sw) + 58 + Rmax (gmin - g) 0).
Proof. exact nf_openroadm. Qed.
Print Assumptions C04_nf_openroadm.

Theorem C04_polyval4 : forall a b c d x : R, polyvalR [a; b; c; d] x = a * x ^ 3 + b * x ^ 2 + c * x + d.
Proof. exact polyval4. Qed.
Print Assumptions C04_polyval4.

Theorem C04_nf_openroadm_preamp : forall (gmin gmax g pin nch sw : R),
  fst (nf_stageR (@mkStage NumR (@NFOpenroadmPreamp NumR) gmin gmax) g pin nch sw) =
  Some (pin50 pin nch sw - Rmin ((4 * pin50 pin nch sw + 275) / 7) 33 + 58 + Rmax (gmin - g) 0).
Proof. exact nf_openroadm_preamp. Qed.
Print Assumptions C04_nf_openroadm_preamp.

Theorem C04_nf_openroadm_booster : forall (gmin gmax g pin nch sw : R) (c : chR),
  fst (nf_stageR (@mkStage NumR (@NFOpenroadmBooster NumR) gmin gmax) g pin nch sw) = None /\
  @ase_in NumR c None = 0.
Proof. exact nf_openroadm_booster. Qed.
Print Assumptions C04_nf_openroadm_booster.

Theorem C04_nf_advanced : forall (fit : list R) (gmin gmax g pin nch sw : R),
  fst (nf_stageR (@mkStage NumR (@NFAdvanced NumR fit) gmin gmax) g pin nch sw) =
  Some (polyvalR fit (- Rmax (gmax - (g + Rmax (gmin - g) 0)) 0) + Rmax (gmin - g) 0).
Proof. exact nf_advanced. Qed.
Print Assumptions C04_nf_advanced.

(* dual stage = Friis cascade: preamp at its maximum flat gain g1, booster at eff - g1 *)
Theorem C04_nf_dual_friis : forall (pre boost : @stage NumR) (eff pin nch sw : R),
  let g1 := st_gain_flatmax pre in
  let n1 := fst (nf_stageR pre g1 pin nch sw) in
  let n2 := fst (nf_stageR boost (eff - g1) pin nch sw) in
  calc_nf_avgR (@Dual NumR pre boost) eff pin nch sw = Some (lin2dbR (odb2linR n1 + odb2linR n2 / db2linR g1)).
Proof. exact nf_dual_friis. Qed.
Print Assumptions C04_nf_dual_friis.

Theorem C04_nf_dual_ge_preamp : forall (pre boost : @stage NumR) (eff pin nch sw n1 : R),
  fst (nf_stageR pre (st_gain_flatmax pre) pin nch sw) = Some n1 ->
  exists nf, calc_nf_avgR (@Dual NumR pre boost) eff pin nch sw = Some nf /\ n1 <= nf.
Proof. exact nf_dual_ge_preamp. Qed.
Print Assumptions C04_nf_dual_ge_preamp.

Theorem C04_nf_dual_antitone : forall (pre : @stage NumR) (nf1 nf2 dp bmin bmax eff eff' pin nch sw n1 : R),
  fst (nf_stageR pre (st_gain_flatmax pre) pin nch sw) = Some n1 ->
  bmin <= eff - st_gain_flatmax pre -> eff <= eff' ->
  exists a b,
    calc_nf_avgR (@Dual NumR pre (@mkStage NumR (@NFVariable NumR nf1 nf2 dp) bmin bmax)) eff pin nch sw = Some a /\
    calc_nf_avgR (@Dual NumR pre (@mkStage NumR (@NFVariable NumR nf1 nf2 dp) bmin bmax)) eff' pin nch sw = Some b /\
    b <= a.
Proof. exact nf_dual_antitone. Qed.
Print Assumptions C04_nf_dual_antitone.

(* ---- second tie (translator): the fragments below are re-translated from /repo's source on every run
        (harness/pygen_c04.py -> Gen/AmpGen.v) and proved equal to the hand-written model, for every number structure N
        (NumR of the theorems above, NumF of the correspondence run) ---- *)
(* Edfa._nf: padding, gain decrease, every NF model branch (variable_gain two-coil formula, fixed_gain, the OpenROADM
   masks, the noiseless booster, the advanced_model polynomial argument) *)
Theorem C04_source_nf : forall (N : Num) (s : @stage N) g pin nch sw, g_nf s g pin nch sw = nf_stage s g pin nch sw.
Proof. exact @gen_nf. Qed.
Print Assumptions C04_source_nf.
(* Edfa._calc_nf: gains handed to the stages of a dual stage and the cascade formula; the ripple added per channel *)
Theorem C04_source_calc_nf : forall (N : Num) (k : @amp_kind N) eff pin nch sw,
  g_calc_nf_avg k eff pin nch sw = calc_nf_avg k eff pin nch sw.
Proof. exact @gen_calc_nf_avg. Qed.
Print Assumptions C04_source_calc_nf.
Theorem C04_source_edfa_nf : forall (N : Num) (a : @amp N) chs,
  edfa_nf a chs =
  map (fun r => g_nf_channel r (g_calc_nf_avg (a_kind a) (edfa_eff a chs) (edfa_pin_db chs) (nlen (map k_pch chs)) (edfa_slot_width chs)))
      (grid_interp a (a_nf_ripple a) chs).
Proof. exact @gen_edfa_nf. Qed.
Print Assumptions C04_source_edfa_nf.
(* Edfa.interpol_params: total input power and the saturation clamp *)
Theorem C04_source_clamp : forall (N : Num) (a : @amp N) chs,
  edfa_eff a chs = g_eff_gain (a_gain_target a) (a_p_max a) (g_pin_db (nsum (map k_pch chs))) /\
  edfa_pin_db chs = g_pin_db (nsum (map k_pch chs)).
Proof. exact @gen_clamp. Qed.
Print Assumptions C04_source_clamp.
Theorem C04_source_slot_width : forall (c0 : @ch NumR) (t : list (@ch NumR)),
  edfa_slot_width (c0 :: t) =
  g_slot_width (@nlen NumR (map k_pch (c0 :: t))) (k_f c0) (match t with c1 :: _ => k_f c1 | [] => k_f c0 end) (k_sw c0).
Proof. exact gen_slot_width. Qed.
Print Assumptions C04_source_slot_width.
(* Edfa.noise_profile and the gain applied by Edfa.propagate *)
Theorem C04_source_ase : forall (N : Num) (c : @ch N) nf, g_ase_in c nf = ase_in c nf.
Proof. exact @gen_ase_in. Qed.
Print Assumptions C04_source_ase.
Theorem C04_source_channel : forall (N : Num) ov (c : @ch N) nf g,
  amp_ch ov c nf g = scale_ch (db2lin (g_channel_gain_db g ov)) (add_ase_ch (g_ase_in c nf) c).
Proof. exact @gen_amp_ch. Qed.
Print Assumptions C04_source_channel.
(* info.is_in_band on (frequency, slot_width) as handed over by demuxed_spectral_information *)
Theorem C04_source_in_band : forall (N : Num) fmin fmax (c : @ch N), g_in_band fmin fmax c = in_band fmin fmax c.
Proof. exact @gen_in_band. Qed.
Print Assumptions C04_source_in_band.
(* Edfa._gain_profile: first estimate, normalisation, flatness test, probes and the secant step *)
Theorem C04_source_gain_profile : forall (N : Num) (a : @amp N) freqs pin d0 d1 dt ripple pin_db eff,
  let dgt := d0 :: d1 :: dt in
  let g1st := g1st_of a freqs dgt ripple in
  let base := normalise g1st eff in
  let gavg := fun x => g_gavg (g_pout_db pin (tilt_by base dgt x)) pin_db in
  let dgts2 := g_dgts2 eff (g_pout_db pin base) pin_db in
  let dx := deltax_of g1st in
  gain_profile a freqs pin dgt ripple pin_db eff =
  if g_flat dx then base
  else tilt_by base dgt (g_secant eff dgts2 (gavg dgts2) (g_xlow dgts2 dx) (gavg (g_xlow dgts2 dx))
                                  (g_xhigh dgts2 dx) (gavg (g_xhigh dgts2 dx))).
Proof. exact @gen_gain_profile. Qed.
Print Assumptions C04_source_gain_profile.
Theorem C04_source_gain_profile_pieces : forall (N : Num) (a : @amp N) freqs dgt ripple (g1st : list (NT N)) eff x,
  g1st_of a freqs dgt ripple =
    map2 (g_g1st_elem (a_gain_flatmax a) (g_dgts1 (g_targ_slope (a_tilt_target a) (a_f_min a) (a_f_max a)) (ols_slope freqs dgt))) ripple dgt /\
  normalise g1st eff = map (fun g => nsub g (g_voa g1st eff)) g1st /\
  tilt_by (normalise g1st eff) dgt x = map2 (g_tilted_elem (g_voa g1st eff) x) g1st dgt.
Proof. exact @gen_profile_pieces. Qed.
Print Assumptions C04_source_gain_profile_pieces.
Theorem C04_source_secant : forall (N : Num) (eff xc gc xl gl xh gh : NT N),
  g_secant eff xc gc xl gl xh gh = secant_step eff xc gc xl gl xh gh.
Proof. exact @gen_secant. Qed.
Print Assumptions C04_source_secant.
(* json_io._update_dual_stage: p_max of the output stage, added flat gains, the gain_min test *)
Theorem C04_source_dual_stage : forall (N : Num) (a b : NT N),
  g_dual_p_max a b = dual_p_max a b /\ g_dual_gain_flatmax a b = dual_gain_flatmax a b /\ g_dual_rejected a b = dual_rejected a b.
Proof. exact @gen_dual. Qed.
Print Assumptions C04_source_dual_stage.
(* science_utils.estimate_nf_model, whole function: same triple or an error in both *)
Theorem C04_source_estimate_nf_model : forall (N : Num) (gmin gmax nfmin nfmax : NT N),
  res_agree (g_estimate_nf_model gmin gmax nfmin nfmax) (estimate_nf_model gmin gmax nfmin nfmax).
Proof. exact @gen_estimate. Qed.
Print Assumptions C04_source_estimate_nf_model.

(* ---- non-vacuity *)
(* the clamp bites on a concrete saturated case and is idle on an unsaturated one *)
Example ex_clamp : (eff_gain_q 20 21 3 == 18)%Q /\ (eff_gain_q 20 21 3 < 20)%Q /\ (eff_gain_q 20 21 (-5) == 20)%Q.
Proof. repeat split; reflexivity. Qed.

(* hypotheses of nf_antitone / nf_pad are plainly satisfiable; those of the datasheet theorems: the solve is well
   defined for the shipped std_medium_gain figures (15..26 dB, NF 6..10 dB): the unclipped condition holds iff the code
   takes that branch, which the correspondence run observes (nf1 = 5.45.., nf2 = 7.40..) *)
Example ex_pad : nf_variableR 5 7 5 15 26 13 = nf_variableR 5 7 5 15 26 15 + 2.
Proof. rewrite (nf_pad 5 7 5 15 26 13) by lra. f_equal. lra. Qed.

(* secant step on concrete probes: eff = 20 below the centre probe 20.4, low probe (x = -1) measures 19.9 *)
Example ex_secant : 20.4 + (19.9 - 20.4) / (-1 - 0) * (secant_stepR 20 0 20.4 (-1) 19.9 1 20.8 - 0) = 20.
Proof.
  destruct (secant_consistent 20 0 20.4 (-1) 19.9 1 20.8) as (_ & H & _). apply H.
  - rewrite Rabs_left by lra. lra.
  - lra.
  - lra.
  - lra.
Qed.

(* a dual stage built from a fixed-gain preamp (nf0 = 5.5 at any gain) is at least as noisy as the preamp *)
Example ex_dual : exists nf,
  calc_nf_avgR (@Dual NumR (@mkStage NumR (@NFFixed NumR 5.5) 12 12) (@mkStage NumR (@NFFixed NumR 6) 8 16)) 25 0 1 1 = Some nf
  /\ 5.5 <= nf.
Proof.
  apply nf_dual_ge_preamp. cbn [st_gain_flatmax]. rewrite nf_fixed_const by lra. reflexivity.
Qed.
