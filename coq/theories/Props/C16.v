(* C16 — Each request's result is independent of the other requests in the batch.
   Property theorems only; the proofs are in Proofs/Batch.v, the model in Model/Batch.v (line elements with state:
   Model/Verdict.v section 5).

   Vocabulary:
     network               designed state of every element (an Edfa carries its current effective gain)
     request               id, route, the loads it propagates one after the other on ITS copy of the path, threshold
     evaluate n rq         route, receiver figures of every propagation, verdict, propagated copy
     planning assign n ss rqs        planning(): every request on a copy of the designed elements; `assign` is the spectrum
                           assignment fold (arbitrary: state ss, one answer per request) — returns (network, ss, results)
     planning_nocopy       the same pipeline propagating on the network's own elements
     obs_ok                validator applied to what the harness observed on gnpy (batch, every request alone,
                           permutations; network digests before / after) *)
From Coq Require Import QArith Permutation.
From Verif Require Import Prelude Model.Verdict Model.Batch Proofs.Verdict Proofs.Batch Gen.BatchGen Proofs.BatchGen.
From Verif Require Model.Spectrum Proofs.SpectrumBase Proofs.Spectrum3 Proofs.Spectrum5 Proofs.Spectrum6 Proofs.BatchSpectrum.
Open Scope Z_scope.

(* The (route, figures, verdict, propagated copy) of the request at ANY position of ANY batch, under any spectrum
   policy and spectrum state, is the one obtained when the request is computed alone (under any other policy / state);
   the designed network after planning is the one before. *)
Theorem batch_indep : forall SS A (assign : SS -> request -> bool -> SS * A) SS' A' (assign' : SS' -> request -> bool -> SS' * A')
    n ss ss' rqs i rq,
  nth_error rqs i = Some rq ->
  fst (fst (planning assign n ss rqs)) = n /\
  exists res a a' s', nth_error (snd (planning assign n ss rqs)) i = Some (res, a) /\
                      planning assign' n ss' [rq] = (n, s', [(res, a')]).
Proof. exact Proofs.Batch.batch_indep. Qed.
Print Assumptions batch_indep.

Theorem batch_results_pointwise : forall SS A (assign : SS -> request -> bool -> SS * A) rqs n ss,
  map fst (snd (planning assign n ss rqs)) = map (fun rq => fst (evaluate n rq)) rqs.
Proof. exact Proofs.Batch.planning_results. Qed.
Print Assumptions batch_results_pointwise.

(* every ordering of the batch: the non-spectrum results are permuted accordingly, the network is the same *)
Theorem batch_perm : forall SS A (assign : SS -> request -> bool -> SS * A) n ss1 ss2 rqs rqs',
  Permutation rqs rqs' ->
  Permutation (map fst (snd (planning assign n ss1 rqs))) (map fst (snd (planning assign n ss2 rqs'))) /\
  fst (fst (planning assign n ss1 rqs)) = fst (fst (planning assign n ss2 rqs')).
Proof. exact Proofs.Batch.batch_perm. Qed.
Print Assumptions batch_perm.

(* what the copy buys.  Full statement (false):
     forall assign n ss rqs, map fst (snd (planning_nocopy assign n ss rqs)) = map (fun rq => fst (evaluate n rq)) rqs
   Without the per-request copy a saturating request changes the result of a later one and the designed network. *)
Theorem copy_needed_refuted : exists n hot cold,
  map (fun x => r_ok (fst x)) (snd (planning_nocopy next_slot n 0 [hot; cold])) = [true; false] /\
  map (fun x => r_ok (fst x)) (snd (planning_nocopy next_slot n 0 [cold; hot])) = [true; true] /\
  map (fun x => r_ok (fst x)) (snd (planning next_slot n 0 [hot; cold])) = [true; true] /\
  fst (fst (planning_nocopy next_slot n 0 [hot; cold])) <> n /\
  map fst (snd (planning_nocopy next_slot n 0 [hot; cold])) <>
    map fst (snd (planning_nocopy next_slot n 0 [hot])) ++ map fst (snd (planning_nocopy next_slot n 0 [cold])).
Proof.
  exists w_net, w_hot, w_cold.
  destruct w_copy_needed_verdict as [A [B C]]. destruct w_with_copy as [D _].
  split; [exact A|]. split; [exact B|]. split; [exact D|]. split; [exact C | exact w_copy_needed].
Qed.
Print Assumptions copy_needed_refuted.

(* ... and is harmless exactly in the region where no propagation changes an element (no amplifier saturates) *)
Theorem nocopy_same_without_saturation : forall SS A (assign : SS -> request -> bool -> SS * A) rqs n ss,
  (forall rq, In rq rqs -> put_path n (r_route (fst (evaluate n rq))) (snd (evaluate n rq)) = n) ->
  planning_nocopy assign n ss rqs = planning assign n ss rqs.
Proof. exact Proofs.Batch.nocopy_same_if_stable. Qed.
Print Assumptions nocopy_same_without_saturation.

(* inside one request the propagations share the copy but each starts from the designed gains (C13): their figures are
   those of fresh propagations and the copy ends in the state of the last one *)
Theorem request_internal_fresh : forall d ls p, same_shape d p ->
  snd (run_loads d p ls) = fresh_runs d ls /\
  fst (run_loads d p ls) = match List.last (map Some ls) None with Some l => fst (run_load d l) | None => p end.
Proof. exact Proofs.Batch.run_loads_fresh. Qed.
Print Assumptions request_internal_fresh.

(* ---- "only the spectrum slots depend on what was assigned earlier" ---- *)
(* the spectrum fold of planning(), instantiated with the C14 model (Model/Spectrum.v), IS the request history of C14:
   the N/M answers of a batch are the outcomes of Spectrum.run on the spectrum requests of the batch, in order, and the
   non-spectrum results / the network are what batch_indep says.  Hence every C14 theorem (C14_request, C14_history,
   C14_no_double_booking, first fit ...) speaks about planning(). *)
Theorem planning_spectrum_is_C14_history : forall pol sreq n rqs st0 st' outs,
  Model.Spectrum.run pol st0 (sreqs_of sreq n rqs) = Ok (st', outs) ->
  planning (spectrum_assign pol sreq) n (Ok st0) rqs =
  (n, Ok st', combine (map (fun rq => fst (evaluate n rq)) rqs) (map (@Ok Model.Spectrum.outcome) outs)).
Proof. exact Proofs.BatchSpectrum.planning_spectrum_run. Qed.
Print Assumptions planning_spectrum_is_C14_history.

(* what a request gets only looks at the bitmaps of the OMS it crosses ... *)
Theorem spectrum_outcome_is_local : forall d p st1 st2 rq,
  Spectrum3.WFst d st1 -> Spectrum3.WFst d st2 ->
  Spectrum3.valid_ids st1 (Model.Spectrum.path_oms rq) -> Spectrum3.valid_ids st2 (Model.Spectrum.path_oms rq) ->
  Model.Spectrum.path_oms rq <> [] -> 0 < Spectrum5.rq_pcm rq -> Forall Spectrum6.slot_pos (Model.Spectrum.slots rq) ->
  BatchSpectrum.same_bitmaps st1 st2 (Model.Spectrum.path_oms rq) ->
  exists s1 s2 o, Model.Spectrum.pth_assign_one p st1 rq = Ok (s1, o) /\ Model.Spectrum.pth_assign_one p st2 rq = Ok (s2, o).
Proof. exact Proofs.BatchSpectrum.outcome_local. Qed.
Print Assumptions spectrum_outcome_is_local.

(* ... and those bitmaps are the initial ones plus exactly the ACCEPTED assignments on them (C14_history).  So: after two
   different histories A and B on the same initial spectrum state (other requests, other orders, blocked or failing
   requests included) that booked the same slots on the OMS of the request's path, the request gets the same N/M (or the
   same blocking reason) — whatever happened on the other OMS and whatever was blocked in between. *)
Theorem spectrum_depends_only_on_shared_bookings : forall d p st0 rqsA rqsB stA outsA stB outsB rq,
  Spectrum3.WFst d st0 -> Forall (Spectrum5.rq_ok st0) rqsA -> Forall (Spectrum5.rq_ok st0) rqsB ->
  Model.Spectrum.run p st0 rqsA = Ok (stA, outsA) -> Model.Spectrum.run p st0 rqsB = Ok (stB, outsB) ->
  Spectrum3.valid_ids st0 (Model.Spectrum.path_oms rq) -> Model.Spectrum.path_oms rq <> [] ->
  0 < Spectrum5.rq_pcm rq -> Forall Spectrum6.slot_pos (Model.Spectrum.slots rq) ->
  (forall i k, In i (Model.Spectrum.path_oms rq) ->
     Spectrum5.booked (Spectrum5.log_of rqsA outsA) i k = Spectrum5.booked (Spectrum5.log_of rqsB outsB) i k) ->
  exists sA sB o, Model.Spectrum.pth_assign_one p stA rq = Ok (sA, o) /\ Model.Spectrum.pth_assign_one p stB rq = Ok (sB, o).
Proof. exact Proofs.BatchSpectrum.spectrum_depends_only_on_shared_bookings. Qed.
Print Assumptions spectrum_depends_only_on_shared_bookings.

(* the amplifier state behind copy_needed_refuted, in dB (numerically compared with every Edfa of the batch runs): on
   shared objects each gain is the clamp of the previous one and never comes back up; with the copy every object starts
   from the designed gain (C13 amplifier_state_in_mode_loop / amplifier_state_when_shared) *)
Theorem shared_amplifier_keeps_its_clamp : forall g0 pmax pins,
  amp_history g0 pmax (shared_events pins) = running pmax g0 pins /\
  Sorted.StronglySorted (fun a b => (b <= a)%Q) (running pmax g0 pins).
Proof. intros. split; [apply Proofs.Verdict.shared_history | apply Proofs.Verdict.running_decreasing]. Qed.
Print Assumptions shared_amplifier_keeps_its_clamp.

(* ---- translator tie: what /repo's SOURCE does at the isolation points (Gen/BatchGen.v, regenerated from the source on
   every run by harness/pygen_c16.py) selects the pipeline these theorems are about ---- *)
(* compute_path_with_disjunction propagates both directions on per-request deep copies and appends exactly one result per
   request: the source-selected pipeline is `planning`, so the network is handed on unchanged and every result is the
   evaluation of the request alone *)
Theorem C16_source_pipeline_is_planning : forall SS A (assign : SS -> request -> bool -> SS * A) n ss rqs,
  planning_src g_copy_forward g_copy_reverse assign n ss rqs = planning assign n ss rqs /\
  fst (fst (planning_src g_copy_forward g_copy_reverse assign n ss rqs)) = n /\
  map fst (snd (planning_src g_copy_forward g_copy_reverse assign n ss rqs)) = map (fun rq => fst (evaluate n rq)) rqs.
Proof. intros. split; [apply gen_planning | apply source_batch_indep]. Qed.
Print Assumptions C16_source_pipeline_is_planning.
(* propagate_and_optimize_mode writes the designed gains back before every (baud, offset) propagation: inside a request
   the figures are those of fresh propagations *)
Theorem C16_source_mode_loop_restores : forall d ls p, same_shape d p ->
  run_loads_src g_restores_gains d p ls = run_loads d p ls /\
  snd (run_loads_src g_restores_gains d p ls) = fresh_runs d ls.
Proof. intros d ls p H. split; [apply gen_run_loads | now apply source_request_fresh]. Qed.
Print Assumptions C16_source_mode_loop_restores.
(* the attributes compare_reqs compares (two requests that differ in one of them are never aggregated) and the order of the
   steps of planning() *)
Theorem C16_source_aggregation_and_steps :
  g_compared_fields = aggregation_fields /\ g_pipeline = pipeline_steps.
Proof. split; [exact gen_compared_fields | exact gen_pipeline]. Qed.
Print Assumptions C16_source_aggregation_and_steps.
(* no route memo across requests, no store into the process-wide simulation parameters, one result per request, explicit
   routes built in a new list (the OMS objects of the network are only read) *)
Theorem C16_source_isolation : g_route_memo = false /\ g_writes_sim_params = false /\ g_results_per_request = 1 /\
  g_explicit_path_new_list = true.
Proof. exact gen_isolation. Qed.
Print Assumptions C16_source_isolation.
(* the selections are not vacuous: with another answer of the source the model's results do depend on what ran before *)
Example ex_other_selection_differs :
  map (fun x => r_ok (fst x)) (snd (planning_src false true next_slot w_net 0 [w_hot; w_cold])) <>
  map (fun x => r_ok (fst x)) (snd (planning_src true true next_slot w_net 0 [w_hot; w_cold])) /\
  snd (run_loads_src false w_path w_path [mkL 4 1 6; mkL 4 1 1]) <> snd (run_loads_src true w_path w_path [mkL 4 1 6; mkL 4 1 1]).
Proof. exact other_selection_differs. Qed.

(* the validator applied to observed behaviour decides its specification *)
Theorem obs_ok_iff : forall o, obs_ok o = true <-> ObsSpec o.
Proof. exact Proofs.Batch.obs_ok_iff. Qed.
Print Assumptions obs_ok_iff.

(* ---- non-vacuity ---- *)
(* only the spectrum answer depends on the order: with the copy both orders accept both requests with the same
   figures, and each request gets the slot of its position *)
Example ex_only_spectrum_depends_on_order :
  map snd (snd (planning next_slot w_net 0 [w_hot; w_cold])) = [Some 0; Some 1] /\
  map snd (snd (planning next_slot w_net 0 [w_cold; w_hot])) = [Some 0; Some 1] /\
  map (fun x => r_id (fst x)) (snd (planning next_slot w_net 0 [w_cold; w_hot])) = [2; 1] /\
  Permutation (map fst (snd (planning next_slot w_net 0 [w_hot; w_cold]))) (map fst (snd (planning next_slot w_net 0 [w_cold; w_hot]))).
Proof.
  destruct w_with_copy as [_ [A B]]. split; [exact A|]. split; [exact B|]. split; [vm_compute; reflexivity|].
  apply (proj1 (batch_perm _ _ next_slot w_net 0 0 [w_hot; w_cold] [w_cold; w_hot] (perm_swap _ _ _))).
Qed.
(* the saturating request really clamps: evaluated on the designed network it returns a copy whose amplifiers differ *)
Example ex_hot_clamps :
  r_path (fst (evaluate w_net w_hot)) <> get_path w_net w_route /\
  r_path (fst (evaluate w_net w_cold)) = get_path w_net w_route.
Proof. split; [vm_compute; discriminate | vm_compute; reflexivity]. Qed.
Example ex_validator :
  obs_ok (mkObs 7 [(1, mkSig [1; 2] 0 0 [25000000; 31000000]); (2, mkSig [2; 1] (-1) 3 [])]
                [mkRun 7 7 [(2, mkSig [2; 1] (-1) 3 []); (1, mkSig [1; 2] 0 0 [25000001; 31000000])]]) = true /\
  obs_ok (mkObs 7 [(1, mkSig [1; 2] 0 0 [25000000])] [mkRun 7 7 [(1, mkSig [1; 2] 0 0 [25000002])]]) = false /\
  obs_ok (mkObs 7 [(1, mkSig [1; 2] 0 0 [25000000])] [mkRun 7 8 [(1, mkSig [1; 2] 0 0 [25000000])]]) = false.
Proof. repeat split; vm_compute; reflexivity. Qed.

(* the spectrum fold on a two-OMS spectrum state: request 3 (OMS 0) gets the same slot after the history [request on OMS 1]
   as after the empty history, and another one after a request accepted on OMS 0 *)
Definition ex_sb : Model.Spectrum.bitmap := Model.Spectrum.mkB (-8) 8 (-6) 6 2 (zrange (-8) 9) (repeat Model.Spectrum.SF 17).
Definition ex_sst : Model.Spectrum.state := [Model.Spectrum.mkO ex_sb 0 []; Model.Spectrum.mkO ex_sb 0 []].
Definition ex_sr (id : Z) (oms : Z) : Model.Spectrum.request :=
  Model.Spectrum.mkR id false 100 25000000000 100 [(None, None)] [oms].
Example ex_spectrum_locality :
  (exists s, Model.Spectrum.run Model.Spectrum.FirstFit ex_sst [ex_sr 2 1; ex_sr 3 0] =
             Ok (s, [Model.Spectrum.Accepted [-4] [2]; Model.Spectrum.Accepted [-4] [2]])) /\
  (exists s, Model.Spectrum.run Model.Spectrum.FirstFit ex_sst [ex_sr 3 0] = Ok (s, [Model.Spectrum.Accepted [-4] [2]])) /\
  (exists s, Model.Spectrum.run Model.Spectrum.FirstFit ex_sst [ex_sr 1 0; ex_sr 3 0] =
             Ok (s, [Model.Spectrum.Accepted [-4] [2]; Model.Spectrum.Accepted [0] [2]])).
Proof. split; [eexists; vm_compute; reflexivity|]. split; eexists; vm_compute; reflexivity. Qed.
(* planning() with the C14 fold on the witness network: both requests feasible, slots in batch order *)
Definition ex_sreq (rq : request) (ok : bool) : Model.Spectrum.request :=
  Model.Spectrum.mkR (q_id rq) (negb ok) 100 25000000000 100 [(None, None)] [0].
Example ex_planning_with_C14_fold :
  map snd (snd (planning (spectrum_assign Model.Spectrum.FirstFit ex_sreq) w_net (Ok ex_sst) [w_hot; w_cold])) =
    [Ok (Model.Spectrum.Accepted [-4] [2]); Ok (Model.Spectrum.Accepted [0] [2])] /\
  map snd (snd (planning (spectrum_assign Model.Spectrum.FirstFit ex_sreq) w_net (Ok ex_sst) [w_cold; w_hot])) =
    [Ok (Model.Spectrum.Accepted [-4] [2]); Ok (Model.Spectrum.Accepted [0] [2])] /\
  map (fun x => r_id (fst x)) (snd (planning (spectrum_assign Model.Spectrum.FirstFit ex_sreq) w_net (Ok ex_sst) [w_cold; w_hot])) = [2; 1].
Proof. split; [vm_compute; reflexivity|]. split; vm_compute; reflexivity. Qed.
