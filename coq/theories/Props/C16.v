(* C16 — Each request's result is independent of the other requests in the batch.
   Property theorems only; the proofs are in Proofs/Batch.v, the model in Model/Batch.v (line elements with state:
   Model/Verdict.v section 5).

   Vocabulary:
     network               designed state of every element (an Edfa carries its current effective gain)
     request               id, route, the loads it propagates one after the other on ITS copy of the path, threshold
     evaluate n rq         route, receiver figures of every propagation, verdict, propagated copy
     planning assign n ss rqs        planning(): every request on a copy of the designed elements; `assign` is the spectrum
                           assignment fold (arbitrary: state ss, one answer per request) — returns (network, ss, results)
     planning_nocopy       the same pipeline propagating on the network's own elements
     obs_ok                validator applied to what the harness observed on gnpy (batch, every request alone,
                           permutations; network digests before / after) *)
From Coq Require Import QArith Permutation.
From Verif Require Import Prelude Model.Verdict Model.Batch Proofs.Verdict Proofs.Batch.
Open Scope Z_scope.

(* The (route, figures, verdict, propagated copy) of the request at ANY position of ANY batch, under any spectrum
   policy and spectrum state, is the one obtained when the request is computed alone (under any other policy / state);
   the designed network after planning is the one before. *)
Theorem batch_indep : forall SS A (assign : SS -> request -> bool -> SS * A) SS' A' (assign' : SS' -> request -> bool -> SS' * A')
    n ss ss' rqs i rq,
  nth_error rqs i = Some rq ->
  fst (fst (planning assign n ss rqs)) = n /\
  exists res a a' s', nth_error (snd (planning assign n ss rqs)) i = Some (res, a) /\
                      planning assign' n ss' [rq] = (n, s', [(res, a')]).
Proof. exact Proofs.Batch.batch_indep. Qed.
Print Assumptions batch_indep.

Theorem batch_results_pointwise : forall SS A (assign : SS -> request -> bool -> SS * A) rqs n ss,
  map fst (snd (planning assign n ss rqs)) = map (fun rq => fst (evaluate n rq)) rqs.
Proof. exact Proofs.Batch.planning_results. Qed.
Print Assumptions batch_results_pointwise.

(* every ordering of the batch: the non-spectrum results are permuted accordingly, the network is the same *)
Theorem batch_perm : forall SS A (assign : SS -> request -> bool -> SS * A) n ss1 ss2 rqs rqs',
  Permutation rqs rqs' ->
  Permutation (map fst (snd (planning assign n ss1 rqs))) (map fst (snd (planning assign n ss2 rqs'))) /\
  fst (fst (planning assign n ss1 rqs)) = fst (fst (planning assign n ss2 rqs')).
Proof. exact Proofs.Batch.batch_perm. Qed.
Print Assumptions batch_perm.

(* what the copy buys.  Full statement (false):
     forall assign n ss rqs, map fst (snd (planning_nocopy assign n ss rqs)) = map (fun rq => fst (evaluate n rq)) rqs
   Without the per-request copy a saturating request changes the result of a later one and the designed network. *)
Theorem copy_needed_refuted : exists n hot cold,
  map (fun x => r_ok (fst x)) (snd (planning_nocopy next_slot n 0 [hot; cold])) = [true; false] /\
  map (fun x => r_ok (fst x)) (snd (planning_nocopy next_slot n 0 [cold; hot])) = [true; true] /\
  map (fun x => r_ok (fst x)) (snd (planning next_slot n 0 [hot; cold])) = [true; true] /\
  fst (fst (planning_nocopy next_slot n 0 [hot; cold])) <> n /\
  map fst (snd (planning_nocopy next_slot n 0 [hot; cold])) <>
    map fst (snd (planning_nocopy next_slot n 0 [hot])) ++ map fst (snd (planning_nocopy next_slot n 0 [cold])).
Proof.
  exists w_net, w_hot, w_cold.
  destruct w_copy_needed_verdict as [A [B C]]. destruct w_with_copy as [D _].
  split; [exact A|]. split; [exact B|]. split; [exact D|]. split; [exact C | exact w_copy_needed].
Qed.
Print Assumptions copy_needed_refuted.

(* ... and is harmless exactly in the region where no propagation changes an element (no amplifier saturates) *)
Theorem nocopy_same_without_saturation : forall SS A (assign : SS -> request -> bool -> SS * A) rqs n ss,
  (forall rq, In rq rqs -> put_path n (r_route (fst (evaluate n rq))) (snd (evaluate n rq)) = n) ->
  planning_nocopy assign n ss rqs = planning assign n ss rqs.
Proof. exact Proofs.Batch.nocopy_same_if_stable. Qed.
Print Assumptions nocopy_same_without_saturation.

(* inside one request the propagations share the copy but each starts from the designed gains (C13): their figures are
   those of fresh propagations and the copy ends in the state of the last one *)
Theorem request_internal_fresh : forall d ls p, same_shape d p ->
  snd (run_loads d p ls) = fresh_runs d ls /\
  fst (run_loads d p ls) = match List.last (map Some ls) None with Some l => fst (run_load d l) | None => p end.
Proof. exact Proofs.Batch.run_loads_fresh. Qed.
Print Assumptions request_internal_fresh.

(* the validator applied to observed behaviour decides its specification *)
Theorem obs_ok_iff : forall o, obs_ok o = true <-> ObsSpec o.
Proof. exact Proofs.Batch.obs_ok_iff. Qed.
Print Assumptions obs_ok_iff.

(* ---- non-vacuity ---- *)
(* only the spectrum answer depends on the order: with the copy both orders accept both requests with the same
   figures, and each request gets the slot of its position *)
Example ex_only_spectrum_depends_on_order :
  map snd (snd (planning next_slot w_net 0 [w_hot; w_cold])) = [Some 0; Some 1] /\
  map snd (snd (planning next_slot w_net 0 [w_cold; w_hot])) = [Some 0; Some 1] /\
  map (fun x => r_id (fst x)) (snd (planning next_slot w_net 0 [w_cold; w_hot])) = [2; 1] /\
  Permutation (map fst (snd (planning next_slot w_net 0 [w_hot; w_cold]))) (map fst (snd (planning next_slot w_net 0 [w_cold; w_hot]))).
Proof.
  destruct w_with_copy as [_ [A B]]. split; [exact A|]. split; [exact B|]. split; [vm_compute; reflexivity|].
  apply (proj1 (batch_perm _ _ next_slot w_net 0 0 [w_hot; w_cold] [w_cold; w_hot] (perm_swap _ _ _))).
Qed.
(* the saturating request really clamps: evaluated on the designed network it returns a copy whose amplifiers differ *)
Example ex_hot_clamps :
  r_path (fst (evaluate w_net w_hot)) <> get_path w_net w_route /\
  r_path (fst (evaluate w_net w_cold)) = get_path w_net w_route.
Proof. split; [vm_compute; discriminate | vm_compute; reflexivity]. Qed.
Example ex_validator :
  obs_ok (mkObs 7 [(1, mkSig [1; 2] 0 0 [25000000; 31000000]); (2, mkSig [2; 1] (-1) 3 [])]
                [mkRun 7 7 [(2, mkSig [2; 1] (-1) 3 []); (1, mkSig [1; 2] 0 0 [25000001; 31000000])]]) = true /\
  obs_ok (mkObs 7 [(1, mkSig [1; 2] 0 0 [25000000])] [mkRun 7 7 [(1, mkSig [1; 2] 0 0 [25000002])]]) = false /\
  obs_ok (mkObs 7 [(1, mkSig [1; 2] 0 0 [25000000])] [mkRun 7 8 [(1, mkSig [1; 2] 0 0 [25000000])]]) = false.
Proof. repeat split; vm_compute; reflexivity. Qed.
