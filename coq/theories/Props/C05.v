(* C05 — Fibre spans apply exactly their loss budget and accumulate CD, PMD, PDL, latency.
   Property theorems about Model/Fiber.v (faithful to /repo as it is now).  Every theorem is stated in full
   here and closed by `exact` of a lemma of Proofs/Fiber.v (over Q, lists) or Proofs/FiberR.v (over R).

   Raman off: exact.  Raman on: PARTIAL by design — the theorems cover the Euler ('numerical') scheme in
   its zero-power limit (closed form, real limit, "each lumped loss once", discretisation bound) and
   first-order pump gain; agreement between the perturbative and numerical methods, perturbative orders
   2-4 and the iterative co/counter algorithm are compared numerically by harness/c05.py only (labelled
   as tests in the evidence). *)
From Coq Require Import QArith Qminmax Reals Permutation SetoidList Sorted Qreals Ranalysis1 Lra.
From Verif Require Import Prelude Model.Fiber Proofs.Fiber Proofs.FiberR.
(* no Import: Num's '#' notation would clash with Q's; names from these modules are written qualified *)
From Verif Require Num Model.Raman Proofs.Raman Gen.FiberGen Proofs.FiberGen.

(* ================================================================================================
   Raman off — loss budget *)
Open Scope Q_scope.

(* Every channel leaves the span attenuated by exactly
   att_in + con_in + length * loss_coef(f) + sum(lumped) + con_out — for every list of lumped losses
   (since fix d757514e losses declared at the same position accumulate; before it the statement needed
   pairwise distinct positions, defect F10). *)
Theorem fiber_budget : forall fib f p a,
  lumped_in_range fib = true ->
  loss_coef_at fib f = Ok a ->
  exists out, fiber_power_out fib f p = Ok out /\
    out == p - (f_att_in fib + f_con_in fib + len_m fib * a + qsum (map snd (f_lumped fib)) + f_con_out fib).
Proof. exact Proofs.Fiber.fiber_budget. Qed.
Print Assumptions fiber_budget.

(* _create_lumped_losses: the merged z / loss grid carries the total of ALL lumped losses (dB: sum,
   linear: product), for every position list (on-grid and repeated positions included), and is sorted *)
Theorem lumped_merge : forall zl z,
  qsum (map snd (merge_grid Qplus 0 zl z)) == qsum (map snd zl) /\
  qprod (map snd (merge_grid Qmult 1 zl z)) == qprod (map snd zl).
Proof. exact Proofs.Fiber.lumped_merge_both. Qed.
Print Assumptions lumped_merge.

Theorem lumped_merge_sorted : forall (op : Q -> Q -> Q) one zl z,
  StronglySorted (fun a b => fst a < fst b) (merge_grid op one zl z).
Proof. exact Proofs.Fiber.merge_grid_sorted. Qed.
Print Assumptions lumped_merge_sorted.

(* a per-frequency loss coefficient is a convex combination of the two enclosing table entries *)
Theorem interp_between : forall pts x v, interp_sorted pts x = Ok v ->
  exists x0 y0 x1 y1, In (x0, y0) pts /\ In (x1, y1) pts /\ x0 <= x /\ x <= x1 /\ x0 < x1 /\
    Qmin y0 y1 <= v /\ v <= Qmax y0 y1.
Proof. exact Proofs.Fiber.interp_sorted_between. Qed.
Print Assumptions interp_between.

(* Fiber.loss (used by the design) is the budget at the reference frequency *)
Theorem fiber_loss_is_budget : forall fib a, loss_coef_at fib (f_ref fib) = Ok a ->
  exists l, fiber_loss_prop fib = Ok l /\ l == loss_budget fib a.
Proof. exact Proofs.Fiber.fiber_loss_prop_budget. Qed.
Print Assumptions fiber_loss_is_budget.

(* ================================================================================================
   accumulation along a path: CD and latency add linearly, PMD^2 and PDL^2 add; order is irrelevant *)
Theorem path_cd_additive : forall pi els f a r, propagate_path pi els f a = Ok r ->
  exists cs, mapM (fun e => elem_contrib pi e f) els = Ok cs /\
    a_cd r == a_cd a + qsum (map d_cd cs) /\ a_lat r == a_lat a + qsum (map d_lat cs) /\
    a_pmd2 r == a_pmd2 a + qsum (map d_pmd2 cs) /\ a_pdl2 r == a_pdl2 a + qsum (map d_pdl2 cs).
Proof. exact Proofs.Fiber.path_totals. Qed.
Print Assumptions path_cd_additive.

Theorem path_latency_additive : forall pi els1 els2 f a r,
  propagate_path pi (els1 ++ els2) f a = Ok r <->
  exists r1, propagate_path pi els1 f a = Ok r1 /\ propagate_path pi els2 f r1 = Ok r.
Proof. exact Proofs.Fiber.path_additive. Qed.
Print Assumptions path_latency_additive.

Theorem path_cd_perm : forall pi els els' f a r, Permutation els els' ->
  propagate_path pi els f a = Ok r ->
  exists r', propagate_path pi els' f a = Ok r' /\
    a_cd r == a_cd r' /\ a_lat r == a_lat r' /\ a_pmd2 r == a_pmd2 r' /\ a_pdl2 r == a_pdl2 r'.
Proof. exact Proofs.Fiber.path_perm. Qed.
Print Assumptions path_cd_perm.

(* per-span CD of the code's formula: pi cancels; scalar dispersion gives D * L for every channel *)
Theorem cd_scalar : forall pi fib f d, f_disp fib = DispScalar d None ->
  ~ pi == 0 -> ~ f == 0 -> ~ f_ref fib == 0 ->
  exists v, chromatic_dispersion pi fib f = Ok v /\ v == d * len_m fib.
Proof. exact Proofs.Fiber.cd_scalar. Qed.
Print Assumptions cd_scalar.

Theorem cd_slope : forall pi fib f d s, f_disp fib = DispScalar d (Some s) ->
  ~ pi == 0 -> ~ f == 0 -> ~ f_ref fib == 0 ->
  exists v, chromatic_dispersion pi fib f = Ok v /\ v == cd_slope_closed fib d s f.
Proof. exact Proofs.Fiber.cd_slope. Qed.
Print Assumptions cd_slope.

(* the case runner shares beta3 between the channels of a fibre with a dispersion table: same result *)
Theorem run_sharing_sound : forall pi els f a,
  propagate_path_with pi els (map (elem_shared pi) els) f a = propagate_path pi els f a.
Proof. exact Proofs.Fiber.propagate_path_with_sound. Qed.
Print Assumptions run_sharing_sound.

Theorem cd_table_pi_indep : forall pi pi' fib f pts v, f_disp fib = DispPerFreq pts ->
  ~ pi == 0 -> ~ pi' == 0 ->
  chromatic_dispersion pi fib f = Ok v ->
  exists v', chromatic_dispersion pi' fib f = Ok v' /\ v == v'.
Proof. exact Proofs.Fiber.cd_table_pi_indep. Qed.
Print Assumptions cd_table_pi_indep.

(* ================================================================================================
   Raman on, Euler scheme: zero-power limit and "each lumped loss once" *)
Theorem euler_zero_power : forall alpha cr p0 grid g g',
  Forall (fun x => x == 0) p0 -> Forall2 Qeq g g' ->
  length alpha = length g -> length cr = length g ->
  Forall2 Qeq (euler_g alpha cr p0 grid g) (zipw (fun gj aj => gj * grid_factor aj grid) g' alpha).
Proof. exact Proofs.Fiber.euler_zero_power. Qed.
Print Assumptions euler_zero_power.

Theorem euler_g_is_loss_profile : forall alpha cr p0 grid p g,
  Forall2 Qeq p (zipw Qmult p0 g) ->
  Forall2 Qeq (euler alpha cr grid p) (zipw Qmult p0 (euler_g alpha cr p0 grid g)).
Proof. exact Proofs.Fiber.euler_g_correct. Qed.
Print Assumptions euler_g_is_loss_profile.

Theorem euler_factor_split : forall a grid,
  grid_factor a grid == step_prod a grid * qprod (map snd (removelast grid)).
Proof. exact Proofs.Fiber.grid_factor_split. Qed.
Print Assumptions euler_factor_split.

Theorem euler_lumped_once : forall zl z' L,
  (forall kv, In kv zl -> fst kv < L) -> (forall x, In x z' -> x <= L) ->
  qprod (map snd (removelast (merge_grid Qmult 1 zl (z' ++ [L])))) == qprod (map snd zl).
Proof. exact Proofs.Fiber.euler_lumped_once. Qed.
Print Assumptions euler_lumped_once.

(* ================================================================================================
   over R: quadrature accumulation (the sqrt form of the code) *)
Open Scope R_scope.

Theorem pmd_quadrature : forall l, fold_left (fun acc x => sqrt (acc * acc + x * x)) l 0 = sqrt (sum_sq l).
Proof. exact Proofs.FiberR.pmd_quadrature. Qed.
Print Assumptions pmd_quadrature.

Theorem pmd_quadrature_perm : forall l l' a, 0 <= a -> Permutation l l' ->
  fold_left (fun acc x => sqrt (acc * acc + x * x)) l a = fold_left (fun acc x => sqrt (acc * acc + x * x)) l' a.
Proof. exact Proofs.FiberR.quad_fold_perm. Qed.
Print Assumptions pmd_quadrature_perm.

(* the rational squared accumulator executed by the model is the square of the code's sqrt accumulator *)
Theorem pmd_sq_exec : forall (l : list Q) (a : Q), 0 <= Q2R a ->
  sqrt (Q2R (fold_left (fun s x => (s + x * x)%Q) l (a * a)%Q)) =
  fold_left (fun acc x => sqrt (acc * acc + x * x)) (map Q2R l) (Q2R a).
Proof. exact Proofs.FiberR.pmd_sq_exec. Qed.
Print Assumptions pmd_sq_exec.

Theorem fiber_pmd_sq : forall coef L, 0 <= L -> (coef * sqrt L) * (coef * sqrt L) = coef * coef * L.
Proof. exact Proofs.FiberR.fiber_pmd_sq. Qed.
Print Assumptions fiber_pmd_sq.

(* the zero-power Euler attenuation vs exp(-alpha L): ln prod_k (1 - alpha dz_k) + alpha sum_k dz_k lies in
   [-2 sum_k (alpha dz_k)^2, 0] when every alpha dz_k <= 1/2 (the tolerance used by the low-power test) *)
Theorem euler_discretisation_bound : forall a grid,
  Forall (fun dz => 0 <= Q2R a * Q2R dz <= 1 / 2) (grid_dzs grid) ->
  let xs := map (fun dz => Q2R a * Q2R dz) (grid_dzs grid) in
  - 2 * rsum (map (fun x => x * x) xs) <= ln (Q2R (step_prod a grid)) + rsum xs <= 0.
Proof. exact Proofs.FiberR.euler_discretisation_bound. Qed.
Print Assumptions euler_discretisation_bound.

(* the LIMIT: eulerF is the Euler recurrence over R with the input powers scaled by t (one function of t per
   channel); as t -> 0 the loss profile of every channel tends to g_j * prod_k (1 - alpha_j dz_k) * lumped_k *)
Theorem euler_zero_power_limit : forall alpha cr p0 grid (g : list R) j,
  length alpha = length g -> length cr = length g ->
  let Gs := eulerF alpha cr p0 grid (map (fun x => fun _ : R => x) g) in
  forall eps, 0 < eps -> exists delta, 0 < delta /\
    forall t, Rabs t < delta ->
      Rabs (nth j Gs (fun _ => 0) t - nth j (closedR grid g alpha cr) 0) < eps.
Proof. exact Proofs.FiberR.euler_zero_power_limit. Qed.
Print Assumptions euler_zero_power_limit.

(* ... and eulerF evaluated at a rational scaling factor is the rational model euler_g read in R *)
Theorem euler_model_is_real_scheme : forall alpha cr p0 tq grid g Gs, evalF (Q2R tq) Gs = map Q2R g ->
  evalF (Q2R tq) (eulerF (map Q2R alpha) (map (map Q2R) cr) (map Q2R p0) (gridR grid) Gs) =
  map Q2R (euler_g alpha cr (map (Qmult tq) p0) grid g).
Proof. exact Proofs.FiberR.euler_g_R. Qed.
Print Assumptions euler_model_is_real_scheme.

(* perturbative solver, first order: pumps with non-negative Raman efficiency only add gain *)
Theorem pump_gain_nonneg : forall base z ps, 0 <= z ->
  Forall (fun p => let '(cr, pw, al) := p in 0 <= cr /\ 0 <= pw /\ 0 < al) ps ->
  exp base <= exp (base + pumps_gain z ps).
Proof. exact Proofs.FiberR.pump_gain_nonneg_order1. Qed.
Print Assumptions pump_gain_nonneg.

(* ================================================================================================
   Raman on — perturbative solver (Model/Raman.v at NumR; the NumF instance of the same terms is what the
   correspondence run executes against RamanSolver, orders 0-4) *)
Open Scope R_scope.
Notation pertR := (@Raman.pert_profile Num.NumR).

(* order 1, low power: the exponent applied to wave j over a distance z differs from -alpha_j z by at most
   max|cr| * (total launch power) * z *)
Theorem pert1_low_power : forall C z alpha cr p0, 0 <= C -> 0 <= z ->
  Forall (fun a => 0 < a) alpha -> Forall (Forall (fun c => Rabs c <= C)) cr ->
  forall j x a, nth_error (Proofs.Raman.exponent1 alpha cr p0 z) j = Some x -> nth_error alpha j = Some a ->
  Rabs (x + a * z) <= C * Proofs.Raman.sumabs p0 * z.
Proof. exact Proofs.Raman.pert1_low_power. Qed.
Print Assumptions pert1_low_power.

(* exponent1 is what the order-1 solver applies at a grid point of the current segment *)
Theorem pert1_exponent_is_model : forall alpha cr st z,
  fst (@Raman.pert_point Num.NumR 1 alpha cr st z) =
  @Raman.vmap2 Num.NumR (fun p x => p * exp x) (Raman.ps_p0 st)
               (Proofs.Raman.exponent1 alpha cr (Raman.ps_p0 st) (z - Raman.ps_z0 st)).
Proof. exact Proofs.Raman.pert_point_order1. Qed.
Print Assumptions pert1_exponent_is_model.

(* zero coupling: the whole perturbative profile is p * (lumped losses passed so far, each once) * exp(-alpha z) *)
Theorem pert1_zero_coupling : forall (alpha p : list R) (cr : list (list R)) (grid : list (R * R)),
  Forall (Forall (eq 0)) cr -> length cr = length alpha -> length p = length alpha ->
  pertR 1%Z alpha cr grid p = Proofs.Raman.pert_closed alpha p grid 1.
Proof. exact Proofs.Raman.pert1_zero_coupling. Qed.
Print Assumptions pert1_zero_coupling.

Theorem pert1_lumped_once : forall (alpha p : list R) (cr : list (list R)) (g : list (R * R)) (z ll : R),
  Forall (Forall (eq 0)) cr -> length cr = length alpha -> length p = length alpha ->
  last (pertR 1%Z alpha cr (g ++ [(z, ll)]) p) [] =
  @Raman.vmap2 Num.NumR
     (fun pj a => pj * (1 * Proofs.Raman.prod_before_last (map snd (g ++ [(z, ll)]))) * exp (- (a * z))) p alpha.
Proof. exact Proofs.Raman.pert1_end_value. Qed.
Print Assumptions pert1_lumped_once.

(* zero-power limit: the Euler scheme and the order-1 perturbative solver reduce to the same budget, up to the
   discretisation factor r of the Euler scheme, exp(-2 sum (alpha dz)^2) <= r <= 1 *)
Theorem pert_euler_zero_power_agree : forall (a : Q) (t : list (Q * Q)) z0 l0,
  let grid := (z0, l0) :: t in
  Forall (fun dz => 0 <= Q2R a * Q2R dz <= 1 / 2) (grid_dzs grid) ->
  let L := Q2R (fst (last grid (z0, l0))) - Q2R z0 in
  let K := Proofs.Raman.prod_before_last (map (fun zl => Q2R (snd zl)) grid) in
  let xs := map (fun dz => Q2R a * Q2R dz) (grid_dzs grid) in
  exists r, Q2R (grid_factor a grid) = r * (K * exp (- (Q2R a * L))) /\
            exp (- 2 * rsum (map (fun x => x * x) xs)) <= r <= 1.
Proof. exact Proofs.Raman.pert_euler_zero_power_agree. Qed.
Print Assumptions pert_euler_zero_power_agree.

(* ================================================================================================
   Raman on — iterative co/counter algorithm: structure of the backward sweep.
   bwd_sweep consumes rev (dzs z) and rev lumped: the i-th step from the far end uses dz[-i], lumped[-i]. *)
(* zero coupling: i steps from the far end every counter-propagating wave carries exactly the product of
   (1 - alpha dz) * lumped over the LAST i steps of the grid (uniform or not), taken in reverse order *)
Theorem bwd_sweep_zero_coupling : forall nco (alpha : list R) (cr : list (list R)) (cols : list (list R)) (dz ll : list R)
  (cl : list R) (rest : list (list R)),
  Forall (Forall (eq 0)) cr -> length cr = length alpha -> (nco <= length alpha)%nat ->
  rev cols = cl :: rest -> Forall (fun c => length c = length alpha) cols ->
  map (skipn nco) (@Raman.bwd_sweep Num.NumR nco alpha cr cols dz ll) =
  rev (map (fun G => @Raman.vmap2 Num.NumR (fun p a => p * G a) (skipn nco cl) (skipn nco alpha))
           ((fun _ => 1) :: Proofs.Raman.facs (fun _ => 1) rest (rev dz) (rev ll))).
Proof. exact Proofs.Raman.bwd_sweep_zero_coupling. Qed.
Print Assumptions bwd_sweep_zero_coupling.

(* the step lengths consumed backwards are those of the grid measured from the far end ... *)
Theorem bwd_steps_mirror : forall (L : R) (z : list R),
  @Raman.dzs Num.NumR (map (fun x => L - x) (rev z)) = rev (@Raman.dzs Num.NumR z) /\
  Permutation (rev (@Raman.dzs Num.NumR z)) (@Raman.dzs Num.NumR z).        (* ... each used exactly once *)
Proof. exact Proofs.Raman.dzs_mirror_once. Qed.
Print Assumptions bwd_steps_mirror.

(* ================================================================================================
   PMD and PDL of a path (fibres, amplifiers, ROADMs): the model's rational squared accumulators are the
   squares of the code's sqrt(x**2 + c**2) accumulators *)
Theorem path_quadrature : forall (cs : list contrib) (a : acc),
  0 <= Q2R (a_pmd2 a) -> 0 <= Q2R (a_pdl2 a) ->
  Forall (fun c => 0 <= Q2R (d_pmd2 c) /\ 0 <= Q2R (d_pdl2 c)) cs ->
  sqrt (Q2R (a_pmd2 (accumulate cs a))) =
    fold_left (fun acc x => sqrt (acc * acc + x * x)) (map (fun c => sqrt (Q2R (d_pmd2 c))) cs) (sqrt (Q2R (a_pmd2 a))) /\
  sqrt (Q2R (a_pdl2 (accumulate cs a))) =
    fold_left (fun acc x => sqrt (acc * acc + x * x)) (map (fun c => sqrt (Q2R (d_pdl2 c))) cs) (sqrt (Q2R (a_pdl2 a))).
Proof. exact Proofs.Raman.path_quadrature_R. Qed.
Print Assumptions path_quadrature.

Theorem path_contrib_nonneg : forall pi e f c, elem_contrib pi e f = Ok c ->
  (forall fib, e = EFiber fib -> (0 <= len_m fib)%Q) ->
  0 <= Q2R (d_pmd2 c) /\ 0 <= Q2R (d_pdl2 c).
Proof. exact Proofs.Raman.elem_contrib_nonneg. Qed.
Print Assumptions path_contrib_nonneg.

(* ================================================================================================
   Translator tie: the definitions g_* of Gen/FiberGen.v are re-generated on every run from /repo's source
   (harness/pygen_c05.py: templates for the plumbing, translation of the arithmetic); they equal the models. *)
Open Scope R_scope.
Notation NumR := Num.NumR.

(* Fiber.propagate: the three attenuations, in that order, are the budget applied by the model *)
Theorem C05_source_fiber_power : forall fib f p a out, loss_coef_at fib f = Ok a -> fiber_power_out fib f p = Ok out ->
  Q2R out = @FiberGen.g_fiber_power_db NumR (Q2R (f_con_in fib)) (Q2R (f_att_in fib)) (Q2R (f_con_out fib))
                                       (Q2R (attenuation_db fib a)) (Q2R p).
Proof. exact Proofs.FiberGen.gen_fiber_power. Qed.
Print Assumptions C05_source_fiber_power.

(* Fiber.propagate / RamanFiber.propagate: PMD in quadrature; CD and latency added *)
Theorem C05_source_quadrature_updates : forall x y : R,
  @FiberGen.g_fiber_pmd_update NumR x y = sqrt (x * x + y * y) /\
  @FiberGen.g_ramanfiber_pmd_update NumR x y = sqrt (x * x + y * y) /\
  @FiberGen.g_roadm_pmd_update NumR x y = sqrt (x * x + y * y) /\
  @FiberGen.g_roadm_pdl_update NumR x y = sqrt (x * x + y * y).
Proof. exact Proofs.FiberGen.gen_quadrature_updates. Qed.
Print Assumptions C05_source_quadrature_updates.

Theorem C05_source_ramanfiber_is_fiber : forall ci ai co s p x y cd lat scd slat : R,
  @FiberGen.g_ramanfiber_power_db NumR ci ai co s p = @FiberGen.g_fiber_power_db NumR ci ai co s p /\
  @FiberGen.g_ramanfiber_pmd_update NumR x y = @FiberGen.g_fiber_pmd_update NumR x y /\
  @FiberGen.g_ramanfiber_cd_lat_update NumR cd lat scd slat = @FiberGen.g_fiber_cd_lat_update NumR cd lat scd slat.
Proof. exact Proofs.FiberGen.gen_ramanfiber_is_fiber. Qed.
Print Assumptions C05_source_ramanfiber_is_fiber.

Theorem C05_source_fiber_cd_lat : forall (a : acc) (c : contrib),
  (Q2R (a_cd (add_contrib a c)), Q2R (a_lat (add_contrib a c))) =
  @FiberGen.g_fiber_cd_lat_update NumR (Q2R (a_cd a)) (Q2R (a_lat a)) (Q2R (d_cd c)) (Q2R (d_lat c)).
Proof. exact Proofs.FiberGen.gen_fiber_cd_lat. Qed.
Print Assumptions C05_source_fiber_cd_lat.

(* Fiber.pmd, Fiber.loss, FiberParams latency, lumped positions *)
Theorem C05_source_fiber_pmd : forall fib, (0 <= len_m fib)%Q ->
  @FiberGen.g_fiber_pmd NumR (Q2R (f_pmd_coef fib)) (Q2R (len_m fib)) * @FiberGen.g_fiber_pmd NumR (Q2R (f_pmd_coef fib)) (Q2R (len_m fib)) =
  Q2R (fiber_pmd2 fib).
Proof. exact Proofs.FiberGen.gen_fiber_pmd. Qed.
Print Assumptions C05_source_fiber_pmd.

Theorem C05_source_fiber_loss : forall fib a l, loss_coef_at fib (f_ref fib) = Ok a -> fiber_loss_prop fib = Ok l ->
  Q2R l = @FiberGen.g_fiber_loss NumR (Q2R a) (Q2R (len_m fib)) (Q2R (f_con_in fib)) (Q2R (f_con_out fib)) (Q2R (f_att_in fib))
            (map (fun x => @FiberGen.g_lumped_lin NumR x) (map Q2R (map snd (f_lumped fib)))).
Proof. exact Proofs.FiberGen.gen_fiber_loss. Qed.
Print Assumptions C05_source_fiber_loss.

Theorem C05_source_latency : forall fib, ~ (f_n1 fib == 0)%Q ->
  Q2R (fiber_latency fib) = @FiberGen.g_latency NumR (Q2R c_light) (Q2R (len_m fib)) (Q2R (f_n1 fib)) /\
  map (fun zl => Q2R (fst zl)) (lumped_m fib) = map (fun zl => @FiberGen.g_lumped_pos_m NumR (Q2R (fst zl))) (f_lumped fib).
Proof. exact Proofs.FiberGen.gen_latency_and_positions. Qed.
Print Assumptions C05_source_latency.

(* Fiber.chromatic_dispersion, beta2, beta3 (pi and c are parameters of the generated terms) *)
Theorem C05_source_chromatic_dispersion : forall pi fib f v, chromatic_dispersion pi fib f = Ok v ->
  exists b2 b3, beta2 pi fib f = Ok b2 /\ beta3 pi fib f = Ok b3 /\
    Q2R v = @FiberGen.g_chromatic_dispersion NumR (Q2R pi) (Q2R c_light) (Q2R b2) (Q2R b3) (Q2R f) (Q2R (f_ref fib)) (Q2R (len_m fib)).
Proof. exact Proofs.FiberGen.gen_chromatic_dispersion. Qed.
Print Assumptions C05_source_chromatic_dispersion.

Theorem C05_source_beta2 : forall pi fib f b, ~ (pi == 0)%Q -> ~ (f == 0)%Q -> beta2 pi fib f = Ok b ->
  exists d, dispersion_at fib f = Ok d /\ Q2R b = @FiberGen.g_beta2 NumR (Q2R pi) (Q2R c_light) (Q2R f) (Q2R d).
Proof. exact Proofs.FiberGen.gen_beta2. Qed.
Print Assumptions C05_source_beta2.

Theorem C05_source_dispersion_noslope : forall fib f d, f_disp fib = DispScalar d None -> ~ (f_ref fib == 0)%Q ->
  exists v, dispersion_at fib f = Ok v /\ Q2R v = @FiberGen.g_dispersion_noslope NumR (Q2R f) (Q2R (f_ref fib)) (Q2R d).
Proof. exact Proofs.FiberGen.gen_dispersion_noslope. Qed.
Print Assumptions C05_source_dispersion_noslope.

Theorem C05_source_dispersion_slope : forall fib f d s, f_disp fib = DispScalar d (Some s) -> ~ (f == 0)%Q -> ~ (f_ref fib == 0)%Q ->
  exists v, dispersion_at fib f = Ok v /\
    Q2R v = @FiberGen.g_dispersion_slope NumR (Q2R c_light) (Q2R f) (Q2R (f_ref fib)) (Q2R d) (Q2R s).
Proof. exact Proofs.FiberGen.gen_dispersion_slope. Qed.
Print Assumptions C05_source_dispersion_slope.

Theorem C05_source_beta3_slope : forall pi fib f d s b3, f_disp fib = DispScalar d (Some s) -> ~ (pi == 0)%Q -> ~ (f == 0)%Q ->
  beta3 pi fib f = Ok b3 ->
  exists b2, beta2 pi fib f = Ok b2 /\ Q2R b3 = @FiberGen.g_beta3_slope NumR (Q2R pi) (Q2R c_light) (Q2R f) (Q2R s) (Q2R b2).
Proof. exact Proofs.FiberGen.gen_beta3_slope. Qed.
Print Assumptions C05_source_beta3_slope.

Theorem C05_source_roadm_profile : forall A (profiles : list (Z * Z * A)) global pt id,
  FiberGen.g_roadm_profile profiles global pt id = roadm_profile profiles global pt id.
Proof. exact Proofs.FiberGen.gen_roadm_profile. Qed.
Print Assumptions C05_source_roadm_profile.

Theorem roadm_profile_id0 : forall A (profiles : list (Z * Z * A)) global pt a,
  profile_by_id profiles 0%Z = Some a -> roadm_profile profiles global pt (Some 0%Z) = Ok a.
Proof. exact Proofs.FiberGen.roadm_profile_id0. Qed.
Print Assumptions roadm_profile_id0.

(* RamanSolver: the Euler update ('numerical' method, rational model and Num model) and the two sweeps of the iterative
   algorithm are the per-wave update of the models; the backward sweep applies the same arithmetic as the forward one
   (its indices [-i], dz[-i], lumped_losses[-i] are fixed by the template and mirrored by Raman.bwd_sweep) *)
Theorem C05_source_euler_step : forall alpha cr dz ll p,
  map Q2R (euler_step alpha cr dz ll p) =
  map (fun t : Q * (Q * list Q) => let '(pj, (aj, crj)) := t in
         @FiberGen.g_euler_wave NumR (Q2R pj) (Q2R aj) (map Q2R crj) (map Q2R p) (Q2R dz) (Q2R ll)) (combine p (combine alpha cr)).
Proof. exact Proofs.FiberGen.gen_euler_step. Qed.
Print Assumptions C05_source_euler_step.

Theorem C05_source_iter_sweep : forall (alpha : list R) (cr : list (list R)) (src : list R) (dz ll p g : R),
  @Raman.step_col NumR alpha cr src dz ll =
  map (fun t : R * (R * list R) => let '(p, (a, row)) := t in
         @FiberGen.g_iter_fwd NumR p (@FiberGen.g_iter_dpdz NumR a row src) dz ll) (combine src (combine alpha cr)) /\
  @FiberGen.g_iter_bwd NumR p g dz ll = @FiberGen.g_iter_fwd NumR p g dz ll.
Proof. exact Proofs.FiberGen.gen_iter_sweeps. Qed.
Print Assumptions C05_source_iter_sweep.

(* ================================================================================================
   non-vacuity: the hypotheses are satisfiable on non-trivial values *)
Open Scope Q_scope.
Definition ex_fiber : fiber :=
  mkFiber 80 true 1 (1 # 2) (7 # 10)
          (PerFreq [(191000000000000, 21 # 100); (196000000000000, 19 # 100); (193000000000000, 1 # 5)])
          [(10, 3 # 2); (25, 2)] 193414489032258
          (DispScalar (167 # 10000000) (Some 60)) (1265 # 1000000000000000000) (1468 # 1000).

Ltac vc := vm_compute; reflexivity.

Example ex_budget_hyps : exists a out,
  lumped_in_range ex_fiber = true /\
  loss_coef_at ex_fiber 194500000000000 = Ok a /\ a == 39 # 200000 /\
  fiber_power_out ex_fiber 194500000000000 0 = Ok out /\ out == - (213 # 10).
Proof. do 2 eexists. split; [vc|]. split; [vc|]. split; [vc|]. split; vc. Qed.

(* regression witness of F10 (80 km, 0.2 dB/km, 1.5 dB and 2 dB both at 10 km): 21.7 dB, not 19.7 dB *)
Example ex_duplicate_position : exists out,
  lumped_in_range wit_fiber = true /\
  fiber_power_out wit_fiber 193100000000000 0 = Ok out /\ out == - (217 # 10).
Proof. eexists. split; [vc|]. split; vc. Qed.

Example ex_path :
  exists r, propagate_path 3 [EFiber ex_fiber; EAmp (1 # 10) (1 # 2); ERoadm [(None, 3 # 10)] [(None, 3 # 2)]; EOther; EFiber wit_fiber]
                           194500000000000 (mkA 0 0 0 0) = Ok r /\ a_pdl2 r == 5 # 2 /\ 0 < a_cd r.
Proof. eexists. split; [vc|]. split; vc. Qed.

Example ex_euler_lumped_once :
  qprod (map snd (removelast (merge_grid Qmult 1 [(25000, 7 # 10); (50000, 1 # 2); (25000, 1 # 2)] (solver_grid 100 10000 80000)))) == 7 # 40.
Proof. vc. Qed.

Definition ex_grid : list (Q * Q) := merge_grid Qmult 1 [(25000, 7 # 10)] (solver_grid 100 10000 80000).
Definition ex_loss : list Q := euler_g [1 # 20000; 1 # 25000] [[0; 1 # 3]; [- (1 # 3); 0]] [0; 0] ex_grid [1; 1].
Example ex_euler_zero :
  nth 0 ex_loss 0 == grid_factor (1 # 20000) ex_grid /\ nth 1 ex_loss 0 == grid_factor (1 # 25000) ex_grid /\
  0 < nth 0 ex_loss 0 /\ nth 0 ex_loss 0 < 7 # 10.
Proof. split; [vc|]. split; [vc|]. split; vc. Qed.

(* Raman-on theorems instantiated on concrete data (hypotheses satisfiable) *)
Open Scope R_scope.
Example ex_pert1_lumped_once :
  last (pertR 1%Z [1 / 20000; 1 / 25000] [[0; 0]; [0; 0]] ([(0, 1); (25000, 7 / 10); (50000, 1)] ++ [(80000, 1)]) [1 / 1000; 2 / 1000]) [] =
  @Raman.vmap2 Num.NumR
     (fun pj a => pj * (1 * Proofs.Raman.prod_before_last (map snd ([(0, 1); (25000, 7 / 10); (50000, 1)] ++ [(80000, 1)]))) * exp (- (a * 80000)))
     [1 / 1000; 2 / 1000] [1 / 20000; 1 / 25000].
Proof. apply pert1_lumped_once; repeat constructor. Qed.

Example ex_pert1_low_power : forall j x a,
  nth_error (Proofs.Raman.exponent1 [1 / 20000; 1 / 25000] [[0; 3 / 10000]; [- (3 / 10000); 0]] [1 / 1000; 2 / 1000] 50000) j = Some x ->
  nth_error [1 / 20000; 1 / 25000] j = Some a ->
  Rabs (x + a * 50000) <= 3 / 10000 * Proofs.Raman.sumabs [1 / 1000; 2 / 1000] * 50000.
Proof.
  apply pert1_low_power; try lra.
  - repeat constructor; lra.
  - repeat constructor; rewrite ?Rabs_R0, ?Rabs_Ropp; try rewrite Rabs_right; lra.
Qed.

Example ex_bwd_sweep :
  map (skipn 1) (@Raman.bwd_sweep Num.NumR 1 [1 / 20000; 1 / 25000] [[0; 0]; [0; 0]]
                    [[1; 5]; [2; 6]; [3; 7]] [10000; 2500] [1; 8 / 10; 1]) =
  rev (map (fun G => @Raman.vmap2 Num.NumR (fun p a => p * G a) (skipn 1 [3; 7]) (skipn 1 [1 / 20000; 1 / 25000]))
           ((fun _ => 1) :: Proofs.Raman.facs (fun _ => 1) [[2; 6]; [1; 5]] (rev [10000; 2500]) (rev [1; 8 / 10; 1]))).
Proof. apply bwd_sweep_zero_coupling with (cl := [3; 7]); repeat constructor. Qed.
