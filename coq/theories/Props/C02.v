(* C02 - Signal quality never improves along a path; passive elements leave it unchanged.
   Statements only; every proof is one `exact` of a lemma of Proofs/SI.v.
   Quality figures are compared cross-multiplied:  ratio_le (s',d') (s,d) := s'*d <= s*d'  so that "no noise
   of that kind yet" (d = 0, i.e. +infinity) needs no special case; C02_ratio_le_div shows that it is the
   usual comparison of the quotients whenever both denominators are positive. *)
From Verif Require Import Prelude Model.SI.
From Verif Require Proofs.SI.
From Verif Require Import Gen.SIGen.
From Verif Require Proofs.SIGen.
From Coq Require Import QArith.
Open Scope Q_scope.

Theorem C02_ratio_le_div : forall s' d' s d, 0 < d' -> 0 < d -> (ratio_le (s', d') (s, d) <-> s' / d' <= s / d).
Proof. exact Proofs.SI.ratio_le_div. Qed.
Print Assumptions C02_ratio_le_div.

(* ---- one primitive update ---- *)
(* attenuation and gain leave the three shares untouched (Leibniz equality, hence bit-identical figures) *)
Theorem C02_att_quality_eq : forall k c, rs (att k c) = rs c /\ ra (att k c) = ra c /\ rn (att k c) = rn c.
Proof. exact Proofs.SI.att_quality_eq. Qed.
Print Assumptions C02_att_quality_eq.
Theorem C02_gain_quality_eq : forall g c, rs (gain g c) = rs c /\ ra (gain g c) = ra c /\ rn (gain g c) = rn c.
Proof. exact Proofs.SI.gain_quality_eq. Qed.
Print Assumptions C02_gain_quality_eq.
(* adding ASE: SNR_NLI unchanged, OSNR_ASE and GSNR not better *)
Theorem C02_add_ase_quality : forall x c, Inv c -> 0 <= x ->
  ratio_eq (q_nli (add_ase x c)) (q_nli c) /\
  ratio_le (q_osnr (add_ase x c)) (q_osnr c) /\ ratio_le (q_gsnr (add_ase x c)) (q_gsnr c).
Proof. exact Proofs.SI.add_ase_quality. Qed.
Print Assumptions C02_add_ase_quality.
(* adding NLI: OSNR_ASE unchanged, SNR_NLI and GSNR not better *)
Theorem C02_add_nli_quality : forall x c, Inv c -> 0 <= x -> x <= pch c ->
  ratio_eq (q_osnr (add_nli x c)) (q_osnr c) /\
  ratio_le (q_nli (add_nli x c)) (q_nli c) /\ ratio_le (q_gsnr (add_nli x c)) (q_gsnr c).
Proof. exact Proofs.SI.add_nli_quality. Qed.
Print Assumptions C02_add_nli_quality.

(* ---- one element: whatever arguments it uses, if the updates it applies are an instance of its kind's
        program (cprog_okb), the clause of the statement for that kind holds (elem_claim):
        Transceiver / Roadm / Fused: shares unchanged;  Edfa / Multiband: only ASE (SNR_NLI unchanged);
        Fiber: only NLI (OSNR_ASE unchanged);  RamanFiber: nothing improves ---- *)
Theorem C02_elem_quality : forall k ops c, cprog_okb k ops = true -> Inv c -> WfOps c ops ->
  elem_claim k (crun ops c) c.
Proof. exact Proofs.SI.elem_quality. Qed.
Print Assumptions C02_elem_quality.
Theorem C02_elem_claim_quality : forall k c' c, elem_claim k c' c -> quality_le c' c.
Proof. exact Proofs.SI.elem_claim_quality. Qed.
Print Assumptions C02_elem_claim_quality.

(* ---- any history / any path, one channel: after j steps (elements) nothing is better than after i <= j ---- *)
Theorem C02_path_quality_ops : forall ops c i j, Inv c -> WfOps c ops -> (i <= j)%nat ->
  quality_le (crun (firstn j ops) c) (crun (firstn i ops) c).
Proof. exact Proofs.SI.path_quality_ops. Qed.
Print Assumptions C02_path_quality_ops.
Theorem C02_path_quality : forall pth c i j, Inv c -> WfOps c (path_ops pth) -> (i <= j)%nat ->
  quality_le (after pth j c) (after pth i c).
Proof. exact Proofs.SI.path_quality. Qed.
Print Assumptions C02_path_quality.

(* ---- whole spectra, including band split / merge ---- *)
(* every channel leaving an element entered it (same frequency) and went through an instance of the
   element kind's per-channel program *)
Theorem C02_erun_chan : forall k e sp r, eprog_okb k e = true -> erun e sp = Ok r -> forall c', In c' r ->
  exists c cops, In c sp /\ c' = crun cops c /\ cprog_okb k cops = true /\ (ewfb e sp = true -> WfOps c cops).
Proof. exact Proofs.SI.erun_chan. Qed.
Print Assumptions C02_erun_chan.
Theorem C02_erun_quality : forall k e sp r,
  Forall Inv sp -> eprog_okb k e = true -> ewfb e sp = true -> erun e sp = Ok r ->
  forall c', In c' r -> exists c, In c sp /\ cf c' = cf c /\ Inv c' /\ elem_claim k c' c /\ qdom c' c.
Proof. exact Proofs.SI.erun_quality. Qed.
Print Assumptions C02_erun_quality.
(* along ANY path of elements: what leaves element j was, at the output of any earlier element i, a channel
   of the same frequency whose OSNR_ASE, SNR_NLI and GSNR were not worse *)
Theorem C02_prun_path_quality : forall els sp i j ri rj,
  Forall Inv sp -> pwfb els sp = true -> (i <= j)%nat ->
  prun (firstn i els) sp = Ok ri -> prun (firstn j els) sp = Ok rj ->
  Forall Inv rj /\ forall c', In c' rj -> exists c, In c ri /\ cf c' = cf c /\ quality_le c' c.
Proof. exact Proofs.SI.prun_path_quality. Qed.
Print Assumptions C02_prun_path_quality.

(* ---- second tie (translator): the quality figures and the loss / gain updates as translated from
        gnpy/core/info.py of /repo on every run (harness/pygen_c01.py -> Gen/SIGen.v) ---- *)
Theorem C02_source_snr_lin : forall c, g_snr_lin c = osnr c.
Proof. exact Proofs.SIGen.gen_snr_lin. Qed.
Print Assumptions C02_source_snr_lin.
Theorem C02_source_snr_nli : forall c, g_snr_nli c = snr_nli c.
Proof. exact Proofs.SIGen.gen_snr_nli. Qed.
Print Assumptions C02_source_snr_nli.
Theorem C02_source_gsnr : forall c, g_gsnr c = gsnr c.
Proof. exact Proofs.SIGen.gen_gsnr. Qed.
Print Assumptions C02_source_gsnr.
Theorem C02_source_att_shares : forall k c,
  rs (g_apply_attenuation_lin k c) = rs c /\ ra (g_apply_attenuation_lin k c) = ra c /\ rn (g_apply_attenuation_lin k c) = rn c.
Proof. exact Proofs.SIGen.gen_att_shares. Qed.
Print Assumptions C02_source_att_shares.
Theorem C02_source_gain_shares : forall g c,
  rs (g_apply_gain_lin g c) = rs c /\ ra (g_apply_gain_lin g c) = ra c /\ rn (g_apply_gain_lin g c) = rn c.
Proof. exact Proofs.SIGen.gen_gain_shares. Qed.
Print Assumptions C02_source_gain_shares.
Theorem C02_source_add_ase : forall x c, g_add_ase x c = add_ase x c.
Proof. exact Proofs.SIGen.gen_add_ase. Qed.
Print Assumptions C02_source_add_ase.
Theorem C02_source_add_nli : forall x c, g_add_nli x c = add_nli x c.
Proof. exact Proofs.SIGen.gen_add_nli. Qed.
Print Assumptions C02_source_add_nli.

(* ---- second tie, element side: g_program_<kind> is the list of SpectralInformation primitives that the propagate /
        __call__ body of the kind applies in gnpy/core/elements.py (extracted on every run, (true, k) = optional);
        g_variants expands the optional ones.  The code's programs are the model's kind programs, hence the clause of the
        statement for each kind holds of every history of updates that follows the code's program ---- *)
Theorem C02_source_program_roadm : forallb (prog_kinds_okb KRoadm) (g_variants g_program_roadm) = true.
Proof. exact Proofs.SIGen.gen_program_roadm. Qed.
Print Assumptions C02_source_program_roadm.
Theorem C02_source_program_fused : forallb (prog_kinds_okb KFused) (g_variants g_program_fused) = true.
Proof. exact Proofs.SIGen.gen_program_fused. Qed.
Print Assumptions C02_source_program_fused.
Theorem C02_source_program_fiber : forall l, prog_kinds_okb KFiber l = true <-> In l (g_variants g_program_fiber).
Proof. exact Proofs.SIGen.gen_program_fiber_iff. Qed.
Print Assumptions C02_source_program_fiber.
Theorem C02_source_program_raman : forall l, prog_kinds_okb KRaman l = true <-> In l (g_variants g_program_raman).
Proof. exact Proofs.SIGen.gen_program_raman_iff. Qed.
Print Assumptions C02_source_program_raman.
Theorem C02_source_program_edfa : forall l, prog_kinds_okb KEdfa l = true <-> In l (g_variants g_program_edfa).
Proof. exact Proofs.SIGen.gen_program_edfa_iff. Qed.
Print Assumptions C02_source_program_edfa.
Theorem C02_source_program_trx : forall l, prog_kinds_okb KTrx l = true <-> In l (g_variants g_program_trx).
Proof. exact Proofs.SIGen.gen_program_trx_iff. Qed.
Print Assumptions C02_source_program_trx.
Theorem C02_source_program_quality : forall k p, forallb (prog_kinds_okb k) (g_variants p) = true ->
  forall l, In l (g_variants p) -> forall ops c, map ckind_of ops = l -> Inv c -> WfOps c ops ->
  elem_claim k (crun ops c) c.
Proof. exact Proofs.SIGen.source_program_quality. Qed.
Print Assumptions C02_source_program_quality.

(* ---- non-vacuity ---- *)
Definition ex_c : chan := mkC 193000000000000 50000000000 32000000000 (1#1000) (9#10) (1#20) (1#20).
Definition ex_pth : path :=
  [(KRoadm, [CAtt (1#100); CAtt (1#2)]); (KEdfa, [CAse (1#10000000); CGain 60]);
   (KFiber, [CAtt (9#10); CNli (1#100000); CAtt (1#50); CAtt (9#10)]);
   (KEdfa, [CAtt (1#2); CAse (1#10000000); CGain 50]); (KFused, [CAtt (1#2)]);
   (KRaman, [CAtt (9#10); CNli (1#100000); CAse (1#100000000); CAtt (1#5); CAtt (9#10)]); (KTrx, [])].
Example C02_ex_path : Inv ex_c /\ WfOps ex_c (path_ops ex_pth) /\
  forallb (fun e => cprog_okb (fst e) (snd e)) ex_pth = true /\
  (* strictly worse at the end: the comparison is not the trivial one *)
  ~ ratio_le (q_gsnr (after ex_pth 0 ex_c)) (q_gsnr (after ex_pth 7 ex_c)).
Proof.
  split; [apply Proofs.SI.invb_iff; vm_compute; reflexivity|].
  split; [apply Proofs.SI.wfcb_iff; vm_compute; reflexivity|].
  split; [vm_compute; reflexivity|]. vm_compute. intros H. apply H. reflexivity.
Qed.
