(* C14 — property theorems (placeholder until Proofs/Spectrum.v lands) *)
From Verif Require Import Prelude Model.Spectrum.
