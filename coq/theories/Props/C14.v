(* C14 — Spectrum assignment never double-books a slot and honours what the user fixed.
   Property theorems only; the proofs are in Proofs/Spectrum*.v, the model in Model/Spectrum.v.

   Vocabulary (defined in Proofs/SpectrumBase.v, Spectrum2-5.v):
     WFst d st            every OMS bitmap of the network covers the same slot range [d_min, d_max], has a
                          contiguous index list and guard bands fi = n_min + gb, n_max - gb with gb >= 1
                          (what build_oms_list produces, C15)
     rq_ok st rq          the request's OMS ids exist and it needs at least one slot
     feasible b n m       [n-m, n+m-1] lies inside the guard bands of b and all its cells are FREE
     accepted_ok ...      see below
     hist_inv st0 st log  occupancy(st) = occupancy(st0) + exactly the accepted ranges of log,
                          every accepted slot was FREE initially, no two accepted entries share a slot of an OMS *)
From Verif Require Import Prelude Model.Spectrum.
From Verif Require Import Proofs.SpectrumBase Proofs.Spectrum Proofs.Spectrum2 Proofs.Spectrum3 Proofs.Spectrum4 Proofs.Spectrum5 Proofs.Spectrum6 Proofs.Spectrum7.
From Verif Require Import Model.Oms Gen.SpectrumGen Proofs.SpectrumGen.
From Coq Require Import Permutation Lia.
Open Scope Z_scope.

(* One request, any state, any policy: a request that is not accepted changes nothing; an accepted one gets
   ranges that (ao_feas) lie inside the guard bands and were FREE on every OMS of path U reverse path,
   (ao_disj) are pairwise disjoint, (ao_enough) provide at least the required number of slots,
   (ao_commit) are recorded as OCCUPIED on exactly those OMS and nothing else changes,
   (ao_fixed) honour every user-fixed N and M and contain every slot whose M the user fixed,
   (ao_first) sit at the lowest (first fit) / highest (last fit) feasible centre for a single free slot. *)
Theorem C14_request : forall d p st rq st' out,
  WFst d st -> valid_ids st (path_oms rq) -> 0 < rq_required rq ->
  pth_assign_one p st rq = Ok (st', out) ->
  match out with
  | Skipped => st' = st
  | Blocked _ => st' = st
  | Accepted ns ms => accepted_ok d p st st' rq ns ms
  end.
Proof. exact pth_assign_one_spec. Qed.
Print Assumptions C14_request.

(* Every history of requests, whatever their outcomes. *)
Theorem C14_history : forall d p rqs st0 st' outs,
  WFst d st0 -> Forall (rq_ok st0) rqs -> run p st0 rqs = Ok (st', outs) ->
  WFst d st' /\ length outs = length rqs /\ hist_inv st0 st' (log_of rqs outs).
Proof. exact run_spec. Qed.
Print Assumptions C14_history.

(* readable corollaries of hist_inv *)
Theorem C14_no_double_booking : forall d p rqs st0 st' outs,
  WFst d st0 -> Forall (rq_ok st0) rqs -> run p st0 rqs = Ok (st', outs) ->
  ForallOrdPairs (no_double st0) (log_of rqs outs).
Proof. intros d p rqs st0 st' outs W H R. exact (hi_nodouble _ _ _ (proj2 (proj2 (run_spec d p rqs st0 st' outs W H R)))). Qed.
Print Assumptions C14_no_double_booking.

Theorem C14_occupancy_is_union : forall d p rqs st0 st' outs,
  WFst d st0 -> Forall (rq_ok st0) rqs -> run p st0 rqs = Ok (st', outs) ->
  forall i o0, 0 <= i -> oms_at st0 i = Some o0 ->
  exists o, oms_at st' i = Some o /\
            forall k, cell (bm o) k = if booked (log_of rqs outs) i k then Some SO else cell (bm o0) k.
Proof. intros d p rqs st0 st' outs W H R. exact (hi_occ _ _ _ (proj2 (proj2 (run_spec d p rqs st0 st' outs W H R)))). Qed.
Print Assumptions C14_occupancy_is_union.

(* selection never proposes what assignment would refuse: committing an accepted selection cannot raise *)
Theorem C14_commit_never_raises : forall d r nb sel ids st,
  WFst d st -> valid_ids st ids ->
  Forall (fun nm => 0 < snd nm /\ d_min d + d_gb d <= fst nm - snd nm /\ fst nm + snd nm - 1 <= d_max d - d_gb d) sel ->
  exists st', commit st ids (map fst sel) (map snd sel) r nb = Ok st'.
Proof. exact commit_defined. Qed.
Print Assumptions C14_commit_never_raises.

(* On well-formed states, with positive user M values and a positive spacing, serving a request never raises:
   no SpectrumError / ValueError / IndexError, and the model's loop fuel always suffices. *)
Theorem C14_never_raises : forall d p st rq,
  WFst d st -> valid_ids st (path_oms rq) -> path_oms rq <> [] ->
  0 < rq_pcm rq -> Forall slot_pos (slots rq) ->
  exists r, pth_assign_one p st rq = Ok r.
Proof. exact pth_assign_one_total. Qed.
Print Assumptions C14_never_raises.

(* First / last fit for EVERY slot whose N the user left free, multi-slot requests included: slots are processed in
   order_slots order (larger M first, undefined M last); the centre given to a free-N slot is extremal among the
   centres feasible on every OMS of path U reverse path once the slots processed before it are taken
   (processed_ff_path, Proofs/Spectrum7.v); user-fixed values are used as given (slot_matches). *)
Theorem C14_first_fit_every_slot : forall d p st rq st' ns ms,
  WFst d st -> valid_ids st (path_oms rq) -> 0 < rq_required rq ->
  pth_assign_one p st rq = Ok (st', Accepted ns ms) ->
  exists done rest,
    Permutation (combine ns ms) done /\
    processed_ff_path p st (path_oms rq) [] (map snd (order_slots (slots rq))) done rest.
Proof. exact pth_assign_one_first_fit. Qed.
Print Assumptions C14_first_fit_every_slot.

(* ---- second tie (translator): the primitives below are re-translated from /repo's source on every run
        (harness/pygen.py -> Gen/SpectrumGen.v) and proved equal to the hand-written model ---- *)
Theorem C14_source_mvalue_to_slots : forall n m, g_mvalue_to_slots n m = (n - m, n + m - 1).
Proof. exact gen_mvalue_to_slots. Qed.
Print Assumptions C14_source_mvalue_to_slots.
Theorem C14_source_slots_to_m : forall a b, g_slots_to_m a b = Oms.slots_to_m a b.
Proof. exact gen_slots_to_m. Qed.
Print Assumptions C14_source_slots_to_m.
Theorem C14_source_bitmap_sum : forall l1 l2, g_bitmap_sum l1 l2 = bitmap_sum l1 l2.
Proof. exact gen_bitmap_sum. Qed.
Print Assumptions C14_source_bitmap_sum.
Theorem C14_source_select_candidate : forall c p,
  g_select_candidate c p = Ok (match p with FirstFit => hd_error c | LastFit => hd_error (rev c) end).
Proof. exact gen_select_candidate. Qed.
Print Assumptions C14_source_select_candidate.
Theorem C14_source_assign_spectrum : forall b n m, same_result (g_assign_spectrum b n m) (assign b n m).
Proof. exact gen_assign_spectrum. Qed.
Print Assumptions C14_source_assign_spectrum.
Theorem C14_source_compute_slots : forall rq,
  g_compute_spectrum_slot_vs_bandwidth (bandwidth rq) (spacing rq) (bit_rate rq) slot_width = (rq_nb_wl rq, rq_required rq) /\
  snd (g_compute_spectrum_slot_vs_bandwidth (bit_rate rq) (spacing rq) (bit_rate rq) slot_width) = rq_pcm rq.
Proof. exact gen_compute_slots. Qed.
Print Assumptions C14_source_compute_slots.
(* the decisions themselves: the if/elif chain of compute_n_m's loop body, and the skip / not-enough-reserved /
   no-spectrum / commit decisions of pth_assign_spectrum, translated from the source (the list bookkeeping and the commit
   loops around them are matched against a template, fail-closed) *)
Theorem C14_source_cnm_step : forall test req rem pcm p s,
  g_cnm_step test req rem pcm p s = cnm_step test rem pcm p s.
Proof. exact gen_cnm_step. Qed.
Print Assumptions C14_source_cnm_step.
Theorem C14_source_dsn_cond : forall b c i req, g_dsn_cond b c i req = dsn_cond b c i req.
Proof. exact gen_dsn_cond. Qed.
Print Assumptions C14_source_dsn_cond.
Theorem C14_source_cand_ok : forall b m i, g_cand_ok b m i = cand_ok b m i.
Proof. exact gen_cand_ok. Qed.
Print Assumptions C14_source_cand_ok.
Theorem C14_source_cand_centre : forall b m i, g_cand_centre b m i = (let* v := idx_at b i in Ok (v + m)).
Proof. exact gen_cand_centre. Qed.
Print Assumptions C14_source_cand_centre.
Theorem C14_source_pth_assign_one : forall p st rq, g_pth_assign_one p st rq = pth_assign_one p st rq.
Proof. exact gen_pth_assign_one. Qed.
Print Assumptions C14_source_pth_assign_one.

(* ---- non-vacuity: a concrete two-OMS network and a history with accepted, blocked and multi-slot requests *)
Definition ex_b (c : list slot) : bitmap := mkB (-8) 8 (-6) 6 2 (zrange (-8) 9) c.
Definition ex_st : state :=
  [mkO (ex_b (repeat SF 17)) 0 []; mkO (ex_b ([SU; SU] ++ repeat SF 4 ++ [SO; SO] ++ repeat SF 9)) 0 []].
Definition ex_rqs : list request :=
  [mkR 1 false 100 25000000000 100 [(None, None)] [0; 1];
   mkR 2 false 200 25000000000 100 [(Some 4, Some 2); (None, None)] [0];
   mkR 3 false 100 25000000000 100 [(Some 0, Some 2)] [1; 0];
   mkR 4 false 100 25000000000 100 [(Some 100, Some 2)] [1]].

Example ex_hyps : WFst (mkD (-8) 8 2) ex_st /\ Forall (rq_ok ex_st) ex_rqs.
Proof.
  split.
  - repeat constructor; cbn; lia.
  - repeat constructor; cbn; lia.
Qed.

Example ex_hyps_total : Forall (fun rq => path_oms rq <> [] /\ 0 < rq_pcm rq /\ Forall slot_pos (slots rq)) ex_rqs.
Proof. repeat constructor; cbn; try discriminate; try lia. Qed.

Example ex_run :
  exists st', run FirstFit ex_st ex_rqs =
    Ok (st', [Accepted [-4] [2]; Accepted [4; 0] [2; 2]; Blocked "NO_SPECTRUM"; Blocked "NO_SPECTRUM"]).
Proof. eexists. vm_compute. reflexivity. Qed.
