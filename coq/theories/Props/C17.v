(* C17 — Designing is repeatable: export, reload and redesign changes nothing; SimParams are left as found.
   Property theorems only; proofs in Proofs/Redesign.v (and Proofs/Chain.v), models in Model/Redesign.v, Model/Chain.v.

   Vocabulary:
     design_amps s lib sel D items   the amplifier settings of one OMS (set_egress_amplifier's walk, single band, Raman
                                     flag off): items = per amplifier (span context, amplifier as loaded);
                                     D = prev_dp - prev_voa at the start; lib = equipment['Edfa'];
                                     sel = what select_edfa picks for an amplifier without variety (C10)
     export_amp                      Edfa.to_json followed by the reload: gain_target 6 decimals, tilt_target 5 decimals,
                                     delta_p / out_voa / in_voa / type_variety as they are
     reload items outs               the exported amplifiers in the same span contexts
     pm_ok s lib                     power mode; target_extended_gain >= 0; no library entry named ""
     conn_fib / pad_run / export_fib add_connector_loss, add_fiber_padding on one span, Fiber.to_json + reload
     run_dsl c r                     the design_span_loss that add_fiber_padding caches for the amplifier design

   FULL STATEMENT (redesign_fixpoint): proved as C17_redesign_line_fixpoint for a whole line (fibres, fused, inserted
   and user amplifiers with their settings) in power mode with EOL = 0 and no Raman fibre, under checkable conditions
   on the first design: designed fibres on the export grid (grid_ok), distinct amplifier uids.  That no span is
   split again is proved (C17_split_idempotent: calculate_new_length never splits a span it produced, including the
   boundary length = max_length).  Not covered by that theorem: Raman spans (the estimate is an input), and
   the composition for gain mode, where C17_gain_mode_rounding / C17_gain_mode_exact give the amplifier side:
   equality of everything but gain_target, gain_target within (k + 4) half-units of the 6th decimal for the k-th
   amplifier of the OMS, exact equality when the designed gains lie on the export grid.  Those remaining cases are
   covered by the correspondence / oracle of the check. *)
From Verif Require Import Prelude Model.Chain Model.Redesign Proofs.Chain Proofs.ChainSplit Proofs.Redesign Proofs.RedesignLine.
From Verif Require Import Gen.RedesignGen Proofs.RedesignGen.
From Coq Require Import QArith Lia.
Open Scope Z_scope.

(* export (design (load (export (design x)))) = export (design x) for the amplifiers of an OMS *)
Theorem C17_redesign_fixpoint_partial : forall s lib sel items D D2 outs, pm_ok s lib -> (D2 == D)%Q ->
  design_amps s lib sel D items = Ok outs ->
  exists outs', design_amps s lib sel D2 (reload items outs) = Ok outs' /\ map export_amp outs' = map export_amp outs.
Proof. exact design_amps_fix. Qed.
Print Assumptions C17_redesign_fixpoint_partial.

(* the whole line: export (design (load (export (design x)))) = export (design x), elements and amplifier settings *)
Theorem C17_redesign_line_fixpoint : forall c s lib sel rgain rgn opsf D0 ptot x L1 outs1,
  pm_ok s lib -> (c_eol c == 0)%Q -> c_min c <= c_max c -> no_auto (l_els x) -> (forall n, i_name (opsf n) = n) ->
  design_full c s lib sel rgain rgn opsf D0 ptot x = Ok (L1, outs1) ->
  l_els L1 <> [] -> Forall grid_ok (l_els L1) ->
  has_raman (l_els L1) = false -> NoDup (map o_name outs1) ->
  exists r2, design_full c s lib sel rgain rgn (ops_of (snd (export_full (L1, outs1)))) D0 ptot
                         (reload_full x (export_full (L1, outs1))) = Ok r2 /\
             export_full r2 = export_full (L1, outs1).
Proof. exact redesign_line_fixpoint. Qed.
Print Assumptions C17_redesign_line_fixpoint.
(* calculate_new_length never splits a span it produced (every length, every configuration with min <= max) *)
Theorem C17_split_idempotent : forall L mn mx tg len n L',
  0 < tg -> tg <= mx -> mn <= mx -> calc_len L mn mx tg = Ok (len, n) -> (L' == len)%Q ->
  exists len', calc_len L' mn mx tg = Ok (len', 1).
Proof. exact calc_len_idem. Qed.
Print Assumptions C17_split_idempotent.
(* its fibre side alone (either mode): the reloaded line is designed into itself *)
Theorem C17_redesign_line_fibres : forall c x L1, (c_eol c == 0)%Q -> c_min c <= c_max c -> no_auto (l_els x) ->
  design_line c x = Ok L1 -> l_els L1 <> [] -> Forall grid_ok (l_els L1) ->
  design_line c (with_els x (export_els (l_els L1))) = Ok (with_els x (conn c (export_els (l_els L1)))) /\
  export_els (conn c (export_els (l_els L1))) = export_els (l_els L1).
Proof. intros c x L1 H0 Hc Hn H Hne Hg. destruct (fibre_round c x L1 H0 Hc Hn H Hne Hg) as [A _ _ B _ _]. split; assumption. Qed.
Print Assumptions C17_redesign_line_fibres.

(* gain mode: the redesign of the exported OMS reproduces everything but gain_target exactly; the k-th gain lies
   within (e + 2 hh) below / hh above the designed one with e = k hh, hh = half a unit of the 6th decimal *)
Theorem C17_gain_mode_rounding : forall s lib sel l D D2 outs e,
  s_pm s = false -> lib ""%string = None -> Forall inv_ok l -> (0 <= e)%Q -> (- e <= D2 - D)%Q -> (D2 - D <= e)%Q ->
  design_amps s lib sel D l = Ok outs ->
  exists outs', design_amps s lib sel D2 (reload l outs) = Ok outs' /\ gm_close e outs outs'.
Proof. exact design_amps_gain_mode. Qed.
Print Assumptions C17_gain_mode_rounding.
Theorem C17_gain_mode_export : forall e o o',
  (- (e + 2 * hh) <= o_gain o' - o_gain o)%Q -> (o_gain o' - o_gain o <= hh)%Q ->
  o_name o' = o_name o -> o_var o' = o_var o -> o_dp o' = None -> o_dp o = None ->
  (o_voa o' == o_voa o)%Q -> (o_invoa o' == o_invoa o)%Q -> o_tilt o' = round_dec 5 (o_tilt o) ->
  i_name (export_amp o') = i_name (export_amp o) /\ i_var (export_amp o') = i_var (export_amp o) /\
  i_dp (export_amp o') = i_dp (export_amp o) /\ i_tilt (export_amp o') = i_tilt (export_amp o) /\
  i_voa (export_amp o') = i_voa (export_amp o) /\ i_invoa (export_amp o') = i_invoa (export_amp o) /\
  exists g g', i_gain (export_amp o) = Some g /\ i_gain (export_amp o') = Some g' /\
               (- (e + 4 * hh) <= g' - g)%Q /\ (g' - g <= 3 * hh)%Q.
Proof. exact gm_close_export. Qed.
Print Assumptions C17_gain_mode_export.
(* gain mode, designed gains on the export grid: exact *)
Theorem C17_gain_mode_exact : forall s lib sel l D D2 outs,
  s_pm s = false -> lib ""%string = None -> Forall inv_ok l -> (D2 == D)%Q ->
  design_amps s lib sel D l = Ok outs -> Forall (fun o => (round_dec 6 (o_gain o) == o_gain o)%Q) outs ->
  exists outs', design_amps s lib sel D2 (reload l outs) = Ok outs' /\ map export_amp outs' = map export_amp outs.
Proof. exact design_amps_gain_mode_exact. Qed.
Print Assumptions C17_gain_mode_exact.

(* any number of rounds *)
Theorem C17_n_rounds : forall s lib sel D ctxs ins j1 n, pm_ok s lib -> length ctxs = length ins ->
  amp_round s lib sel D ctxs ins = Ok j1 -> amp_rounds s lib sel D ctxs n j1 = Ok j1.
Proof. exact amp_rounds_fix. Qed.
Print Assumptions C17_n_rounds.

(* design is a function: the same input designed twice gives the same output *)
Theorem C17_design_deterministic : forall c l r1 r2 s lib sel D items o1 o2,
  design_line c l = r1 -> design_line c l = r2 -> design_amps s lib sel D items = o1 -> design_amps s lib sel D items = o2 ->
  r1 = r2 /\ o1 = o2.
Proof. intros. split; congruence. Qed.
Print Assumptions C17_design_deterministic.

(* F7: every round adds the EOL margin again (fibre not followed by a Fused) *)
Theorem C17_redesign_eol_growth : forall c f x n, f_cout f = Some x ->
  exists y, f_cout (conn_n c false n f) = Some y /\ (y == x + inject_Z (Z.of_nat n) * c_eol c)%Q.
Proof. exact conn_n_growth. Qed.
Print Assumptions C17_redesign_eol_growth.
Theorem C17_redesign_eol_refuted : exists c f y1 y2, (0 < c_eol c)%Q /\
  f_cout (conn_n c false 1 f) = Some y1 /\ f_cout (conn_n c false 2 f) = Some y2 /\ (y2 == y1 + c_eol c)%Q /\ ~ (y2 == y1)%Q.
Proof. exact redesign_eol_refuted. Qed.
Print Assumptions C17_redesign_eol_refuted.
(* EOL = 0: connector losses, lengths and loss coefficients of an exported fibre are reproduced *)
Theorem C17_connectors_stable : forall c f nf, (c_eol c == 0)%Q ->
  export_fib (conn_fib c (export_fib (conn_fib c f nf)) nf) = export_fib (conn_fib c f nf).
Proof. exact conn_fib_stable. Qed.
Print Assumptions C17_connectors_stable.
Theorem C17_padding_stable : forall c r r', pad_run c r = Ok r' -> pad_run c r' = Ok r'.
Proof. exact pad_run_idem. Qed.
Print Assumptions C17_padding_stable.
Theorem C17_export_idempotent : forall f, export_fib (export_fib f) = export_fib f.
Proof. exact export_fib_idem. Qed.
Print Assumptions C17_export_idempotent.

(* the span loss handed to the amplifier design equals the loss of the padded span (minus the estimated gain of its
   Raman fibres, an input: c_rg), and the redesign of the padded
   span is handed the same value (gnpy fix 13a35c31 for finding F20; witness kept in corpus/C17/f20_att_in.json) *)
Theorem C17_span_loss_cache : forall c r r', pad_run c r = Ok r' -> last_plain_fib r = true ->
  (run_dsl c r == span_sl c r')%Q.
Proof. exact run_dsl_spec. Qed.
Print Assumptions C17_span_loss_cache.
Theorem C17_span_loss_cache_stable : forall c r r', pad_run c r = Ok r' -> (run_dsl c r' == run_dsl c r)%Q.
Proof. exact run_dsl_stable. Qed.
Print Assumptions C17_span_loss_cache_stable.
(* the export keeps the lumped losses (gnpy fix 562b868b for finding F19; witness kept in corpus/C17/f19_lumped.json) *)
Theorem C17_export_keeps_lumped : forall f,
  Forall2 (fun a b => (fst a == fst b)%Q /\ (snd a == snd b)%Q) (f_lumped f) (f_lumped (export_fib f)) /\
  (qsum (map snd (f_lumped (export_fib f))) == qsum (map snd (f_lumped f)))%Q.
Proof. exact export_keeps_lumped. Qed.
Print Assumptions C17_export_keeps_lumped.
(* node-level design bands survive the export whenever there is at least one (gnpy fix 37844749 for finding F8) *)
Theorem C17_design_bands_roundtrip : forall (A : Type) (si bands : list A), bands <> [] ->
  reload_bands si (export_bands bands) = bands.
Proof. intros A. exact bands_roundtrip. Qed.
Print Assumptions C17_design_bands_roundtrip.
(* SimParams: estimate_raman_gain leaves the shared parameters exactly as it found them, field by field, for every
   setting that set_params can produce *)
Theorem C17_simparams_restored : forall dn dr st, set_params dn dr = Ok st ->
  exists during, estimate_raman_gain_params st = Ok (during, st) /\
    r_flag (sp_raman during) = JB true /\ r_result_res (sp_raman during) = JQ (inject_Z 50000) /\
    r_solver_res (sp_raman during) = JZ 100.
Proof. exact simparams_restored. Qed.
Print Assumptions C17_simparams_restored.
Theorem C17_params_roundtrip_raman : forall p, raman_of (raman_json p) = Ok p.
Proof. exact raman_roundtrip. Qed.
Print Assumptions C17_params_roundtrip_raman.
Theorem C17_params_roundtrip_nli : forall d p, nli_of d = Ok p -> nli_of (nli_json p) = Ok p.
Proof. exact nli_roundtrip. Qed.
Print Assumptions C17_params_roundtrip_nli.

(* ---- non-vacuity ---- *)
Example C17_ex_line_hyps : exists L1 outs1,
  design_full exl_cfg ex_s ex_lib ex_sel (fun _ => 0%Q) (fun _ => 0%Q) (ops_of []) (-20) (198 # 10) exl_line = Ok (L1, outs1) /\
  pm_ok ex_s ex_lib /\ (c_eol exl_cfg == 0)%Q /\ c_min exl_cfg <= c_max exl_cfg /\ no_auto (l_els exl_line) /\
  (forall n, i_name (ops_of [] n) = n) /\
  l_els L1 <> [] /\ Forall grid_ok (l_els L1) /\
  has_raman (l_els L1) = false /\ NoDup (map o_name outs1) /\
  map o_name outs1 = ["Edfa_booster_A_to_f1"; "Edfa_f1"; "Edfa_preamp_B_from_f2"]%string.
Proof. exact exl_hyps. Qed.
Example C17_ex_gain_mode : exists outs outs',
  design_amps (mkS false (-2) 3 (1 # 2) (3 # 10) 20 1 (1 # 2) (5 # 2)) ex_lib ex_sel (-20) ex_items = Ok outs /\
  design_amps (mkS false (-2) 3 (1 # 2) (3 # 10) 20 1 (1 # 2) (5 # 2)) ex_lib ex_sel (-20) (reload ex_items outs) = Ok outs' /\
  map export_amp outs' = map export_amp outs /\ Forall inv_ok ex_items /\ length outs = 3%nat.
Proof. exact ex_gain_mode. Qed.
Example C17_ex_pm_ok : pm_ok ex_s ex_lib.
Proof. exact ex_pm_ok. Qed.
Example C17_ex_round : exists j1, amp_round ex_s ex_lib ex_sel (-20) (map fst ex_items) (map snd ex_items) = Ok j1 /\
  amp_round ex_s ex_lib ex_sel (-20) (map fst ex_items) j1 = Ok j1 /\ length j1 = 3%nat.
Proof. exact ex_round. Qed.
Example C17_ex_simparams : exists st during, set_params (Some [("method", JS "GGN_Spectrally_Separated")]%string)
                                               (Some [("flag", JB true); ("order", JZ 3)]%string) = Ok st /\
  estimate_raman_gain_params st = Ok (during, st) /\ n_method (sp_nli st) = "ggn_spectrally_separated"%string /\
  r_order (sp_raman during) = JZ 2.
Proof. exact ex_simparams. Qed.

(* ---- translator tie (harness/pygen_c17.py): the definitions g_* of Gen/RedesignGen.v are re-generated on every run from
   the source of gnpy/core/elements.py (to_json), parameters.py (FiberParams, RamanParams, NLIParams, SimParams) and
   network.py (estimate_raman_gain); each equals the corresponding part of the model.  The model keeps exported numbers in
   lowest terms (oqred / Qred / qred2). ---- *)
(* Edfa.to_json: gain_target to 6 decimals, tilt_target to 5, delta_p / out_voa / in_voa as they are *)
Theorem C17_source_edfa_to_json : forall o,
  let gain := Some (o_gain o) in
  let dp := o_dp o in
  let tilt := Some (o_tilt o) in
  let voa := Some (o_voa o) in
  let inv := Some (o_invoa o) in
  export_amp o =
  mkIn (o_name o) (o_var o)
       (g_edfa_gain gain dp tilt voa inv)
       (oqred (g_edfa_dp gain dp tilt voa inv))
       (g_edfa_tilt gain dp tilt voa inv)
       (oqred (g_edfa_voa gain dp tilt voa inv))
       (oqred (g_edfa_invoa gain dp tilt voa inv)).
Proof. exact gen_export_amp. Qed.
Print Assumptions C17_source_edfa_to_json.
(* None stays None, and a gain of exactly 0 dB is exported (the test is `is not None`) *)
Theorem C17_source_edfa_none_and_zero : forall dp voa inv,
  g_edfa_gain None dp None voa inv = None /\ g_edfa_tilt None dp None voa inv = None /\
  g_edfa_gain (Some 0%Q) dp None voa inv = Some (round_dec 6 0).
Proof. exact gen_edfa_none. Qed.
Print Assumptions C17_source_edfa_none_and_zero.

(* Fiber.to_json: length [km] and loss_coef [dB/km] to 6 decimals (the model converts back to m and dB/m); the lumped
   losses exported exactly when there are some; Roadm.to_json: design bands exported exactly when there is one *)
Theorem C17_source_fiber_to_json : forall f,
  f_len (export_fib f) = Qred (g_fiber_len_km (f_len f) * inject_Z 1000) /\
  f_lc (export_fib f) = Qred (g_fiber_lc_km (f_lc f) / inject_Z 1000) /\
  f_lumped (export_fib f) =
  map qred2 (if g_fiber_lumped_exported (Z.of_nat (length (f_lumped f))) then f_lumped f else []).
Proof. intros f. destruct (gen_export_fib f) as [H1 H2]. split; [exact H1 | split; [exact H2 | exact (gen_export_lumped f)]]. Qed.
Print Assumptions C17_source_fiber_to_json.
Theorem C17_source_roadm_to_json : forall (A : Type) (l : list A),
  export_bands l = if g_roadm_bands_exported (Z.of_nat (length l)) then Some l else None.
Proof. exact gen_export_bands. Qed.
Print Assumptions C17_source_roadm_to_json.

(* FiberParams: the properties Parameters.asdict copies into every span of a split fibre - among them pmd_coef AND
   pmd_coef_defined, so a user value survives the split and is exported again *)
Theorem C17_source_fiberparams_copied :
  g_fiberparams_properties =
  ["length"; "att_in"; "con_in"; "con_out"; "lumped_losses"; "dispersion"; "f_dispersion_ref"; "dispersion_slope";
   "gamma"; "pmd_coef"; "pmd_coef_defined"; "ref_wavelength"; "ref_frequency"; "loss_coef"; "f_loss_ref";
   "raman_coefficient"; "latency"]%string.
Proof. exact gen_fiberparams_properties. Qed.
Print Assumptions C17_source_fiberparams_copied.

(* RamanParams / NLIParams: to_json has exactly the keys of the constructor (so to_json -> constructor round-trips)
   and the defaults are the model's *)
Theorem C17_source_raman_params : forall p,
  map fst (raman_json p) = g_raman_keys /\
  raman_of [] = Ok (mkRaman (dflt_of "flag" g_raman_defaults JNone) (dflt_of "method" g_raman_defaults JNone)
                            (dflt_of "order" g_raman_defaults JNone)
                            (dflt_of "result_spatial_resolution" g_raman_defaults JNone)
                            (dflt_of "solver_spatial_resolution" g_raman_defaults JNone)) /\
  map fst g_raman_defaults = g_raman_keys.
Proof. exact gen_raman_params. Qed.
Print Assumptions C17_source_raman_params.
Theorem C17_source_nli_params : forall p,
  map fst (nli_json p) = g_nli_keys /\
  nli_of [] = Ok (mkNli match dflt_of "method" g_nli_defaults JNone with JS m => lower m | _ => ""%string end
                        (dflt_of "dispersion_tolerance" g_nli_defaults JNone)
                        (dflt_of "phase_shift_tolerance" g_nli_defaults JNone)
                        (dflt_of "computed_channels" g_nli_defaults JNone)
                        (dflt_of "computed_number_of_channels" g_nli_defaults JNone)) /\
  map fst g_nli_defaults = g_nli_keys.
Proof. exact gen_nli_params. Qed.
Print Assumptions C17_source_nli_params.

(* estimate_raman_gain: SimParams saved before set_params(sim_params), the solver sees the source's sim_params,
   the saved settings are put back before returning (statement order: template ERG of harness/pygen_c17.py) *)
Theorem C17_source_estimate_raman_gain : forall st,
  estimate_raman_gain_params st =
  let save_raman := raman_json (sp_raman st) in
  let save_nli := nli_json (sp_nli st) in
  let* during := set_params g_during_nli g_during_raman in
  let* after := set_params (Some save_nli) (Some save_raman) in
  Ok (during, after).
Proof. exact gen_estimate_params. Qed.
Print Assumptions C17_source_estimate_raman_gain.

(* amplifier design arithmetic of the redesign model against the source (templates and translator shared with the C09
   tie; SRS deviation 0; the model carries D = prev_dp - prev_voa).  power_mode_targets gd loss dp0 prev_dp prev_voa inv:
   fst gd == the source's power-mode gain and snd gd = dp0. *)
Theorem C17_source_delta_p : forall s x a,
  amp_dp0 s x a =
  match i_dp a with
  | None => g_dp_rule (target_power s (x_next x)) (otru (i_voa a))
  | Some u => g_dp_user u
  end.
Proof. exact gen_amp_dp0. Qed.
Print Assumptions C17_source_delta_p.
(* with an imposed gain in gain mode the gain is kept and delta_p is derived back from it - in_voa subtracted *)
Theorem C17_source_gain_and_delta_p : forall s prev_dp prev_voa x a,
  let gd := amp_gd s (prev_dp - prev_voa) x a in
  let dp0 := amp_dp0 s x a in
  let inv := otru (i_invoa a) in
  match i_gain a with
  | Some g =>
      if s_pm s then power_mode_targets gd (x_loss x) dp0 prev_dp prev_voa inv
      else fst gd = g /\ (snd gd == g_dp_gm prev_dp (x_loss x) 0 prev_voa g inv)%Q
  | None => power_mode_targets gd (x_loss x) dp0 prev_dp prev_voa inv
  end.
Proof. exact gen_amp_gd. Qed.
Print Assumptions C17_source_gain_and_delta_p.
Theorem C17_source_saturation : forall s prev_dp prev_voa x a b gd, String.eqb (i_var a) "" = false ->
  (amp_pr s (prev_dp - prev_voa) x a b gd ==
   if s_pm s then g_red_pm (b_pmax b) (x_ptot x) (snd gd)
   else g_red_gm (b_pmax b) (x_ptot x) prev_dp (x_loss x) prev_voa (fst gd))%Q.
Proof. exact gen_amp_pr. Qed.
Print Assumptions C17_source_saturation.
Theorem C17_source_auto_voa : forall s x a b gd pr, i_voa a = None -> s_pm s && b_vauto b = true ->
  (fst (amp_voa s x a b gd pr) == g_auto_voa s (b_pmax b) (b_gfm b) (g_power_target (x_ptot x) (snd gd)) (fst gd + pr))%Q /\
  snd (amp_voa s x a b gd pr) = fst (amp_voa s x a b gd pr).
Proof. exact gen_amp_voa. Qed.
Print Assumptions C17_source_auto_voa.
Example C17_ex_source_amp : exists a b, String.eqb (i_var a) "" = false /\ i_voa a = None /\ i_gain a = Some 20%Q /\
  s_pm ex_s && b_vauto b = true /\
  (g_dp_gm 0 10 0 0 20 2 == 8)%Q /\ (g_red_gm 21 20 0 10 0 20 == -9)%Q /\ (g_auto_voa ex_s 23 26 20 20 == 2)%Q.
Proof.
  exists (mkIn "a" "v" (Some 20%Q) None None None None), (mkLib 23 26 true).
  repeat split; vm_compute; reflexivity.
Qed.

(* non-vacuity: the generated export on concrete values *)
Example C17_ex_source : g_edfa_gain (Some (1234567 # 1000000000)) None None None None = Some (247 # 200000)
  /\ g_fiber_len_km (80000 # 1) = (80 # 1) /\ g_fiber_lumped_exported 0 = false /\ g_fiber_lumped_exported 2 = true
  /\ g_roadm_bands_exported 1 = true /\ g_roadm_bands_exported 0 = false
  /\ kget "flag" match g_during_raman with Some d => d | None => [] end = Some (JB true).
Proof. repeat split; vm_compute; reflexivity. Qed.
