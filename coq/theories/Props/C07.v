(* C07 - The launched channel set survives the path intact; channel order is irrelevant.
   Property theorems about Model/Channels.v (proofs in Proofs/Channels.v).

   Vocabulary (definitions of Proofs/Channels.v):
     pos_slots l        every slot width of l is > 0
     chan_overlap a b   the open slots ]f - w/2, f + w/2[ of a and b intersect
     overlapping l      two entries at different positions of l overlap
     sep a b            a's slot ends at or before b's slot starts
     si_ok s            s is sorted with separated slots, positive slot widths, baud <= slot (a valid SpectralInformation)
     bdisj / bands_disjoint   interiors of the bands pairwise disjoint
     bsub r b           band r is contained in band b
     path_ok path       every Edfa has exactly one band; every Multiband_amplifier has non-overlapping per-band
                        amplifiers, pairwise disjoint declared bands, each of them served by one of its amplifiers
     pstamp path c      c with the uid of the amplifier stage that processes it pushed on its history, for every
                        amplifier of the path in turn (Multiband: the first per-band amplifier whose band holds c)
     same_chan a b      a and b agree on id, frequency, baud rate, slot width, label and transmitter data *)
From Coq Require Import QArith Permutation Lia.
From Verif Require Import Prelude Model.Channels Proofs.Channels.
Open Scope Q_scope.

(* ---- construction: order irrelevant ---- *)
Theorem mk_si_perm : forall l l' : list chan,
  pos_slots l -> Permutation l l' -> mk_si l = mk_si l'.
Proof. exact Proofs.Channels.mk_si_perm. Qed.
Print Assumptions mk_si_perm.

(* ---- construction: rejected exactly on overlap or baud > slot; which error ---- *)
Theorem mk_si_rejects : forall l : list chan, pos_slots l ->
  ((exists e, mk_si l = Err e) <-> overlapping l \/ exists c, In c l /\ cslot c < cbaud c).
Proof. exact Proofs.Channels.mk_si_rejects. Qed.
Print Assumptions mk_si_rejects.

Theorem mk_si_rejects_overlap : forall l : list chan, pos_slots l ->
  (mk_si l = Err E_overlap <-> overlapping l).
Proof. exact Proofs.Channels.mk_si_overlap_iff. Qed.
Print Assumptions mk_si_rejects_overlap.

Theorem mk_si_rejects_baud : forall l : list chan, pos_slots l ->
  (mk_si l = Err E_baud <-> ~ overlapping l /\ exists c, In c l /\ cslot c < cbaud c).
Proof. exact Proofs.Channels.mk_si_baud_iff. Qed.
Print Assumptions mk_si_rejects_baud.

(* the adjacent check made by the code on the sorted arrays is the pairwise check *)
Theorem adjacent_check_is_pairwise : forall s : list chan,
  pw (le_key cf) s -> pos_slots s -> (adj_overlap s = false <-> pw sep s).
Proof. exact Proofs.Channels.adj_overlap_false_iff. Qed.
Print Assumptions adjacent_check_is_pairwise.

(* two carriers on the same frequency are always rejected (their slots overlap) *)
Theorem mk_si_equal_frequency_rejected : forall l1 a l2 b l3,
  pos_slots (l1 ++ a :: l2 ++ b :: l3) -> cf a == cf b ->
  mk_si (l1 ++ a :: l2 ++ b :: l3) = Err E_overlap.
Proof. exact Proofs.Channels.equal_freq_rejected. Qed.
Print Assumptions mk_si_equal_frequency_rejected.

(* ---- construction: accepted => same records, frequency order, separated slots ---- *)
Theorem mk_si_sorted : forall (l : list chan) (s : si), pos_slots l -> mk_si l = Ok s ->
  Permutation l s /\ si_ok s /\ pw (fun a b => cf a < cf b) s.
Proof. exact Proofs.Channels.mk_si_sorted. Qed.
Print Assumptions mk_si_sorted.

(* ---- find_common_range ---- *)
Theorem common_range_spec : forall amps dmin dmax dsp x, filter_valid amps <> [] ->
  ((exists b, In b (find_common_range amps dmin dmax dsp) /\ bmin b < x /\ x < bmax b) <->
   (forall a, In a (filter_valid amps) -> exists b, In b a /\ bmin b < x /\ x < bmax b)).
Proof. exact Proofs.Channels.common_range_point. Qed.
Print Assumptions common_range_spec.

Theorem common_range_spec_channel : forall amps dmin dmax dsp c, 0 < cslot c -> filter_valid amps <> [] ->
  (in_some (find_common_range amps dmin dmax dsp) c = true <->
   (forall a, In a (filter_valid amps) -> in_some a c = true)).
Proof. exact Proofs.Channels.common_range_slot. Qed.
Print Assumptions common_range_spec_channel.

Theorem common_range_no_amplifier : forall amps dmin dmax dsp, filter_valid amps = [] ->
  find_common_range amps dmin dmax dsp =
    match dmin, dmax with Some a, Some b => [mkB a b None] | _, _ => [] end.
Proof. exact Proofs.Channels.common_range_default. Qed.
Print Assumptions common_range_no_amplifier.

Theorem common_range_disjoint : forall amps dmin dmax dsp,
  (forall a, In a (filter_valid amps) -> bands_disjoint a) ->
  bands_disjoint (find_common_range amps dmin dmax dsp).
Proof. exact Proofs.Channels.common_range_disjoint. Qed.
Print Assumptions common_range_disjoint.

(* ---- demux on every band, mux the parts ---- *)
Theorem demux_mux_partition : forall (bs : list band) (s : si), si_ok s -> bands_disjoint bs ->
  filter_bands bs s = match filter (in_some bs) s with
                      | [] => Err E_noband
                      | kept => Ok kept
                      end.
Proof. exact Proofs.Channels.filter_bands_ok. Qed.
Print Assumptions demux_mux_partition.

(* what "= filter p s" means: each kept channel exactly once, in frequency order, records intact *)
Theorem kept_exactly_once_sorted_intact : forall (p : chan -> bool) (s : si), si_ok s ->
  si_ok (filter p s) /\ NoDup (filter p s) /\ (forall c, In c (filter p s) <-> In c s /\ p c = true).
Proof. exact Proofs.Channels.filter_sublist_props. Qed.
Print Assumptions kept_exactly_once_sorted_intact.

(* ---- the pre-propagation filter and the path ---- *)
Theorem filter_si_spec : forall path dmin dmax dsp (s : si), path_ok path -> si_ok s ->
  filter_si path dmin dmax dsp s =
    match filter (in_some (path_common_range path dmin dmax dsp)) s with
    | [] => Err E_noband
    | kept => Ok kept
    end.
Proof. exact Proofs.Channels.filter_si_spec. Qed.
Print Assumptions filter_si_spec.

Theorem filter_then_path : forall path dmin dmax dsp (s0 s1 : si), path_ok path -> si_ok s0 ->
  filter_si path dmin dmax dsp s0 = Ok s1 ->
  s1 = filter (in_some (path_common_range path dmin dmax dsp)) s0 /\ s1 <> [] /\
  propagate_path path s1 = Ok (map (pstamp path) s1) /\
  Forall (fun c => same_chan c (pstamp path c) /\
                   length (chist (pstamp path c)) = (length (chist c) + n_amps path)%nat) s1.
Proof. exact Proofs.Channels.filter_then_path. Qed.
Print Assumptions filter_then_path.

(* ---- end to end: permuting the carrier list changes nothing ---- *)
Theorem launch_perm : forall path dmin dmax dsp (l l' : list chan), pos_slots l -> Permutation l l' ->
  launch path dmin dmax dsp l = launch path dmin dmax dsp l'.
Proof. exact Proofs.Channels.launch_perm. Qed.
Print Assumptions launch_perm.

(* ================= non-vacuity ================= *)
(* frequencies in GHz: C band 191250..196150, L band 186550..190050 *)
Definition ch (i : Z) (f b w : Z) : chan := mkC i (inject_Z f) (inject_Z b) (inject_Z w) "x" [inject_Z i] [].
Definition bC : band := mkB (inject_Z 191250) (inject_Z 196150) None.
Definition bL : band := mkB (inject_Z 186550) (inject_Z 190050) None.
Definition bC2 : band := mkB (inject_Z 191300) (inject_Z 196100) (Some (inject_Z 50)).
Definition ex_l : list chan :=
  [ch 1 193000 32 50; ch 2 187000 32 50; ch 3 191275 32 50; ch 4 190600 32 50; ch 5 193075 64 100; ch 6 191325 32 50].
Definition ex_l' : list chan :=
  [ch 6 191325 32 50; ch 4 190600 32 50; ch 1 193000 32 50; ch 5 193075 64 100; ch 3 191275 32 50; ch 2 187000 32 50].
Definition ex_path : list elem :=
  [EPass 0; EEdfa (mkA 1 [bC2]); EPass 2; EMulti 3 [bC; bL] [mkA 31 [bC]; mkA 32 [bL]]; EPass 4; EEdfa (mkA 5 [bC])].

Example ex_pos : pos_slots ex_l.
Proof. intros c Hc. cbn in Hc. repeat (destruct Hc as [<-|Hc]; [reflexivity|]). destruct Hc. Qed.
(* accepted, sorted: ids 2 4 3 6 1 5 *)
Example ex_mk_si : exists s, mk_si ex_l = Ok s /\ map cid s = [2; 4; 3; 6; 1; 5]%Z /\ mk_si ex_l' = Ok s.
Proof. eexists. split; [vm_compute; reflexivity|]. split; vm_compute; reflexivity. Qed.
(* rejected: overlap (two carriers 25 GHz apart with 50 GHz slots), baud > slot, equal frequencies *)
Example ex_overlap : mk_si [ch 1 193000 32 50; ch 2 193025 32 50] = Err E_overlap.
Proof. vm_compute. reflexivity. Qed.
Example ex_overlapping : overlapping [ch 1 193000 32 50; ch 2 193025 32 50].
Proof.
  exists [], (ch 1 193000 32 50), [], (ch 2 193025 32 50), []. split; [reflexivity|].
  split; vm_compute; reflexivity.
Qed.
Example ex_touching_ok : exists s, mk_si [ch 1 193050 32 50; ch 2 193000 50 50] = Ok s.
Proof. eexists. vm_compute. reflexivity. Qed.
Example ex_baud : mk_si [ch 1 193000 51 50; ch 2 193100 32 50] = Err E_baud.
Proof. vm_compute. reflexivity. Qed.
Example ex_equal_freq : mk_si [ch 1 193000 32 50; ch 2 194000 32 50; ch 3 193000 32 50] = Err E_overlap.
Proof. vm_compute. reflexivity. Qed.
(* the positive-slot hypothesis of mk_si_perm is needed: two zero-width carriers on one frequency are accepted
   in the order given (numpy's argsort is stable on small arrays), so the result depends on the input order *)
Example ex_zero_width_order_dependent :
  let a := ch 1 193000 0 0 in let b := ch 2 193000 0 0 in
  mk_si [a; b] = Ok [a; b] /\ mk_si [b; a] = Ok [b; a].
Proof. split; vm_compute; reflexivity. Qed.

(* the common range of the example path: C2 /\ (C or L) /\ C = 191300..196100 *)
Example ex_common_range :
  map (fun b => (bmin b, bmax b)) (path_common_range ex_path None None (inject_Z 50)) =
  [(inject_Z 191300, inject_Z 196100)].
Proof. vm_compute. reflexivity. Qed.

Example ex_path_ok : path_ok ex_path.
Proof.
  unfold path_ok, ex_path.
  apply Forall_cons; [exact I|]. apply Forall_cons; [exists bC2; reflexivity|].
  apply Forall_cons; [exact I|]. apply Forall_cons; [|apply Forall_cons; [exact I|apply Forall_cons; [exists bC; reflexivity|apply Forall_nil]]].
  cbn [elem_ok]. split; [|split; [|split]].
  - intros a [<-|[<-|[]]]; discriminate.
  - cbn. repeat split; auto. constructor; [|constructor]. right. vm_compute. discriminate.
  - cbn. repeat split; auto. constructor; [|constructor]. right. vm_compute. discriminate.
  - intros b [<-|[<-|[]]].
    + exists (mkA 31 [bC]), bC, []. cbn [In abands]. repeat split; auto; vm_compute; discriminate.
    + exists (mkA 32 [bL]), bL, []. cbn [In abands]. repeat split; auto; vm_compute; discriminate.
Qed.

(* launch on the example: channels 2 (L band), 4 (gap), 3 (edge of C2) are removed by the filter; 6, 1, 5 reach
   the receiver in frequency order, each stamped by the three amplifier stages 1, 31, 5 *)
Example ex_launch :
  match launch ex_path None None (inject_Z 50) ex_l with
  | Ok s => map (fun c => (cid c, chist c)) s = [(6, [5; 31; 1]); (1, [5; 31; 1]); (5, [5; 31; 1])]%Z
  | Err _ => False
  end.
Proof. vm_compute. reflexivity. Qed.
Example ex_launch_perm : launch ex_path None None (inject_Z 50) ex_l = launch ex_path None None (inject_Z 50) ex_l'.
Proof. vm_compute. reflexivity. Qed.
(* a multiband amplifier alone silently drops the gap channel 4 - this is why the filter must come first *)
Example ex_multi_drops_gap_channel :
  match mk_si ex_l with
  | Ok s => match elem_call (EMulti 3 [bC; bL] [mkA 31 [bC]; mkA 32 [bL]]) s with
            | Ok s' => map cid s' = [2; 3; 6; 1; 5]%Z
            | Err _ => False
            end
  | Err _ => False
  end.
Proof. vm_compute. reflexivity. Qed.
